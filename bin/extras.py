"""Property-specific side harnesses called by bin/checklib (see props.py, key 'extra').
Each returns a list of (replay path, suffix) violations and may add keys to the coverage dict."""
import os, subprocess, json, re
import checklib as L


def _drive_lines(args):
    r = subprocess.run([f'{L.BIN}/drive'] + args, capture_output=True, text=True, env=L.GOENV)
    return r.stdout, r.stderr, r.returncode


def latency_stats(prop, tier, seed, cov, log):
    """C18: complete measurements on the real models.SignedLatency with preset round latencies; the Lean
    driver recomputes the statistics (Hagall.Latency.stats) and checks signature, round count and `last`."""
    n = 400 if tier == 'quick' else 6000
    out, err, rc = _drive_lines(['stat', '-seed', str(seed), '-n', str(n)])
    if rc != 0:
        path = L.write_replay(prop, 'stat-harness', {'property': prop, 'broken': 'drive stat'}, [err[-2000:]])
        return [(path, ' no-failing-input-found')]
    d = subprocess.run([L.DRIVER], input=out, capture_output=True, text=True)
    ok = d.stdout.count('T ok')
    bad = [l for l in d.stdout.split('\n') if l.startswith('M ')]
    cov['stat_measurements'] = n
    cov['stat_consistent'] = ok
    viol = []
    seen = set()
    known = L.load_known(prop)
    for l in bad:
        t = l.split(' ', 5)
        cause = t[3]
        if cause in seen: continue
        seen.add(cause)
        k = [e for e in known if e['cause'] == cause]
        if k:
            print(f'KNOWN-FINDING: property={prop} {k[0]["what"]} [{cause}]'); continue
        stat_line = l.split(':: STAT ', 1)[-1] if ':: STAT ' in l else ''
        path = L.write_replay(prop, cause, {'property': prop, 'cause': cause, 'seed': seed, 'tier': tier,
                              'replay': f'.cache/bin/drive stat -seed {seed} -n {n} | lean/.lake/build/bin/driver',
                              'detail': l[:1500]}, ['STAT ' + stat_line])
        viol.append((path, ''))
    return viol


def receipts_harness(prop, tier, seed, cov, log):
    """C19: the real HandleReceipts loop against a stand-in credit service; valid triples and every
    single-field corruption, service up / slow / down, queue full."""
    rounds = 8 if tier == 'quick' else 80
    r = subprocess.run([f'{L.BIN}/receipts', '-seed', str(seed), '-rounds', str(rounds), '-per', '80', '-cap', '128'],
                       capture_output=True, text=True, env=L.GOENV, timeout=1200)
    lines = [l for l in r.stdout.split('\n') if l.startswith('RCPT ')]
    cov['receipt_scenarios'] = len(lines)
    cov['receipt_submissions'] = sum(int(m.group(1)) for l in lines for m in [re.search(r'subs=(\d+)', l)] if m)
    cov['receipt_forwarded'] = sum(int(m.group(1)) for l in lines for m in [re.search(r'forwarded=(\d+)', l)] if m)
    viol = []
    if r.returncode != 0 or not lines:
        path = L.write_replay(prop, 'receipts-harness', {'property': prop, 'broken': 'go/cmd/receipts'}, [r.stderr[-3000:]])
        return [(path, ' no-failing-input-found')]
    seen = set()
    known = L.load_known(prop)
    for l in lines:
        verdict = l.split()[1]
        if verdict == 'ok' or verdict in seen: continue
        seen.add(verdict)
        k = [e for e in known if e['cause'] == verdict]
        if k:
            print(f'KNOWN-FINDING: property={prop} {k[0]["what"]} [{verdict}]'); continue
        path = L.write_replay(prop, verdict, {'property': prop, 'cause': verdict, 'seed': seed, 'tier': tier,
                              'replay': f'.cache/bin/receipts -seed {seed} -rounds {rounds} -per 80'}, [l])
        viol.append((path, ''))
    return viol


def auth_harness(prop, tier, seed, cov, log):
    """C15: real auth wrappers over a real hdsclient.Client; Auth.admit on reference facts vs. what happened."""
    n = 1500 if tier == 'quick' else 40000
    r = subprocess.run([f'{L.BIN}/auth', '-seed', str(seed), '-n', str(n)], capture_output=True, text=True, env=L.GOENV, timeout=3000)
    if r.returncode != 0:
        path = L.write_replay(prop, 'auth-harness', {'property': prop, 'broken': 'go/cmd/auth'}, [r.stderr[-3000:]])
        return [(path, ' no-failing-input-found')]
    d = subprocess.run([L.DRIVER], input=r.stdout, capture_output=True, text=True)
    cov['auth_requests'] = n
    cov['auth_agree'] = d.stdout.count('A ok')
    cov['auth_admitted'] = r.stdout.count('entered=1')
    kinds = {}
    for m in re.finditer(r'kinds=(\S+)', r.stdout):
        for k in m.group(1).split('/'): kinds[k] = kinds.get(k, 0) + 1
    cov['auth_token_kinds'] = kinds
    viol = []; seen = set(); known = L.load_known(prop)
    for l in d.stdout.split('\n'):
        if not l.startswith('M '): continue
        cause = l.split()[3]
        if cause in seen: continue
        seen.add(cause)
        k = [e for e in known if e['cause'] == cause]
        if k:
            print(f'KNOWN-FINDING: property={prop} {k[0]["what"]} [{cause}]'); continue
        path = L.write_replay(prop, cause, {'property': prop, 'cause': cause, 'seed': seed, 'tier': tier,
                              'replay': f'.cache/bin/auth -seed {seed} -n {n} | lean/.lake/build/bin/driver'}, [l[:3000]])
        viol.append((path, ''))
    return viol


def _grid_blocks(text):
    """split a grid stream into histories: list of lists of lines (GRID ... GEND)"""
    blocks, cur = [], None
    for l in text.split('\n'):
        if l.startswith('GRID '):
            cur = [l]
        elif cur is not None:
            cur.append(l)
            if l == 'GEND' or l.startswith('GW '):
                blocks.append(cur); cur = None
    if cur: blocks.append(cur)
    return blocks


def _grid_ops(block, upto=None):
    ops = [l for l in block[:upto] if l.split(' ', 1)[0] in ('GRID', 'GI', 'GR', 'GQ')]
    return ops + ['GEND']


def _grid_run(args, timeout):
    """run the Go grid harness and the Lean replay on its output; returns (go blocks, lean blocks, GSTAT dict, error)"""
    try:
        r = subprocess.run([f'{L.BIN}/grid'] + args, capture_output=True, text=True, env=L.GOENV, timeout=timeout)
    except subprocess.TimeoutExpired:
        return [], [], {}, 'grid harness timed out'
    if r.returncode not in (0, 3):
        return [], [], {}, 'grid harness failed: ' + r.stderr[-1500:]
    d = subprocess.run([L.DRIVER, 'grid'], input=r.stdout, capture_output=True, text=True)
    stat = {}
    for l in r.stdout.split('\n'):
        if l.startswith('GSTAT') or l.startswith('PRIM'):
            for k, v in re.findall(r'([\w-]+)=(\d+)', l): stat[k] = stat.get(k, 0) + int(v)
    return _grid_blocks(r.stdout), _grid_blocks(d.stdout), stat, None


def _grid_job(a):
    return _grid_run(*a)


def grid_harness(prop, tier, seed, cov, log):
    """C20: the real dagaz.RegularGrid against the float32 Lean model (bit-exact state after every operation), the
    index monitors evaluated on the real state with exact arithmetic, the ghost-span check of the theorems'
    float hypothesis, and the primitives against float64 references."""
    import concurrent.futures as cf, glob
    quick = tier == 'quick'
    jobs = []
    for f in sorted(glob.glob(L.V + '/corpus/grid/*.hist')):
        jobs.append((['-mode', 'replay', '-file', f, '-watchdog', '5s'], 120))
    chunks = 8 if quick else 16
    per = 20 if quick else 220
    length = 60 if quick else 100
    for i in range(chunks):
        jobs.append((['-mode', 'gen', '-seed', str(seed * 100 + i), '-n', str(per), '-len', str(length)], 3000))
    for i in range(2 if quick else 6):
        jobs.append((['-mode', 'gen', '-seed', str(seed * 100 + 50 + i), '-n', str(per), '-len', str(length), '-wild'], 3000))
    jobs.append((['-mode', 'prim', '-seed', str(seed), '-n', str(20000 if quick else 600000)], 3000))
    totals = {}; viol = []; seen = set(); known = L.load_known(prop)
    hist = 0; ops = 0; same = 0; checks = 0
    first_diff = None
    def report(cause, block, upto, detail, suffix=''):
        if cause in seen: return
        seen.add(cause)
        k = [e for e in known if e['cause'] == cause]
        if k:
            print(f'KNOWN-FINDING: property={prop} {k[0]["what"]} [{cause}]'); return
        body = _grid_ops(block, upto) if block else []
        path = L.write_replay(prop, cause, {'property': prop, 'cause': cause, 'seed': seed, 'tier': tier, 'detail': detail[:800],
                              'replay': f'.cache/bin/grid -mode replay -file replays/{prop}-{cause}.trace | tee /dev/stderr | lean/.lake/build/bin/driver grid'}, body)
        viol.append((path, suffix))
    with cf.ThreadPoolExecutor(max_workers=L.NCPU) as ex:
        for (gob, leanb, stat, err) in ex.map(_grid_job, jobs):
            if err:
                report('grid-harness', None, None, err, ' no-failing-input-found'); continue
            for k, v in stat.items(): totals[k] = totals.get(k, 0) + v
            for bi, gb in enumerate(gob):
                hist += 1
                lb = leanb[bi] if bi < len(leanb) else []
                indom = True
                gx = [l for l in lb if l.startswith('GX ')]
                if gx:
                    m = re.search(r'checks=(\d+) drift=(\d+) domain=(\w+)', gx[0])
                    checks += int(m.group(1)); indom = m.group(3) == 'in'
                    if int(m.group(2)) > 0 and indom:
                        report('span-drift', gb, None, 'float32 cell arithmetic disagrees with the span the plane was registered with: ' + gx[0],
                               ' no-failing-input-found')
                g_lines = [re.sub(r'^GP .*', 'GP', l) for l in gb if not l.startswith(('GM ', 'GSTAT', 'GW '))]
                l_lines = [l for l in lb if not l.startswith('GX ')]
                ops += sum(1 for l in g_lines if l.split(' ', 1)[0] in ('GI', 'GR', 'GQ'))
                if g_lines == l_lines:
                    same += 1
                elif first_diff is None:
                    at = next((i for i, (a, b) in enumerate(zip(g_lines, l_lines)) if a != b), min(len(g_lines), len(l_lines)))
                    first_diff = (gb, g_lines[:at + 1], (g_lines + ['<end>'])[at][:600], (l_lines + ['<end>'])[at][:600])
                for i, l in enumerate(gb):
                    if l.startswith('GM in-domain'):
                        report(l.split()[2], gb, i, l)
                    elif l.startswith('GW '):
                        if indom: report('operation-never-returns', gb, i, l)
                    elif l.startswith('GP ') and indom:
                        report('operation-panics', gb, i + 1, l)
    if totals.get('bad', 0):
        report('primitive-off-reference', None, None, f"{totals['bad']} of {totals.get('cases')} primitive cases outside tolerance; run .cache/bin/grid -mode prim -seed {seed}")
    if first_diff and not viol:
        gb, upto_lines, a, b = first_diff
        report('grid-correspondence', upto_lines, None, f'implementation: {a} | model: {b}', ' no-failing-input-found')
    elif first_diff:
        cov['grid_first_difference'] = {'implementation': first_diff[2], 'model': first_diff[3]}
    cov['grid_histories'] = hist
    cov['grid_operations'] = ops
    cov['grid_histories_bit_identical_to_model'] = same
    cov['grid_span_hypothesis_checks'] = checks
    cov['grid_distribution'] = dict(sorted(totals.items()))
    return viol
