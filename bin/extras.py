"""Property-specific side harnesses called by bin/checklib (see props.py, key 'extra').
Each returns a list of (replay path, suffix) violations and may add keys to the coverage dict."""
import os, subprocess, json, re
import checklib as L


def _drive_lines(args):
    r = subprocess.run([f'{L.BIN}/drive'] + args, capture_output=True, text=True, env=L.GOENV)
    return r.stdout, r.stderr, r.returncode


def latency_stats(prop, tier, seed, cov, log):
    """C18: complete measurements on the real models.SignedLatency with preset round latencies; the Lean
    driver recomputes the statistics (Hagall.Latency.stats) and checks signature, round count and `last`."""
    n = 400 if tier == 'quick' else 6000
    out, err, rc = _drive_lines(['stat', '-seed', str(seed), '-n', str(n)])
    if rc != 0:
        path = L.write_replay(prop, 'stat-harness', {'property': prop, 'broken': 'drive stat'}, [err[-2000:]])
        return [(path, ' no-failing-input-found')]
    d = subprocess.run([L.DRIVER], input=out, capture_output=True, text=True)
    ok = d.stdout.count('T ok')
    bad = [l for l in d.stdout.split('\n') if l.startswith('M ')]
    cov['stat_measurements'] = n
    cov['stat_consistent'] = ok
    viol = []
    seen = set()
    known = L.load_known(prop)
    for l in bad:
        t = l.split(' ', 5)
        cause = t[3]
        if cause in seen: continue
        seen.add(cause)
        k = [e for e in known if e['cause'] == cause]
        if k:
            print(f'KNOWN-FINDING: property={prop} {k[0]["what"]} [{cause}]'); continue
        stat_line = l.split(':: STAT ', 1)[-1] if ':: STAT ' in l else ''
        path = L.write_replay(prop, cause, {'property': prop, 'cause': cause, 'seed': seed, 'tier': tier,
                              'replay': f'.cache/bin/drive stat -seed {seed} -n {n} | lean/.lake/build/bin/driver',
                              'detail': l[:1500]}, ['STAT ' + stat_line])
        viol.append((path, ''))
    return viol


def receipts_harness(prop, tier, seed, cov, log):
    """C19: the real HandleReceipts loop against a stand-in credit service; valid triples and every
    single-field corruption, service up / slow / down, queue full."""
    rounds = 8 if tier == 'quick' else 80
    r = subprocess.run([f'{L.BIN}/receipts', '-seed', str(seed), '-rounds', str(rounds), '-per', '80', '-cap', '128'],
                       capture_output=True, text=True, env=L.GOENV, timeout=1200)
    lines = [l for l in r.stdout.split('\n') if l.startswith('RCPT ')]
    cov['receipt_scenarios'] = len(lines)
    cov['receipt_submissions'] = sum(int(m.group(1)) for l in lines for m in [re.search(r'subs=(\d+)', l)] if m)
    cov['receipt_forwarded'] = sum(int(m.group(1)) for l in lines for m in [re.search(r'forwarded=(\d+)', l)] if m)
    viol = []
    if r.returncode != 0 or not lines:
        path = L.write_replay(prop, 'receipts-harness', {'property': prop, 'broken': 'go/cmd/receipts'}, [r.stderr[-3000:]])
        return [(path, ' no-failing-input-found')]
    seen = set()
    known = L.load_known(prop)
    for l in lines:
        verdict = l.split()[1]
        if verdict == 'ok' or verdict in seen: continue
        seen.add(verdict)
        k = [e for e in known if e['cause'] == verdict]
        if k:
            print(f'KNOWN-FINDING: property={prop} {k[0]["what"]} [{verdict}]'); continue
        path = L.write_replay(prop, verdict, {'property': prop, 'cause': verdict, 'seed': seed, 'tier': tier,
                              'replay': f'.cache/bin/receipts -seed {seed} -rounds {rounds} -per 80'}, [l])
        viol.append((path, ''))
    return viol


def auth_harness(prop, tier, seed, cov, log):
    """C15: real auth wrappers over a real hdsclient.Client; Auth.admit on reference facts vs. what happened."""
    n = 1500 if tier == 'quick' else 40000
    r = subprocess.run([f'{L.BIN}/auth', '-seed', str(seed), '-n', str(n)], capture_output=True, text=True, env=L.GOENV, timeout=3000)
    if r.returncode != 0:
        path = L.write_replay(prop, 'auth-harness', {'property': prop, 'broken': 'go/cmd/auth'}, [r.stderr[-3000:]])
        return [(path, ' no-failing-input-found')]
    d = subprocess.run([L.DRIVER], input=r.stdout, capture_output=True, text=True)
    cov['auth_requests'] = n
    cov['auth_agree'] = d.stdout.count('A ok')
    cov['auth_admitted'] = r.stdout.count('entered=1')
    kinds = {}
    for m in re.finditer(r'kinds=(\S+)', r.stdout):
        for k in m.group(1).split('/'): kinds[k] = kinds.get(k, 0) + 1
    cov['auth_token_kinds'] = kinds
    viol = []; seen = set(); known = L.load_known(prop)
    for l in d.stdout.split('\n'):
        if not l.startswith('M '): continue
        cause = l.split()[3]
        if cause in seen: continue
        seen.add(cause)
        k = [e for e in known if e['cause'] == cause]
        if k:
            print(f'KNOWN-FINDING: property={prop} {k[0]["what"]} [{cause}]'); continue
        path = L.write_replay(prop, cause, {'property': prop, 'cause': cause, 'seed': seed, 'tier': tier,
                              'replay': f'.cache/bin/auth -seed {seed} -n {n} | lean/.lake/build/bin/driver'}, [l[:3000]])
        viol.append((path, ''))
    return viol
