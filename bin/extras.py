"""Property-specific side harnesses called by bin/checklib (see props.py, key 'extra').
Each returns a list of (replay path, suffix) violations and may add keys to the coverage dict."""
import os, subprocess, json, re, glob, time
import checklib as L


def _drive_lines(args):
    r = subprocess.run([f'{L.BIN}/drive'] + args, capture_output=True, text=True, env=L.GOENV)
    return r.stdout, r.stderr, r.returncode


def latency_stats(prop, tier, seed, cov, log):
    """C18: complete measurements on the real models.SignedLatency with preset round latencies; the Lean
    driver recomputes the statistics (Hagall.Latency.stats) and checks signature, round count and `last`."""
    n = 400 if tier == 'quick' else 6000
    out, err, rc = _drive_lines(['stat', '-seed', str(seed), '-n', str(n)])
    if rc != 0:
        path = L.write_replay(prop, 'stat-harness', {'property': prop, 'broken': 'drive stat'}, [err[-2000:]])
        return [(path, ' no-failing-input-found')]
    d = subprocess.run([L.DRIVER], input=out, capture_output=True, text=True)
    ok = d.stdout.count('T ok')
    bad = [l for l in d.stdout.split('\n') if l.startswith('M ')]
    cov['stat_measurements'] = n
    cov['stat_consistent'] = ok
    viol = []
    seen = set()
    known = L.load_known(prop)
    for l in bad:
        t = l.split(' ', 5)
        cause = t[3]
        if cause in seen: continue
        seen.add(cause)
        k = [e for e in known if e['cause'] == cause]
        if k:
            print(f'KNOWN-FINDING: property={prop} {k[0]["what"]} [{cause}]'); continue
        stat_line = l.split(':: STAT ', 1)[-1] if ':: STAT ' in l else ''
        path = L.write_replay(prop, cause, {'property': prop, 'cause': cause, 'seed': seed, 'tier': tier,
                              'replay': f'.cache/bin/drive stat -seed {seed} -n {n} | lean/.lake/build/bin/driver',
                              'detail': l[:1500]}, ['STAT ' + stat_line])
        viol.append((path, ''))
    return viol


def receipts_harness(prop, tier, seed, cov, log):
    """C19: the real HandleReceipts loop against a stand-in credit service; valid triples and every
    single-field corruption, service up / slow / down, queue full."""
    rounds = 8 if tier == 'quick' else 80
    viol = []; seen = set(); known = L.load_known(prop)
    cov['receipt_scenarios'] = cov['receipt_submissions'] = cov['receipt_forwarded'] = 0
    # twice: linked with cgo (libsecp256k1 recovers the signer) and without (the pure Go implementation: how the
    # release binary is built); the two must refuse the same signatures
    for exe, nrounds in (('receipts', rounds), ('receipts-nocgo', rounds if tier != 'quick' else 5)):
        r = subprocess.run([f'{L.BIN}/{exe}', '-seed', str(seed), '-rounds', str(nrounds), '-per', '80', '-cap', '128'],
                           capture_output=True, text=True, env=L.GOENV, timeout=1200)
        lines = [l for l in r.stdout.split('\n') if l.startswith('RCPT ')]
        cov['receipt_scenarios'] += len(lines)
        cov['receipt_submissions'] += sum(int(m.group(1)) for l in lines for m in [re.search(r'subs=(\d+)', l)] if m)
        cov['receipt_forwarded'] += sum(int(m.group(1)) for l in lines for m in [re.search(r'forwarded=(\d+)', l)] if m)
        if r.returncode != 0 or not lines:
            path = L.write_replay(prop, 'receipts-harness', {'property': prop, 'broken': f'go/cmd/receipts ({exe})'}, [r.stderr[-3000:]])
            return [(path, ' no-failing-input-found')]
        # the validity model (Model/Receipt.lean) on every accepted triple: forwarded as often as accepted iff well formed
        triples = [l for l in r.stdout.split('\n') if l.startswith('RTRIPLE ')]
        if prop == 'C19' and triples:
            d = subprocess.run([L.DRIVER], input='\n'.join(triples) + '\n', capture_output=True, text=True)
            cov['receipt_triples_judged_by_the_model'] = cov.get('receipt_triples_judged_by_the_model', 0) + len(triples)
            cov['receipt_triples_agree'] = cov.get('receipt_triples_agree', 0) + d.stdout.count('T ok')
            kinds = cov.setdefault('receipt_triple_kinds', {})
            for m in re.finditer(r'kind=(\S+)', '\n'.join(triples)): kinds[m.group(1)] = kinds.get(m.group(1), 0) + 1
            for l in d.stdout.split('\n'):
                if not l.startswith('M '): continue
                cause = l.split()[3]
                if cause in seen: continue
                seen.add(cause)
                k = [e for e in known if e['cause'] == cause]
                if k:
                    print(f'KNOWN-FINDING: property={prop} {k[0]["what"]} [{cause}]'); continue
                path = L.write_replay(prop, cause, {'property': prop, 'cause': cause, 'seed': seed, 'tier': tier,
                                      'replay': f'.cache/bin/{exe} -seed {seed} -rounds {nrounds} -per 80 | grep RTRIPLE | lean/.lake/build/bin/driver'}, [l[:3000]])
                viol.append((path, ''))
        for l in lines:
            verdict = l.split()[1]
            if verdict == 'ok' or verdict in seen: continue
            # C08 asks of the receipt path only that no client can stop it for the others or block a handler
            if prop == 'C08' and verdict not in ('receipt-worker-stopped', 'submission-blocked'): continue
            seen.add(verdict)
            k = [e for e in known if e['cause'] == verdict]
            if k:
                print(f'KNOWN-FINDING: property={prop} {k[0]["what"]} [{verdict}]'); continue
            path = L.write_replay(prop, verdict, {'property': prop, 'cause': verdict, 'seed': seed, 'tier': tier,
                                  'replay': f'.cache/bin/{exe} -seed {seed} -rounds {nrounds} -per 80'}, [l])
            viol.append((path, ''))
    return viol


def auth_harness(prop, tier, seed, cov, log):
    """C15: real auth wrappers over a real hdsclient.Client; Auth.admit on reference facts vs. what happened."""
    n = 1500 if tier == 'quick' else 40000
    r = subprocess.run([f'{L.BIN}/auth', '-seed', str(seed), '-n', str(n)], capture_output=True, text=True, env=L.GOENV, timeout=3000)
    if r.returncode != 0:
        path = L.write_replay(prop, 'auth-harness', {'property': prop, 'broken': 'go/cmd/auth'}, [r.stderr[-3000:]])
        return [(path, ' no-failing-input-found')]
    d = subprocess.run([L.DRIVER], input='\n'.join(l for l in r.stdout.split('\n') if not l.startswith('AUTHROT')), capture_output=True, text=True)
    cov['auth_requests'] = n
    cov['auth_agree'] = d.stdout.count('A ok')
    cov['auth_admitted'] = r.stdout.count('entered=1')
    kinds = {}
    for m in re.finditer(r'kinds=(\S+)', r.stdout):
        for k in m.group(1).split('/'): kinds[k] = kinds.get(k, 0) + 1
    cov['auth_token_kinds'] = kinds
    viol = []; seen = set(); known = L.load_known(prop)
    # forged tokens presented from several goroutines while the server's secret is dropped and set again and again
    m = re.search(r'AUTHROT attempts=(\d+) admitted=(\d+)', r.stdout)
    if m:
        cov['auth_attempts_while_the_secret_changes'] = int(m.group(1))
        if int(m.group(2)) > 0:
            path = L.write_replay(prop, 'admitted-while-the-secret-changes', {'property': prop, 'cause': 'admitted-while-the-secret-changes', 'seed': seed, 'tier': tier,
                                  'replay': f'.cache/bin/auth -seed {seed} -n 10   (the AUTHROT line: a forged token was admitted {m.group(2)} times in {m.group(1)} attempts)'}, [m.group(0)])
            viol.append((path, ''))
    for l in d.stdout.split('\n'):
        if not l.startswith('M '): continue
        cause = l.split()[3]
        if cause in seen: continue
        seen.add(cause)
        k = [e for e in known if e['cause'] == cause]
        if k:
            print(f'KNOWN-FINDING: property={prop} {k[0]["what"]} [{cause}]'); continue
        path = L.write_replay(prop, cause, {'property': prop, 'cause': cause, 'seed': seed, 'tier': tier,
                              'replay': f'.cache/bin/auth -seed {seed} -n {n} | lean/.lake/build/bin/driver'}, [l[:3000]])
        viol.append((path, ''))
    return viol


def _grid_blocks(text):
    """split a grid stream into histories: list of lists of lines (GRID ... GEND)"""
    blocks, cur = [], None
    for l in text.split('\n'):
        if l.startswith('GRID '):
            cur = [l]
        elif cur is not None:
            cur.append(l)
            if l == 'GEND' or l.startswith('GW '):
                blocks.append(cur); cur = None
    if cur: blocks.append(cur)
    return blocks


def _grid_ops(block, upto=None):
    ops = [l for l in block[:upto] if l.split(' ', 1)[0] in ('GRID', 'GI', 'GR', 'GQ')]
    return ops + ['GEND']


def _grid_run(args, timeout):
    """run the Go grid harness and the Lean replay on its output; returns (go blocks, lean blocks, GSTAT dict, error)"""
    try:
        r = subprocess.run([f'{L.BIN}/grid'] + args, capture_output=True, text=True, env=L.GOENV, timeout=timeout)
    except subprocess.TimeoutExpired:
        return [], [], {}, 'grid harness timed out'
    if r.returncode not in (0, 3):
        return [], [], {}, 'grid harness failed: ' + r.stderr[-1500:]
    d = subprocess.run([L.DRIVER, 'grid'], input=r.stdout, capture_output=True, text=True)
    stat = {}
    for l in r.stdout.split('\n'):
        if l.startswith('GSTAT') or l.startswith('PRIM'):
            for k, v in re.findall(r'([\w-]+)=(\d+)', l): stat[k] = stat.get(k, 0) + int(v)
    return _grid_blocks(r.stdout), _grid_blocks(d.stdout), stat, None


def _grid_job(a):
    return _grid_run(*a)


def grid_harness(prop, tier, seed, cov, log):
    """C20: the real dagaz.RegularGrid against the float32 Lean model (bit-exact state after every operation), the
    index monitors evaluated on the real state with exact arithmetic, the ghost-span check of the theorems'
    float hypothesis, and the primitives against float64 references."""
    import concurrent.futures as cf, glob
    quick = tier == 'quick'
    jobs = []
    for f in sorted(glob.glob(L.V + '/corpus/grid/*.hist')):
        jobs.append((['-mode', 'replay', '-file', f, '-watchdog', '5s'], 120))
    chunks = 8 if quick else 16
    per = 20 if quick else 220
    length = 60 if quick else 100
    for i in range(chunks):
        jobs.append((['-mode', 'gen', '-seed', str(seed * 100 + i), '-n', str(per), '-len', str(length)], 3000))
    for i in range(2 if quick else 6):
        jobs.append((['-mode', 'gen', '-seed', str(seed * 100 + 50 + i), '-n', str(per), '-len', str(length), '-wild'], 3000))
    jobs.append((['-mode', 'prim', '-seed', str(seed), '-n', str(20000 if quick else 600000)], 3000))
    totals = {}; viol = []; seen = set(); known = L.load_known(prop)
    hist = 0; ops = 0; same = 0; checks = 0
    first_diff = None
    def report(cause, block, upto, detail, suffix=''):
        if cause in seen: return
        # C08 asks of the ground-plane index only that no well-formed input crashes or wedges it
        if prop == 'C08' and cause not in ('operation-panics', 'operation-never-returns', 'grid-harness'): return
        seen.add(cause)
        k = [e for e in known if e['cause'] == cause]
        if k:
            print(f'KNOWN-FINDING: property={prop} {k[0]["what"]} [{cause}]'); return
        body = _grid_ops(block, upto) if block else []
        path = L.write_replay(prop, cause, {'property': prop, 'cause': cause, 'seed': seed, 'tier': tier, 'detail': detail[:800],
                              'replay': f'.cache/bin/grid -mode replay -file replays/{prop}-{cause}.trace | tee /dev/stderr | lean/.lake/build/bin/driver grid'}, body)
        viol.append((path, suffix))
    with cf.ThreadPoolExecutor(max_workers=L.NCPU) as ex:
        for (gob, leanb, stat, err) in ex.map(_grid_job, jobs):
            if err:
                report('grid-harness', None, None, err, ' no-failing-input-found'); continue
            for k, v in stat.items(): totals[k] = totals.get(k, 0) + v
            for bi, gb in enumerate(gob):
                hist += 1
                lb = leanb[bi] if bi < len(leanb) else []
                indom = True
                gx = [l for l in lb if l.startswith('GX ')]
                if gx:
                    m = re.search(r'checks=(\d+) drift=(\d+) domain=(\w+)', gx[0])
                    checks += int(m.group(1)); indom = m.group(3) == 'in'
                    if int(m.group(2)) > 0 and indom:
                        report('span-drift', gb, None, 'float32 cell arithmetic disagrees with the span the plane was registered with: ' + gx[0],
                               ' no-failing-input-found')
                g_lines = [re.sub(r'^GP .*', 'GP', l) for l in gb if not l.startswith(('GM ', 'GSTAT', 'GW '))]
                l_lines = [l for l in lb if not l.startswith('GX ')]
                ops += sum(1 for l in g_lines if l.split(' ', 1)[0] in ('GI', 'GR', 'GQ'))
                if g_lines == l_lines:
                    same += 1
                elif first_diff is None:
                    at = next((i for i, (a, b) in enumerate(zip(g_lines, l_lines)) if a != b), min(len(g_lines), len(l_lines)))
                    first_diff = (gb, g_lines[:at + 1], (g_lines + ['<end>'])[at][:600], (l_lines + ['<end>'])[at][:600])
                for i, l in enumerate(gb):
                    if l.startswith('GM in-domain'):
                        report(l.split()[2], gb, i, l)
                    elif l.startswith('GW '):
                        if indom: report('operation-never-returns', gb, i, l)
                    elif l.startswith('GP ') and indom:
                        report('operation-panics', gb, i + 1, l)
    if totals.get('bad', 0):
        report('primitive-off-reference', None, None, f"{totals['bad']} of {totals.get('cases')} primitive cases outside tolerance; run .cache/bin/grid -mode prim -seed {seed}")
    if first_diff and not viol:
        gb, upto_lines, a, b = first_diff
        report('grid-correspondence', upto_lines, None, f'implementation: {a} | model: {b}', ' no-failing-input-found')
    elif first_diff:
        cov['grid_first_difference'] = {'implementation': first_diff[2], 'model': first_diff[3]}
    cov['grid_histories'] = hist
    cov['grid_operations'] = ops
    cov['grid_histories_bit_identical_to_model'] = same
    cov['grid_span_hypothesis_checks'] = checks
    cov['grid_distribution'] = dict(sorted(totals.items()))
    return viol


# ------------------------------------------------------------------ C03: noninterference on the real server

def _parse_trace(path):
    """histories of a drive trace: {idx: {'head': HIST line, 'events': [{'line': replayable E line, 'conn': c|None, 'ds': [(conn, text)]}]}}"""
    hists = {}; cur = None; q = None; ev = None
    for line in open(path):
        line = line.rstrip('\n')
        if line.startswith('HIST '):
            cur = {'head': line, 'events': []}; hists[int(line.split()[1])] = cur; q = None
        elif cur is None:
            continue
        elif line.startswith('Q '):
            q = 'E ' + line[2:]
        elif line.startswith('E '):
            t = line.split()
            conn = int(t[2]) if t[1] in ('connect', 'recv', 'handle', 'disconnect') else None
            ev = {'line': q or line, 'kind': t[1], 'conn': conn, 'ds': [], 'raw': line}
            cur['events'].append(ev); q = None
        elif line.startswith('D ') and ev is not None:
            t = line.split(' ', 2)
            ev['ds'].append((int(t[1]), t[2] if len(t) > 2 else ''))
        elif line.startswith('END'):
            cur = None
    return hists


def _canon_out(text):
    t = text.split()
    if t and t[0] == 'pingReq': return 'pingReq #'           # clock-derived id
    if t and t[0] == 'latencyResp': return ' '.join(t[:3])   # request id and round count; the ids are clock-derived
    return text


def _inboxes(events, conns):
    box = {c: [] for c in conns}
    pings = {c: set() for c in conns}
    for e in events:
        group = {}
        for (c, text) in e['ds']:
            if c not in box: continue
            t = text.split()
            if t and t[0] == 'pingReq' and len(t) > 1: pings[c].add(t[1])
            # a refusal that echoes the id of a ping sent to this connection carries a clock-derived id too
            if t and t[0] == 'error' and len(t) > 2 and t[1] in pings[c]: text = 'error #ping ' + ' '.join(t[2:])
            group.setdefault(c, []).append(_canon_out(text))
        for c, l in group.items():
            # what one event delivers to one connection is compared as a multiset: updates flushed by one frame
            # tick leave a Go map in arbitrary order
            box[c].append(tuple(sorted(l)))
    return box


def noninterference(prop, tier, seed, cov, log):
    """C03: re-run histories on the real server with all traffic of connections that never enter the first session
    removed; what the members of that session receive must not change."""
    import concurrent.futures as cf
    n = 60 if tier == 'quick' else 600
    rundir = f'{L.CACHE}/run/{prop}-ni'
    os.makedirs(rundir, exist_ok=True)
    jobs = []
    profs = ['join', 'mixed', 'module', 'comp']
    chunks = 8 if tier == 'quick' else 16
    for i in range(chunks):
        jobs.append(('gen', f'{rundir}/ni{i}.trace', ['-seed', str(seed * 1000 + 500 + i), '-n', str(max(1, n // chunks)), '-steps', '70',
                                                      '-profile', profs[i % len(profs)], '-conns', '5']))
    total = eligible = same = 0
    viol = []; known = L.load_known(prop)
    sizes = []
    work = []
    with cf.ThreadPoolExecutor(max_workers=L.NCPU) as ex:
        for tf, out, err in ex.map(L.run_chunk, jobs):
            if err:
                continue
            for idx, h in _parse_trace(tf).items():
                total += 1
                joined = {}
                for e in h['events']:
                    for (c, text) in e['ds']:
                        t = text.split()
                        if t[0] == 'joinResp': joined.setdefault(c, set()).add(int(t[3]))
                K = {c for c, u in joined.items() if 1 in u}
                if not K or any(joined[c] != {1} for c in K): continue
                outsiders = {e['conn'] for e in h['events'] if e['conn'] is not None} - K
                if not outsiders: continue
                # outsiders must have done something a session could notice: joined somewhere or sent requests
                eligible += 1
                sizes.append((len(K), len(outsiders)))
                keep = [e for e in h['events'] if (e['conn'] in K) or (e['conn'] is None and e['raw'].split()[1:3] == ['tick', '1']) or e['kind'] == 'drain']
                work.append((tf, idx, h, K, keep))
    def consumed(events, K):
        # what each member's handler took from its scheduler, in order: the scheduler of hagall-common hands out
        # queued pose updates of different entities in Go-map order, a choice of its own that the replay cannot force
        return [e['raw'] for e in events if e['kind'] == 'handle' and e['conn'] in K]
    unaligned = [0]
    def rerun(w):
        tf, idx, h, K, keep = w
        lines = [h['head']] + [e['line'] for e in keep]
        tag = f'{prop}-ni-{os.path.basename(tf)}-{idx}'
        want = consumed(h['events'], K)
        for attempt in range(12):
            out, err, tf2 = L.run_history(lines, tag)
            if err: return (w, None, err)
            h2 = list(_parse_trace(tf2).values())
            if not h2: return (w, None, None)
            if consumed(h2[0]['events'], K) == want: return (w, h2[0], None)
        unaligned[0] += 1
        return (w, None, None)
    with cf.ThreadPoolExecutor(max_workers=L.NCPU) as ex:
        for (w, h2, err) in ex.map(rerun, work):
            tf, idx, h, K, keep = w
            if h2 is None: continue
            a = _inboxes(h['events'], K); b = _inboxes(h2['events'], K)
            if a == b:
                same += 1; continue
            cause = 'outsiders-change-what-members-receive'
            if any(e['cause'] == cause for e in known):
                print(f'KNOWN-FINDING: property={prop} {[e for e in known if e["cause"] == cause][0]["what"]} [{cause}]'); continue
            if viol: continue
            c = next(c for c in K if a[c] != b[c])
            i = next((i for i, (x, y) in enumerate(zip(a[c], b[c])) if x != y), min(len(a[c]), len(b[c])))
            body = ['# the full history (first session = uuid 1, members ' + str(sorted(K)) + '):'] + L.extract_history(tf, idx) + \
                   ['', '# the same history without the other connections:'] + [h['head']] + [e['line'] for e in keep] + \
                   ['', f'# connection {c}, delivery group {i}: with outsiders {a[c][i] if i < len(a[c]) else "<nothing>"}',
                    f'# without outsiders {b[c][i] if i < len(b[c]) else "<nothing>"}']
            path = L.write_replay(prop, cause, {'property': prop, 'cause': cause, 'seed': seed, 'tier': tier,
                                  'replay': 'replay both histories with .cache/bin/drive replay -in <file> and compare the D lines of the members'}, body)
            viol.append((path, ''))
    cov['noninterference_histories'] = total
    cov['noninterference_eligible'] = eligible
    cov['noninterference_identical'] = same
    cov['noninterference_scheduler_order_not_reproduced'] = unaligned[0]
    cov['noninterference_sizes'] = {'members': sorted({s[0] for s in sizes}), 'outsiders': sorted({s[1] for s in sizes})}
    shutil_rm = __import__('shutil').rmtree
    if os.environ.get('VERIF_KEEP') != '1': shutil_rm(rundir, ignore_errors=True)
    return viol


# ------------------------------------------------------------------ C08: the real server over real sockets

WIRE_PLANS = {
    'C08': {'malformed': (3, 30), 'fields': (3, 40), 'burst': (6, 120), 'abrupt': (3, 30), 'stall-silent': (2, 10),
            'stall-chatty': (2, 10), 'stall-pose': (2, 10), 'stall-switch': (2, 8), 'idle': (6, 12)},
    # C02, order clause: a recipient catching up on a backlog still gets one sender's relays in order, each once
    'C02': {'order': (2, 12)},
    # C01 / C14: the same for what a member's view is built from, and for custom messages at the protocol's limits
    'C01': {'order': (1, 8)},
    'C14': {'order': (1, 8), 'bigframe': (2, 10)},
    # C13: a subscriber is told of every update, also the one made while it lags behind
    'C13': {'order': (1, 8)},
    # C19: over a real socket every receipt is answered and the submitter's connection goes on
    'C19': {'receipts': (2, 10)},
    # C18: a measurement over a real socket, for every kind of client id a handshake can announce
    'C18': {'latency': (3, 14)},
    # C07: a session, and its frame worker, ends with its last member however quickly that happens
    'C07': {'churn': (4, 40)},
    # C10: concurrent registration of the same component type names
    'C10': {'types': (5, 30)},
}


def wire_harness(prop, tier, seed, cov, log):
    """C08: websocket.Handle with the production decorators, real sockets, goroutines and timers, against scripted
    client misbehaviour (go/cmd/wire).  Each scenario run starts its own server and checks at the end that every
    handler returned, nothing panicked, gauges and registry are back at rest, no server goroutine is left and the
    witnesses in the same and in another session were served throughout."""
    import concurrent.futures as cf
    quick = tier == 'quick'
    plan = WIRE_PLANS[prop]
    jobs = []
    for sc, (nq, nt) in plan.items():
        n = nq if quick else nt
        per = max(1, n // (2 if quick else 8))
        k = 0
        while k < n:
            jobs.append((sc, seed * 10000 + k, min(per, n - k))); k += per
    def run(job):
        sc, sd, n = job
        try:
            r = subprocess.run([f'{L.BIN}/wire', '-scenario', sc, '-seed', str(sd), '-n', str(n)], capture_output=True, text=True,
                               env=L.GOENV, timeout=60 + 25 * n)
            return job, r.returncode, r.stdout, r.stderr
        except subprocess.TimeoutExpired as e:
            return job, -9, (e.stdout or b'').decode() if isinstance(e.stdout, bytes) else (e.stdout or ''), 'timeout'
    runs = {}; viol = []; seen = set(); known = L.load_known(prop)
    def report(cause, job, detail):
        if cause in seen: return
        seen.add(cause)
        k = [e for e in known if e['cause'] == cause]
        if k:
            print(f'KNOWN-FINDING: property={prop} {k[0]["what"]} [{cause}]'); return
        sc, sd, n = job
        path = L.write_replay(prop, cause, {'property': prop, 'cause': cause, 'seed': seed, 'tier': tier,
                              'replay': f'.cache/bin/wire -scenario {sc} -seed {sd} -n {n}', 'detail': detail[:1500]}, [detail])
        viol.append((path, ''))
    with cf.ThreadPoolExecutor(max_workers=max(2, L.NCPU // 2)) as ex:
        for job, rc, out, err in ex.map(run, jobs):
            sc = job[0]
            lines = [l for l in out.split('\n') if l.startswith('W ')]
            runs.setdefault(sc, [0, 0])
            runs[sc][0] += len(lines); runs[sc][1] += sum(1 for l in lines if l.endswith(' ok'))
            bad = [l for l in lines if ' VIOLATION ' in l]
            if bad:
                # a wedged handler leaves process-wide gauges behind: only the first violation of a process counts
                l = bad[0]
                m = re.search(r'seed=(\d+) VIOLATION (\S+) :: (.*)', l)
                report(m.group(2), (sc, int(m.group(1)), 1), l)
            elif rc != 0 or len(lines) < job[2]:
                report('server-process-died' if rc not in (0, -9) else 'scenario-did-not-finish', job,
                       f'exit code {rc}; ' + (err or '')[-1500:].replace('\n', ' | '))
    cov['wire_scenarios'] = {k: {'runs': v[0], 'ok': v[1]} for k, v in sorted(runs.items())}
    cov['wire_runs'] = sum(v[0] for v in runs.values())
    return viol


# ------------------------------------------------------------------ C09: real threads under the race detector

def id_stress(prop, tier, seed, cov, log):
    """C10 / C05: the id sources of the real code (SequentialIDGenerator with releases, the session's participant and
    entity ids, odal's asset ids, concurrent registration of the same type names) drawn from by 16 goroutines at once:
    no id in two hands.  Real threads; what the controlled scheduler cannot show (races inside one critical section)."""
    dur = '1500ms' if tier == 'quick' else '20s'
    r = subprocess.run([f'{L.BIN}/idstress', '-for', dur], capture_output=True, text=True, env=L.GOENV, timeout=600)
    line = next((l for l in r.stdout.split('\n') if l.startswith('IDS ')), '')
    cov['id_stress'] = line[:200] or f'exit {r.returncode}'
    if line.startswith('IDS ok'):
        return []
    known = L.load_known(prop)
    if not line:
        path = L.write_replay(prop, 'id-stress-harness', {'property': prop, 'broken': 'idstress did not finish'}, [(r.stdout + r.stderr)[-3000:]])
        return [(path, ' no-failing-input-found')]
    cause = line.split()[1]
    k = [e for e in known if e['cause'] == cause]
    if k:
        print(f'KNOWN-FINDING: property={prop} {k[0]["what"]} [{cause}]'); return []
    path = L.write_replay(prop, cause, {'property': prop, 'cause': cause, 'seed': seed, 'tier': tier,
                          'replay': f'.cache/bin/idstress -for {dur}   (16 goroutines; the failing schedule is the one the run hit)'}, [line])
    return [(path, '')]


RACE_SCOPE = {
    'C02': r'models\.\(\*Session\)\.(Broadcast|BroadcastTo|AddParticipant|RemoveParticipant|GetParticipants)',
    'C03': r'models\.\(\*SessionStore\)',
    'C05': r'models\.\(\*SequentialIDGenerator\)|models\.\(\*Entity\)\.',
    'C07': r'models\.\(\*SessionStore\)|models\.\(\*Session\)\.(HandleFrame|StartDispatchFrames|Close)',
    'C10': r'models\.\(\*SequentialIDGenerator\)|NewParticipantID|NewEntityID|NewAssetInstanceID|\)\.AddType',
    'C11': r'models\.\(\*Session\)\.(HandleFrame|StartDispatchFrames)|models\.\(\*Entity\)\.(SetPose|Pose)',
    'C12': r'models\.\(\*EntityComponentStore\)\.(Add|Update|Delete|DeleteByEntityID|List|ListAll|AddType|GetTypeName|GetTypeID)',
    'C13': r'models\.\(\*EntityComponentStore\)\.(Notify|Subscribe|Unsubscribe|UnsubscribeByParticipant)',
    'C16': r'modules/(vikja|odal)\.\(\*State\)',
    'C20': r'modules/dagaz\.',
}


def race_harness(prop, tier, seed, cov, log):
    """C09: 4-16 well-behaved clients work concurrently in shared sessions of the real server (all modules, production
    decorators, real sockets), built with -race: no race report may involve a hagall package, every request must
    complete (watchdog), and the server must come back to rest."""
    import concurrent.futures as cf
    n = 3 if tier == 'quick' else 48
    per = 1 if tier == 'quick' else 4
    jobs = [(seed * 1000 + k, min(per, n - k), 'concurrent') for k in range(0, n, per)]
    # and a few writers and readers of the very same items (components, poses, actions, floors, the state handed to a newcomer)
    m = 2 if tier == 'quick' else 24
    jobs += [(seed * 1000 + k, min(per, m - k), 'shared') for k in range(0, m, per)]
    import hashlib
    hb = hashlib.sha1()
    with open(f'{L.BIN}/wire-race', 'rb') as fh:
        for blk in iter(lambda: fh.read(1 << 20), b''): hb.update(blk)
    binsig = hb.hexdigest()
    os.makedirs(f'{L.CACHE}/race', exist_ok=True)
    # which racing accesses belong to the property: C09 owns them all, the others the state they speak about
    scope = RACE_SCOPE.get(prop)
    def run(job):
        sd, cnt, scen = job
        # the runs are the same for every property that looks at them: kept, keyed by the executable and the arguments
        cf_ = f'{L.CACHE}/race/{binsig[:20]}-{scen}-{sd}-{cnt}.json'
        if os.path.exists(cf_):
            c = json.load(open(cf_))
            return job, c['rc'], c['out'], c['err']
        try:
            r = subprocess.run([f'{L.BIN}/wire-race', '-scenario', scen, '-seed', str(sd), '-n', str(cnt)], capture_output=True,
                               text=True, env=dict(L.GOENV, GORACE='halt_on_error=0'), timeout=120 + 60 * cnt)
            json.dump({'rc': r.returncode, 'out': r.stdout, 'err': r.stderr}, open(cf_ + '.tmp', 'w')); os.replace(cf_ + '.tmp', cf_)
            return job, r.returncode, r.stdout, r.stderr
        except subprocess.TimeoutExpired:
            return job, -9, '', 'timeout'
    viol = []; seen = set(); known = L.load_known(prop)
    runs = ok = races = 0
    def report(cause, job, detail):
        if cause in seen: return
        seen.add(cause)
        k = [e for e in known if e['cause'] == cause]
        if k:
            print(f'KNOWN-FINDING: property={prop} {k[0]["what"]} [{cause}]'); return
        path = L.write_replay(prop, cause, {'property': prop, 'cause': cause, 'seed': seed, 'tier': tier,
                              'replay': f'GORACE=halt_on_error=0 .cache/bin/wire-race -scenario {job[2]} -seed {job[0]} -n {job[1]}'}, [detail[:6000]])
        viol.append((path, ''))
    with cf.ThreadPoolExecutor(max_workers=4) as ex:
        for job, rc, out, err in ex.map(run, jobs):
            lines = [l for l in out.split('\n') if l.startswith('W ')]
            runs += len(lines); ok += sum(1 for l in lines if l.endswith(' ok'))
            for b in err.split('=================='):
                if 'WARNING: DATA RACE' in b and 'aukilabs/hagall' in b:
                    if scope and not re.search(scope, b): continue
                    races += 1
                    frames = re.findall(r'^\s+(github\.com/aukilabs/hagall[^\s]*)\(\)', b, re.M)
                    cause = 'data-race'
                    report(cause, job, 'first hagall frames: ' + ' / '.join(dict.fromkeys(frames[:4])) + '\n' + b.strip())
            bad = [l for l in lines if ' VIOLATION ' in l]
            if scope:
                continue        # the scenario's own verdicts (requests completing, server at rest) are C09's
            if bad:
                m = re.search(r'VIOLATION (\S+) :: (.*)', bad[0])
                report(m.group(1), job, bad[0])
            elif rc not in (0, 66) or len(lines) < job[1]:
                report('server-process-died', job, f'exit code {rc}; ' + err[-3000:])
    cov['race_runs'] = runs
    cov['race_runs_ok'] = ok
    cov['race_reports_in_hagall'] = races
    return viol


# ------------------------------------------------------------------ concurrent blocks at lock granularity

def conc_explore(prop, tier, seed, cov, log):
    """Histories that end in a block of 2-3 requests handled concurrently by the real handlers, with every Lock / RLock of
    the shared structures a scheduling point (go/vsync, go/cmd/drive conc): every interleaving with at most two
    preemptions is executed.  An outcome that some serial order of the requests on the Lean model explains is judged
    like a sequential history (all monitors); one that none explains is judged on what the properties ask under
    concurrency: no deadlock, no panic, unique ids, every member's view equal to what later newcomers are handed."""
    import concurrent.futures as cf
    blocks = 24 if tier == 'quick' else 480
    chunks = 8 if tier == 'quick' else 16
    per = max(1, blocks // chunks)
    corpus = sorted(glob.glob(f'{L.V}/corpus/conc/*.hist'))
    import hashlib
    def fsig(path):
        h = hashlib.sha1()
        with open(path, 'rb') as fh:
            for blk in iter(lambda: fh.read(1 << 20), b''): h.update(blk)
        return h.hexdigest()
    binsig = fsig(f'{L.BIN}/drive') + fsig(L.DRIVER) + ''.join(fsig(c) for c in corpus)
    # old entries go when the executables change
    for old in glob.glob(f'{L.CACHE}/conc/*'):
        if time.time() - os.path.getmtime(old) > 6 * 3600:
            try: os.remove(old)
            except OSError: pass
    def run(i):
        if i < 0:   # a corpus history: its concurrent block under every interleaving within the bound
            cmd = [f'{L.BIN}/drive', 'explore', '-in', corpus[-i - 1], '-max', '1500' if tier == 'quick' else '20000']
        else:
            cmd = [f'{L.BIN}/drive', 'conc', '-seed', str(seed * 1000 + i), '-n', str(per), '-steps', '30']
        # the exploration is the same for every property that asks for it: its traces and verdicts are kept, keyed by the
        # two executables that produce them (both rebuilt from the current trees) and the arguments
        key = hashlib.sha1((binsig + ' '.join(cmd[1:])).encode()).hexdigest()[:24]
        cdir = f'{L.CACHE}/conc'
        os.makedirs(cdir, exist_ok=True)
        tf, of = f'{cdir}/{key}.trace', f'{cdir}/{key}.out'
        if os.path.exists(tf) and os.path.exists(of):
            return i, open(tf).read(), open(of).read(), None
        r = subprocess.run(cmd, capture_output=True, text=True, env=L.GOENV, timeout=3000)
        if r.returncode != 0:
            return i, None, None, r.stderr[-2000:]
        d = subprocess.run([L.DRIVER], input=r.stdout, capture_output=True, text=True)
        open(tf + '.tmp', 'w').write(r.stdout); os.replace(tf + '.tmp', tf)
        open(of + '.tmp', 'w').write(d.stdout); os.replace(of + '.tmp', of)
        return i, r.stdout, d.stdout, None
    viol = []; seen = set(); known = L.load_known(prop)
    tot = {'explored': 0, 'distinct': 0, 'deadlocks': 0}; hist = 0; unser = 0; agree = 0; regchk = [0]
    def report(cause, i, detail, trace, idx, nfi=False):
        if cause in seen: return
        seen.add(cause)
        k = [e for e in known if e['cause'] == cause]
        if k:
            print(f'KNOWN-FINDING: property={prop} {k[0]["what"]} [{cause}]'); return
        body = []
        if trace is not None:
            # the history (replayable E lines) of the offending outcome
            on = False; n = -1
            for l in trace.split('\n'):
                if l.startswith('HIST '):
                    n += 1; on = (n == idx)
                    if on: body.append(l)
                elif on and l.startswith('E '): body.append(l)
                elif on and l.startswith('END'): break
        path = L.write_replay(prop, cause, {'property': prop, 'cause': cause, 'seed': seed, 'tier': tier, 'detail': detail[:1500],
                              'replay': f'.cache/bin/drive replay -in replays/{prop}-{cause}.trace | lean/.lake/build/bin/driver   (the E conc line carries the schedule)'}, body)
        viol.append((path, ' no-failing-input-found' if nfi else ''))
    with cf.ThreadPoolExecutor(max_workers=L.NCPU) as ex:
        for i, trace, out, err in ex.map(run, list(range(-len(corpus), 0)) + list(range(chunks))):
            if err:
                report('conc-harness', i, err, None, 0, nfi=True); continue
            m = re.search(r'CSTAT explored=(\d+) distinct=(\d+) deadlocks=(\d+)', trace)
            if m:
                for k, v in zip(('explored', 'distinct', 'deadlocks'), m.groups()): tot[k] += int(v)
            pos = -1
            for l in out.split('\n'):
                if l.startswith('R '):
                    pos += 1; hist += 1
                    if ' ok ' in l: agree += 1
                    elif 'kind=deadlock' in l and prop == 'C09':
                        report('deadlock', i, l, trace, pos)
                    elif prop == 'C09' and ' diff ' in l and 'kind=conc' not in l:
                        pass
                elif l.startswith('C '):
                    if 'unserializable=1' in l: unser += 1
                    m2 = re.search(r'registry=(\d+)', l)
                    if m2: regchk[0] += int(m2.group(1))
                elif l.startswith('M '):
                    t = l.split(' ', 5)
                    if t[2] == prop:
                        # an outcome the concurrent registry model does not reach is a broken correspondence, not yet a failing input
                        report(t[3], i, l, trace, pos, nfi=(t[3] == 'registry-model-unreachable'))
    cov['conc_interleavings_explored'] = tot['explored']
    cov['conc_distinct_outcomes'] = tot['distinct']
    cov['conc_outcomes_explained_by_a_serial_order_of_the_model'] = hist - unser
    cov['conc_outcomes_no_serial_order_explains'] = unser
    cov['conc_deadlocks'] = tot['deadlocks']
    cov['conc_join_only_outcomes_reached_by_the_concurrent_registry_model'] = regchk[0]
    cov['conc_corpus_histories'] = [os.path.basename(c) for c in corpus]
    return viol
