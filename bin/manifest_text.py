BASELINE = "cd /repo && export GOFLAGS=-mod=mod GOPROXY=off GOSUMDB=off GOTOOLCHAIN=local && go test -json -vet=off -count=1 -timeout 25m ./..."
NOTES = ("All checks share one engine: bin/check <id>. No hook is committed in /repo: the verif-tagged shims live in /verif/go/shims and are "
         "added to the packages at build time with go build -overlay, so the guard-off baseline is the repository's own test command.")
_std_note = ("Trusted: Lean 4.33 kernel; axioms propext, Classical.choice, Quot.sound only (printed per theorem into the evidence on every run); "
             "the hand-written model is tied to the code by differential execution of the real handlers (go/cmd/drive, shims) against the model "
             "on generated histories - agreement is shown on those histories only; protobuf/websocket encoding is outside the model.")
TEXT = {
 'C14': dict(level="Theorems C14_too_large / C14_delivery / C14_flagged / C14_handle prove, for every session, sender, recipient list and body "
                   "(parametric in the bytes), exactly which members receive a custom message; the model is tied to the code by the correspondence run.",
             note=_std_note, technique="Lean 4 theorems over a hand-written model + differential correspondence"),
}
NA = {}
