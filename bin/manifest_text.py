BASELINE = "cd /repo && export GOFLAGS=-mod=mod GOPROXY=off GOSUMDB=off GOTOOLCHAIN=local && go test -json -vet=off -count=1 -timeout 25m ./..."
NOTES = ("All checks share one engine: bin/check <id>. No hook is committed in /repo: the verif-tagged shims live in /verif/go/shims and are "
         "added to the packages at build time with go build -overlay, so the guard-off baseline is the repository's own test command.")
_std_note = ("Trusted: Lean 4.33 kernel; axioms propext, Classical.choice, Quot.sound only (printed per theorem into the evidence on every run); "
             "the hand-written model is tied to the code by differential execution of the real handlers (go/cmd/drive, shims) against the model "
             "on generated histories - agreement is shown on those histories only; protobuf/websocket encoding is outside the model.")
_tech = "Lean 4 theorems over a hand-written model + differential correspondence on the real handlers"
TEXT = {
 'C02': dict(level="Per-step theorems (C02_entityAdd, _entityDelete, _updatePose, _custom, _action, _assetAdd and the _refused/_dropped companions) prove that an "
                   "accepted change is delivered exactly once to every other member and never to its author, and a refused one to nobody, for every session "
                   "state with pairwise distinct connections - an invariant proved for every reachable state (run_WF). Sequential histories only; the "
                   "concurrent clause: C02_conc_stayer_gets_each_relay_once (Model/Relay.lean: a relay is one critical section under the participants lock; a member that stays gets every relay exactly once "
                   "whatever departures interleave); beyond that model it is explored, not proved (every interleaving with at most two preemptions of 2-3 concurrent requests at lock granularity on the real "
                   "handlers: explained by a serial order of the model, or else every accepted change relayed exactly once to every member that stays); the "
                   "per-sender order clause is measured over real sockets (wire scenario order). Its parenthesis - updates that wait for a frame keep their order per entity - is FALSE of the code "
                   "and recorded as finding F40: the scheduler releases all waiting pose updates before all waiting component updates (C02_deferred_updates_of_one_entity_reordered is the "
                   "kernel-checked witness on the scheduler model; corpus/F40-*.hist the same history on the real handlers; the check prints KNOWN-FINDING for exactly that situation, monitor "
                   "cause deferred-updates-of-an-entity-reordered).",
             note=_std_note, technique=_tech),
 'C04': dict(level="The protocol's decision table is written out as Spec.expectedAnswer; C04_core_answer / _action_answer / _asset_answer / _dagaz_answer prove that every "
                   "request for which the table defines an answer gets exactly that one answer, to the requester (all other deliveries are relays); "
                   "C04_refused_unchanged proves that a request answered with an error leaves the session exactly as it was (through every module), under the "
                   "attachment invariant that C04_attach_invariant proves for every reachable state; C04_not_joined proves that a session-less request is never executed.",
             note=_std_note + " Ping, signed latency and receipts are covered here only for their refusal answers; their protocols belong to C18/C19.", technique=_tech),
 'C05': dict(level="C05_delete_guard / _pose_guard / _asset_guard prove that a non-owner's request changes nothing through the core handler and every module; "
                   "C05_owner_immutable proves that no request ever changes an entity's owner (new entities belong to the requester under a fresh id). Schedule clause for ids that do not "
                   "exist yet (Model/Premature.lean, Props/C05Premature.lean): C05_conc_refused_delete_keeps_a_fresh_attachment - for every interleaving of the owner's two steps (create the entity, "
                   "attach to it) with the clean-up of any number of refused delete requests for that id, the attachment is there once the owner is done; "
                   "C05_old_split_cleanup_removes_a_fresh_attachment is the interleaving of the code before the repair F46; tied by Gen/AbsOrder.cleanup_looks_up_under_the_state_lock and by the "
                   "exploration of the real handlers (block family around the id a session issues next, oracle refused-delete-removed-an-attachment, corpus/conc/F46-*.hist).",
             note=_std_note, technique=_tech),
 'C06': dict(level="C06_entities/_components/_actions/_assets/_subscriptions/_participants/_leave_broadcast/_delete_broadcasts give the exact post-state and the exact "
                   "deliveries of leaveSession, the one function every way of leaving goes through in the model (disconnect, handler error, session switch). "
                   "Which wire-level endings reach it is established by the correspondence, not by proof. Schedule clause for what a joiner is handed while an entity leaves the session "
                   "(Model/Handover.lean read for components, Props/C06Conc.lean): C06_conc_newcomer_holds_no_component_of_a_removed_entity over the complete table of interleavings; "
                   "C06_old_unfiltered_state_keeps_a_component is the interleaving of the code before the repair F47; on the real handlers: explored, oracle newcomer-handed-a-component-without-its-entity.",
             note=_std_note, technique=_tech),
 'C07': dict(level="The registry invariant Server.WF (distinct ids and UUIDs, no empty registered session, no live id in the pool, gauge = number of sessions) is proved "
                   "for every state reachable by any sequential history (C07_registry_invariant via run_WF); C07_join_live / _join_refused / _last_departure / "
                   "_departure_keeps / _fresh_session give the per-step clauses. The schedule-quantified clauses are proved on the concurrent registry model "
                   "(Model/Registry.lean: one transition per critical section of HandleParticipantJoin / leaveSession, any number of connections, any interleaving): "
                   "C07_conc_invariant, C07_conc_join_never_orphaned, C07_conc_registry_consistent, C07_conc_quiescent; C07_old_code_orphans_a_join / "
                   "_unregisters_twice are the kernel-checked interleavings of the code before the repair F20. That model is tied to the code by the skeleton and "
                   "lock facts and by the schedule exploration of the real handlers (every Lock a scheduling point, preemption bound 2), judged by the executable "
                   "reading of C07_conc_quiescent; it is not a translation of the Go code.",
             note=_std_note, technique=_tech),
 'C10': dict(level="C10_no_collision: for every history, session ids and UUIDs of live sessions are pairwise distinct and, in every session, participant ids, entity ids, "
                   "type ids, type names and asset instance ids are pairwise distinct and bounded by their counters (run_WF + run_AllInv); C10_counters_monotone / "
                   "C10_leave_releases_nothing: no request and no departure ever moves a counter backwards or releases an id; ids are issued as counter+1 "
                   "(C10_join_fresh_pid, C10_session_id_fresh); C10_types_bijective. Under concurrency: C10_conc_live_sessions_have_distinct_ids (session numbers, "
                   "every interleaving of the registry's critical sections); participant / entity / asset / type ids under concurrent allocation are measured only "
                   "(schedule exploration of the real handlers with an id-uniqueness oracle, wire scenario `types`).",
             note=_std_note + " uint32 wrap-around after 2^32-1 allocations is outside the model (ids are unbounded naturals).", technique=_tech),
 'C12': dict(level="Refinement of the component store to a partial map: add/update/delete/list/entity-removal theorems (C12_*) state the exact effect on the set of "
                   "components and the refusal codes, for every session state. Schedule clause, proved on a small concurrent model (Model/Attach.lean with duplicate refusal, one "
                   "transition per critical section): C12_conc_component_never_outlives_entity - for every interleaving of an entity's removal (RemoveEntity, then DeleteByEntityID) with any "
                   "number of component adds (EntityByID, Add, EntityByID again, Delete) nothing stays for an entity that is gone; C12_old_order_keeps_a_stale_component and "
                   "C12_reorder_alone_is_not_enough are the kernel-checked interleavings of the code before the repair F24. One key of the store under concurrent adds and deletes "
                   "(Model/AddOnce.lean, Props/C12Add.lean): C12_conc_add_accepted_once - for every interleaving, accepted adds = accepted deletes + (1 if the key is held), so two adds are "
                   "never both accepted with no delete between; C12_split_add_accepts_twice is the interleaving of a store that looks up and inserts in two critical sections; that Add and "
                   "Delete are one critical section under the write lock is Gen/AbsOrder.component_add_is_one_critical_section, on the regenerated facts. Tied to the code by the skeleton facts of HandleEntityComponentAdd, "
                   "HandleEntityDelete, leaveSession and by the exploration of the real handlers (blocks that set attachments against an entity's removal).",
             note=_std_note, technique=_tech),
 'C13': dict(level="C13_add_notify/_delete_notify/_update_notify give the exact recipients of component notifications as a function of the subscription set; "
                   "C13_subscribe/_unsubscribe/_leave_unsubscribes give the exact evolution of that set. Schedule clause, proved on a small concurrent model (Model/Notify.lean: Notify - read the "
                   "subscribers and relay, one critical section under the subscription read lock -, Subscribe, Unsubscribe, the unsubscribe answer): for every interleaving and any number of "
                   "participants C13_conc_nothing_after_unsubscribing, C13_conc_never_own_update, C13_conc_only_subscribers, C13_conc_subscriber_gets_each_update_once (exactly the others' "
                   "updates, in the order they were made); C13_split_notify_reaches_an_unsubscribed_member is the kernel-checked interleaving of a Notify that relays after releasing the lock. "
                   "Tied to the code by the lock facts of Notify / Subscribe / Unsubscribe / BroadcastTo and by the exploration of the real handlers (after-unsubscribe oracle); a subscriber "
                   "lagging behind a backlog is exercised over real sockets (wire scenario order).",
             note=_std_note, technique=_tech),
 'C16': dict(level="C16_accept_iff (an action is accepted iff named, stamped, for an existing entity and not older than the stored one), C16_older_refused, "
                   "C16_accepted_replaces, C16_monotone (the stored timestamp never decreases), C16_asset_single (one asset per entity, fresh instance id), "
                   "C16_*_needs_entity, C16_newcomer, and C16_invariant (uniqueness of (entity,name) and of per-entity assets in every reachable state). Schedule clause (Props/C16Conc): the "
                   "comparison with the stored action and the storing are one critical section (State.SetEntityActionIfLatest), so for every order in which the critical sections of any number of "
                   "concurrent requests run the action kept is one of those sent with no later one among them (C16_conc_keeps_latest) and the instant of its timestamp does not depend on the order "
                   "(C16_conc_kept_timestamp_order_independent); C16_old_split_keeps_the_older_action is the kernel-checked interleaving of the code before the repair F25. Tied to the code by the "
                   "lock / call / field facts of the vikja state and handler and by the exploration of the real handlers (oracle older-action-kept on the module state after the block).",
             note=_std_note + " Timestamps are compared as the instants they name (Ts.instant: seconds + nanos / 1e9 with the nanoseconds normalised, exact over the integers); the arithmetic of modules/vikja/state.go (periods of four seconds, no overflow) is Ts.key, and key_order / key_in_range prove that comparing keys is comparing instants for all int64 seconds and int32 nanos (repairs F43, F43b, F43c).", technique=_tech),
 'C17': dict(level="C17_filter: for every list of flag strings F (all 1024 subsets and any unknown names), every history and every starting state, the run under F "
                   "reaches the same server state as the flag-free run and delivers exactly its deliveries minus the message classes F names (induction over the "
                   "history from the per-step lemma C17_step); C17_unknown_flag: names outside the ten remove nothing. Which sends each flag wraps in the source is "
                   "the regenerated obligation Gen.flagSites_eq / ungatedBroadcasts_eq.",
             note=_std_note, technique=_tech),
 'C14': dict(level="Theorems C14_too_large / C14_delivery / C14_flagged / C14_handle prove, for every session, sender, recipient list and body "
                   "(parametric in the bytes), exactly which members receive a custom message; the model is tied to the code by the correspondence run.",
             note=_std_note, technique=_tech),
 'C18': dict(level="C18_start (a measurement starts iff joined, 3..50 rounds, wallet given), C18_start_inv / C18_round (under the invariant LatInv - which start establishes "
                   "and every accepted round keeps - a measurement of n rounds issues exactly one ping per round and ends with one report carrying the request id, "
                   "session UUID, wallet, n, and exactly the n distinct ping ids, each answered once), C18_refuse / C18_refuse_answered (unknown or already "
                   "answered ids are refused and change nothing), C18_restart_answers_abandoned (a measurement given up for a new one is answered, with CONFLICT, exactly when one was running - "
                   "finding F37), C18_stats_consistent (0 <= min <= mean <= max, p95 and last within [min,max] for 3..50 rounds). The same holds when the participant switches sessions while a measurement runs (finding F37b, "
                   "Server.join delivers Session.abandoned first).",
             note=_std_note + " The ECDSA signature and Keccak-256 are outside the model: the harness verifies every report's signature against the server key. "
                  "Statistics are proved over natural-number microseconds; the tie to Go's code (float32 latencies, float64 sum since the repair F30) is the STAT correspondence: rounds below 2^24 us each, sums past it. "
                  "Ping ids come from the nanosecond clock: distinctness of issued ids is a hypothesis (hfresh) of C18_round.", technique=_tech),
 'C19': dict(level="Queue part proved: C19_answer (exactly one answer: BAD_REQUEST iff a field is empty, else TOO_BUSY iff the queue is full, else accepted; the step is total and never ends the connection - "
                   "a refusal that did was closed over before it was written, finding F29), "
                   "C19_bounded, C19_conservation (over any event the forwarded-or-queued receipts are those of before plus exactly the accepted submission, unchanged, once), "
                   "C19_drain. Validity part (Model/Receipt.lean, Props/C19Valid.lean; Keccak-256 and the curve arithmetic are oracles): C19_forwarded_iff, C19_forwarded_count (as often as accepted, never otherwise), "
                   "C19_invalid_never_forwarded (a wrong hash, a signature that is not 65 bytes, a recovery id above 3 whatever the linked Ecrecover makes of it - finding F42 -, no key recovered); per accepted triple the "
                   "receipts harness prints the four facts and how often the stand-in credit service received it, and the driver evaluates the model. The HTTP forwarding is NOT modelled: it is exercised on the real "
                   "HandleReceipts loop by go/cmd/receipts (valid triples, 14 single-field corruptions, service up/slow/down, queue full; built and run with and without cgo, whose signature recovery differs on recovery ids 4 - 7: finding F42) against a reference validity written from the statement (Keccak-256, 65 bytes, recovery id 0 - 3, a key is recovered); that the answers reach the submitter over a real socket and that its connection goes on: go/cmd/wire scenario receipts.",
             note=_std_note + " Cryptographic primitives are oracles computed with go-ethereum; HTTP delivery is observed, not modelled.", technique=_tech + " + receipts side harness"),
 'C15': dict(level="C15_gate (the protected handler runs iff Auth.admit, and a rejected request leaves its state untouched), C15_sound (admission implies a held secret, a "
                   "well-formed HMAC-signed token whose MAC verifies against the current secret, unexpired, not before nbf, iat at most 10 s ahead, naming HDS as issuer and carrying an expiry), C15_identity_token_rejected (the identity the server signs with the same secret and "
                   "returns to a health request - no issuer, no expiry - is never admitted: finding F41), C15_rejects (no "
                   "token, no secret, alg none / asymmetric, wrong MAC, expired, malformed: each rejected), C15_precedence (Bearer header > query > cookie). The model is tied to "
                   "http/auth.go + hagall-common by go/cmd/auth: the real wrappers over a real hdsclient.Client, every token mutation on every carrier, secret rotation, and the token the real /health endpoint hands to a caller announcing itself as HDS; "
                   "the mounting of both wrappers in cmd/main.go is the regenerated fact routeMounts.",
             note=_std_note + " HMAC-SHA-2 is an oracle (the harness computes whether a token's MAC matches the current secret); unforgeability is a cryptographic assumption. "
                  "Token verification itself lives in hagall-common and golang-jwt, outside /repo; it is modelled from reading and covered by the correspondence.", technique=_tech + " + auth side harness"),
 'C01': dict(level="PARTIAL, by design of the code (finding F13). Proved, with no DISABLE_* flag set, for the participant / entity / pose / entity-action / asset-instance part of the view: "
                   "C01_request (for every request of a participant - accepted, refused, malformed, core or module - every other member can apply everything it is sent, and applying it to the "
                   "server's state before yields the server's state after), C01_leave (the same for every departure: one delete per non-persistent entity of the leaver, then the leave), "
                   "C01_join_others and C01_newcomer (the newcomer is handed exactly the server's state, the others can apply the join). The client side is Spec.View.apply, the same function "
                   "the trace monitor runs on the real server's deliveries. The component part of the statement is false of the code: C01_component_gap is the kernel-checked counterexample on the model "
                   "(a component added while its type has no subscriber is never announced; a later subscriber is sent an update it cannot apply) and corpus/F13-*.hist fails the same way on the real server; "
                   "it is recorded as a known finding, not repaired (protocol change). The schedule-quantified clause: one piece is proved on a small concurrent model (Model/Attach.lean: "
                   "C01_conc_action_never_outlives_entity for every interleaving of an entity's removal with any number of action requests; C01_old_order_keeps_a_stale_action is the kernel-checked "
                   "interleaving of the code before the repair F21; Model/Handover.lean: C01_conc_newcomer_consistent - every interleaving of a join with the departure of an entity's owner leaves the newcomer "
                   "without the entity and without its action, decided over the complete table of interleavings - and C01_old_handover_leaves_a_stale_action for the code before F23). "
                   "Model/Newcomer.lean, Props/C01New.lean: C01_conc_newcomer_gets_state_then_relays - for every interleaving of any number of writers (apply, then relay) with a join (take the place; "
                   "read and be sent the state in one critical section under the participants write lock), the newcomer ends with exactly the changes the session holds; "
                   "C01_old_split_state_loses_a_change is the interleaving of the code before the repair F32; tied by Gen/AbsOrder.newcomer_state_is_one_critical_section. One part of the schedule clause is FALSE of the code and recorded as finding F26: two participants writing the same "
                   "component or entity action at the same time are relayed in an order that can differ from the order the writes were applied in (Model/Writers.lean: C01_concurrent_writers_diverge "
                   "is the kernel-checked interleaving; C01_conc_atomic_writes_converge shows that applying and relaying in one critical section would converge); the check prints KNOWN-FINDING for "
                   "exactly that situation. The rest is explored on the real handlers, not proved: every interleaving with at most two preemptions of 2-3 concurrent requests "
                   "at lock granularity, judged by serial-order explanation on the model or else by convergence of every member's view with what later newcomers are handed.",
             note=_std_note + " The induction from the per-event theorems to 'at every quiescent point' is the view monitor's job on recorded traces (every member's accumulated view is compared with what each newcomer is handed).",
             technique=_tech + " + per-member view replica evaluated on real traces"),
 'C03': dict(level="C03_handle_within (a participant's request keeps the member list and addresses only the sender and members of the sender's session, core and every module), "
                   "C03_not_joined (a connection in no session changes no session and reaches only itself unless it joins), C03_request_frame / C03_event_frame (in every well-formed - hence every "
                   "reachable - server state, an event of a connection that is not a participant of session x and does not ask to join x by id leaves x registered exactly as it was and delivers "
                   "nothing to its participants; ticks, the receipt consumer and new connections never touch a session), C03_history_frame (the same over any history), C03_local (a request's "
                   "deliveries and new session record are a function of the sender's own session record). Frame + locality are the unwinding conditions of noninterference; the trace-equivalence "
                   "form itself is proved at the level of handled requests: C03_noninterference (Props/C03Trace.lean) - from servers that agree on a session, what its members are sent along a "
                   "history equals what they are sent along the history with every request that does not concern the session removed; hypotheses: no receipts (the shared queue of C19), no signed latency requests and no measurement running at the start (NoLat, an invariant of every other request: "
                   "the answer to a measurement given up on a switch reaches a connection that is by then a member of the session it joins), a member "
                   "does not ask to join another session by its id (it may leave by disconnecting or by creating a session), one member only listens (the session does not end). The scheduler in front of the handlers (per-connection queues, frames) is not in that "
                   "statement; the same equivalence is measured on the real server, scheduler included, by re-running histories without the outsiders. "
                   "Under concurrency one clause is proved on a small model (Model/Relay.lean): C03_conc_no_relay_after_leaving - for every interleaving of relays, departures and answers, a connection is sent "
                   "nothing of a session after the answer to its join elsewhere; C03_old_relay_reaches_a_departed_member is the kernel-checked interleaving of BroadcastTo before the repair F22. "
                   "Also measured: the frame of a session drives the connections of exactly its members (after sequential events and right after concurrent blocks), and a session created "
                   "within a concurrent block is not taken out of the registry by the end of the earlier holder of its number.",
             note=_std_note + " Reuse of a session id after the earlier session ended is covered through C07_fresh_session / C10 (uuid never reused) and by the cross-session monitors.",
             technique=_tech + " + noninterference re-run on the real server"),
 'C08': dict(level="PARTIAL: the life cycle of a connection handler is modelled (Model/Life.lean: main loop, sender and receiver goroutines, the disconnect-cause channel, the send queue, the scheduler "
                   "queue) and proved for every schedule of client behaviour and goroutine interleaving: C08_once (handleDisconnect runs at most once, exactly once when Handle returns, both goroutines gone), "
                   "C08_never_stuck / C08_cause_taken (reporting a cause never blocks the main loop, a pending cause can always be taken), C08_send_progress (a full send queue can always be relieved by the "
                   "sender goroutine), C08_shutdown_progress + C08_shutdown_decreases (after a cause is taken some goroutine can always move without the client and every move decreases a measure: the shutdown "
                   "ends with Handle returned), C08_cause_handled (a taken cause is handled to the end: leaving never waits for the session's frame worker - the connection's own frame goroutine of the repair "
                   "F15 is in the model); C08_old_code_wedges and C08_old_frame_lock_wedges are the kernel-checked witnesses of findings F6 and F15 on the code as it was. The model is tied to handler.go by "
                   "regenerated facts (capacities, disconnect and handleFrame are non-blocking sends, skeletons and defers) and by go/cmd/wire. NOT proved, measured on the real code: that no input "
                   "panics a handler (go/cmd/wire over real sockets: every message type with fields absent / non-finite / at bounds, garbage frames; go/cmd/drive: generated histories; go/cmd/grid: the "
                   "ground-plane index on planes and rays that hug the grid's border to one float32 step - finding F27), process survival, goroutine and gauge end state, witnesses in the same and in "
                   "another session served throughout, idle timeout, stalls, floods behind a stalled reader, and that no receipt stops the receipt forwarder for the others (go/cmd/receipts). "
                   "The OS, net/http and memory are outside the model.",
             note=_std_note + " Timing-dependent: the wire scenarios use generous limits (seconds) relative to a 400 ms idle timeout.",
             technique=_tech + " + wire-level scenarios on the real server (go/cmd/wire)"),
 'C09': dict(level="PARTIAL. Decided in Lean's kernel from the facts the translator regenerates from the current source on every run (Model/Locks.lean over Gen/Facts.lean): C09_lockset (every method of a "
                   "shared structure that touches a guarded field takes the mutex that guards it; guard map and three exemptions spelled out), C09_grid_locked (every dagaz handler that reaches the "
                   "session's grid holds the state's mutex), C09_writes_hold_the_write_lock (every method that assigns to, increments or deletes from a guarded field - directly, through an index, a "
                   "sub-field or a local bound to it - holds the guarding mutex in write mode), C09_grid_readers_write_nothing (the grid methods reached from handlers that hold the state's mutex in "
                   "read mode write no field of the grid), C09_no_reentrant, C09_nesting / C09_lock_order (the only nested acquisition is subscriptionMutex then mutex in the component store: no lock-order cycle). "
                   "These are statements about the program text at method granularity, not about schedules. The schedule part is measured, not proved: randomised real-thread executions of the real "
                   "server (4-16 clients, shared sessions, all modules, production decorators, real sockets) built with -race, no report may involve a hagall package, with a completion watchdog "
                   "(deadlock) and end-state checks, on room-sized and on venue-sized ground-plane grids; the real id sources under 16 goroutines. Lock-granularity interleavings (every schedule with at "
                   "most two preemptions of 2-3 concurrent requests of the real handlers, deadlock detection) are explored, not proved.",
             note=_std_note + " Sends made while a lock is held (Session.Broadcast, Notify) are outside the static theorems; the stalled-reader wedge they enabled is fixed (C08) and exercised by the wire scenarios.",
             technique="Lean 4 theorems decided by kernel evaluation over facts regenerated from the source + real-thread executions under the Go race detector"),
 'C11': dict(level="C11_order: for every interleaving of receives, frame ticks and consumptions on a connection's scheduler (the model of hagall-common's coalescing map + FIFO, "
                   "with the main loop free to take any item of a flushed group), the pose updates of an entity consumed so far followed by those in flight are a subsequence, in order, "
                   "of the updates received, and their last element is the latest received; C11_latest_arrives: once nothing is in flight the last consumed is the last received; "
                   "C11_sched_invariant / C11_handle_takes_oldest: every connection of every reachable server state satisfies the scheduler invariant, so the server's consumption step "
                   "takes the oldest queued update of the entity; C11_applied / C11_dropped / C11_gone_stays_gone: the handler stores and relays exactly the consumed pose for the owner, "
                   "drops unknown / foreign / pose-less updates without effect (a pose-less update never reaches the scheduler, where it would take the place of a waiting pose), and an id that is gone is never reissued. "
                   "The model's receive step releases what waits for the frame before a join request is queued (handler.dispatch, finding F33): an update is handled between the same two join requests "
                   "as it was sent - checked on every trace by the monitor update-carried-into-another-session. Not proved: wall-clock frame timing ('within a few frames'); that every "
                   "frame of a session reaches the connection of every member - joins, switches and departures racing with each other included - is measured (L1 harness after every tick, and right "
                   "after every explored concurrent block).",
             note=_std_note + " The scheduler lives in hagall-common (outside /repo): it is modelled from reading and tied by the correspondence (which message the real scheduler hands out is recorded "
                  "and compared) and by the pose-order monitor on recorded traces.", technique=_tech),
 'C20': dict(level="Index completeness proved for the cell bookkeeping the grid code performs (Model/GridIndex.lean: the append loops, the four edge loops of mergeQuads, the slice "
                   "growth of ExpandToFitPoint, GetRegion's cell walk), for all grids, spans and operation sequences: C20_register_complete, C20_reRegister_complete (whatever the old "
                   "and new span, the moved plane ends registered in every cell of the new one; other planes untouched), C20_grow_keeps / _invents_nothing, C20_region_exactly_once, and "
                   "C20_index_complete / C20_region_returns_each_once over every history of appends, moves and growths. Totality (Props/C20Total): with the far cells clamped inside the grid "
                   "(InsertQuad's append loops, mergeQuads' clampCell - finding F27) the append and merge loops index no cell that does not exist and keep the array a rectangle, and growth "
                   "keeps it one (C20_register_never_panics, C20_reRegister_never_panics, C20_grow_rect; C20_unclamped_far_cell_panics is the kernel-checked run of the code before the repair). The spans come out of float32 arithmetic, which Lean's kernel "
                   "cannot reason about: the theorems' hypothesis on it (a growth shifts every span by the cells added, a move starts from the registered span) is checked on every "
                   "explored history by ghost state in the float32 model (Model/Grid.lean), which itself is compared bit for bit with modules/dagaz after every operation. "
                   "Footprint-vs-cell completeness in exact arithmetic, the centre ray, bounds and plane count are monitors on the real grid (measured, not proved). "
                   "Primitives: exact-arithmetic laws proved over Int for the same polymorphic definitions (C20Prim); float32 tolerance against float64 references measured.",
             note=_std_note + " Float32 is outside the kernel: everything that depends on rounding is differential testing (bit-exact) plus monitors. Retention across joins is the samples-lost monitor on the server harness.",
             technique=_tech + " + bit-exact float32 grid replay + exact-arithmetic index monitors"),
}
_na = ("Lean proof applies to the sequential part of this property and a model exists, but the property theorems were not completed, "
       "so the property is not claimed rather than decided by a weaker technique; see DESIGN.md section 0.3. ")
NA = {
}
