"""Shared machinery of bin/check (see DESIGN.md section 2.4)."""
import sys, os, json, subprocess, time, hashlib, re, shutil, glob, concurrent.futures as cf

V = os.environ.get('VERIF_HOME', '/verif')
REPO = os.environ.get('VERIF_REPO', '/repo')
CACHE = V + '/.cache'
BIN = CACHE + '/bin'
LEAN = V + '/lean'
DRIVER = LEAN + '/.lake/build/bin/driver'
GOENV = dict(os.environ, GOFLAGS='-mod=mod', GOPROXY='off', GOSUMDB='off', GOTOOLCHAIN='local')
ALLOWED_AXIOMS = {'propext', 'Classical.choice', 'Quot.sound'}
NCPU = min(16, os.cpu_count() or 4)

from props import PROPS, ALL_TOPICS  # per-property configuration


def sh(cmd, **kw):
    return subprocess.run(cmd, shell=isinstance(cmd, str), capture_output=True, text=True, **kw)


# --------------------------------------------------------------------------- build

def tree_hash():
    h = hashlib.sha256()
    files = []
    for root in (REPO, V + '/go'):
        for d, dirs, fs in os.walk(root):
            dirs[:] = [x for x in dirs if x not in ('.git', 'node_modules')]
            for f in fs:
                if f.endswith('.go') or f in ('go.mod', 'go.sum'):
                    files.append(os.path.join(d, f))
    for f in sorted(files):
        h.update(f.encode())
        with open(f, 'rb') as fh:
            h.update(fh.read())
    return h.hexdigest()


def build_go(tools, log):
    """(re)build harness binaries when the repository or harness sources changed"""
    os.makedirs(BIN, exist_ok=True)
    th = tree_hash()
    stamp = CACHE + '/go.stamp'
    old = open(stamp).read().split() if os.path.exists(stamp) else []
    have = all(os.path.exists(f'{BIN}/{t}') for t in tools)
    if old and old[0] == th and have and set(tools) <= set(old[1:]):
        return True, th
    for t in tools:
        try: os.remove(f'{BIN}/{t}')
        except FileNotFoundError: pass
    r = sh([V + '/bin/build-go'] + list(tools), env=dict(GOENV, VERIF_REPO=REPO))
    log.append(('go build', r.returncode, (r.stdout + r.stderr)[-4000:]))
    if r.returncode != 0:
        return False, th
    built = set(old[1:]) | set(tools) if old and old[0] == th else set(tools)
    open(stamp, 'w').write(th + ' ' + ' '.join(sorted(built)))
    return True, th


def gen_facts(log):
    """regenerate lean/Hagall/Gen/Facts.lean from the current tree"""
    out = LEAN + '/Hagall/Gen/Facts.lean'
    if not os.path.exists(f'{BIN}/extract'):
        return False
    tmp = out + f'.new.{os.getpid()}'   # two checks may run at the same time
    r = sh([f'{BIN}/extract', '-repo', REPO, '-out', tmp], env=GOENV, cwd=REPO)
    log.append(('extract', r.returncode, (r.stdout + r.stderr)[-4000:]))
    if r.returncode != 0:
        return False
    # only touch the file when its content changes, so that lake does not rebuild needlessly
    if not os.path.exists(out) or open(out).read() != open(tmp).read():
        os.replace(tmp, out)
    else:
        os.remove(tmp)
    return True


def lake_build(targets, log):
    r = sh(['lake', 'build'] + targets, cwd=LEAN)
    log.append(('lake build ' + ' '.join(targets), r.returncode, (r.stdout + r.stderr)[-6000:]))
    return r.returncode == 0, r.stdout + r.stderr


def theorems_of(module_file):
    src = open(module_file).read()
    ns = re.search(r'^namespace\s+(\S+)', src, re.M)
    ns = ns.group(1) + '.' if ns else ''
    # strip block comments
    src = re.sub(r'/-.*?-/', '', src, flags=re.S)
    return [ns + m for m in re.findall(r'^theorem\s+([A-Za-z0-9_\.\']+)', src, re.M)]


def audit(prop, modules, log):
    """list the property's theorems and the axioms each depends on"""
    thms = []
    for m in modules:
        f = LEAN + '/' + m.replace('.', '/') + '.lean'
        if os.path.exists(f):
            thms += theorems_of(f)
    if not thms:
        return [], {}
    os.makedirs(CACHE + '/audit', exist_ok=True)
    af = f'{CACHE}/audit/{prop}.lean'
    with open(af, 'w') as fh:
        for m in modules:
            fh.write(f'import {m}\n')
        for t in thms:
            fh.write(f'#print axioms {t}\n')
    r = sh(['lake', 'env', 'lean', af], cwd=LEAN)
    log.append(('audit', r.returncode, (r.stdout + r.stderr)[-3000:]))
    axioms = {}
    out = r.stdout + r.stderr
    for m in re.finditer(r"'([^']+)' depends on axioms: \[([^\]]*)\]", out):
        axioms[m.group(1)] = [a.strip() for a in m.group(2).replace('\n', ' ').split(',') if a.strip()]
    for m in re.finditer(r"'([^']+)' does not depend on any axioms", out):
        axioms[m.group(1)] = []
    return thms, axioms


def forbidden_constructs():
    """grep the Lean sources for constructs that would void a proof"""
    bad = []
    pat = re.compile(r'\b(sorry|admit|native_decide|bv_decide|implemented_by|unsafe)\b|^axiom\s|maxHeartbeats\s+0\b')
    for f in glob.glob(LEAN + '/Hagall/**/*.lean', recursive=True):
        src = open(f).read()
        src = re.sub(r'/-.*?-/', lambda m: '\n' * m.group(0).count('\n'), src, flags=re.S)
        for n, line in enumerate(src.split('\n'), 1):
            line = line.split('--')[0]
            if pat.search(line):
                bad.append(f'{f}:{n}: {line.strip()}')
    return bad


# --------------------------------------------------------------------------- correspondence runs

class Result:
    def __init__(self):
        self.hist = 0; self.events = 0; self.deliveries = 0
        self.diffs = []     # (tracefile, idx, text)
        self.mons = []      # (tracefile, idx, prop, cause, event, detail)
        self.kinds = {}     # request kind -> count
        self.codes = {}     # error code -> count
        self.outcomes = {}
        self.nontrivial = set()
        self.samples = []


def run_chunk(job):
    """one process: generate histories on the real code, replay through the model"""
    kind, tracefile, argv = job
    if kind == 'gen':
        with open(tracefile, 'w') as fh:
            r = subprocess.run([f'{BIN}/drive', 'gen'] + argv, stdout=fh, stderr=subprocess.PIPE, text=True, env=GOENV)
    else:
        with open(tracefile, 'w') as fh:
            r = subprocess.run([f'{BIN}/drive', 'replay', '-in', argv[0]], stdout=fh, stderr=subprocess.PIPE, text=True, env=GOENV)
    if r.returncode == 3:
        pass    # an event did not return (`O stuck` is the last outcome of the trace): the driver reports it
    elif r.returncode != 0:
        return tracefile, None, 'harness failed: ' + r.stderr[-2000:]
    with open(tracefile) as fh:
        d = subprocess.run([DRIVER], stdin=fh, capture_output=True, text=True)
    if d.returncode != 0:
        return tracefile, None, 'driver failed: ' + d.stderr[-2000:]
    return tracefile, d.stdout, None


def summarize_trace(tracefile, res, focus_kinds):
    """input distribution of a trace file (for the evidence) and distinct non-trivial histories"""
    cur = None; acc = set(); ref = set(); h = hashlib.sha1()
    def close():
        if cur is not None:
            res.hist += 1
            if acc and ref:
                res.nontrivial.add(h.hexdigest())
    sample = []
    for line in open(tracefile):
        t = line.split()
        if not t: continue
        if t[0] == 'HIST':
            close(); cur = t[1]; acc = set(); ref = set(); h = hashlib.sha1()
            if len(res.samples) < 2: sample = [line.strip()]; res.samples.append(sample)
            else: sample = None
        elif t[0] == 'E':
            res.events += 1
            if t[1] == 'handle' and len(t) > 4:
                k = t[4]; res.kinds[k] = res.kinds.get(k, 0) + 1
                cur_kind = k
            else:
                cur_kind = t[1]
            h.update(' '.join(t[1:4] if t[1] != 'handle' else [t[1], t[2]] + t[4:]).encode())
            if sample is not None and len(sample) < 40: sample.append(' '.join(t[:12]))
            last_kind = cur_kind
        elif t[0] == 'D':
            res.deliveries += 1
            h.update(' '.join(t[1:3]).encode())
            if t[2] == 'error':
                res.codes[t[4]] = res.codes.get(t[4], 0) + 1
                if not focus_kinds or last_kind in focus_kinds: ref.add(last_kind)
            elif t[2].endswith('Resp') or t[2].endswith('Bcast'):
                if not focus_kinds or last_kind in focus_kinds: acc.add(last_kind)
        elif t[0] == 'O':
            res.outcomes[t[1]] = res.outcomes.get(t[1], 0) + 1
    close()


def parse_driver(tracefile, out, res):
    for line in out.split('\n'):
        if line.startswith('R '):
            t = line.split(' ', 3)
            if t[2] != 'ok':
                res.diffs.append((tracefile, int(t[1]), t[3] if len(t) > 3 else ''))
        elif line.startswith('M '):
            t = line.split(' ', 5)
            res.mons.append((tracefile, int(t[1]), t[2], t[3], t[4], t[5] if len(t) > 5 else ''))


def extract_history(tracefile, idx):
    """the HIST header and E lines of history number idx"""
    lines = []; on = False; q = None
    for line in open(tracefile):
        if line.startswith('HIST '):
            on = line.split()[1] == str(idx)
            if on: lines.append(line.rstrip('\n'))
        elif on and line.startswith('Q '):
            q = 'E ' + line[2:].rstrip('\n')      # replayable form of the next event
        elif on and line.startswith('E '):
            lines.append(q if q else line.rstrip('\n')); q = None
        elif on and line.startswith('END'):
            break
    return lines


def run_history(lines, tag):
    """replay a history (HIST + E lines) on the real code and through the model"""
    os.makedirs(CACHE + '/run', exist_ok=True)
    hf = f'{CACHE}/run/{tag}.hist'; tf = f'{CACHE}/run/{tag}.trace'
    open(hf, 'w').write('\n'.join(lines) + '\n')
    _, out, err = run_chunk(('replay', tf, [hf]))
    return out, err, tf


def signature_present(out, sig):
    """sig = ('M', prop, cause) or ('R', kind, topic)"""
    if out is None: return False
    for line in out.split('\n'):
        if sig[0] == 'M' and line.startswith('M '):
            t = line.split()
            if t[2] == sig[1] and t[3] == sig[2]: return True
        if sig[0] == 'R' and line.startswith('R ') and ' diff ' in line:
            if f'kind={sig[1]} ' in line and f'topic={sig[2]}' in line: return True
    return False


def shrink(lines, sig, tag, budget=120):
    """delta debugging on the event lines; every sub-history is a legal history"""
    head, evs = lines[0], lines[1:]
    n = 2; runs = 0
    while len(evs) >= 2 and runs < budget:
        chunk = max(1, len(evs) // n)
        reduced = False
        for i in range(0, len(evs), chunk):
            cand = evs[:i] + evs[i + chunk:]
            if not cand: continue
            out, err, _ = run_history([head] + cand, tag + '-shrink')
            runs += 1
            if signature_present(out, sig):
                evs = cand; n = max(n - 1, 2); reduced = True
                break
            if runs >= budget: break
        if not reduced:
            if chunk == 1: break
            n = min(len(evs), n * 2)
    return [head] + evs


# --------------------------------------------------------------------------- known findings

def load_known(prop):
    known = []
    p = V + '/known_findings.jsonl'
    if os.path.exists(p):
        for line in open(p):
            line = line.strip()
            if not line or line.startswith('#'): continue
            e = json.loads(line)
            if e.get('property') == prop and e.get('status') == 'known':
                known.append(e)
    return known


# --------------------------------------------------------------------------- main

def write_replay(prop, name, header, body):
    os.makedirs(V + '/replays', exist_ok=True)
    path = f'{V}/replays/{prop}-{name}.trace'
    with open(path, 'w') as fh:
        for k, v in header.items():
            fh.write(f'# {k}: {v}\n')
        fh.write('\n'.join(body) + '\n')
    return path


def run_check(prop, tier, seed, replay):
    t0 = time.time()
    if prop not in PROPS:
        print(f'unknown or unclaimed property {prop}'); return 2
    cfg = PROPS[prop]
    log = []
    violations = []      # (replay path, suffix)
    known_lines = []
    assumptions = list(cfg.get('assumptions', []))
    ev = {'property_id': prop, 'tier': tier, 'seed': seed, 'level': 'proof', 'coverage': {}, 'assumptions': assumptions,
          'wall_s': 0.0, 'violations': 0}
    cov = ev['coverage']
    cov['checker_cmd'] = f'cd {LEAN} && lake build ' + ' '.join(cfg['modules']) + ' && lake env lean <audit: #print axioms of every property theorem>'
    cov['trusted_base'] = ['Lean 4.33 kernel', 'axioms: propext, Classical.choice, Quot.sound only (audited each run)',
                           'go/cmd/extract (facts translator)', 'go/cmd/drive + shims (trace recording)',
                           'correspondence is differential testing: agreement on the generated histories only'] + cfg.get('trusted', [])

    # 1. build
    ok_go, th = build_go(cfg.get('tools', ['drive']), log)
    if not ok_go:
        # the tree does not build with the shims: nothing can be shown
        path = write_replay(prop, 'build', {'property': prop, 'broken': 'go build of the harness against the current tree'},
                            [log[-1][2]])
        print(f'VIOLATION property={prop} replay={path} no-failing-input-found')
        ev['violations'] = 1; finish(ev, t0, prop); return 1
    if not gen_facts(log):
        path = write_replay(prop, 'extract', {'property': prop, 'broken': 'facts translator (go/cmd/extract) on the current tree'},
                            [log[-1][2]])
        print(f'VIOLATION property={prop} replay={path} no-failing-input-found')
        ev['violations'] = 1; finish(ev, t0, prop); return 1

    # 2. proof obligations
    ok_drv, _ = lake_build(['driver'], log)
    ok_lean, lake_out = lake_build(cfg['modules'], log)
    thms, axioms = ([], {})
    broken_obligations = []
    if ok_lean:
        thms, axioms = audit(prop, cfg['modules'], log)
        for t in thms:
            ax = axioms.get(t)
            if ax is None:
                broken_obligations.append(f'{t}: not checked')
            elif not set(ax) <= ALLOWED_AXIOMS:
                broken_obligations.append(f'{t}: depends on {sorted(set(ax) - ALLOWED_AXIOMS)}')
    else:
        m = re.findall(r'^error: (.*)$', lake_out, re.M)
        broken_obligations.append('lake build failed: ' + '; '.join(m[:6]))
        # count what the source lists so that the evidence still says what was expected
        for mod in cfg['modules']:
            f = LEAN + '/' + mod.replace('.', '/') + '.lean'
            if os.path.exists(f): thms += theorems_of(f)
    bad = forbidden_constructs()
    if bad:
        broken_obligations.append('forbidden constructs: ' + '; '.join(bad[:5]))
    cov['obligations'] = len(thms)
    cov['discharged'] = len([t for t in thms if t in axioms and set(axioms[t]) <= ALLOWED_AXIOMS]) if ok_lean and not bad else 0
    cov['theorems'] = [{'name': t, 'axioms': axioms.get(t)} for t in thms]
    if tier == 'thorough' and ok_lean:
        r = sh(['lake', 'env', 'leanchecker'] + cfg['modules'], cwd=LEAN)
        cov['leanchecker'] = 'ok' if r.returncode == 0 else (r.stdout + r.stderr)[-500:]
        if r.returncode != 0:
            broken_obligations.append('leanchecker rejected the compiled module')

    if not ok_drv:
        path = write_replay(prop, 'driver', {'property': prop, 'broken': 'lake build driver'}, [log[-2][2]])
        print(f'VIOLATION property={prop} replay={path} no-failing-input-found')
        ev['violations'] = 1; finish(ev, t0, prop); return 1

    # 3. correspondence and monitors
    res = Result()
    rundir = f'{CACHE}/run/{prop}'
    shutil.rmtree(rundir, ignore_errors=True); os.makedirs(rundir, exist_ok=True)
    if replay:
        jobs = [('replay', f'{rundir}/replay.trace', [replay])]
    else:
        jobs = []
        for i, f in enumerate(sorted(glob.glob(V + '/corpus/*.hist'))):
            jobs.append(('replay', f'{rundir}/corpus{i}.trace', [f]))
        n = cfg['n'][0 if tier == 'quick' else 1]
        steps = cfg.get('steps', 90)
        profs = cfg['profiles']
        chunks = max(1, min(NCPU, n // 10))
        per = (n + chunks - 1) // chunks
        for i in range(chunks):
            jobs.append(('gen', f'{rundir}/gen{i}.trace',
                         ['-seed', str(seed * 1000 + i), '-n', str(per), '-steps', str(steps),
                          '-profile', profs[i % len(profs)]] + cfg.get('gen_args', [])))
    harness_errors = []
    with cf.ProcessPoolExecutor(max_workers=NCPU) as ex:
        for tracefile, out, err in ex.map(run_chunk, jobs):
            if err:
                harness_errors.append(err); continue
            summarize_trace(tracefile, res, cfg.get('focus'))
            parse_driver(tracefile, out, res)

    # extra, property-specific checks (side harnesses)
    extra_viol = []
    for fn in cfg.get('extra', []):
        import extras
        extra_viol += getattr(extras, fn)(prop, tier, seed, cov, log)

    known = load_known(prop)
    topics = cfg['topics']
    my_mons = [m for m in res.mons if m[2] == prop]
    my_diffs = [d for d in res.diffs if topics(d[2])]
    if cfg.get('metamorphic_flags'):
        # C17: a history that disagrees with the model under a flag set but agrees with it with no flag set is a
        # failing input of the flag property itself (the model is proved to be filter-invariant, C17_filter)
        my_diffs = []
        tried = 0
        for (tf, idx, text) in res.diffs:
            hist = extract_history(tf, idx)
            if not hist or 'flags=-' in hist[0] or tried >= 6: continue
            tried += 1
            plain = [re.sub(r'flags=\S+', 'flags=-', hist[0])] + hist[1:]
            out, err, _ = run_history(plain, prop + '-noflags')
            if out is not None and ' diff ' not in out and not [l for l in out.split('\n') if l.startswith('M ')]:
                my_mons.append((tf, idx, prop, 'flag-changes-more-than-its-class', '0', text))
            else:
                my_diffs.append((tf, idx, text))
        my_diffs = [d for d in my_diffs if topics(d[2])]

    seen = set()
    for (tf, idx, p, cause, evn, detail) in my_mons:
        if cause in seen: continue
        seen.add(cause)
        k = [e for e in known if e['cause'] == cause]
        if k:
            known_lines.append(f'KNOWN-FINDING: property={prop} {k[0]["what"]} [{cause}]')
            continue
        hist = extract_history(tf, idx)
        if cause == 'flag-changes-more-than-its-class':
            m = re.search(r'kind=(\S+) topic=(\S+)', detail)
            small = shrink(hist, ('R', m.group(1), m.group(2)), prop, budget=60) if m else hist
        else:
            small = shrink(hist, ('M', prop, cause), prop, budget=60 if tier == 'quick' else 200)
        out, _, stf = run_history(small, prop + '-final')
        body = small + ['', '# trace on the current tree and verdicts:'] + open(stf).read().split('\n')[:400] + (out or '').split('\n')
        path = write_replay(prop, cause, {'property': prop, 'cause': cause, 'seed': seed, 'tier': tier, 'detail': detail[:500],
                                         'replay': f'bin/check {prop} --replay {V}/replays/{prop}-{cause}.trace'}, body)
        violations.append((path, ''))

    if not violations:
        # broken correspondence / obligations without a monitor violation
        if my_diffs:
            tf, idx, text = my_diffs[0]
            hist = extract_history(tf, idx)
            m = re.search(r'kind=(\S+) topic=(\S+)', text)
            small = shrink(hist, ('R', m.group(1), m.group(2)), prop, budget=60) if m else hist
            out, _, stf = run_history(small, prop + '-final')
            path = write_replay(prop, 'correspondence', {'property': prop, 'broken': 'correspondence model/implementation',
                                'difference': text[:1500], 'seed': seed, 'tier': tier,
                                'note': 'no monitor of this property was violated on any explored history'},
                                small + ['', '# driver verdict:'] + (out or '').split('\n'))
            violations.append((path, ' no-failing-input-found'))
        elif broken_obligations:
            path = write_replay(prop, 'obligation', {'property': prop, 'broken': 'proof obligation', 'seed': seed, 'tier': tier},
                                broken_obligations + ['', lake_out[-3000:]])
            violations.append((path, ' no-failing-input-found'))
        elif harness_errors:
            path = write_replay(prop, 'harness', {'property': prop, 'broken': 'harness run'}, harness_errors[:3])
            violations.append((path, ' no-failing-input-found'))
    for (path, suffix) in extra_viol:
        violations.append((path, suffix))

    cov.update({
        'evaluations': res.hist, 'distinct_nontrivial': len(res.nontrivial),
        'rule': 'histories generated by go/cmd/drive from VERIF_SEED (state-aware generator, profiles ' + ','.join(cfg['profiles']) +
                ') plus the corpus; a history is non-trivial when it contains at least one accepted and one refused request of the '
                'property\'s request kinds; distinct = distinct SHA-1 of the canonical event/delivery sequence',
        'traces_validated_against_impl': res.hist - len(set((d[0], d[1]) for d in res.diffs)),
        'disagreements_checked': len(res.diffs), 'disagreements_in_slice': len(my_diffs),
        'events': res.events, 'deliveries': res.deliveries,
        'request_kinds': dict(sorted(res.kinds.items())), 'error_codes': dict(sorted(res.codes.items())),
        'outcomes': res.outcomes, 'monitor_violations': len(my_mons), 'known_findings': known_lines,
        'broken_obligations': broken_obligations,
        'samples': [s[:30] for s in res.samples] or ['(no history run)'],
    })
    for l in known_lines: print(l)
    for (path, suffix) in violations:
        print(f'VIOLATION property={prop} replay={path}{suffix}')
    ev['violations'] = len(violations)
    finish(ev, t0, prop)
    if os.environ.get('VERIF_KEEP') != '1':
        shutil.rmtree(rundir, ignore_errors=True)
    if os.environ.get('VERIF_DEBUG'):
        for l in log: print('LOG', l[0], l[1], l[2][-800:])
    return 1 if violations else 0


def finish(ev, t0, prop):
    ev['wall_s'] = round(time.time() - t0, 2)
    os.makedirs(V + '/evidence', exist_ok=True)
    with open(f'{V}/evidence/{prop}.json', 'w') as fh:
        json.dump(ev, fh, indent=1)
