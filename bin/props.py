"""Per-property configuration of bin/check: theorem modules, generator profiles and the correspondence
slice (which model/implementation differences concern the property)."""
import re

ALL_TOPICS = ['ping', 'pingResp', 'signedLatency', 'join', 'entityAdd', 'entityDelete', 'updatePose', 'custom', 'typeAdd',
              'typeGetName', 'typeGetId', 'compAdd', 'compDelete', 'compUpdate', 'compList', 'subscribe', 'unsubscribe',
              'receipt', 'action', 'assetAdd', 'quadSample', 'groundPlane', 'region', 'debugInfo', 'unknown']

GATED = {'sessionState', 'joinBcast', 'leaveBcast', 'entityAddBcast', 'entityDeleteBcast', 'poseBcast', 'customBcast',
         'compAddBcast', 'compUpdateBcast', 'compDeleteBcast'}


def fields(text):
    d = dict(re.findall(r'(\w+)=(\S+)', text.split('::')[0]))
    d['outs'] = set(d.get('outs', '').split(',')) - {''}
    return d


def slice_of(topics=(), kinds=(), relay_only=False, answer_only=False, outs=None, pred=None):
    """build the predicate deciding whether a correspondence difference lies in a property's slice"""
    topics = set(topics); kinds = set(kinds)
    def f(text):
        d = fields(text)
        if d.get('kind') in kinds:
            return True
        t = d.get('topic', '')
        t = t[5:] if t.startswith('recv:') else t
        if t not in topics:
            return False
        if d.get('kind') == 'delivery':
            if relay_only and d.get('conn') == d.get('actor'): return False
            if answer_only and d.get('conn') != d.get('actor'): return False
            if outs is not None and not (d['outs'] & outs): return False
        if pred and not pred(d): return False
        return True
    return f


COMP = ['typeAdd', 'typeGetName', 'typeGetId', 'compAdd', 'compDelete', 'compUpdate', 'compList']

ANSWERS = {'error', 'pingResp', 'joinResp', 'entityAddResp', 'entityDeleteResp', 'typeAddResp', 'typeNameResp', 'typeIdResp',
           'compAddResp', 'compDeleteResp', 'compListResp', 'subscribeResp', 'unsubscribeResp', 'receiptResp', 'actionResp',
           'assetAddResp', 'groundPlaneResp', 'regionResp', 'debugInfoResp', 'latencyResp'}
RELAYS = {'joinBcast', 'leaveBcast', 'entityAddBcast', 'entityDeleteBcast', 'poseBcast', 'customBcast', 'actionBcast', 'assetAddBcast'}
COMPOUTS = {'compAddBcast', 'compDeleteBcast', 'compUpdateBcast', 'compAddResp', 'compDeleteResp', 'compListResp', 'typeAddResp',
            'typeNameResp', 'typeIdResp', 'error'}

PROPS = {
    'C02': dict(modules=['Hagall.Props.C02', 'Hagall.Props.C02Conc', 'Hagall.Props.C02Order'], profiles=['mixed', 'join', 'module', 'custom', 'pose'], n=(240, 4000),
                tools=['wire-race', 'drive', 'extract', 'wire'], extra=['race_harness', 'wire_harness', 'conc_explore'],
                focus={'join', 'entityAdd', 'entityDelete', 'updatePose', 'custom', 'action', 'assetAdd'},
                topics=slice_of(['join', 'entityAdd', 'entityDelete', 'updatePose', 'custom', 'action', 'assetAdd', 'disconnect'],
                                relay_only=True, outs=RELAYS)),
    'C04': dict(extra=['conc_explore'], modules=['Hagall.Props.C04'], profiles=['mixed', 'comp', 'module', 'malformed', 'latency'], n=(240, 4000),
                focus=None,
                topics=slice_of(ALL_TOPICS, kinds=['outcome'], answer_only=True, outs=ANSWERS)),
    'C05': dict(tools=['idstress', 'drive', 'extract', 'wire-race'], extra=['id_stress', 'race_harness', 'conc_explore'], modules=['Hagall.Props.C05', 'Hagall.Props.C05Premature'], profiles=['pose', 'owner', 'module'], n=(240, 4000),
                focus={'entityDelete', 'updatePose', 'assetAdd'},
                topics=slice_of(['entityDelete', 'updatePose', 'assetAdd'],
                                outs={'error', 'entityDeleteResp', 'entityDeleteBcast', 'poseBcast', 'assetAddResp', 'assetAddBcast'})),
    'C06': dict(extra=['conc_explore'], modules=['Hagall.Props.C06', 'Hagall.Props.C06Conc'], profiles=['join', 'module', 'comp', 'mixed', 'subs'], n=(240, 4000),
                focus={'join', 'entityAdd', 'compAdd', 'action', 'assetAdd'},
                topics=slice_of(['disconnect', 'join', 'receipt'], kinds=['outcome'],
                                outs={'leaveBcast', 'entityDeleteBcast', 'sessionState', 'vikjaState', 'odalState'})),
    'C07': dict(modules=['Hagall.Props.C07', 'Hagall.Props.C07Conc'], profiles=['join', 'mixed'], n=(240, 4000), focus={'join'}, tools=['wire-race', 'drive', 'extract', 'wire'], extra=['race_harness', 'wire_harness', 'conc_explore'],
                topics=slice_of(['join', 'disconnect'], kinds=['state', 'gauge'], outs={'joinResp', 'error'})),
    'C10': dict(modules=['Hagall.Props.C10', 'Hagall.Props.C07Conc'], profiles=['join', 'mixed', 'comp', 'module'], n=(240, 4000), focus={'join', 'entityAdd', 'typeAdd', 'assetAdd'},
                tools=['idstress', 'wire-race', 'drive', 'extract', 'wire'], extra=['id_stress', 'race_harness', 'wire_harness', 'conc_explore'],
                topics=slice_of(['join', 'entityAdd', 'typeAdd', 'typeGetName', 'typeGetId', 'assetAdd'], kinds=['state'], answer_only=True,
                                outs={'joinResp', 'entityAddResp', 'typeAddResp', 'typeNameResp', 'typeIdResp', 'assetAddResp'})),
    'C12': dict(tools=['drive', 'extract', 'wire-race'], extra=['race_harness', 'conc_explore'], modules=['Hagall.Props.C12', 'Hagall.Props.C12Conc', 'Hagall.Props.C12Add', 'Hagall.Props.C06Conc'], profiles=['comp', 'mixed'], n=(240, 4000), focus=set(COMP) | {'entityDelete'},
                topics=slice_of(COMP + ['entityDelete', 'join', 'disconnect'], outs=COMPOUTS | {'sessionState'})),
    'C13': dict(tools=['drive', 'extract', 'wire-race', 'wire'], extra=['race_harness', 'conc_explore', 'wire_harness'], modules=['Hagall.Props.C13', 'Hagall.Props.C13Conc'], profiles=['comp', 'mixed', 'subs'], n=(240, 4000),
                focus={'compAdd', 'compDelete', 'compUpdate', 'subscribe', 'unsubscribe'},
                topics=slice_of(['compAdd', 'compDelete', 'compUpdate', 'subscribe', 'unsubscribe'],
                                outs={'compAddBcast', 'compDeleteBcast', 'compUpdateBcast', 'subscribeResp', 'unsubscribeResp', 'error'})),
    'C14': dict(extra=['wire_harness'], tools=['drive', 'extract', 'wire'], modules=['Hagall.Props.C14'], profiles=['custom', 'mixed', 'crowd'], n=(240, 4000), focus={'custom'},
                topics=slice_of(['custom'])),
    'C16': dict(tools=['drive', 'extract', 'wire-race'], extra=['race_harness', 'conc_explore'], modules=['Hagall.Props.C16', 'Hagall.Props.C01Conc', 'Hagall.Props.C16Conc'], profiles=['module', 'mixed'], n=(240, 4000), focus={'action', 'assetAdd'},
                topics=slice_of(['action', 'assetAdd', 'join', 'entityDelete', 'disconnect'],
                                outs={'vikjaState', 'odalState', 'actionResp', 'actionBcast', 'assetAddResp', 'assetAddBcast', 'error'},
                                pred=lambda d: not (d.get('topic') in ('entityDelete', 'disconnect') and d['outs'] <= {'error'}))),
    'C17': dict(modules=['Hagall.Props.C17'], profiles=['mixed', 'comp', 'pose', 'custom', 'join'], n=(240, 4000), focus=None,
                gen_args=[], metamorphic_flags=True, topics=slice_of(ALL_TOPICS + ['disconnect'], outs=GATED)),
}
PROPS['C18'] = dict(modules=['Hagall.Props.C18'], profiles=['latency', 'mixed'], n=(240, 4000), focus={'signedLatency', 'pingResp'},
                    tools=['drive', 'extract', 'wire'], extra=['latency_stats', 'wire_harness'], topics=slice_of(['signedLatency', 'pingResp', 'ping'], outs={'pingReq', 'latencyResp', 'error', 'pingResp'}))
PROPS['C19'] = dict(modules=['Hagall.Props.C19', 'Hagall.Props.C19Valid'], profiles=['malformed', 'mixed'], n=(160, 3000), focus={'receipt'}, tools=['drive', 'extract', 'receipts', 'receipts-nocgo', 'wire'],
                    extra=['receipts_harness', 'wire_harness'], topics=slice_of(['receipt', 'drain'], kinds=[]))
PROPS['C15'] = dict(modules=['Hagall.Props.C15'], profiles=['mixed'], n=(20, 20), focus=None, tools=['drive', 'extract', 'auth'],
                    extra=['auth_harness'], topics=slice_of([], kinds=[]))

PROPS['C20'] = dict(modules=['Hagall.Props.C20', 'Hagall.Props.C20Prim', 'Hagall.Props.C20Total'], profiles=['module', 'join', 'mixed'], n=(120, 2000),
                    focus={'quadSample', 'groundPlane', 'region', 'join'}, tools=['wire-race', 'drive', 'extract', 'grid'], extra=['race_harness', 'grid_harness'],
                    topics=slice_of(['quadSample', 'groundPlane', 'region', 'debugInfo'], outs={'groundPlaneResp', 'regionResp', 'debugInfoResp', 'error'}),
                    trusted=['go/cmd/grid (grid harness, exact-arithmetic monitors)', 'Lean Float32 = IEEE binary32 as compiled by leanc; Go float32 on amd64 without FMA'])

PROPS['C11'] = dict(tools=['drive', 'extract', 'wire-race'], modules=['Hagall.Props.C11'], profiles=['pose', 'mixed', 'join'], n=(240, 4000), focus={'updatePose', 'entityDelete', 'join'}, extra=['race_harness', 'conc_explore'],
                    topics=slice_of(['updatePose', 'entityDelete', 'join', 'disconnect'], kinds=['queue'],
                                    outs={'poseBcast', 'sessionState', 'entityDeleteBcast'}))

PROPS['C03'] = dict(tools=['drive', 'extract', 'wire-race'], modules=['Hagall.Props.C03', 'Hagall.Props.C03Trace', 'Hagall.Props.C03Conc'], profiles=['join', 'mixed', 'module', 'comp'], n=(240, 4000), focus={'join'}, extra=['race_harness', 'noninterference', 'conc_explore'],
                    topics=slice_of(ALL_TOPICS + ['disconnect'], kinds=['state'],
                                    pred=lambda d: d.get('kind') != 'delivery' or d.get('conn') != d.get('actor')
                                    or bool(d['outs'] & {'sessionState', 'vikjaState', 'odalState'})))

PROPS['C01'] = dict(modules=['Hagall.Props.C01', 'Hagall.Props.C01Conc', 'Hagall.Props.C01New'], profiles=['mixed', 'comp', 'module', 'pose', 'join'], n=(300, 5000), focus={'join', 'entityAdd', 'compAdd', 'action', 'assetAdd'},
                    extra=['conc_explore', 'wire_harness'], tools=['drive', 'extract', 'wire'],
                    gen_args=['-flags', '-'],
                    topics=slice_of(ALL_TOPICS + ['disconnect'], outs=RELAYS | {'sessionState', 'vikjaState', 'odalState', 'compAddBcast', 'compDeleteBcast', 'compUpdateBcast'}))

PROPS['C08'] = dict(modules=['Hagall.Props.C08'], profiles=['malformed', 'mixed', 'module', 'latency'], n=(160, 3000), focus=None,
                    tools=['drive', 'extract', 'wire', 'grid', 'receipts', 'receipts-nocgo'], extra=['wire_harness', 'conc_explore', 'grid_harness', 'receipts_harness'],
                    topics=slice_of(ALL_TOPICS + ['disconnect'], kinds=['outcome', 'state', 'gauge'], pred=lambda d: d.get('kind') != 'delivery'),
                    trusted=['go/cmd/wire (wire-level scenarios, end-state observers)', 'timing: scenario time limits are generous multiples of the configured idle timeout'])

PROPS['C09'] = dict(modules=['Hagall.Props.C09'], profiles=['mixed'], n=(40, 400), focus=None,
                    tools=['drive', 'extract', 'wire-race'], extra=['race_harness', 'conc_explore'], topics=slice_of([], kinds=[]),
                    trusted=['the Go race detector (happens-before, dynamic: reports only races that the executions exhibit)',
                             'go/cmd/wire scenario concurrent (randomised real-thread executions, completion watchdog)'])

# every property's obligations include the facts it rests on (regenerated from the source on every run)
ABS = {'C14': ['Hagall.Gen.AbsCustom'], 'C17': ['Hagall.Gen.AbsFlags'], 'C04': ['Hagall.Gen.AbsDispatch'],
       'C18': ['Hagall.Gen.AbsLatency'], 'C19': ['Hagall.Gen.AbsChans'], 'C08': ['Hagall.Gen.AbsChans', 'Hagall.Gen.AbsDispatch', 'Hagall.Gen.AbsLife'],
       # what the concurrent models assume of the order of calls and of the locks held, computed on the regenerated facts
       **{p: ['Hagall.Gen.AbsOrder'] for p in ('C01', 'C02', 'C03', 'C05', 'C07', 'C10', 'C12', 'C13', 'C16')}}
for _p, _c in PROPS.items():
    _c['modules'] = _c['modules'] + [f'Hagall.Gen.Ob{_p}'] + ABS.get(_p, [])
    _c.setdefault('tools', ['drive', 'extract'])
