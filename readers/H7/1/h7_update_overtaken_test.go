// websocket/h7_update_overtaken_test.go
//
// C01: an update that waits for the frame (EntityComponentUpdate, EntityUpdatePose) is overtaken by the
// requests the SAME connection sends after it. The server handles them in another order than they were
// sent: when the later requests delete and re-add the component (or add the entity the update names),
// the old update is applied on top of the newer value. The server, the other participants and every
// newcomer end with the old value; the sender, whose last acknowledged write was the new value, is never
// told: its view differs from the server's state for ever.
package websocket

import (
	"testing"
	"time"

	"github.com/aukilabs/hagall-common/messages/hagallpb"
	hwebsocket "github.com/aukilabs/hagall-common/websocket"
	"github.com/stretchr/testify/require"
	"golang.org/x/net/websocket"
	"google.golang.org/protobuf/types/known/timestamppb"
)

func h7send(t *testing.T, c *websocket.Conn, m hwebsocket.ProtoMsg) {
	msg, err := hwebsocket.MsgFromProto(m)
	require.NoError(t, err)
	_, err = hwebsocket.Send(c, msg)
	require.NoError(t, err)
}

// h7recv reads messages until one of the given type (and request id, when not 0) arrives.
func h7recv(t *testing.T, c *websocket.Conn, typ hagallpb.MsgType, rid uint32, into hwebsocket.ProtoMsg) {
	c.SetReadDeadline(time.Now().Add(30 * time.Second))
	for {
		msg, _, err := hwebsocket.Receive(c)
		require.NoError(t, err, "waiting for %v (request %d)", typ, rid)
		var generic hagallpb.Response
		_ = msg.DataTo(&generic)
		if rid != 0 && generic.RequestId == rid && msg.Type.Number() == 0 {
			var e hagallpb.ErrorResponse
			_ = msg.DataTo(&e)
			t.Fatalf("request %d refused: %v", rid, e.Code)
		}
		if msg.Type.Number() != typ.Number() || (rid != 0 && generic.RequestId != rid) {
			continue
		}
		require.NoError(t, msg.DataTo(into))
		return
	}
}

func h7join(t *testing.T, c *websocket.Conn, rid uint32, sid string) (string, *hagallpb.SessionState) {
	h7send(t, c, &hagallpb.ParticipantJoinRequest{Type: hagallpb.MsgType_MSG_TYPE_PARTICIPANT_JOIN_REQUEST, Timestamp: timestamppb.Now(), RequestId: rid, SessionId: sid})
	var res hagallpb.ParticipantJoinResponse
	h7recv(t, c, hagallpb.MsgType_MSG_TYPE_PARTICIPANT_JOIN_RESPONSE, rid, &res)
	var st hagallpb.SessionState
	h7recv(t, c, hagallpb.MsgType_MSG_TYPE_SESSION_STATE, 0, &st)
	return res.SessionId, &st
}

func h7list(t *testing.T, c *websocket.Conn, rid, typ uint32) map[uint32]string {
	h7send(t, c, &hagallpb.EntityComponentListRequest{Type: hagallpb.MsgType_MSG_TYPE_ENTITY_COMPONENT_LIST_REQUEST, Timestamp: timestamppb.Now(), RequestId: rid, EntityComponentTypeId: typ})
	var res hagallpb.EntityComponentListResponse
	h7recv(t, c, hagallpb.MsgType_MSG_TYPE_ENTITY_COMPONENT_LIST_RESPONSE, rid, &res)
	out := map[uint32]string{}
	for _, ec := range res.EntityComponents {
		out[ec.EntityId] = string(ec.Data)
	}
	return out
}

// A component is updated, then deleted and added again with a new value, all within one frame.
func TestH7ComponentUpdateOvertakenByDeleteAndAdd(t *testing.T) {
	clientA, clientB, close := NewTestingEnv(t, newTestHandler())
	defer close()

	sid, _ := h7join(t, clientA, 1, "")
	h7join(t, clientB, 2, sid)

	h7send(t, clientA, &hagallpb.EntityComponentTypeAddRequest{Type: hagallpb.MsgType_MSG_TYPE_ENTITY_COMPONENT_TYPE_ADD_REQUEST, Timestamp: timestamppb.Now(), RequestId: 3, EntityComponentTypeName: "colour"})
	var typeRes hagallpb.EntityComponentTypeAddResponse
	h7recv(t, clientA, hagallpb.MsgType_MSG_TYPE_ENTITY_COMPONENT_TYPE_ADD_RESPONSE, 3, &typeRes)
	typ := typeRes.EntityComponentTypeId

	for i, c := range []*websocket.Conn{clientA, clientB} {
		rid := uint32(4 + i)
		h7send(t, c, &hagallpb.EntityComponentTypeSubscribeRequest{Type: hagallpb.MsgType_MSG_TYPE_ENTITY_COMPONENT_TYPE_SUBSCRIBE_REQUEST, Timestamp: timestamppb.Now(), RequestId: rid, EntityComponentTypeId: typ})
		var res hagallpb.EntityComponentTypeSubscribeResponse
		h7recv(t, c, hagallpb.MsgType_MSG_TYPE_ENTITY_COMPONENT_TYPE_SUBSCRIBE_RESPONSE, rid, &res)
	}

	h7send(t, clientA, &hagallpb.EntityAddRequest{Type: hagallpb.MsgType_MSG_TYPE_ENTITY_ADD_REQUEST, Timestamp: timestamppb.Now(), RequestId: 6})
	var entRes hagallpb.EntityAddResponse
	h7recv(t, clientA, hagallpb.MsgType_MSG_TYPE_ENTITY_ADD_RESPONSE, 6, &entRes)
	entity := entRes.EntityId

	h7send(t, clientA, &hagallpb.EntityComponentAddRequest{Type: hagallpb.MsgType_MSG_TYPE_ENTITY_COMPONENT_ADD_REQUEST, Timestamp: timestamppb.Now(), RequestId: 7, EntityComponentTypeId: typ, EntityId: entity, Data: []byte("red")})
	var addRes hagallpb.EntityComponentAddResponse
	h7recv(t, clientA, hagallpb.MsgType_MSG_TYPE_ENTITY_COMPONENT_ADD_RESPONSE, 7, &addRes)

	// let a frame pass, then: update to "green", delete, add again as "blue" - in this order, back to back
	time.Sleep(120 * time.Millisecond)
	h7send(t, clientA, &hagallpb.EntityComponentUpdate{Type: hagallpb.MsgType_MSG_TYPE_ENTITY_COMPONENT_UPDATE, Timestamp: timestamppb.Now(), EntityComponentTypeId: typ, EntityId: entity, Data: []byte("green")})
	h7send(t, clientA, &hagallpb.EntityComponentDeleteRequest{Type: hagallpb.MsgType_MSG_TYPE_ENTITY_COMPONENT_DELETE_REQUEST, Timestamp: timestamppb.Now(), RequestId: 8, EntityComponentTypeId: typ, EntityId: entity})
	h7send(t, clientA, &hagallpb.EntityComponentAddRequest{Type: hagallpb.MsgType_MSG_TYPE_ENTITY_COMPONENT_ADD_REQUEST, Timestamp: timestamppb.Now(), RequestId: 9, EntityComponentTypeId: typ, EntityId: entity, Data: []byte("blue")})
	var delRes hagallpb.EntityComponentDeleteResponse
	h7recv(t, clientA, hagallpb.MsgType_MSG_TYPE_ENTITY_COMPONENT_DELETE_RESPONSE, 8, &delRes)
	h7recv(t, clientA, hagallpb.MsgType_MSG_TYPE_ENTITY_COMPONENT_ADD_RESPONSE, 9, &addRes)

	// The last thing A wrote, and the server accepted, is "blue". Several frames later:
	time.Sleep(400 * time.Millisecond)
	got := h7list(t, clientA, 10, typ)
	require.Equal(t, "blue", got[entity],
		"A updated the component to green, then deleted it and added it as blue (accepted); the server holds %q: the update was handled after the requests sent after it", got[entity])
}

// An update names a component that does not exist yet (it is dropped when handled in order); the
// component is added right after.
func TestH7ComponentUpdateOvertakenByAdd(t *testing.T) {
	clientA, _, close := NewTestingEnv(t, newTestHandler())
	defer close()

	h7join(t, clientA, 1, "")
	h7send(t, clientA, &hagallpb.EntityComponentTypeAddRequest{Type: hagallpb.MsgType_MSG_TYPE_ENTITY_COMPONENT_TYPE_ADD_REQUEST, Timestamp: timestamppb.Now(), RequestId: 3, EntityComponentTypeName: "colour"})
	var typeRes hagallpb.EntityComponentTypeAddResponse
	h7recv(t, clientA, hagallpb.MsgType_MSG_TYPE_ENTITY_COMPONENT_TYPE_ADD_RESPONSE, 3, &typeRes)
	typ := typeRes.EntityComponentTypeId
	h7send(t, clientA, &hagallpb.EntityComponentTypeSubscribeRequest{Type: hagallpb.MsgType_MSG_TYPE_ENTITY_COMPONENT_TYPE_SUBSCRIBE_REQUEST, Timestamp: timestamppb.Now(), RequestId: 4, EntityComponentTypeId: typ})
	var subRes hagallpb.EntityComponentTypeSubscribeResponse
	h7recv(t, clientA, hagallpb.MsgType_MSG_TYPE_ENTITY_COMPONENT_TYPE_SUBSCRIBE_RESPONSE, 4, &subRes)
	h7send(t, clientA, &hagallpb.EntityAddRequest{Type: hagallpb.MsgType_MSG_TYPE_ENTITY_ADD_REQUEST, Timestamp: timestamppb.Now(), RequestId: 6})
	var entRes hagallpb.EntityAddResponse
	h7recv(t, clientA, hagallpb.MsgType_MSG_TYPE_ENTITY_ADD_RESPONSE, 6, &entRes)
	entity := entRes.EntityId

	time.Sleep(120 * time.Millisecond)
	h7send(t, clientA, &hagallpb.EntityComponentUpdate{Type: hagallpb.MsgType_MSG_TYPE_ENTITY_COMPONENT_UPDATE, Timestamp: timestamppb.Now(), EntityComponentTypeId: typ, EntityId: entity, Data: []byte("stale")})
	h7send(t, clientA, &hagallpb.EntityComponentAddRequest{Type: hagallpb.MsgType_MSG_TYPE_ENTITY_COMPONENT_ADD_REQUEST, Timestamp: timestamppb.Now(), RequestId: 9, EntityComponentTypeId: typ, EntityId: entity, Data: []byte("fresh")})
	var addRes hagallpb.EntityComponentAddResponse
	h7recv(t, clientA, hagallpb.MsgType_MSG_TYPE_ENTITY_COMPONENT_ADD_RESPONSE, 9, &addRes)

	time.Sleep(400 * time.Millisecond)
	got := h7list(t, clientA, 10, typ)
	require.Equal(t, "fresh", got[entity],
		"the update was sent before the component existed and the component was then added as fresh (accepted); the server holds %q", got[entity])
}

// A pose update names an entity that does not exist yet (it is dropped when handled in order); the
// entity is added right after and gets that very id.
func TestH7PoseUpdateOvertakenByEntityAdd(t *testing.T) {
	clientA, clientB, close := NewTestingEnv(t, newTestHandler())
	defer close()

	sid, _ := h7join(t, clientA, 1, "")
	h7send(t, clientA, &hagallpb.EntityAddRequest{Type: hagallpb.MsgType_MSG_TYPE_ENTITY_ADD_REQUEST, Timestamp: timestamppb.Now(), RequestId: 2})
	var entRes hagallpb.EntityAddResponse
	h7recv(t, clientA, hagallpb.MsgType_MSG_TYPE_ENTITY_ADD_RESPONSE, 2, &entRes)
	next := entRes.EntityId + 1

	time.Sleep(120 * time.Millisecond)
	h7send(t, clientA, &hagallpb.EntityUpdatePose{Type: hagallpb.MsgType_MSG_TYPE_ENTITY_UPDATE_POSE, Timestamp: timestamppb.Now(), EntityId: next, Pose: &hagallpb.Pose{Px: 111}})
	h7send(t, clientA, &hagallpb.EntityAddRequest{Type: hagallpb.MsgType_MSG_TYPE_ENTITY_ADD_REQUEST, Timestamp: timestamppb.Now(), RequestId: 3, Pose: &hagallpb.Pose{Px: 7}})
	h7recv(t, clientA, hagallpb.MsgType_MSG_TYPE_ENTITY_ADD_RESPONSE, 3, &entRes)
	require.Equal(t, next, entRes.EntityId)

	time.Sleep(400 * time.Millisecond)
	_, st := h7join(t, clientB, 4, sid)
	for _, e := range st.Entities {
		if e.Id == next {
			require.Equal(t, float32(7), e.Pose.Px,
				"entity %d was added at x=7 after a pose update that named no existing entity; a newcomer is handed x=%v", next, e.Pose.Px)
		}
	}
}
