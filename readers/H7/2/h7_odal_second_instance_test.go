// websocket/h7_odal_second_instance_test.go
//
// C01 (asset instances): the owner of an entity adds a second asset instance to it. The server keeps one
// instance per entity and silently drops the first one; the members were relayed two additions of two
// distinct instances (ids 1 and 2) and are never told that instance 1 is gone, while a newcomer is
// handed instance 2 only.
package websocket

import (
	"testing"
	"time"

	"github.com/aukilabs/hagall-common/messages/hagallpb"
	"github.com/aukilabs/hagall-common/messages/odalpb"
	hwebsocket "github.com/aukilabs/hagall-common/websocket"
	"github.com/stretchr/testify/require"
	"golang.org/x/net/websocket"
	"google.golang.org/protobuf/types/known/timestamppb"
)

func TestH7OdalSecondInstanceOnSameEntity(t *testing.T) {
	clientA, clientB, close := NewTestingEnv(t, newTestHandler(newOdalTestModule))
	defer close()

	sid, _ := h7oJoin(t, clientA, 1, "")
	h7oJoin(t, clientB, 2, sid)

	h7oSend(t, clientA, &hagallpb.EntityAddRequest{Type: hagallpb.MsgType_MSG_TYPE_ENTITY_ADD_REQUEST, Timestamp: timestamppb.Now(), RequestId: 3})
	var entRes hagallpb.EntityAddResponse
	h7oRecv(t, clientA, hagallpb.MsgType_MSG_TYPE_ENTITY_ADD_RESPONSE, 3, &entRes)

	// what B holds: the asset instances it was relayed, by instance id
	viewB := map[uint32]*odalpb.AssetInstance{}
	for i, asset := range []string{"sword", "shield"} {
		rid := uint32(4 + i)
		h7oSend(t, clientA, &odalpb.AssetInstanceAddRequest{Type: odalpb.MsgType_MSG_TYPE_ODAL_ASSET_INSTANCE_ADD_REQUEST, Timestamp: timestamppb.Now(), RequestId: rid, EntityId: entRes.EntityId, AssetId: asset})
		var res odalpb.AssetInstanceAddResponse
		h7oRecv(t, clientA, hagallpb.MsgType(odalpb.MsgType_MSG_TYPE_ODAL_ASSET_INSTANCE_ADD_RESPONSE), rid, &res)
		var bc odalpb.AssetInstanceAddBroadcast
		h7oRecv(t, clientB, hagallpb.MsgType(odalpb.MsgType_MSG_TYPE_ODAL_ASSET_INSTANCE_ADD_BROADCAST), 0, &bc)
		_, dup := viewB[bc.AssetInstance.Id]
		require.False(t, dup)
		viewB[bc.AssetInstance.Id] = bc.AssetInstance
	}

	// a newcomer, at this quiescent moment
	server := h7oDial(t, clientA)
	defer server.Close()
	h7oSend(t, server, &hagallpb.ParticipantJoinRequest{Type: hagallpb.MsgType_MSG_TYPE_PARTICIPANT_JOIN_REQUEST, Timestamp: timestamppb.Now(), RequestId: 9, SessionId: sid})
	var st odalpb.State
	h7oRecv(t, server, hagallpb.MsgType(odalpb.MsgType_MSG_TYPE_ODAL_STATE), 0, &st)

	newcomer := map[uint32]bool{}
	for _, ai := range st.AssetInstances {
		newcomer[ai.Id] = true
	}
	held := map[uint32]bool{}
	for id := range viewB {
		held[id] = true
	}
	require.Equal(t, newcomer, held,
		"B was relayed the additions of instances %v and nothing else; a newcomer is handed %v", held, newcomer)
}

// h7oDial opens one more connection to the server the given connection is connected to.
func h7oDial(t *testing.T, like *websocket.Conn) *websocket.Conn {
	cfg := *like.Config()
	conn, err := websocket.DialConfig(&cfg)
	require.NoError(t, err)
	return conn
}

func h7oSend(t *testing.T, c *websocket.Conn, m hwebsocket.ProtoMsg) {
	msg, err := hwebsocket.MsgFromProto(m)
	require.NoError(t, err)
	_, err = hwebsocket.Send(c, msg)
	require.NoError(t, err)
}

// h7oRecv reads messages until one of the given type (and request id, when not 0) arrives.
func h7oRecv(t *testing.T, c *websocket.Conn, typ hagallpb.MsgType, rid uint32, into hwebsocket.ProtoMsg) {
	c.SetReadDeadline(time.Now().Add(30 * time.Second))
	for {
		msg, _, err := hwebsocket.Receive(c)
		require.NoError(t, err, "waiting for %v (request %d)", typ, rid)
		var generic hagallpb.Response
		_ = msg.DataTo(&generic)
		if msg.Type.Number() != typ.Number() || (rid != 0 && generic.RequestId != rid) {
			continue
		}
		require.NoError(t, msg.DataTo(into))
		return
	}
}

func h7oJoin(t *testing.T, c *websocket.Conn, rid uint32, sid string) (string, *hagallpb.SessionState) {
	h7oSend(t, c, &hagallpb.ParticipantJoinRequest{Type: hagallpb.MsgType_MSG_TYPE_PARTICIPANT_JOIN_REQUEST, Timestamp: timestamppb.Now(), RequestId: rid, SessionId: sid})
	var res hagallpb.ParticipantJoinResponse
	h7oRecv(t, c, hagallpb.MsgType_MSG_TYPE_PARTICIPANT_JOIN_RESPONSE, rid, &res)
	var st hagallpb.SessionState
	h7oRecv(t, c, hagallpb.MsgType_MSG_TYPE_SESSION_STATE, 0, &st)
	return res.SessionId, &st
}
