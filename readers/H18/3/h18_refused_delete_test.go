// intended path: websocket/h18_refused_delete_test.go (self-contained)
package websocket

import (
	"context"
	"runtime"
	"sync"
	"sync/atomic"
	"testing"
	"time"

	"github.com/aukilabs/go-tooling/pkg/logs"
	"github.com/aukilabs/hagall-common/messages/hagallpb"
	"github.com/aukilabs/hagall-common/messages/odalpb"
	"github.com/aukilabs/hagall-common/messages/vikjapb"
	hwebsocket "github.com/aukilabs/hagall-common/websocket"
	"github.com/aukilabs/hagall/models"
	"github.com/aukilabs/hagall/modules"
	"github.com/aukilabs/hagall/modules/dagaz"
	"github.com/aukilabs/hagall/modules/odal"
	"github.com/aukilabs/hagall/modules/vikja"
	"google.golang.org/protobuf/types/known/timestamppb"
)

// h18Conn is a connection of the server without its socket: the messages go
// through handler.handleMessage (the request handler, then every module) in
// the goroutine of the connection, the answers are kept.
type h18Conn struct {
	h     *handler
	mu    sync.Mutex
	types map[int32]int
	last  map[int32]hwebsocket.Msg
}

func newH18Conn(store *models.SessionStore) *h18Conn {
	c := &h18Conn{types: map[int32]int{}, last: map[int32]hwebsocket.Msg{}}
	c.h = &handler{Handler: &RealtimeHandler{
		ClientSyncClockInterval: time.Hour,
		ClientIdleTimeout:       time.Hour,
		FrameDuration:           time.Hour,
		Sessions:                store,
		Modules:                 []modules.Module{&vikja.Module{}, &odal.Module{}, &dagaz.Module{}},
	}}
	return c
}

func (c *h18Conn) Send(m hwebsocket.ProtoMsg) {
	msg, err := hwebsocket.MsgFromProto(m)
	if err == nil {
		c.SendMsg(msg)
	}
}

func (c *h18Conn) SendMsg(m hwebsocket.Msg) {
	c.mu.Lock()
	c.types[int32(m.Type.Number())]++
	c.last[int32(m.Type.Number())] = m
	c.mu.Unlock()
}

func (c *h18Conn) handle(t *testing.T, m hwebsocket.ProtoMsg) {
	msg, err := hwebsocket.MsgFromProto(m)
	if err != nil {
		t.Fatal(err)
	}
	if err := c.h.handleMessage(context.Background(), msg, c); err != nil {
		t.Errorf("handling: %v", err)
	}
}

func (c *h18Conn) join(t *testing.T, sid string) string {
	c.handle(t, &hagallpb.ParticipantJoinRequest{Type: hagallpb.MsgType_MSG_TYPE_PARTICIPANT_JOIN_REQUEST, Timestamp: timestamppb.Now(), SessionId: sid})
	var r hagallpb.ParticipantJoinResponse
	c.mu.Lock()
	m, ok := c.last[int32(hagallpb.MsgType_MSG_TYPE_PARTICIPANT_JOIN_RESPONSE)]
	c.mu.Unlock()
	if !ok {
		t.Fatal("join refused")
	}
	m.DataTo(&r)
	return r.SessionId
}

// The owner of a session creates entities and attaches an asset instance to
// each. The other participants keep asking for the deletion of the entity that
// comes next (entity ids are sequential): every one of these requests is
// refused, with NOT_FOUND before the entity exists and UNAUTHORIZED after.
// A newcomer must be handed the asset instance of every entity.
func TestH18RefusedEntityDeleteRemovesAssetInstance(t *testing.T) {
	logs.SetLogger(func(e logs.Entry) {})
	store := &models.SessionStore{DiscoveryService: &testClient{}}

	owner := newH18Conn(store)
	sid := owner.join(t, "")

	const others = 16
	var next atomic.Uint32
	next.Store(1)
	var stop atomic.Bool
	var wg sync.WaitGroup
	var iters [others]atomic.Uint64
	var granted atomic.Uint64
	for i := 0; i < others; i++ {
		c := newH18Conn(store)
		c.join(t, sid)
		wg.Add(1)
		go func(i int) {
			defer wg.Done()
			for !stop.Load() {
				c.handle(t, &hagallpb.EntityDeleteRequest{Type: hagallpb.MsgType_MSG_TYPE_ENTITY_DELETE_REQUEST, Timestamp: timestamppb.Now(), RequestId: 5, EntityId: next.Load()})
				iters[i].Add(1)
			}
			c.mu.Lock()
			granted.Add(uint64(c.types[int32(hagallpb.MsgType_MSG_TYPE_ENTITY_DELETE_RESPONSE)]))
			c.mu.Unlock()
		}(i)
	}

	trials, lost := 0, 0
	deadline := time.Now().Add(20 * time.Second)
	for time.Now().Before(deadline) && lost == 0 {
		trials++
		e := next.Load()
		owner.handle(t, &hagallpb.EntityAddRequest{Type: hagallpb.MsgType_MSG_TYPE_ENTITY_ADD_REQUEST, Timestamp: timestamppb.Now(), RequestId: 1})
		owner.handle(t, &odalpb.AssetInstanceAddRequest{Type: odalpb.MsgType_MSG_TYPE_ODAL_ASSET_INSTANCE_ADD_REQUEST, Timestamp: timestamppb.Now(), RequestId: 2, EntityId: e, AssetId: "a"})
		owner.mu.Lock()
		added := owner.types[int32(odalpb.MsgType_MSG_TYPE_ODAL_ASSET_INSTANCE_ADD_RESPONSE)]
		owner.mu.Unlock()
		if added != trials {
			t.Fatalf("trial %d: asset instance not accepted", trials)
		}
		next.Store(e + 1)

		// every request for e that was being handled has been answered
		var snap [others]uint64
		for i := range snap {
			snap[i] = iters[i].Load()
		}
		for i := range snap {
			for iters[i].Load() < snap[i]+1 {
				runtime.Gosched()
			}
		}

		n := newH18Conn(store)
		n.join(t, sid)
		var st odalpb.State
		n.mu.Lock()
		m := n.last[int32(odalpb.MsgType_MSG_TYPE_ODAL_STATE)]
		n.mu.Unlock()
		m.DataTo(&st)
		n.h.Handler.HandleDisconnect(nil)
		if len(st.AssetInstances) != trials {
			lost++
			t.Errorf("trial %d: %d entities with an asset instance each, all deletion requests refused, the newcomer is handed %d asset instances", trials, trials, len(st.AssetInstances))
		}
	}
	stop.Store(true)
	wg.Wait()
	if granted.Load() != 0 {
		t.Fatalf("%d deletion requests of non-owners were granted", granted.Load())
	}
	t.Logf("%d trials", trials)
}

// Same as TestH18RefusedEntityDeleteRemovesAssetInstance for the entity
// actions of vikja.
func TestH18RefusedEntityDeleteRemovesEntityAction(t *testing.T) {
	logs.SetLogger(func(e logs.Entry) {})
	store := &models.SessionStore{DiscoveryService: &testClient{}}

	owner := newH18Conn(store)
	sid := owner.join(t, "")

	const others = 16
	var next atomic.Uint32
	next.Store(1)
	var stop atomic.Bool
	var wg sync.WaitGroup
	var iters [others]atomic.Uint64
	var granted atomic.Uint64
	for i := 0; i < others; i++ {
		c := newH18Conn(store)
		c.join(t, sid)
		wg.Add(1)
		go func(i int) {
			defer wg.Done()
			for !stop.Load() {
				c.handle(t, &hagallpb.EntityDeleteRequest{Type: hagallpb.MsgType_MSG_TYPE_ENTITY_DELETE_REQUEST, Timestamp: timestamppb.Now(), RequestId: 5, EntityId: next.Load()})
				iters[i].Add(1)
			}
			c.mu.Lock()
			granted.Add(uint64(c.types[int32(hagallpb.MsgType_MSG_TYPE_ENTITY_DELETE_RESPONSE)]))
			c.mu.Unlock()
		}(i)
	}

	trials, lost := 0, 0
	deadline := time.Now().Add(20 * time.Second)
	for time.Now().Before(deadline) && lost == 0 {
		trials++
		e := next.Load()
		owner.handle(t, &hagallpb.EntityAddRequest{Type: hagallpb.MsgType_MSG_TYPE_ENTITY_ADD_REQUEST, Timestamp: timestamppb.Now(), RequestId: 1})
		owner.handle(t, &vikjapb.EntityActionRequest{Type: vikjapb.MsgType_MSG_TYPE_VIKJA_ENTITY_ACTION_REQUEST, Timestamp: timestamppb.Now(), RequestId: 2,
			EntityAction: &vikjapb.EntityAction{EntityId: e, Name: "n", Timestamp: timestamppb.Now(), Data: []byte("d")}})
		owner.mu.Lock()
		added := owner.types[int32(vikjapb.MsgType_MSG_TYPE_VIKJA_ENTITY_ACTION_RESPONSE)]
		owner.mu.Unlock()
		if added != trials {
			t.Fatalf("trial %d: entity action not accepted", trials)
		}
		next.Store(e + 1)

		var snap [others]uint64
		for i := range snap {
			snap[i] = iters[i].Load()
		}
		for i := range snap {
			for iters[i].Load() < snap[i]+1 {
				runtime.Gosched()
			}
		}

		n := newH18Conn(store)
		n.join(t, sid)
		var st vikjapb.State
		n.mu.Lock()
		m := n.last[int32(vikjapb.MsgType_MSG_TYPE_VIKJA_STATE)]
		n.mu.Unlock()
		m.DataTo(&st)
		n.h.Handler.HandleDisconnect(nil)
		if len(st.EntityActions) != trials {
			lost++
			t.Errorf("trial %d: %d entities with an action each, all deletion requests refused, the newcomer is handed %d actions", trials, trials, len(st.EntityActions))
		}
	}
	stop.Store(true)
	wg.Wait()
	if granted.Load() != 0 {
		t.Fatalf("%d deletion requests of non-owners were granted", granted.Load())
	}
	t.Logf("%d trials", trials)
}
