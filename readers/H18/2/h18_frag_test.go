// intended path: websocket/h18_frag_test.go (needs websocket/h18_helpers_test.go)
package websocket

import (
	"bufio"
	"bytes"
	"encoding/binary"
	"fmt"
	"net"
	"net/http"
	"strings"
	"testing"
	"time"

	"github.com/aukilabs/hagall-common/messages/hagallpb"
	"google.golang.org/protobuf/proto"
	"google.golang.org/protobuf/types/known/timestamppb"
)

// rawWS is a minimal RFC 6455 client that can send one message in several frames.
type rawWS struct {
	c net.Conn
	r *bufio.Reader
}

func dialRawWS(t *testing.T, url string) *rawWS {
	host := strings.TrimPrefix(url, "http://")
	c, err := net.Dial("tcp", host)
	if err != nil {
		t.Fatal(err)
	}
	fmt.Fprintf(c, "GET / HTTP/1.1\r\nHost: %s\r\nUpgrade: websocket\r\nConnection: Upgrade\r\nSec-WebSocket-Key: dGhlIHNhbXBsZSBub25jZQ==\r\nSec-WebSocket-Version: 13\r\nOrigin: http://localhost\r\n\r\n", host)
	r := bufio.NewReader(c)
	res, err := http.ReadResponse(r, nil)
	if err != nil || res.StatusCode != 101 {
		t.Fatalf("handshake: %v %v", err, res)
	}
	return &rawWS{c: c, r: r}
}

// frame writes one masked frame.
func (w *rawWS) frame(fin bool, opcode byte, payload []byte) {
	var b bytes.Buffer
	h := opcode
	if fin {
		h |= 0x80
	}
	b.WriteByte(h)
	switch {
	case len(payload) < 126:
		b.WriteByte(0x80 | byte(len(payload)))
	case len(payload) < 65536:
		b.WriteByte(0x80 | 126)
		binary.Write(&b, binary.BigEndian, uint16(len(payload)))
	default:
		b.WriteByte(0x80 | 127)
		binary.Write(&b, binary.BigEndian, uint64(len(payload)))
	}
	mask := []byte{1, 2, 3, 4}
	b.Write(mask)
	for i, x := range payload {
		b.WriteByte(x ^ mask[i%4])
	}
	w.c.Write(b.Bytes())
}

// message sends payload as one binary message cut into the given number of frames.
func (w *rawWS) message(payload []byte, cuts ...int) {
	prev := 0
	op := byte(2)
	for _, cut := range cuts {
		w.frame(false, op, payload[prev:cut])
		op = 0
		prev = cut
	}
	w.frame(true, op, payload[prev:])
}

// A custom message whose WebSocket message is sent in two frames (RFC 6455
// section 5.4: any message may be fragmented, by the client or by an
// intermediary) must reach the other participant with its body unchanged.
func TestH18FragmentedCustomMessage(t *testing.T) {
	s := newH18Server(t, 15*time.Millisecond)
	defer s.Close()

	b := s.dial()
	sid, _ := b.join("")

	a := dialRawWS(t, s.srv.URL)
	defer a.c.Close()
	join, _ := proto.Marshal(&hagallpb.ParticipantJoinRequest{Type: hagallpb.MsgType_MSG_TYPE_PARTICIPANT_JOIN_REQUEST, Timestamp: timestamppb.Now(), SessionId: sid})
	a.message(join)
	if _, ok := b.next(10*time.Second, int32(hagallpb.MsgType_MSG_TYPE_PARTICIPANT_JOIN_BROADCAST)); !ok {
		t.Fatal("the raw client did not join")
	}

	body := bytes.Repeat([]byte("0123456789"), 100)
	custom, _ := proto.Marshal(&hagallpb.CustomMessage{Type: hagallpb.MsgType_MSG_TYPE_CUSTOM_MESSAGE, Timestamp: timestamppb.Now(), Body: body})

	// control: unfragmented
	a.message(custom)
	m, ok := b.next(10*time.Second, int32(hagallpb.MsgType_MSG_TYPE_CUSTOM_MESSAGE_BROADCAST))
	if !ok {
		t.Fatal("the unfragmented custom message was not delivered")
	}
	var cm hagallpb.CustomMessageBroadcast
	m.DataTo(&cm)
	if !bytes.Equal(cm.Body, body) {
		t.Fatal("control body differs")
	}

	// the same message in two frames
	a.message(custom, len(custom)/2)
	m, ok = b.next(5*time.Second, int32(hagallpb.MsgType_MSG_TYPE_CUSTOM_MESSAGE_BROADCAST), int32(hagallpb.MsgType_MSG_TYPE_PARTICIPANT_LEAVE_BROADCAST))
	if !ok {
		t.Fatal("nothing received")
	}
	if int32(m.Type.Number()) == int32(hagallpb.MsgType_MSG_TYPE_PARTICIPANT_LEAVE_BROADCAST) {
		t.Fatal("the custom message sent in two frames was not delivered: its sender was disconnected instead")
	}
	cm.Reset()
	m.DataTo(&cm)
	if !bytes.Equal(cm.Body, body) {
		t.Fatalf("body of %d bytes delivered as %d bytes", len(body), len(cm.Body))
	}
}

// Cut between two fields, the first frame is a well-formed custom message of
// its own: it is delivered with an empty body.
func TestH18FragmentedCustomMessageCutBetweenFields(t *testing.T) {
	s := newH18Server(t, 15*time.Millisecond)
	defer s.Close()

	b := s.dial()
	sid, _ := b.join("")

	a := dialRawWS(t, s.srv.URL)
	defer a.c.Close()
	join, _ := proto.Marshal(&hagallpb.ParticipantJoinRequest{Type: hagallpb.MsgType_MSG_TYPE_PARTICIPANT_JOIN_REQUEST, Timestamp: timestamppb.Now(), SessionId: sid})
	a.message(join)
	if _, ok := b.next(10*time.Second, int32(hagallpb.MsgType_MSG_TYPE_PARTICIPANT_JOIN_BROADCAST)); !ok {
		t.Fatal("the raw client did not join")
	}

	body := bytes.Repeat([]byte("0123456789"), 100)
	head, _ := proto.Marshal(&hagallpb.CustomMessage{Type: hagallpb.MsgType_MSG_TYPE_CUSTOM_MESSAGE, Timestamp: timestamppb.Now()})
	custom, _ := proto.Marshal(&hagallpb.CustomMessage{Type: hagallpb.MsgType_MSG_TYPE_CUSTOM_MESSAGE, Timestamp: timestamppb.Now(), Body: body})
	_ = head
	// the body is the last field: everything before it is len(custom) - (tag + length + body)
	cut := len(custom) - (1 + 2 + len(body))
	a.message(custom, cut)
	m, ok := b.next(5*time.Second, int32(hagallpb.MsgType_MSG_TYPE_CUSTOM_MESSAGE_BROADCAST), int32(hagallpb.MsgType_MSG_TYPE_PARTICIPANT_LEAVE_BROADCAST))
	if !ok {
		t.Fatal("nothing received")
	}
	if int32(m.Type.Number()) == int32(hagallpb.MsgType_MSG_TYPE_PARTICIPANT_LEAVE_BROADCAST) {
		t.Fatal("not delivered: sender disconnected")
	}
	var cm hagallpb.CustomMessageBroadcast
	m.DataTo(&cm)
	if !bytes.Equal(cm.Body, body) {
		t.Fatalf("body of %d bytes delivered as %d bytes", len(body), len(cm.Body))
	}
}
