// intended path: websocket/h18_helpers_test.go (helpers of the H18 tests: a server on httptest, a client with an inbox)
package websocket

import (
	"context"
	"net/http"
	"net/http/httptest"
	"strings"
	"testing"
	"time"

	"github.com/aukilabs/go-tooling/pkg/logs"
	"github.com/aukilabs/hagall-common/messages/hagallpb"
	hwebsocket "github.com/aukilabs/hagall-common/websocket"
	"github.com/aukilabs/hagall/featureflag"
	"github.com/aukilabs/hagall/models"
	"github.com/aukilabs/hagall/modules"
	"github.com/aukilabs/hagall/modules/dagaz"
	"github.com/aukilabs/hagall/modules/odal"
	"github.com/aukilabs/hagall/modules/vikja"
	"golang.org/x/net/websocket"
	"google.golang.org/protobuf/types/known/timestamppb"
)

type h18Server struct {
	t      *testing.T
	srv    *httptest.Server
	store  *models.SessionStore
	frame  time.Duration
	flags  []string
	closed bool
}

func newH18Server(t *testing.T, frame time.Duration, flags ...string) *h18Server {
	logs.SetLogger(func(e logs.Entry) {})
	s := &h18Server{t: t, store: &models.SessionStore{DiscoveryService: &testClient{}}, frame: frame, flags: flags}
	s.srv = httptest.NewServer(websocket.Server{
		Handshake: func(c *websocket.Config, r *http.Request) error { return nil },
		Handler: func(conn *websocket.Conn) {
			defer conn.Close()
			var h Handler = &RealtimeHandler{
				ClientSyncClockInterval: time.Hour,
				ClientIdleTimeout:       time.Minute,
				FrameDuration:           s.frame,
				Sessions:                s.store,
				Modules:                 []modules.Module{&vikja.Module{}, &odal.Module{}, &dagaz.Module{}},
				FeatureFlags:            featureflag.New(s.flags),
			}
			h = HandlerWithLogs(h, time.Hour)
			h = HandlerWithMetrics(h, "https://auki-test.com")
			defer h.Close()
			Handle(context.Background(), conn, h)
		},
	})
	return s
}

func (s *h18Server) Close() { s.srv.Close() }

type h18Client struct {
	t    *testing.T
	conn *websocket.Conn
	in   chan hwebsocket.Msg
	pid  uint32
	sid  string
}

func (s *h18Server) dial() *h18Client {
	config, err := websocket.NewConfig(strings.ReplaceAll(s.srv.URL, "http://", "ws://"), "http://localhost")
	if err != nil {
		s.t.Fatal(err)
	}
	conn, err := websocket.DialConfig(config)
	if err != nil {
		s.t.Fatal(err)
	}
	c := &h18Client{t: s.t, conn: conn, in: make(chan hwebsocket.Msg, 100000)}
	go func() {
		defer close(c.in)
		for {
			msg, _, err := hwebsocket.Receive(conn)
			if err != nil {
				return
			}
			c.in <- msg
		}
	}()
	return c
}

func (c *h18Client) send(m hwebsocket.ProtoMsg) {
	msg, err := hwebsocket.MsgFromProto(m)
	if err != nil {
		c.t.Fatal(err)
	}
	if _, err := hwebsocket.Send(c.conn, msg); err != nil {
		c.t.Fatalf("send: %v", err)
	}
}

// next returns the next message whose type number is in types (any if empty), within d.
func (c *h18Client) next(d time.Duration, types ...int32) (hwebsocket.Msg, bool) {
	timer := time.NewTimer(d)
	defer timer.Stop()
	for {
		select {
		case m, ok := <-c.in:
			if !ok {
				return hwebsocket.Msg{}, false
			}
			if len(types) == 0 {
				return m, true
			}
			for _, ty := range types {
				if int32(m.Type.Number()) == ty {
					return m, true
				}
			}
		case <-timer.C:
			return hwebsocket.Msg{}, false
		}
	}
}

func (c *h18Client) join(sessionID string) (string, uint32) {
	c.send(&hagallpb.ParticipantJoinRequest{
		Type:      hagallpb.MsgType_MSG_TYPE_PARTICIPANT_JOIN_REQUEST,
		Timestamp: timestamppb.Now(),
		RequestId: 7777,
		SessionId: sessionID,
	})
	m, ok := c.next(10*time.Second, int32(hagallpb.MsgType_MSG_TYPE_PARTICIPANT_JOIN_RESPONSE), int32(hagallpb.MsgType_MSG_TYPE_ERROR_RESPONSE))
	if !ok {
		c.t.Fatal("no join response")
	}
	if m.Type.Number() == 0 {
		return "", 0
	}
	var res hagallpb.ParticipantJoinResponse
	if err := m.DataTo(&res); err != nil {
		c.t.Fatal(err)
	}
	c.pid = res.ParticipantId
	c.sid = res.SessionId
	return res.SessionId, res.ParticipantId
}

// sync waits until the server has handled everything this client sent so far.
func (c *h18Client) sync() {
	c.send(&hagallpb.Request{Type: hagallpb.MsgType_MSG_TYPE_PING_REQUEST, Timestamp: timestamppb.Now(), RequestId: 4242})
	for {
		m, ok := c.next(10*time.Second, int32(hagallpb.MsgType_MSG_TYPE_PING_RESPONSE))
		if !ok {
			c.t.Fatal("no ping response")
		}
		var r hagallpb.Response
		m.DataTo(&r)
		if r.RequestId == 4242 {
			return
		}
	}
}

func (c *h18Client) addEntity(persist bool) uint32 {
	c.send(&hagallpb.EntityAddRequest{Type: hagallpb.MsgType_MSG_TYPE_ENTITY_ADD_REQUEST, Timestamp: timestamppb.Now(), RequestId: 9, Persist: persist,
		Pose: &hagallpb.Pose{Px: 1}})
	m, ok := c.next(10*time.Second, int32(hagallpb.MsgType_MSG_TYPE_ENTITY_ADD_RESPONSE))
	if !ok {
		c.t.Fatal("no entity add response")
	}
	var r hagallpb.EntityAddResponse
	m.DataTo(&r)
	return r.EntityId
}

func (c *h18Client) drain() {
	for {
		select {
		case _, ok := <-c.in:
			if !ok {
				return
			}
		default:
			return
		}
	}
}
