// intended path: websocket/h18_close_test.go (needs websocket/h18_helpers_test.go)
package websocket

import (
	"fmt"
	"testing"
	"time"

	"github.com/aukilabs/hagall-common/messages/hagallpb"
	"google.golang.org/protobuf/types/known/timestamppb"
)

// A participant sends a few custom messages and closes its connection. The
// server has read every one of them before it reads the end of the stream:
// the other participant must get them all, then the leave broadcast.
func TestH18CustomMessagesSentBeforeClosingAreDelivered(t *testing.T) {
	s := newH18Server(t, 15*time.Millisecond)
	defer s.Close()

	b := s.dial()
	sid, _ := b.join("")

	const rounds = 40
	const n = 5
	roundsWithLoss, lost := 0, 0
	for i := 0; i < rounds; i++ {
		a := s.dial()
		a.join(sid)
		a.sync()
		for k := 0; k < n; k++ {
			a.send(&hagallpb.CustomMessage{
				Type:      hagallpb.MsgType_MSG_TYPE_CUSTOM_MESSAGE,
				Timestamp: timestamppb.Now(),
				Body:      []byte(fmt.Sprintf("round %d message %d", i, k)),
			})
		}
		a.conn.Close()

		got := 0
		for {
			m, ok := b.next(20*time.Second,
				int32(hagallpb.MsgType_MSG_TYPE_CUSTOM_MESSAGE_BROADCAST),
				int32(hagallpb.MsgType_MSG_TYPE_PARTICIPANT_LEAVE_BROADCAST))
			if !ok {
				t.Fatal("neither a custom message nor the leave broadcast")
			}
			if int32(m.Type.Number()) == int32(hagallpb.MsgType_MSG_TYPE_PARTICIPANT_LEAVE_BROADCAST) {
				break
			}
			got++
		}
		if got != n {
			roundsWithLoss++
			lost += n - got
		}
	}
	if roundsWithLoss != 0 {
		t.Fatalf("%d of %d custom messages sent by a participant before it closed its connection were delivered to no one (%d of %d rounds)",
			lost, rounds*n, roundsWithLoss, rounds)
	}
}

// Related (not C14): the last pose of a persistent entity, sent before the
// owner closes its connection, waits for the frame in the scheduler and is
// dropped with it: always.
func TestH18PoseSentBeforeClosingIsApplied(t *testing.T) {
	s := newH18Server(t, 15*time.Millisecond)
	defer s.Close()

	b := s.dial()
	sid, _ := b.join("")

	const rounds = 10
	lost := 0
	for i := 0; i < rounds; i++ {
		a := s.dial()
		a.join(sid)
		e := a.addEntity(true)
		a.sync()
		a.send(&hagallpb.EntityUpdatePose{
			Type:      hagallpb.MsgType_MSG_TYPE_ENTITY_UPDATE_POSE,
			Timestamp: timestamppb.Now(),
			EntityId:  e,
			Pose:      &hagallpb.Pose{Px: 42},
		})
		a.conn.Close()

		got := false
		for {
			m, ok := b.next(20*time.Second,
				int32(hagallpb.MsgType_MSG_TYPE_ENTITY_UPDATE_POSE_BROADCAST),
				int32(hagallpb.MsgType_MSG_TYPE_PARTICIPANT_LEAVE_BROADCAST))
			if !ok {
				t.Fatal("neither a pose broadcast nor the leave broadcast")
			}
			if int32(m.Type.Number()) == int32(hagallpb.MsgType_MSG_TYPE_PARTICIPANT_LEAVE_BROADCAST) {
				break
			}
			got = true
		}
		if !got {
			lost++
		}
	}
	if lost != 0 {
		t.Fatalf("the pose update of a persistent entity sent before its owner closed the connection was dropped in %d of %d rounds", lost, rounds)
	}
}
