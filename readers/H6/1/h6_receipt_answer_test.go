// websocket/h6_receipt_answer_test.go
//
// C19: "The submitter always gets exactly one answer - accepted, bad request when a
// field is empty, or too busy when the queue is full".
//
// HandleReceipt queues the BAD_REQUEST / SERVER_TOO_BUSY answer and then returns an
// error; the main loop of websocket.Handle turns a handler error into a disconnection
// and closes the socket before the sender goroutine has written the queued answer.
// On the wire the submitter gets EOF and no answer.
package websocket

import (
	"context"
	"net/http"
	"net/http/httptest"
	"strings"
	"testing"
	"time"

	httpcmn "github.com/aukilabs/hagall-common/http"
	"github.com/aukilabs/hagall-common/messages/hagallpb"
	"github.com/aukilabs/hagall-common/ncsclient"
	hwebsocket "github.com/aukilabs/hagall-common/websocket"
	"github.com/aukilabs/hagall/models"
	"github.com/ethereum/go-ethereum/crypto"
	"github.com/google/uuid"
	"golang.org/x/net/websocket"
	"google.golang.org/protobuf/types/known/timestamppb"
)

func h6send(t *testing.T, c *websocket.Conn, m hwebsocket.ProtoMsg) {
	t.Helper()
	msg, err := hwebsocket.MsgFromProto(m)
	if err != nil {
		t.Fatal(err)
	}
	if _, err := hwebsocket.Send(c, msg); err != nil {
		t.Fatal(err)
	}
}

// h6answer reads until the answer to request reqID arrives. It returns the error code
// of the answer (-1 for a ReceiptResponse) and false when the connection ended (or 10 s
// passed) without any answer.
func h6answer(t *testing.T, c *websocket.Conn, reqID uint32) (int, bool) {
	t.Helper()
	c.SetReadDeadline(time.Now().Add(10 * time.Second))
	for {
		msg, _, err := hwebsocket.Receive(c)
		if err != nil {
			return 0, false
		}
		switch msg.Type {
		case hagallpb.MsgType_MSG_TYPE_ERROR_RESPONSE:
			var e hagallpb.ErrorResponse
			if err := msg.DataTo(&e); err != nil {
				t.Fatal(err)
			}
			if e.RequestId == reqID {
				return int(e.Code), true
			}
		case hagallpb.MsgType_MSG_TYPE_RECEIPT_RESPONSE:
			var r hagallpb.ReceiptResponse
			if err := msg.DataTo(&r); err != nil {
				t.Fatal(err)
			}
			if r.RequestId == reqID {
				return -1, true
			}
		}
	}
}

// h6server runs the real connection loop (websocket.Handle) with the real
// RealtimeHandler and its decorators, as cmd/main.go wires them.
func h6server(t *testing.T, ch chan ncsclient.ReceiptPayload) (dial func() *websocket.Conn, stop func()) {
	sessionStore := &models.SessionStore{DiscoveryService: &testClient{}}
	server := httptest.NewServer(websocket.Server{
		Handshake: func(c *websocket.Config, r *http.Request) error { return nil },
		Handler: func(conn *websocket.Conn) {
			defer conn.Close()
			var h Handler = &RealtimeHandler{
				ClientSyncClockInterval: 5 * time.Second,
				ClientIdleTimeout:       time.Minute,
				FrameDuration:           15 * time.Millisecond,
				Sessions:                sessionStore,
				ReceiptChan:             ch,
			}
			h = HandlerWithLogs(h, time.Minute)
			h = HandlerWithMetrics(h, "https://auki-test.com")
			defer h.Close()
			Handle(context.Background(), conn, h)
		},
	})
	dial = func() *websocket.Conn {
		config, err := websocket.NewConfig(strings.ReplaceAll(server.URL, "http://", "ws://"), "http://localhost")
		if err != nil {
			t.Fatal(err)
		}
		config.Header.Set(httpcmn.HeaderPosemeshClientID, uuid.NewString())
		conn, err := websocket.DialConfig(config)
		if err != nil {
			t.Fatal(err)
		}
		return conn
	}
	return dial, server.Close
}

func h6validReceipt(t *testing.T) (string, []byte, []byte) {
	text := `{"app_id":"a","bytes_sent":1}`
	hash := crypto.Keccak256([]byte(text))
	key, err := crypto.GenerateKey()
	if err != nil {
		t.Fatal(err)
	}
	sig, err := crypto.Sign(hash, key)
	if err != nil {
		t.Fatal(err)
	}
	return text, hash, sig
}

const h6rounds = 20

func TestH6ReceiptEmptyFieldGetsBadRequestAnswer(t *testing.T) {
	ch := make(chan ncsclient.ReceiptPayload, 128)
	dial, stop := h6server(t, ch)
	defer stop()
	text, hash, sig := h6validReceipt(t)

	// sanity: the well-formed receipt is answered (accepted) on the same set-up
	c := dial()
	h6send(t, c, &hagallpb.ReceiptRequest{
		Type: hagallpb.MsgType_MSG_TYPE_RECEIPT_REQUEST, Timestamp: timestamppb.Now(),
		RequestId: 1, Receipt: text, Hash: hash, Signature: sig,
	})
	if code, ok := h6answer(t, c, 1); !ok || code != -1 {
		t.Fatalf("well-formed receipt: answered=%v code=%d", ok, code)
	}
	c.Close()

	missed := 0
	for i := 0; i < h6rounds; i++ {
		c := dial()
		req := &hagallpb.ReceiptRequest{
			Type: hagallpb.MsgType_MSG_TYPE_RECEIPT_REQUEST, Timestamp: timestamppb.Now(),
			RequestId: 7, Receipt: text, Hash: hash, Signature: sig,
		}
		switch i % 3 {
		case 0:
			req.Signature = nil
		case 1:
			req.Hash = nil
		case 2:
			req.Receipt = ""
		}
		h6send(t, c, req)
		code, ok := h6answer(t, c, 7)
		if !ok {
			missed++
		} else if code != int(hagallpb.ErrorCode_ERROR_CODE_BAD_REQUEST) {
			t.Errorf("round %d: answer code %d, want BAD_REQUEST", i, code)
		}
		c.Close()
	}
	if missed > 0 {
		t.Fatalf("%d of %d receipts with an empty field got no answer at all: the connection was closed by the server first", missed, h6rounds)
	}
}

func TestH6ReceiptQueueFullGetsTooBusyAnswer(t *testing.T) {
	ch := make(chan ncsclient.ReceiptPayload, 1)
	ch <- ncsclient.ReceiptPayload{} // the queue is full, nobody drains it (credit service side stuck)
	dial, stop := h6server(t, ch)
	defer stop()
	text, hash, sig := h6validReceipt(t)

	missed := 0
	for i := 0; i < h6rounds; i++ {
		c := dial()
		h6send(t, c, &hagallpb.ReceiptRequest{
			Type: hagallpb.MsgType_MSG_TYPE_RECEIPT_REQUEST, Timestamp: timestamppb.Now(),
			RequestId: 9, Receipt: text, Hash: hash, Signature: sig,
		})
		code, ok := h6answer(t, c, 9)
		if !ok {
			missed++
		} else if code != int(hagallpb.ErrorCode_ERROR_CODE_SERVER_TOO_BUSY) {
			t.Errorf("round %d: answer code %d, want SERVER_TOO_BUSY", i, code)
		}
		c.Close()
	}
	if missed > 0 {
		t.Fatalf("%d of %d receipts submitted to a full queue got no answer at all: the connection was closed by the server first", missed, h6rounds)
	}
}
