// models/h6_latency_mean_test.go
//
// C18: "its statistics are consistent: 0 <= min <= mean <= max".
//
// SignedLatency.OnPing accumulates the mean in a float32.  Once the sum of the
// latencies (in microseconds) passes 2^24 (16.8 s in total: 3 rounds of 5.6 s, or 50
// rounds of 0.34 s) the additions round, and the mean that comes out can lie
// outside [min, max] when the rounds took (nearly) the same time.
//
// The test drives the model exactly as HandleSignedLatency / HandlePingResponse do
// (Start, then OnPing with the id of every ping request the server sent).  The only
// liberty it takes is that, instead of sleeping for the latency, it moves the recorded
// start of the outstanding ping back by that amount (PingRequests is an exported
// field) - what the clock would have shown had the client really answered that late.
package models

import (
	"fmt"
	"testing"
	"time"

	"github.com/aukilabs/hagall-common/messages/hagallpb"
	hwebsocket "github.com/aukilabs/hagall-common/websocket"
	"github.com/ethereum/go-ethereum/crypto"
	"google.golang.org/protobuf/proto"
)

type h6Sender struct {
	pings  []uint32
	signed []*hagallpb.SignedLatencyResponse
}

func (s *h6Sender) Send(m hwebsocket.ProtoMsg) {
	switch v := m.(type) {
	case *hagallpb.Response:
		s.pings = append(s.pings, v.RequestId)
	case *hagallpb.SignedLatencyResponse:
		s.signed = append(s.signed, v)
	}
}
func (s *h6Sender) SendMsg(hwebsocket.Msg) {}

// h6run runs one measurement of n rounds, every ping answered after `latency`, and
// returns the signed data together with the latencies the server measured.
func h6run(t *testing.T, n uint32, latency time.Duration) (*hagallpb.LatencyData, []int64) {
	t.Helper()
	key, err := crypto.GenerateKey()
	if err != nil {
		t.Fatal(err)
	}
	snd := &h6Sender{}
	var s SignedLatency
	s.Start(key, snd, 1, n, "uuid", "client", "0xwallet")
	for i := uint32(0); i < n; i++ {
		id := snd.pings[len(snd.pings)-1]
		d := s.PingRequests[id]
		d.Start = d.Start.Add(-latency)
		s.PingRequests[id] = d
		if err := s.OnPing(id); err != nil {
			t.Fatal(err)
		}
	}
	if len(snd.signed) != 1 || uint32(len(snd.pings)) != n {
		t.Fatalf("signed responses: %d, pings: %d", len(snd.signed), len(snd.pings))
	}
	var data hagallpb.LatencyData
	if err := proto.Unmarshal(snd.signed[0].Data, &data); err != nil {
		t.Fatal(err)
	}
	var measured []int64
	for _, id := range snd.pings {
		d := s.PingRequests[id]
		measured = append(measured, d.End.Sub(d.Start).Microseconds())
	}
	return &data, measured
}

func TestH6LatencyMeanWithinMinMax(t *testing.T) {
	for _, tc := range []struct {
		n       uint32
		latency time.Duration
	}{
		{3, 20000002 * time.Microsecond}, // three rounds of 20 s
		{3, 20000006 * time.Microsecond},
		{3, 6000001 * time.Microsecond},  // three rounds of 6 s
		{50, 1400005 * time.Microsecond}, // fifty rounds of 1.4 s
		{50, 400001 * time.Microsecond},  // fifty rounds of 0.4 s
	} {
		t.Run(fmt.Sprintf("%dx%v", tc.n, tc.latency), func(t *testing.T) {
			bad := 0
			const reps = 40
			for rep := 0; rep < reps; rep++ {
				d, measured := h6run(t, tc.n, tc.latency)
				if !(0 <= d.Min && d.Min <= d.Mean && d.Mean <= d.Max) {
					bad++
					if bad <= 3 {
						t.Errorf("mean %.0f outside [min %.0f, max %.0f]; measured latencies (us): %v",
							d.Mean, d.Min, d.Max, measured)
					}
				}
			}
			if bad > 0 {
				t.Errorf("%d of %d measurements inconsistent", bad, reps)
			}
		})
	}
}
