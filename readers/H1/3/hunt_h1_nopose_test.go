// websocket/hunt_h1_nopose_test.go
//
// copy into the websocket directory of the repository; go test -vet=off -count=1 -run 'TestH1CC' ./websocket
package websocket

import (
	"context"
	"net/http"
	"net/http/httptest"
	"strings"
	"testing"
	"time"

	"github.com/aukilabs/hagall-common/messages/hagallpb"
	hwebsocket "github.com/aukilabs/hagall-common/websocket"
	"github.com/aukilabs/hagall/models"
	"github.com/stretchr/testify/require"
	"golang.org/x/net/websocket"
	"google.golang.org/protobuf/types/known/timestamppb"
)

type h1cEnv struct {
	t      *testing.T
	server *httptest.Server
	store  *models.SessionStore
}

func newH1CEnv(t *testing.T, frame, idle time.Duration) *h1cEnv {
	store := &models.SessionStore{DiscoveryService: &testClient{}}
	e := &h1cEnv{t: t, store: store}
	e.server = httptest.NewServer(websocket.Server{
		Handshake: func(c *websocket.Config, r *http.Request) error { return nil },
		Handler: func(conn *websocket.Conn) {
			defer conn.Close()
			var h Handler = &RealtimeHandler{
				ClientSyncClockInterval: time.Hour,
				ClientIdleTimeout:       idle,
				FrameDuration:           frame,
				Sessions:                store,
			}
			h = HandlerWithLogs(h, time.Hour)
			h = HandlerWithMetrics(h, "https://h1c.test")
			defer h.Close()
			Handle(context.Background(), conn, h)
		},
	})
	t.Cleanup(e.server.Close)
	return e
}

func (e *h1cEnv) dial() *websocket.Conn {
	config, err := websocket.NewConfig(strings.ReplaceAll(e.server.URL, "http://", "ws://"), "http://localhost")
	require.NoError(e.t, err)
	conn, err := websocket.DialConfig(config)
	require.NoError(e.t, err)
	e.t.Cleanup(func() { conn.Close() })
	return conn
}

func h1cSend(t *testing.T, c *websocket.Conn, m hwebsocket.ProtoMsg) {
	msg, err := hwebsocket.MsgFromProto(m)
	require.NoError(t, err)
	_, err = hwebsocket.Send(c, msg)
	require.NoError(t, err)
}

// receives until a message of the given type arrives (others are skipped)
func h1cExpect(t *testing.T, c *websocket.Conn, typ hagallpb.MsgType, into hwebsocket.ProtoMsg, timeout time.Duration) {
	c.SetReadDeadline(time.Now().Add(timeout))
	for {
		msg, _, err := hwebsocket.Receive(c)
		require.NoError(t, err, "waiting for %v", typ)
		if msg.Type == typ {
			if into != nil {
				require.NoError(t, msg.DataTo(into))
			}
			return
		}
	}
}

// An update that carries no pose is dropped without any effect: in particular
// it does not take away the pose update the owner sent just before it.
func TestH1CUpdateWithoutPoseDoesNotCancelThePendingPose(t *testing.T) {
	frame := 50 * time.Millisecond
	e := newH1CEnv(t, frame, time.Minute)

	o := e.dial()
	h1cSend(t, o, &hagallpb.ParticipantJoinRequest{Type: hagallpb.MsgType_MSG_TYPE_PARTICIPANT_JOIN_REQUEST, Timestamp: timestamppb.Now(), RequestId: 1})
	var joinO hagallpb.ParticipantJoinResponse
	h1cExpect(t, o, hagallpb.MsgType_MSG_TYPE_PARTICIPANT_JOIN_RESPONSE, &joinO, 5*time.Second)
	h1cSend(t, o, &hagallpb.EntityAddRequest{Type: hagallpb.MsgType_MSG_TYPE_ENTITY_ADD_REQUEST, Timestamp: timestamppb.Now(), RequestId: 2, Pose: &hagallpb.Pose{Px: 1}})
	var add hagallpb.EntityAddResponse
	h1cExpect(t, o, hagallpb.MsgType_MSG_TYPE_ENTITY_ADD_RESPONSE, &add, 5*time.Second)

	w := e.dial()
	h1cSend(t, w, &hagallpb.ParticipantJoinRequest{Type: hagallpb.MsgType_MSG_TYPE_PARTICIPANT_JOIN_REQUEST, Timestamp: timestamppb.Now(), RequestId: 1, SessionId: joinO.SessionId})
	h1cExpect(t, w, hagallpb.MsgType_MSG_TYPE_SESSION_STATE, nil, 5*time.Second)

	lost := 0
	const rounds = 10
	for round := 1; round <= rounds; round++ {
		// a relay tells that a frame has just ended
		h1cSend(t, o, &hagallpb.EntityUpdatePose{Type: hagallpb.MsgType_MSG_TYPE_ENTITY_UPDATE_POSE, Timestamp: timestamppb.Now(), EntityId: add.EntityId, Pose: &hagallpb.Pose{Px: float32(100 * round)}})
		var bc hagallpb.EntityUpdatePoseBroadcast
		h1cExpect(t, w, hagallpb.MsgType_MSG_TYPE_ENTITY_UPDATE_POSE_BROADCAST, &bc, 5*time.Second)
		require.Equal(t, float32(100*round), bc.Pose.Px)

		// the pose, then an update without one, in the same frame
		want := float32(100*round + 1)
		h1cSend(t, o, &hagallpb.EntityUpdatePose{Type: hagallpb.MsgType_MSG_TYPE_ENTITY_UPDATE_POSE, Timestamp: timestamppb.Now(), EntityId: add.EntityId, Pose: &hagallpb.Pose{Px: want}})
		h1cSend(t, o, &hagallpb.EntityUpdatePose{Type: hagallpb.MsgType_MSG_TYPE_ENTITY_UPDATE_POSE, Timestamp: timestamppb.Now(), EntityId: add.EntityId})

		w.SetReadDeadline(time.Now().Add(10 * frame))
		got := false
		for {
			msg, _, err := hwebsocket.Receive(w)
			if err != nil {
				break
			}
			if msg.Type == hagallpb.MsgType_MSG_TYPE_ENTITY_UPDATE_POSE_BROADCAST {
				require.NoError(t, msg.DataTo(&bc))
				require.Equal(t, want, bc.Pose.Px)
				got = true
				break
			}
		}
		if !got {
			t.Logf("round %d: the pose px=%v was never relayed (10 frames)", round, want)
			lost++
			// the connection of the witness is unusable after a read timeout
			w = e.dial()
			h1cSend(t, w, &hagallpb.ParticipantJoinRequest{Type: hagallpb.MsgType_MSG_TYPE_PARTICIPANT_JOIN_REQUEST, Timestamp: timestamppb.Now(), RequestId: 1, SessionId: joinO.SessionId})
			var st hagallpb.SessionState
			h1cExpect(t, w, hagallpb.MsgType_MSG_TYPE_SESSION_STATE, &st, 5*time.Second)
			require.Len(t, st.Entities, 1)
			t.Logf("round %d: a newcomer is handed px=%v", round, st.Entities[0].Pose.Px)
		}
	}
	require.Zero(t, lost, "pose updates were cancelled by an update that carries no pose (%d of %d rounds)", lost, rounds)
}
