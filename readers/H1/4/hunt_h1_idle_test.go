// websocket/hunt_h1_idle_test.go
//
// copy into the websocket directory of the repository; go test -vet=off -count=1 -run 'TestH1DD' ./websocket
package websocket

import (
	"context"
	"net/http"
	"net/http/httptest"
	"strings"
	"testing"
	"time"

	"github.com/aukilabs/hagall-common/messages/hagallpb"
	hwebsocket "github.com/aukilabs/hagall-common/websocket"
	"github.com/aukilabs/hagall/models"
	"github.com/stretchr/testify/require"
	"golang.org/x/net/websocket"
	"google.golang.org/protobuf/types/known/timestamppb"
)

type h1dEnv struct {
	t      *testing.T
	server *httptest.Server
	store  *models.SessionStore
}

func newH1DEnv(t *testing.T, frame, idle time.Duration) *h1dEnv {
	store := &models.SessionStore{DiscoveryService: &testClient{}}
	e := &h1dEnv{t: t, store: store}
	e.server = httptest.NewServer(websocket.Server{
		Handshake: func(c *websocket.Config, r *http.Request) error { return nil },
		Handler: func(conn *websocket.Conn) {
			defer conn.Close()
			var h Handler = &RealtimeHandler{
				ClientSyncClockInterval: time.Hour,
				ClientIdleTimeout:       idle,
				FrameDuration:           frame,
				Sessions:                store,
			}
			h = HandlerWithLogs(h, time.Hour)
			h = HandlerWithMetrics(h, "https://h1d.test")
			defer h.Close()
			Handle(context.Background(), conn, h)
		},
	})
	t.Cleanup(e.server.Close)
	return e
}

func (e *h1dEnv) dial() *websocket.Conn {
	config, err := websocket.NewConfig(strings.ReplaceAll(e.server.URL, "http://", "ws://"), "http://localhost")
	require.NoError(e.t, err)
	conn, err := websocket.DialConfig(config)
	require.NoError(e.t, err)
	e.t.Cleanup(func() { conn.Close() })
	return conn
}

func h1dSend(t *testing.T, c *websocket.Conn, m hwebsocket.ProtoMsg) {
	msg, err := hwebsocket.MsgFromProto(m)
	require.NoError(t, err)
	_, err = hwebsocket.Send(c, msg)
	require.NoError(t, err)
}

// receives until a message of the given type arrives (others are skipped)
func h1dExpect(t *testing.T, c *websocket.Conn, typ hagallpb.MsgType, into hwebsocket.ProtoMsg, timeout time.Duration) {
	c.SetReadDeadline(time.Now().Add(timeout))
	for {
		msg, _, err := hwebsocket.Receive(c)
		require.NoError(t, err, "waiting for %v", typ)
		if msg.Type == typ {
			if into != nil {
				require.NoError(t, msg.DataTo(into))
			}
			return
		}
	}
}

// what happens to a client that has not joined and keeps sending pose updates
func TestH1DUnjoinedPoseSender(t *testing.T) {
	idle := 2 * time.Second
	e := newH1DEnv(t, 15*time.Millisecond, idle)
	c := e.dial()

	start := time.Now()
	closed := make(chan time.Duration, 1)
	go func() {
		for {
			if _, _, err := hwebsocket.Receive(c); err != nil {
				closed <- time.Since(start)
				return
			}
		}
	}()
	sent := 0
	for time.Since(start) < 3*idle {
		msg, _ := hwebsocket.MsgFromProto(&hagallpb.EntityUpdatePose{Type: hagallpb.MsgType_MSG_TYPE_ENTITY_UPDATE_POSE, Timestamp: timestamppb.Now(), EntityId: uint32(sent), Pose: &hagallpb.Pose{Px: 1}})
		if _, err := hwebsocket.Send(c, msg); err != nil {
			break
		}
		sent++
		time.Sleep(50 * time.Millisecond)
	}
	select {
	case d := <-closed:
		t.Logf("disconnected after %v, %d updates sent, idle timeout %v", d, sent, idle)
		require.Less(t, d, idle/2, "the updates were not refused (session not joined); the client was dropped as idle while sending every 50ms")
	case <-time.After(time.Second):
		t.Logf("still connected after %v", time.Since(start))
	}
}
