// websocket/hunt_h1_switch_test.go
//
// copy into the websocket directory of the repository; go test -vet=off -count=1 -run 'TestH1AA' ./websocket
package websocket

import (
	"context"
	"net/http"
	"net/http/httptest"
	"strings"
	"testing"
	"time"

	"github.com/aukilabs/hagall-common/messages/hagallpb"
	hwebsocket "github.com/aukilabs/hagall-common/websocket"
	"github.com/aukilabs/hagall/models"
	"github.com/stretchr/testify/require"
	"golang.org/x/net/websocket"
	"google.golang.org/protobuf/types/known/timestamppb"
)

type h1aEnv struct {
	t      *testing.T
	server *httptest.Server
	store  *models.SessionStore
}

func newH1AEnv(t *testing.T, frame, idle time.Duration) *h1aEnv {
	store := &models.SessionStore{DiscoveryService: &testClient{}}
	e := &h1aEnv{t: t, store: store}
	e.server = httptest.NewServer(websocket.Server{
		Handshake: func(c *websocket.Config, r *http.Request) error { return nil },
		Handler: func(conn *websocket.Conn) {
			defer conn.Close()
			var h Handler = &RealtimeHandler{
				ClientSyncClockInterval: time.Hour,
				ClientIdleTimeout:       idle,
				FrameDuration:           frame,
				Sessions:                store,
			}
			h = HandlerWithLogs(h, time.Hour)
			h = HandlerWithMetrics(h, "https://h1a.test")
			defer h.Close()
			Handle(context.Background(), conn, h)
		},
	})
	t.Cleanup(e.server.Close)
	return e
}

func (e *h1aEnv) dial() *websocket.Conn {
	config, err := websocket.NewConfig(strings.ReplaceAll(e.server.URL, "http://", "ws://"), "http://localhost")
	require.NoError(e.t, err)
	conn, err := websocket.DialConfig(config)
	require.NoError(e.t, err)
	e.t.Cleanup(func() { conn.Close() })
	return conn
}

func h1aSend(t *testing.T, c *websocket.Conn, m hwebsocket.ProtoMsg) {
	msg, err := hwebsocket.MsgFromProto(m)
	require.NoError(t, err)
	_, err = hwebsocket.Send(c, msg)
	require.NoError(t, err)
}

// receives until a message of the given type arrives (others are skipped)
func h1aExpect(t *testing.T, c *websocket.Conn, typ hagallpb.MsgType, into hwebsocket.ProtoMsg, timeout time.Duration) {
	c.SetReadDeadline(time.Now().Add(timeout))
	for {
		msg, _, err := hwebsocket.Receive(c)
		require.NoError(t, err, "waiting for %v", typ)
		if msg.Type == typ {
			if into != nil {
				require.NoError(t, msg.DataTo(into))
			}
			return
		}
	}
}

// A pose update sent for an entity of the session the client is in, still
// pending (the frame has not ended) when the client moves to another session,
// must not be applied to an entity of the new session that happens to carry the
// same id.
func TestH1APendingPoseUpdateDoesNotFollowTheClientToAnotherSession(t *testing.T) {
	frame := 400 * time.Millisecond
	e := newH1AEnv(t, frame, time.Minute)

	a := e.dial()

	// session 1, entity 1 at pose 1
	h1aSend(t, a, &hagallpb.ParticipantJoinRequest{Type: hagallpb.MsgType_MSG_TYPE_PARTICIPANT_JOIN_REQUEST, Timestamp: timestamppb.Now(), RequestId: 1})
	var join1 hagallpb.ParticipantJoinResponse
	h1aExpect(t, a, hagallpb.MsgType_MSG_TYPE_PARTICIPANT_JOIN_RESPONSE, &join1, 5*time.Second)

	h1aSend(t, a, &hagallpb.EntityAddRequest{Type: hagallpb.MsgType_MSG_TYPE_ENTITY_ADD_REQUEST, Timestamp: timestamppb.Now(), RequestId: 2, Pose: &hagallpb.Pose{Px: 1}})
	var add1 hagallpb.EntityAddResponse
	h1aExpect(t, a, hagallpb.MsgType_MSG_TYPE_ENTITY_ADD_RESPONSE, &add1, 5*time.Second)

	// let the pending state settle: wait for a frame boundary of session 1
	time.Sleep(frame + 50*time.Millisecond)

	// the last pose of the entity of session 1 ...
	h1aSend(t, a, &hagallpb.EntityUpdatePose{Type: hagallpb.MsgType_MSG_TYPE_ENTITY_UPDATE_POSE, Timestamp: timestamppb.Now(), EntityId: add1.EntityId, Pose: &hagallpb.Pose{Px: 666}})
	// ... then a new session, and an entity in it at pose 2
	h1aSend(t, a, &hagallpb.ParticipantJoinRequest{Type: hagallpb.MsgType_MSG_TYPE_PARTICIPANT_JOIN_REQUEST, Timestamp: timestamppb.Now(), RequestId: 3})
	var join2 hagallpb.ParticipantJoinResponse
	h1aExpect(t, a, hagallpb.MsgType_MSG_TYPE_PARTICIPANT_JOIN_RESPONSE, &join2, 5*time.Second)
	require.NotEqual(t, join1.SessionUuid, join2.SessionUuid)

	h1aSend(t, a, &hagallpb.EntityAddRequest{Type: hagallpb.MsgType_MSG_TYPE_ENTITY_ADD_REQUEST, Timestamp: timestamppb.Now(), RequestId: 4, Pose: &hagallpb.Pose{Px: 2}})
	var add2 hagallpb.EntityAddResponse
	h1aExpect(t, a, hagallpb.MsgType_MSG_TYPE_ENTITY_ADD_RESPONSE, &add2, 5*time.Second)
	t.Logf("entity of session 1: %d, entity of session 2: %d", add1.EntityId, add2.EntityId)

	// a few frames later a newcomer is handed the entity of session 2: the client
	// never sent a pose for it other than the one it was created with
	time.Sleep(3 * frame)

	b := e.dial()
	h1aSend(t, b, &hagallpb.ParticipantJoinRequest{Type: hagallpb.MsgType_MSG_TYPE_PARTICIPANT_JOIN_REQUEST, Timestamp: timestamppb.Now(), RequestId: 1, SessionId: join2.SessionId})
	var state hagallpb.SessionState
	h1aExpect(t, b, hagallpb.MsgType_MSG_TYPE_SESSION_STATE, &state, 5*time.Second)
	require.Len(t, state.Entities, 1)
	require.Equal(t, add2.EntityId, state.Entities[0].Id)
	require.Equal(t, float32(2), state.Entities[0].Pose.Px,
		"the pose update sent for entity %d of session %s was applied to entity %d of session %s",
		add1.EntityId, join1.SessionId, add2.EntityId, join2.SessionId)
}

// The same with a witness: the client moves into a session where somebody
// else is, and its requests are sent back to back (nothing is awaited), with
// the default frame duration of the server. The witness must see the new entity
// and no pose for it other than the one it was created with.
func TestH1APendingPoseUpdateIsNotRelayedInTheNextSession(t *testing.T) {
	frame := 15 * time.Millisecond
	e := newH1AEnv(t, frame, time.Minute)

	// the witness, alone in its session
	w := e.dial()
	h1aSend(t, w, &hagallpb.ParticipantJoinRequest{Type: hagallpb.MsgType_MSG_TYPE_PARTICIPANT_JOIN_REQUEST, Timestamp: timestamppb.Now(), RequestId: 1})
	var joinW hagallpb.ParticipantJoinResponse
	h1aExpect(t, w, hagallpb.MsgType_MSG_TYPE_PARTICIPANT_JOIN_RESPONSE, &joinW, 5*time.Second)

	relayed := 0
	for round := 0; round < 20; round++ {
		a := e.dial()
		h1aSend(t, a, &hagallpb.ParticipantJoinRequest{Type: hagallpb.MsgType_MSG_TYPE_PARTICIPANT_JOIN_REQUEST, Timestamp: timestamppb.Now(), RequestId: 1})
		var join1 hagallpb.ParticipantJoinResponse
		h1aExpect(t, a, hagallpb.MsgType_MSG_TYPE_PARTICIPANT_JOIN_RESPONSE, &join1, 5*time.Second)

		// as many entities in its own session as needed for the id the witness'
		// session hands out next
		var own uint32
		for own < uint32(round+1) {
			h1aSend(t, a, &hagallpb.EntityAddRequest{Type: hagallpb.MsgType_MSG_TYPE_ENTITY_ADD_REQUEST, Timestamp: timestamppb.Now(), RequestId: 2})
			var add hagallpb.EntityAddResponse
			h1aExpect(t, a, hagallpb.MsgType_MSG_TYPE_ENTITY_ADD_RESPONSE, &add, 5*time.Second)
			own = add.EntityId
		}
		time.Sleep(3 * frame)

		// back to back
		h1aSend(t, a, &hagallpb.EntityUpdatePose{Type: hagallpb.MsgType_MSG_TYPE_ENTITY_UPDATE_POSE, Timestamp: timestamppb.Now(), EntityId: own, Pose: &hagallpb.Pose{Px: 666}})
		h1aSend(t, a, &hagallpb.ParticipantJoinRequest{Type: hagallpb.MsgType_MSG_TYPE_PARTICIPANT_JOIN_REQUEST, Timestamp: timestamppb.Now(), RequestId: 3, SessionId: joinW.SessionId})
		h1aSend(t, a, &hagallpb.EntityAddRequest{Type: hagallpb.MsgType_MSG_TYPE_ENTITY_ADD_REQUEST, Timestamp: timestamppb.Now(), RequestId: 4, Pose: &hagallpb.Pose{Px: 2}})
		var add2 hagallpb.EntityAddResponse
		h1aExpect(t, a, hagallpb.MsgType_MSG_TYPE_ENTITY_ADD_RESPONSE, &add2, 5*time.Second)
		require.Equal(t, own, add2.EntityId, "the test expects the witness' session to hand out the same id")

		// what the witness sees until the client is gone
		time.Sleep(10 * frame)
		a.Close()
		w.SetReadDeadline(time.Now().Add(10 * time.Second))
		for {
			msg, _, err := hwebsocket.Receive(w)
			require.NoError(t, err)
			if msg.Type == hagallpb.MsgType_MSG_TYPE_ENTITY_UPDATE_POSE_BROADCAST {
				var bc hagallpb.EntityUpdatePoseBroadcast
				require.NoError(t, msg.DataTo(&bc))
				t.Logf("round %d: the witness was relayed pose px=%v for entity %d of its session; the client sent it for entity %d of session %s",
					round, bc.Pose.Px, bc.EntityId, own, join1.SessionId)
				relayed++
			}
			if msg.Type == hagallpb.MsgType_MSG_TYPE_PARTICIPANT_LEAVE_BROADCAST {
				break
			}
		}
	}
	require.Zero(t, relayed, "pose updates sent for an entity of another session were relayed")
}

// The same without a first session: an update sent before the client has joined
// anything is neither refused (session not joined) nor forgotten; it is applied
// to the entity the client creates later.
func TestH1APoseUpdateSentBeforeJoiningIsNotAppliedLater(t *testing.T) {
	frame := 15 * time.Millisecond
	e := newH1AEnv(t, frame, time.Minute)

	a := e.dial()
	h1aSend(t, a, &hagallpb.EntityUpdatePose{Type: hagallpb.MsgType_MSG_TYPE_ENTITY_UPDATE_POSE, Timestamp: timestamppb.Now(), EntityId: 1, Pose: &hagallpb.Pose{Px: 666}})
	time.Sleep(20 * frame)

	h1aSend(t, a, &hagallpb.ParticipantJoinRequest{Type: hagallpb.MsgType_MSG_TYPE_PARTICIPANT_JOIN_REQUEST, Timestamp: timestamppb.Now(), RequestId: 1})
	h1aSend(t, a, &hagallpb.EntityAddRequest{Type: hagallpb.MsgType_MSG_TYPE_ENTITY_ADD_REQUEST, Timestamp: timestamppb.Now(), RequestId: 2, Pose: &hagallpb.Pose{Px: 2}})
	// refusing the early update (session not joined) ends the connection, which
	// is fine too
	var join hagallpb.ParticipantJoinResponse
	var add hagallpb.EntityAddResponse
	a.SetReadDeadline(time.Now().Add(5 * time.Second))
	for add.EntityId == 0 {
		msg, _, err := hwebsocket.Receive(a)
		if err != nil {
			t.Logf("the connection was ended: %v", err)
			return
		}
		switch msg.Type {
		case hagallpb.MsgType_MSG_TYPE_PARTICIPANT_JOIN_RESPONSE:
			require.NoError(t, msg.DataTo(&join))
		case hagallpb.MsgType_MSG_TYPE_ENTITY_ADD_RESPONSE:
			require.NoError(t, msg.DataTo(&add))
		}
	}
	time.Sleep(10 * frame)

	b := e.dial()
	h1aSend(t, b, &hagallpb.ParticipantJoinRequest{Type: hagallpb.MsgType_MSG_TYPE_PARTICIPANT_JOIN_REQUEST, Timestamp: timestamppb.Now(), RequestId: 1, SessionId: join.SessionId})
	var state hagallpb.SessionState
	h1aExpect(t, b, hagallpb.MsgType_MSG_TYPE_SESSION_STATE, &state, 5*time.Second)
	require.Len(t, state.Entities, 1)
	require.Equal(t, float32(2), state.Entities[0].Pose.Px, "entity %d", state.Entities[0].Id)
}
