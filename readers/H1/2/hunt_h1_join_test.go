// websocket/hunt_h1_join_test.go
//
// copy into the websocket directory of the repository; go test -vet=off -count=1 -run 'TestH1BB' ./websocket
package websocket

import (
	"context"
	"net/http"
	"net/http/httptest"
	"strings"
	"sync/atomic"
	"testing"
	"time"

	"github.com/aukilabs/hagall-common/messages/hagallpb"
	hwebsocket "github.com/aukilabs/hagall-common/websocket"
	"github.com/aukilabs/hagall/models"
	"github.com/stretchr/testify/require"
	"golang.org/x/net/websocket"
	"google.golang.org/protobuf/types/known/timestamppb"
)

type h1bEnv struct {
	t      *testing.T
	server *httptest.Server
	store  *models.SessionStore
}

func newH1BEnv(t *testing.T, frame, idle time.Duration) *h1bEnv {
	store := &models.SessionStore{DiscoveryService: &testClient{}}
	e := &h1bEnv{t: t, store: store}
	e.server = httptest.NewServer(websocket.Server{
		Handshake: func(c *websocket.Config, r *http.Request) error { return nil },
		Handler: func(conn *websocket.Conn) {
			defer conn.Close()
			var h Handler = &RealtimeHandler{
				ClientSyncClockInterval: time.Hour,
				ClientIdleTimeout:       idle,
				FrameDuration:           frame,
				Sessions:                store,
			}
			h = HandlerWithLogs(h, time.Hour)
			h = HandlerWithMetrics(h, "https://h1b.test")
			defer h.Close()
			Handle(context.Background(), conn, h)
		},
	})
	t.Cleanup(e.server.Close)
	return e
}

func (e *h1bEnv) dial() *websocket.Conn {
	config, err := websocket.NewConfig(strings.ReplaceAll(e.server.URL, "http://", "ws://"), "http://localhost")
	require.NoError(e.t, err)
	conn, err := websocket.DialConfig(config)
	require.NoError(e.t, err)
	e.t.Cleanup(func() { conn.Close() })
	return conn
}

func h1bSend(t *testing.T, c *websocket.Conn, m hwebsocket.ProtoMsg) {
	msg, err := hwebsocket.MsgFromProto(m)
	require.NoError(t, err)
	_, err = hwebsocket.Send(c, msg)
	require.NoError(t, err)
}

// receives until a message of the given type arrives (others are skipped)
func h1bExpect(t *testing.T, c *websocket.Conn, typ hagallpb.MsgType, into hwebsocket.ProtoMsg, timeout time.Duration) {
	c.SetReadDeadline(time.Now().Add(timeout))
	for {
		msg, _, err := hwebsocket.Receive(c)
		require.NoError(t, err, "waiting for %v", typ)
		if msg.Type == typ {
			if into != nil {
				require.NoError(t, msg.DataTo(into))
			}
			return
		}
	}
}

// A newcomer must end up with the latest pose of every entity: what it is
// handed in the session state and the pose relays it receives must not go
// backwards.
func TestH1BNewcomerNeverSeesAPoseGoBackwards(t *testing.T) {
	frame := 15 * time.Millisecond
	e := newH1BEnv(t, frame, time.Minute)

	o := e.dial()
	h1bSend(t, o, &hagallpb.ParticipantJoinRequest{Type: hagallpb.MsgType_MSG_TYPE_PARTICIPANT_JOIN_REQUEST, Timestamp: timestamppb.Now(), RequestId: 1})
	var joinO hagallpb.ParticipantJoinResponse
	h1bExpect(t, o, hagallpb.MsgType_MSG_TYPE_PARTICIPANT_JOIN_RESPONSE, &joinO, 5*time.Second)

	const entities = 300
	ids := make([]uint32, 0, entities)
	for i := 0; i < entities; i++ {
		h1bSend(t, o, &hagallpb.EntityAddRequest{Type: hagallpb.MsgType_MSG_TYPE_ENTITY_ADD_REQUEST, Timestamp: timestamppb.Now(), RequestId: 2, Pose: &hagallpb.Pose{Px: 0}})
		var add hagallpb.EntityAddResponse
		h1bExpect(t, o, hagallpb.MsgType_MSG_TYPE_ENTITY_ADD_RESPONSE, &add, 5*time.Second)
		ids = append(ids, add.EntityId)
	}

	// the owner reads nothing of interest, but must keep reading
	go func() {
		for {
			if _, _, err := hwebsocket.Receive(o); err != nil {
				return
			}
		}
	}()

	// the owner moves every entity once per frame, px counts up
	var stop atomic.Bool
	done := make(chan struct{})
	go func() {
		defer close(done)
		for px := float32(1); !stop.Load(); px++ {
			for _, id := range ids {
				msg, _ := hwebsocket.MsgFromProto(&hagallpb.EntityUpdatePose{Type: hagallpb.MsgType_MSG_TYPE_ENTITY_UPDATE_POSE, Timestamp: timestamppb.Now(), EntityId: id, Pose: &hagallpb.Pose{Px: px}})
				if _, err := hwebsocket.Send(o, msg); err != nil {
					return
				}
			}
			time.Sleep(frame)
		}
	}()
	defer func() { stop.Store(true); <-done }()

	backwards := 0
	for round := 0; round < 60 && backwards == 0; round++ {
		n := e.dial()
		h1bSend(t, n, &hagallpb.ParticipantJoinRequest{Type: hagallpb.MsgType_MSG_TYPE_PARTICIPANT_JOIN_REQUEST, Timestamp: timestamppb.Now(), RequestId: 1, SessionId: joinO.SessionId})

		last := map[uint32]float32{}
		gotState := false
		n.SetReadDeadline(time.Now().Add(10 * time.Second))
		deadline := time.Time{}
		for deadline.IsZero() || time.Now().Before(deadline) {
			msg, _, err := hwebsocket.Receive(n)
			require.NoError(t, err)
			switch msg.Type {
			case hagallpb.MsgType_MSG_TYPE_ENTITY_UPDATE_POSE_BROADCAST:
				var bc hagallpb.EntityUpdatePoseBroadcast
				require.NoError(t, msg.DataTo(&bc))
				if prev, ok := last[bc.EntityId]; ok && bc.Pose.Px < prev {
					t.Logf("round %d: entity %d: relay px=%v after px=%v", round, bc.EntityId, bc.Pose.Px, prev)
					backwards++
				}
				last[bc.EntityId] = bc.Pose.Px
			case hagallpb.MsgType_MSG_TYPE_SESSION_STATE:
				var st hagallpb.SessionState
				require.NoError(t, msg.DataTo(&st))
				for _, en := range st.Entities {
					if prev, ok := last[en.Id]; ok && en.Pose.Px < prev {
						if backwards < 5 {
							t.Logf("round %d: entity %d: the session state hands px=%v, after the relay of px=%v had already been received (state received=%v)", round, en.Id, en.Pose.Px, prev, gotState)
						}
						backwards++
					}
					last[en.Id] = en.Pose.Px
				}
				gotState = true
				deadline = time.Now().Add(2 * frame)
			}
		}
		n.Close()
	}
	require.Zero(t, backwards, "poses went backwards at a newcomer")
}

// The owner moves its entities once and then stays quiet; a participant joins
// at about that moment. Once everything has settled, a client that applies
// what it receives in the order it receives it must hold the pose the owner
// sent last.
func TestH1BNewcomerHoldsTheLatestPoseOnceTheOwnerIsQuiet(t *testing.T) {
	frame := 15 * time.Millisecond
	e := newH1BEnv(t, frame, time.Minute)

	o := e.dial()
	h1bSend(t, o, &hagallpb.ParticipantJoinRequest{Type: hagallpb.MsgType_MSG_TYPE_PARTICIPANT_JOIN_REQUEST, Timestamp: timestamppb.Now(), RequestId: 1})
	var joinO hagallpb.ParticipantJoinResponse
	h1bExpect(t, o, hagallpb.MsgType_MSG_TYPE_PARTICIPANT_JOIN_RESPONSE, &joinO, 5*time.Second)

	const entities = 300
	ids := make([]uint32, 0, entities)
	for i := 0; i < entities; i++ {
		h1bSend(t, o, &hagallpb.EntityAddRequest{Type: hagallpb.MsgType_MSG_TYPE_ENTITY_ADD_REQUEST, Timestamp: timestamppb.Now(), RequestId: 2, Pose: &hagallpb.Pose{Px: 0}})
		var add hagallpb.EntityAddResponse
		h1bExpect(t, o, hagallpb.MsgType_MSG_TYPE_ENTITY_ADD_RESPONSE, &add, 5*time.Second)
		ids = append(ids, add.EntityId)
	}
	go func() {
		for {
			if _, _, err := hwebsocket.Receive(o); err != nil {
				return
			}
		}
	}()

	stale := 0
	for round := 1; round <= 150 && stale == 0; round++ {
		px := float32(round)
		for _, id := range ids {
			h1bSend(t, o, &hagallpb.EntityUpdatePose{Type: hagallpb.MsgType_MSG_TYPE_ENTITY_UPDATE_POSE, Timestamp: timestamppb.Now(), EntityId: id, Pose: &hagallpb.Pose{Px: px}})
		}
		time.Sleep(time.Duration(round%8) * frame / 4)

		n := e.dial()
		h1bSend(t, n, &hagallpb.ParticipantJoinRequest{Type: hagallpb.MsgType_MSG_TYPE_PARTICIPANT_JOIN_REQUEST, Timestamp: timestamppb.Now(), RequestId: 1, SessionId: joinO.SessionId})

		// what the newcomer holds, applying everything in the order of arrival,
		// until nothing has arrived for 20 frames
		held := map[uint32]float32{}
		for {
			n.SetReadDeadline(time.Now().Add(20 * frame))
			msg, _, err := hwebsocket.Receive(n)
			if err != nil {
				break
			}
			switch msg.Type {
			case hagallpb.MsgType_MSG_TYPE_ENTITY_UPDATE_POSE_BROADCAST:
				var bc hagallpb.EntityUpdatePoseBroadcast
				require.NoError(t, msg.DataTo(&bc))
				held[bc.EntityId] = bc.Pose.Px
			case hagallpb.MsgType_MSG_TYPE_SESSION_STATE:
				var st hagallpb.SessionState
				require.NoError(t, msg.DataTo(&st))
				for _, en := range st.Entities {
					held[en.Id] = en.Pose.Px
				}
			}
		}
		n.Close()

		require.Len(t, held, entities)
		for _, id := range ids {
			if held[id] != px {
				if stale < 5 {
					t.Logf("round %d: the newcomer holds px=%v for entity %d, the owner's last pose is px=%v and nothing more is coming", round, held[id], id, px)
				}
				stale++
			}
		}
	}
	require.Zero(t, stale, "a newcomer was left with a pose that is not the latest")
}
