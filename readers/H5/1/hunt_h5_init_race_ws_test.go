// websocket/hunt_h5_init_race_ws_test.go
//
// needs hunt_h5_env_test.go
package websocket

import (
	"sync/atomic"
	"testing"
	"time"

	"github.com/aukilabs/hagall-common/messages/hagallpb"
	"github.com/aukilabs/hagall-common/messages/odalpb"
	"github.com/aukilabs/hagall-common/messages/vikjapb"
	"google.golang.org/protobuf/types/known/timestamppb"
)

// The same as TestH5ModuleInitRace, over real WebSocket connections: client B
// keeps asking for the session "tedx1" (the id the next session will get) while
// client A creates it.
func TestH5ModuleInitRaceWebSocket(t *testing.T) {
	env := newH5Env(t, newVikjaTestModule, newOdalTestModule)
	defer env.close()

	const wait = 20 * time.Second
	deadline := time.Now().Add(90 * time.Second)

	for attempt := 0; attempt < 3000 && time.Now().Before(deadline); attempt++ {
		sid := env.store.GlobalSessionID(1)

		a, b := env.dial(), env.dial()

		var stop atomic.Bool
		bDone := make(chan struct{})
		go func() {
			defer close(bDone)
			for !stop.Load() {
				b.send(&hagallpb.ParticipantJoinRequest{
					Type:      hagallpb.MsgType_MSG_TYPE_PARTICIPANT_JOIN_REQUEST,
					Timestamp: timestamppb.Now(),
					RequestId: 2,
					SessionId: sid,
				})
			}
		}()
		time.Sleep(time.Millisecond)
		a.send(&hagallpb.ParticipantJoinRequest{
			Type:      hagallpb.MsgType_MSG_TYPE_PARTICIPANT_JOIN_REQUEST,
			Timestamp: timestamppb.Now(),
			RequestId: 1,
		})
		i := a.waitFor(0, "A's join response", wait, h5Response(int32(hagallpb.MsgType_MSG_TYPE_PARTICIPANT_JOIN_RESPONSE), 1))
		var jr hagallpb.ParticipantJoinResponse
		if err := a.snapshot()[i].DataTo(&jr); err != nil {
			t.Fatal(err)
		}
		if jr.SessionId != sid {
			t.Fatalf("session id %q, expected %q", jr.SessionId, sid)
		}
		b.waitFor(0, "B's join response", wait, h5Response(int32(hagallpb.MsgType_MSG_TYPE_PARTICIPANT_JOIN_RESPONSE), 2))
		stop.Store(true)
		<-bDone
		// B's remaining join requests are answered "already joined"
		b.send(&hagallpb.Request{
			Type:      hagallpb.MsgType_MSG_TYPE_PING_REQUEST,
			Timestamp: timestamppb.Now(),
			RequestId: 99,
		})
		b.waitFor(0, "B's ping response", wait, h5Response(int32(hagallpb.MsgType_MSG_TYPE_PING_RESPONSE), 99))

		// sequential from here on
		a.send(&hagallpb.EntityAddRequest{
			Type:      hagallpb.MsgType_MSG_TYPE_ENTITY_ADD_REQUEST,
			Timestamp: timestamppb.Now(),
			RequestId: 3,
		})
		i = a.waitFor(0, "entity add response", wait, h5Response(int32(hagallpb.MsgType_MSG_TYPE_ENTITY_ADD_RESPONSE), 3))
		var er hagallpb.EntityAddResponse
		if err := a.snapshot()[i].DataTo(&er); err != nil {
			t.Fatal(err)
		}
		a.send(&vikjapb.EntityActionRequest{
			Type:      vikjapb.MsgType_MSG_TYPE_VIKJA_ENTITY_ACTION_REQUEST,
			Timestamp: timestamppb.Now(),
			RequestId: 4,
			EntityAction: &vikjapb.EntityAction{
				EntityId:  er.EntityId,
				Name:      "by-a",
				Timestamp: timestamppb.New(time.Unix(100, 0)),
			},
		})
		a.waitFor(0, "A's action response", wait, h5Response(int32(vikjapb.MsgType_MSG_TYPE_VIKJA_ENTITY_ACTION_RESPONSE), 4))
		a.send(&odalpb.AssetInstanceAddRequest{
			Type:      odalpb.MsgType_MSG_TYPE_ODAL_ASSET_INSTANCE_ADD_REQUEST,
			Timestamp: timestamppb.Now(),
			RequestId: 5,
			EntityId:  er.EntityId,
			AssetId:   "asset",
		})
		a.waitFor(0, "A's asset response", wait, h5Response(int32(odalpb.MsgType_MSG_TYPE_ODAL_ASSET_INSTANCE_ADD_RESPONSE), 5))
		b.send(&vikjapb.EntityActionRequest{
			Type:      vikjapb.MsgType_MSG_TYPE_VIKJA_ENTITY_ACTION_REQUEST,
			Timestamp: timestamppb.Now(),
			RequestId: 6,
			EntityAction: &vikjapb.EntityAction{
				EntityId:  er.EntityId,
				Name:      "by-b",
				Timestamp: timestamppb.New(time.Unix(100, 0)),
			},
		})
		b.waitFor(0, "B's action response", wait, h5Response(int32(vikjapb.MsgType_MSG_TYPE_VIKJA_ENTITY_ACTION_RESPONSE), 6))

		c := env.dial()
		c.send(&hagallpb.ParticipantJoinRequest{
			Type:      hagallpb.MsgType_MSG_TYPE_PARTICIPANT_JOIN_REQUEST,
			Timestamp: timestamppb.Now(),
			RequestId: 7,
			SessionId: sid,
		})
		vi := c.waitFor(0, "vikja state", wait, h5Type(int32(vikjapb.MsgType_MSG_TYPE_VIKJA_STATE)))
		oi := c.waitFor(0, "odal state", wait, h5Type(int32(odalpb.MsgType_MSG_TYPE_ODAL_STATE)))
		log := c.snapshot()
		var vs vikjapb.State
		var os odalpb.State
		if err := log[vi].DataTo(&vs); err != nil {
			t.Fatal(err)
		}
		if err := log[oi].DataTo(&os); err != nil {
			t.Fatal(err)
		}
		actions := map[string]bool{}
		for _, ea := range vs.EntityActions {
			actions[ea.Name] = true
		}
		if !actions["by-a"] || !actions["by-b"] || len(os.AssetInstances) != 1 {
			t.Fatalf("attempt %d: the newcomer was handed the actions %v and %d asset instance(s); "+
				"the entity was given the actions by-a (by A) and by-b (by B) and one asset instance",
				attempt, actions, len(os.AssetInstances))
		}

		a.close()
		b.close()
		c.close()
		for {
			if _, ok := env.store.GetByGlobalID(sid); !ok {
				break
			}
			if time.Now().After(deadline) {
				t.Fatal("session not removed")
			}
			time.Sleep(time.Millisecond)
		}
	}
}
