// websocket/hunt_h5_init_race_test.go
//
// needs hunt_h5_env_test.go
package websocket

import (
	"sync"
	"testing"
	"time"

	"github.com/aukilabs/hagall-common/messages/hagallpb"
	"github.com/aukilabs/hagall-common/messages/odalpb"
	"github.com/aukilabs/hagall-common/messages/vikjapb"
	"github.com/aukilabs/hagall/models"
	"github.com/aukilabs/hagall/modules/odal"
	"github.com/aukilabs/hagall/modules/vikja"
	"google.golang.org/protobuf/types/known/timestamppb"
)

// Two connections join a session at the same moment: the first creates it, the
// second joins it by its (predictable: server id + "x" + small hex number) id.
// Whatever the interleaving, afterwards all members must share ONE vikja and
// ONE odal state: an action / asset set by one of them must be handed to a
// newcomer (C16 "every newcomer is handed the current set of both", C01).
func TestH5ModuleInitRace(t *testing.T) {
	const attempts = 10000

	store := &models.SessionStore{DiscoveryService: &testClient{}}
	deadline := time.Now().Add(60 * time.Second)

	for i := 0; i < attempts && time.Now().Before(deadline); i++ {
		a := newH5Conn(store, &vikja.Module{}, &odal.Module{})
		b := newH5Conn(store, &vikja.Module{}, &odal.Module{})

		sid := store.GlobalSessionID(1) // the only session of this store: ids are reused

		var wg sync.WaitGroup
		wg.Add(2)
		go func() {
			defer wg.Done()
			a.handle(t, &hagallpb.ParticipantJoinRequest{
				Type:      hagallpb.MsgType_MSG_TYPE_PARTICIPANT_JOIN_REQUEST,
				Timestamp: timestamppb.Now(),
				RequestId: 1,
			})
		}()
		go func() {
			defer wg.Done()
			// a client that keeps asking for the session until it is there
			for !b.joined() {
				b.handle(t, &hagallpb.ParticipantJoinRequest{
					Type:      hagallpb.MsgType_MSG_TYPE_PARTICIPANT_JOIN_REQUEST,
					Timestamp: timestamppb.Now(),
					RequestId: 2,
					SessionId: sid,
				})
			}
		}()
		wg.Wait()

		if a.rh.CurrentSession() != b.rh.CurrentSession() {
			t.Fatalf("attempt %d: not in the same session", i)
		}

		// quiescent from here on; everything below is sequential

		// A creates an entity, gives it an asset and an action
		a.resp.take()
		a.handle(t, &hagallpb.EntityAddRequest{
			Type:      hagallpb.MsgType_MSG_TYPE_ENTITY_ADD_REQUEST,
			Timestamp: timestamppb.Now(),
			RequestId: 3,
		})
		var entityID uint32
		for _, m := range a.resp.take() {
			if m.Type == hagallpb.MsgType_MSG_TYPE_ENTITY_ADD_RESPONSE {
				var res hagallpb.EntityAddResponse
				if err := m.DataTo(&res); err != nil {
					t.Fatal(err)
				}
				entityID = res.EntityId
			}
		}
		if entityID == 0 {
			t.Fatalf("attempt %d: no entity", i)
		}
		a.handle(t, &vikjapb.EntityActionRequest{
			Type:      vikjapb.MsgType_MSG_TYPE_VIKJA_ENTITY_ACTION_REQUEST,
			Timestamp: timestamppb.Now(),
			RequestId: 4,
			EntityAction: &vikjapb.EntityAction{
				EntityId:  entityID,
				Name:      "by-a",
				Timestamp: timestamppb.New(time.Unix(100, 0)),
			},
		})
		a.handle(t, &odalpb.AssetInstanceAddRequest{
			Type:      odalpb.MsgType_MSG_TYPE_ODAL_ASSET_INSTANCE_ADD_REQUEST,
			Timestamp: timestamppb.Now(),
			RequestId: 5,
			EntityId:  entityID,
			AssetId:   "asset",
		})
		// B gives the same entity another action
		b.handle(t, &vikjapb.EntityActionRequest{
			Type:      vikjapb.MsgType_MSG_TYPE_VIKJA_ENTITY_ACTION_REQUEST,
			Timestamp: timestamppb.Now(),
			RequestId: 6,
			EntityAction: &vikjapb.EntityAction{
				EntityId:  entityID,
				Name:      "by-b",
				Timestamp: timestamppb.New(time.Unix(100, 0)),
			},
		})

		// a newcomer
		c := newH5Conn(store, &vikja.Module{}, &odal.Module{})
		c.handle(t, &hagallpb.ParticipantJoinRequest{
			Type:      hagallpb.MsgType_MSG_TYPE_PARTICIPANT_JOIN_REQUEST,
			Timestamp: timestamppb.Now(),
			RequestId: 7,
			SessionId: sid,
		})
		if !c.joined() {
			t.Fatalf("attempt %d: newcomer not in", i)
		}
		actions := map[string]bool{}
		assets := 0
		for _, m := range c.resp.take() {
			switch m.Type {
			case vikjapb.MsgType_MSG_TYPE_VIKJA_STATE:
				var s vikjapb.State
				if err := m.DataTo(&s); err != nil {
					t.Fatal(err)
				}
				for _, ea := range s.EntityActions {
					actions[ea.Name] = true
				}
			case odalpb.MsgType_MSG_TYPE_ODAL_STATE:
				var s odalpb.State
				if err := m.DataTo(&s); err != nil {
					t.Fatal(err)
				}
				assets = len(s.AssetInstances)
			}
		}
		if !actions["by-a"] || !actions["by-b"] || assets != 1 {
			t.Fatalf("attempt %d: the newcomer was handed actions %v and %d asset instance(s); "+
				"the session holds the actions by-a and by-b and one asset instance "+
				"(A's and B's modules do not share one state)", i, actions, assets)
		}

		a.rh.HandleDisconnect(nil)
		b.rh.HandleDisconnect(nil)
		c.rh.HandleDisconnect(nil)
		if _, ok := store.GetByGlobalID(sid); ok {
			t.Fatalf("attempt %d: session still there", i)
		}
	}
}
