// websocket/hunt_h5_late_subscriber_update_test.go
//
// needs hunt_h5_env_test.go
package websocket

import (
	"testing"

	"github.com/aukilabs/hagall-common/messages/hagallpb"
	"github.com/aukilabs/hagall/models"
	"google.golang.org/protobuf/types/known/timestamppb"
)

// Sequential. B subscribes to a component type, so that A's addition of a
// component is announced (to everybody: also to P, who does not subscribe). A
// then updates the component: only the subscriber B is told. P subscribes. The
// session is quiescent; C01 wants P's view to hold, for every type it subscribes
// to, the same components as the session. It holds the component with the data
// it had when it was added.
func TestH5LateSubscriberHoldsStaleComponentData(t *testing.T) {
	store := &models.SessionStore{DiscoveryService: &testClient{}}
	a, b, p := newH5Conn(store), newH5Conn(store), newH5Conn(store)

	a.handle(t, &hagallpb.ParticipantJoinRequest{
		Type:      hagallpb.MsgType_MSG_TYPE_PARTICIPANT_JOIN_REQUEST,
		Timestamp: timestamppb.Now(),
		RequestId: 1,
	})
	session := a.rh.CurrentSession()
	sid := store.GlobalSessionID(session.ID)
	for _, c := range []*h5Conn{b, p} {
		c.handle(t, &hagallpb.ParticipantJoinRequest{
			Type:      hagallpb.MsgType_MSG_TYPE_PARTICIPANT_JOIN_REQUEST,
			Timestamp: timestamppb.Now(),
			RequestId: 2,
			SessionId: sid,
		})
	}

	// P's view of the components, by (type, entity)
	type key struct{ typeID, entityID uint32 }
	view := map[key]string{}
	apply := func() {
		for _, m := range p.resp.take() {
			switch m.Type {
			case hagallpb.MsgType_MSG_TYPE_SESSION_STATE:
				var s hagallpb.SessionState
				if err := m.DataTo(&s); err != nil {
					t.Fatal(err)
				}
				for _, ec := range s.EntityComponents {
					view[key{ec.EntityComponentTypeId, ec.EntityId}] = string(ec.Data)
				}
			case hagallpb.MsgType_MSG_TYPE_ENTITY_COMPONENT_ADD_BROADCAST:
				var bc hagallpb.EntityComponentAddBroadcast
				if err := m.DataTo(&bc); err != nil {
					t.Fatal(err)
				}
				ec := bc.EntityComponent
				view[key{ec.EntityComponentTypeId, ec.EntityId}] = string(ec.Data)
			case hagallpb.MsgType_MSG_TYPE_ENTITY_COMPONENT_UPDATE_BROADCAST:
				var bc hagallpb.EntityComponentUpdateBroadcast
				if err := m.DataTo(&bc); err != nil {
					t.Fatal(err)
				}
				ec := bc.EntityComponent
				view[key{ec.EntityComponentTypeId, ec.EntityId}] = string(ec.Data)
			case hagallpb.MsgType_MSG_TYPE_ENTITY_COMPONENT_DELETE_BROADCAST:
				var bc hagallpb.EntityComponentDeleteBroadcast
				if err := m.DataTo(&bc); err != nil {
					t.Fatal(err)
				}
				ec := bc.EntityComponent
				delete(view, key{ec.EntityComponentTypeId, ec.EntityId})
			}
		}
	}
	apply()

	a.handle(t, &hagallpb.EntityComponentTypeAddRequest{
		Type:                    hagallpb.MsgType_MSG_TYPE_ENTITY_COMPONENT_TYPE_ADD_REQUEST,
		Timestamp:               timestamppb.Now(),
		RequestId:               3,
		EntityComponentTypeName: "t",
	})
	typeID, err := session.GetEntityComponents().GetTypeID("t")
	if err != nil {
		t.Fatal(err)
	}
	b.handle(t, &hagallpb.EntityComponentTypeSubscribeRequest{
		Type:                  hagallpb.MsgType_MSG_TYPE_ENTITY_COMPONENT_TYPE_SUBSCRIBE_REQUEST,
		Timestamp:             timestamppb.Now(),
		RequestId:             4,
		EntityComponentTypeId: typeID,
	})
	a.resp.take()
	a.handle(t, &hagallpb.EntityAddRequest{
		Type:      hagallpb.MsgType_MSG_TYPE_ENTITY_ADD_REQUEST,
		Timestamp: timestamppb.Now(),
		RequestId: 5,
	})
	var entityID uint32
	for _, m := range a.resp.take() {
		if m.Type == hagallpb.MsgType_MSG_TYPE_ENTITY_ADD_RESPONSE {
			var res hagallpb.EntityAddResponse
			if err := m.DataTo(&res); err != nil {
				t.Fatal(err)
			}
			entityID = res.EntityId
		}
	}
	a.handle(t, &hagallpb.EntityComponentAddRequest{
		Type:                  hagallpb.MsgType_MSG_TYPE_ENTITY_COMPONENT_ADD_REQUEST,
		Timestamp:             timestamppb.Now(),
		RequestId:             6,
		EntityComponentTypeId: typeID,
		EntityId:              entityID,
		Data:                  []byte("v1"),
	})
	apply()
	if view[key{typeID, entityID}] != "v1" {
		t.Fatalf("P was not told about the addition: %v", view)
	}
	a.handle(t, &hagallpb.EntityComponentUpdate{
		Type:                  hagallpb.MsgType_MSG_TYPE_ENTITY_COMPONENT_UPDATE,
		Timestamp:             timestamppb.Now(),
		EntityComponentTypeId: typeID,
		EntityId:              entityID,
		Data:                  []byte("v2"),
	})
	apply()

	p.handle(t, &hagallpb.EntityComponentTypeSubscribeRequest{
		Type:                  hagallpb.MsgType_MSG_TYPE_ENTITY_COMPONENT_TYPE_SUBSCRIBE_REQUEST,
		Timestamp:             timestamppb.Now(),
		RequestId:             7,
		EntityComponentTypeId: typeID,
	})
	apply()

	// quiescent: P subscribes to the type
	server := map[key]string{}
	for _, ec := range session.GetEntityComponents().List(typeID) {
		server[key{ec.EntityComponentTypeId, ec.EntityId}] = string(ec.Data)
	}
	if len(server) != 1 || server[key{typeID, entityID}] != "v2" {
		t.Fatalf("server: %v", server)
	}
	if view[key{typeID, entityID}] != server[key{typeID, entityID}] {
		t.Fatalf("P subscribes to the type; the session holds the component with data %q, P's view holds it with data %q",
			server[key{typeID, entityID}], view[key{typeID, entityID}])
	}
}
