// websocket/hunt_h5_action_timestamp_test.go
//
// needs hunt_h5_env_test.go
package websocket

import (
	"math"
	"testing"

	"github.com/aukilabs/hagall-common/messages/hagallpb"
	"github.com/aukilabs/hagall-common/messages/vikjapb"
	"github.com/aukilabs/hagall/models"
	"github.com/aukilabs/hagall/modules/vikja"
	"google.golang.org/protobuf/types/known/timestamppb"
)

// C16: "the server keeps the action with the latest client timestamp: an action
// older than the stored one is refused", for arbitrary - far-future -
// timestamps. An action stamped with the farthest future a client can express
// (seconds = MaxInt64) is accepted; one stamped with the present, i.e. older,
// must then be refused.
func TestH5FarFutureActionIsNotReplacedByAnOlderOne(t *testing.T) {
	store := &models.SessionStore{DiscoveryService: &testClient{}}
	a := newH5Conn(store, &vikja.Module{})
	b := newH5Conn(store, &vikja.Module{})

	a.handle(t, &hagallpb.ParticipantJoinRequest{
		Type:      hagallpb.MsgType_MSG_TYPE_PARTICIPANT_JOIN_REQUEST,
		Timestamp: timestamppb.Now(),
		RequestId: 1,
	})
	sid := store.GlobalSessionID(a.rh.CurrentSession().ID)
	b.handle(t, &hagallpb.ParticipantJoinRequest{
		Type:      hagallpb.MsgType_MSG_TYPE_PARTICIPANT_JOIN_REQUEST,
		Timestamp: timestamppb.Now(),
		RequestId: 2,
		SessionId: sid,
	})
	a.handle(t, &hagallpb.EntityAddRequest{
		Type:      hagallpb.MsgType_MSG_TYPE_ENTITY_ADD_REQUEST,
		Timestamp: timestamppb.Now(),
		RequestId: 3,
	})
	var entityID uint32
	for _, m := range a.resp.take() {
		if m.Type == hagallpb.MsgType_MSG_TYPE_ENTITY_ADD_RESPONSE {
			var res hagallpb.EntityAddResponse
			if err := m.DataTo(&res); err != nil {
				t.Fatal(err)
			}
			entityID = res.EntityId
		}
	}
	b.resp.take()

	set := func(c *h5Conn, requestID uint32, ts *timestamppb.Timestamp) (accepted bool) {
		c.handle(t, &vikjapb.EntityActionRequest{
			Type:      vikjapb.MsgType_MSG_TYPE_VIKJA_ENTITY_ACTION_REQUEST,
			Timestamp: timestamppb.Now(),
			RequestId: requestID,
			EntityAction: &vikjapb.EntityAction{
				EntityId:  entityID,
				Name:      "x",
				Timestamp: ts,
			},
		})
		for _, m := range c.resp.take() {
			switch m.Type {
			case vikjapb.MsgType_MSG_TYPE_VIKJA_ENTITY_ACTION_RESPONSE:
				return true
			case hagallpb.MsgType_MSG_TYPE_ERROR_RESPONSE:
				return false
			}
		}
		t.Fatal("no answer")
		return false
	}
	relayed := func(c *h5Conn) (n int) {
		for _, m := range c.resp.take() {
			if m.Type == vikjapb.MsgType_MSG_TYPE_VIKJA_ENTITY_ACTION_BROADCAST {
				n++
			}
		}
		return n
	}

	farFuture := &timestamppb.Timestamp{Seconds: math.MaxInt64}
	now := timestamppb.Now()

	if !set(a, 10, farFuture) {
		// a server that refuses timestamps it cannot order has nothing to keep
		t.Log("the far-future action was refused")
		return
	}
	if relayed(b) != 1 {
		t.Fatal("the far-future action was not relayed")
	}

	// older than what is stored: to be refused, and relayed to no one
	accepted := set(b, 11, now)
	n := relayed(a)

	// what a newcomer is handed
	c := newH5Conn(store, &vikja.Module{})
	c.handle(t, &hagallpb.ParticipantJoinRequest{
		Type:      hagallpb.MsgType_MSG_TYPE_PARTICIPANT_JOIN_REQUEST,
		Timestamp: timestamppb.Now(),
		RequestId: 12,
		SessionId: sid,
	})
	var kept *vikjapb.EntityAction
	for _, m := range c.resp.take() {
		if m.Type == vikjapb.MsgType_MSG_TYPE_VIKJA_STATE {
			var s vikjapb.State
			if err := m.DataTo(&s); err != nil {
				t.Fatal(err)
			}
			if len(s.EntityActions) != 1 {
				t.Fatalf("%d actions", len(s.EntityActions))
			}
			kept = s.EntityActions[0]
		}
	}

	if accepted || n != 0 || kept.Timestamp.Seconds != farFuture.Seconds {
		t.Fatalf("an action stamped %d s (now) replaced the stored one stamped %d s: accepted=%v, relayed %d time(s), "+
			"the session keeps the one stamped %d s", now.Seconds, farFuture.Seconds, accepted, n, kept.Timestamp.Seconds)
	}
}
