// websocket/hunt_h5_env_test.go
//
// Helpers of the H5 hunt tests:
//   - h5Env / h5Client: a server with any number of real WebSocket clients, each
//     of which records everything it is sent, in order;
//   - h5Conn: a connection served by the real handler code (RealtimeHandler, the
//     modules and the message routing of handler.handleMessage) without a socket;
//     what it is sent is recorded in order.
package websocket

import (
	"context"
	"net/http"
	"net/http/httptest"
	"strings"
	"sync"
	"testing"
	"time"

	"github.com/aukilabs/go-tooling/pkg/logs"
	httpcmn "github.com/aukilabs/hagall-common/http"
	"github.com/aukilabs/hagall-common/messages/hagallpb"
	hwebsocket "github.com/aukilabs/hagall-common/websocket"
	"github.com/aukilabs/hagall/models"
	"github.com/aukilabs/hagall/modules"
	"github.com/google/uuid"
	"golang.org/x/net/websocket"
)

type h5Env struct {
	t      testing.TB
	server *httptest.Server
	store  *models.SessionStore
}

func newH5Env(t testing.TB, newModule ...func() modules.Module) *h5Env {
	logs.SetLogger(func(e logs.Entry) {})

	store := &models.SessionStore{DiscoveryService: &testClient{}}
	e := &h5Env{t: t, store: store}
	e.server = httptest.NewServer(websocket.Server{
		Handshake: func(c *websocket.Config, r *http.Request) error { return nil },
		Handler: func(conn *websocket.Conn) {
			defer conn.Close()

			mods := make([]modules.Module, len(newModule))
			for i, nm := range newModule {
				mods[i] = nm()
			}
			// as in cmd/main.go and newTestHandler
			var h Handler = &RealtimeHandler{
				ClientSyncClockInterval: time.Hour,
				ClientIdleTimeout:       time.Minute,
				FrameDuration:           15 * time.Millisecond,
				Sessions:                store,
				Modules:                 mods,
			}
			h = HandlerWithLogs(h, time.Hour)
			h = HandlerWithMetrics(h, "https://auki-test.com")
			defer h.Close()

			Handle(context.Background(), conn, h)
		},
	})
	return e
}

func (e *h5Env) close() { e.server.Close() }

type h5Client struct {
	t    testing.TB
	conn *websocket.Conn

	mu   sync.Mutex
	cond *sync.Cond
	log  []hwebsocket.Msg
	done bool
}

func (e *h5Env) dial() *h5Client {
	config, err := websocket.NewConfig(strings.ReplaceAll(e.server.URL, "http://", "ws://"), "http://localhost")
	if err != nil {
		e.t.Fatal(err)
	}
	config.Header.Set("User-Agent", "ted")
	config.Header.Set(httpcmn.HeaderPosemeshClientID, uuid.NewString())
	conn, err := websocket.DialConfig(config)
	if err != nil {
		e.t.Fatal(err)
	}

	c := &h5Client{t: e.t, conn: conn}
	c.cond = sync.NewCond(&c.mu)
	go func() {
		for {
			m, _, err := hwebsocket.Receive(conn)
			c.mu.Lock()
			if err != nil {
				c.done = true
				c.cond.Broadcast()
				c.mu.Unlock()
				return
			}
			c.log = append(c.log, m)
			c.cond.Broadcast()
			c.mu.Unlock()
		}
	}()
	return c
}

func (c *h5Client) close() { c.conn.Close() }

func (c *h5Client) send(p hwebsocket.ProtoMsg) {
	m, err := hwebsocket.MsgFromProto(p)
	if err != nil {
		c.t.Fatal(err)
	}
	if _, err := hwebsocket.Send(c.conn, m); err != nil {
		c.t.Fatalf("send %T: %v", p, err)
	}
}

// waitFor returns the index in the log, at or after from, of the first message
// that satisfies pred; it fails the test after the timeout.
func (c *h5Client) waitFor(from int, what string, timeout time.Duration, pred func(hwebsocket.Msg) bool) int {
	deadline := time.Now().Add(timeout)
	timer := time.AfterFunc(timeout, func() {
		c.mu.Lock()
		c.cond.Broadcast()
		c.mu.Unlock()
	})
	defer timer.Stop()

	c.mu.Lock()
	defer c.mu.Unlock()
	i := from
	for {
		for ; i < len(c.log); i++ {
			if pred(c.log[i]) {
				return i
			}
		}
		if c.done || !time.Now().Before(deadline) {
			c.t.Fatalf("waiting for %s: not received (connection closed: %v)", what, c.done)
		}
		c.cond.Wait()
	}
}

func (c *h5Client) snapshot() []hwebsocket.Msg {
	c.mu.Lock()
	defer c.mu.Unlock()
	return append([]hwebsocket.Msg(nil), c.log...)
}

func (c *h5Client) logLen() int {
	c.mu.Lock()
	defer c.mu.Unlock()
	return len(c.log)
}

// quiesce waits until nothing has arrived for the given time.
func (c *h5Client) quiesce(idle time.Duration) {
	n := c.logLen()
	for {
		time.Sleep(idle)
		m := c.logLen()
		if m == n {
			return
		}
		n = m
	}
}

func h5Response(typ int32, requestID uint32) func(hwebsocket.Msg) bool {
	return func(m hwebsocket.Msg) bool {
		if int32(m.Type.Number()) != typ {
			return false
		}
		var r hagallpb.Response
		if err := m.DataTo(&r); err != nil {
			return false
		}
		return r.RequestId == requestID
	}
}

func h5Type(typ int32) func(hwebsocket.Msg) bool {
	return func(m hwebsocket.Msg) bool { return int32(m.Type.Number()) == typ }
}

// h5Responder records, in order, what a connection is sent (it stands for the
// connection's send queue, which is FIFO).
type h5Responder struct {
	mu   sync.Mutex
	msgs []hwebsocket.Msg
}

func (r *h5Responder) Send(p hwebsocket.ProtoMsg) {
	m, err := hwebsocket.MsgFromProto(p)
	if err != nil {
		panic(err)
	}
	r.SendMsg(m)
}

func (r *h5Responder) SendMsg(m hwebsocket.Msg) {
	r.mu.Lock()
	r.msgs = append(r.msgs, m)
	r.mu.Unlock()
}

func (r *h5Responder) take() []hwebsocket.Msg {
	r.mu.Lock()
	defer r.mu.Unlock()
	out := r.msgs
	r.msgs = nil
	return out
}

func h5Msg(t testing.TB, p hwebsocket.ProtoMsg) hwebsocket.Msg {
	m, err := hwebsocket.MsgFromProto(p)
	if err != nil {
		t.Fatal(err)
	}
	return m
}

// h5Conn is one connection served by the real handler code (RealtimeHandler
// and the message routing of handler.handleMessage), without a socket.
type h5Conn struct {
	rh   *RealtimeHandler
	h    *handler
	resp *h5Responder
}

func newH5Conn(store *models.SessionStore, mods ...modules.Module) *h5Conn {
	rh := &RealtimeHandler{
		ClientSyncClockInterval: time.Hour,
		ClientIdleTimeout:       time.Hour,
		FrameDuration:           time.Hour,
		Sessions:                store,
		Modules:                 mods,
	}
	return &h5Conn{
		rh:   rh,
		h:    &handler{Handler: rh, frameChan: make(chan struct{}, 1)},
		resp: &h5Responder{},
	}
}

// handle runs a message exactly as the main loop of a connection does.
func (c *h5Conn) handle(t testing.TB, p hwebsocket.ProtoMsg) {
	if err := c.h.handleMessage(context.Background(), h5Msg(t, p), c.resp); err != nil {
		t.Fatalf("handling %T: %v", p, err)
	}
}

func (c *h5Conn) joined() bool { return c.rh.CurrentParticipant() != nil }
