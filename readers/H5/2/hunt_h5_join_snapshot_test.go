// websocket/hunt_h5_join_snapshot_test.go
//
// needs hunt_h5_env_test.go
package websocket

import (
	"testing"
	"time"

	"github.com/aukilabs/hagall-common/messages/hagallpb"
	"google.golang.org/protobuf/types/known/timestamppb"
)

// A participant joins a session while the owner of its entities deletes them
// one after the other. Once everything has settled, the session has no entity
// left; the view of the newcomer - the session state it was handed, updated by
// the broadcasts it received after it - must have none either (C01).
func TestH5JoinWhileEntitiesAreDeleted(t *testing.T) {
	env := newH5Env(t)
	defer env.close()

	const (
		wait     = 60 * time.Second
		entities = 3000
		attempts = 8
	)

	for attempt := 0; attempt < attempts; attempt++ {
		a := env.dial()
		a.send(&hagallpb.ParticipantJoinRequest{
			Type:      hagallpb.MsgType_MSG_TYPE_PARTICIPANT_JOIN_REQUEST,
			Timestamp: timestamppb.Now(),
			RequestId: 1,
		})
		i := a.waitFor(0, "A's join response", wait, h5Response(int32(hagallpb.MsgType_MSG_TYPE_PARTICIPANT_JOIN_RESPONSE), 1))
		var jr hagallpb.ParticipantJoinResponse
		if err := a.snapshot()[i].DataTo(&jr); err != nil {
			t.Fatal(err)
		}

		go func() {
			for n := 0; n < entities; n++ {
				a.send(&hagallpb.EntityAddRequest{
					Type:      hagallpb.MsgType_MSG_TYPE_ENTITY_ADD_REQUEST,
					Timestamp: timestamppb.Now(),
					RequestId: uint32(1000 + n),
				})
			}
		}()
		a.waitFor(0, "last entity add response", wait, h5Response(int32(hagallpb.MsgType_MSG_TYPE_ENTITY_ADD_RESPONSE), uint32(1000+entities-1)))
		var ids []uint32
		for _, m := range a.snapshot() {
			if m.Type == hagallpb.MsgType_MSG_TYPE_ENTITY_ADD_RESPONSE {
				var r hagallpb.EntityAddResponse
				if err := m.DataTo(&r); err != nil {
					t.Fatal(err)
				}
				ids = append(ids, r.EntityId)
			}
		}
		if len(ids) != entities {
			t.Fatalf("%d entities", len(ids))
		}

		j := env.dial()

		// concurrently: A deletes its entities, J joins
		go func() {
			for n, id := range ids {
				a.send(&hagallpb.EntityDeleteRequest{
					Type:      hagallpb.MsgType_MSG_TYPE_ENTITY_DELETE_REQUEST,
					Timestamp: timestamppb.Now(),
					RequestId: uint32(100000 + n),
					EntityId:  id,
				})
			}
		}()
		time.Sleep(2 * time.Millisecond)
		j.send(&hagallpb.ParticipantJoinRequest{
			Type:      hagallpb.MsgType_MSG_TYPE_PARTICIPANT_JOIN_REQUEST,
			Timestamp: timestamppb.Now(),
			RequestId: 2,
			SessionId: jr.SessionId,
		})

		a.waitFor(0, "last entity delete response", wait, h5Response(int32(hagallpb.MsgType_MSG_TYPE_ENTITY_DELETE_RESPONSE), uint32(100000+entities-1)))
		j.waitFor(0, "J's session state", wait, h5Type(int32(hagallpb.MsgType_MSG_TYPE_SESSION_STATE)))
		j.quiesce(300 * time.Millisecond)

		// the server's state: what a late joiner is handed
		l := env.dial()
		l.send(&hagallpb.ParticipantJoinRequest{
			Type:      hagallpb.MsgType_MSG_TYPE_PARTICIPANT_JOIN_REQUEST,
			Timestamp: timestamppb.Now(),
			RequestId: 3,
			SessionId: jr.SessionId,
		})
		li := l.waitFor(0, "L's session state", wait, h5Type(int32(hagallpb.MsgType_MSG_TYPE_SESSION_STATE)))
		var ls hagallpb.SessionState
		if err := l.snapshot()[li].DataTo(&ls); err != nil {
			t.Fatal(err)
		}
		if len(ls.Entities) != 0 {
			t.Fatalf("the session still has %d entities", len(ls.Entities))
		}

		// J's view
		view := map[uint32]bool{}
		deletedBefore := map[uint32]bool{}
		inState := 0
		seenState := false
		for _, m := range j.snapshot() {
			switch m.Type {
			case hagallpb.MsgType_MSG_TYPE_SESSION_STATE:
				var s hagallpb.SessionState
				if err := m.DataTo(&s); err != nil {
					t.Fatal(err)
				}
				seenState = true
				inState = len(s.Entities)
				for _, e := range s.Entities {
					view[e.Id] = true
				}
			case hagallpb.MsgType_MSG_TYPE_ENTITY_DELETE_BROADCAST:
				var b hagallpb.EntityDeleteBroadcast
				if err := m.DataTo(&b); err != nil {
					t.Fatal(err)
				}
				if seenState {
					delete(view, b.EntityId)
				} else {
					deletedBefore[b.EntityId] = true
				}
			}
		}
		t.Logf("attempt %d: J was handed %d entities, %d deletions reached it before the session state", attempt, inState, len(deletedBefore))
		if len(view) != 0 {
			ghosts := 0
			for id := range view {
				if deletedBefore[id] {
					ghosts++
				}
			}
			t.Fatalf("attempt %d: the session has no entity, the newcomer's view still has %d "+
				"(%d of them were in the session state it was handed although their deletion had been broadcast to it before)",
				attempt, len(view), ghosts)
		}

		a.close()
		j.close()
		l.close()
	}
}
