// websocket/hunt_h5_join_snapshot_modules_test.go
//
// needs hunt_h5_env_test.go
package websocket

import (
	"testing"
	"time"

	"github.com/aukilabs/hagall-common/messages/hagallpb"
	"github.com/aukilabs/hagall-common/messages/odalpb"
	"github.com/aukilabs/hagall-common/messages/vikjapb"
	"google.golang.org/protobuf/types/known/timestamppb"
)

// As TestH5JoinWhileEntitiesAreDeleted, for what vikja and odal hand to the
// newcomer: every entity has an action and an asset instance. When all entities
// are gone no action and no asset instance is left in the session, and none may
// be left in the newcomer's view: the vikja / odal state it was handed, less
// what belongs to the entities whose deletion it was told about afterwards.
func TestH5JoinWhileEntitiesWithAttachmentsAreDeleted(t *testing.T) {
	env := newH5Env(t, newVikjaTestModule, newOdalTestModule)
	defer env.close()

	const (
		wait     = 60 * time.Second
		entities = 3000
		attempts = 8
	)

	for attempt := 0; attempt < attempts; attempt++ {
		a := env.dial()
		a.send(&hagallpb.ParticipantJoinRequest{
			Type:      hagallpb.MsgType_MSG_TYPE_PARTICIPANT_JOIN_REQUEST,
			Timestamp: timestamppb.Now(),
			RequestId: 1,
		})
		i := a.waitFor(0, "A's join response", wait, h5Response(int32(hagallpb.MsgType_MSG_TYPE_PARTICIPANT_JOIN_RESPONSE), 1))
		var jr hagallpb.ParticipantJoinResponse
		if err := a.snapshot()[i].DataTo(&jr); err != nil {
			t.Fatal(err)
		}

		go func() {
			for n := 0; n < entities; n++ {
				a.send(&hagallpb.EntityAddRequest{
					Type:      hagallpb.MsgType_MSG_TYPE_ENTITY_ADD_REQUEST,
					Timestamp: timestamppb.Now(),
					RequestId: uint32(1000 + n),
				})
			}
		}()
		a.waitFor(0, "last entity add response", wait, h5Response(int32(hagallpb.MsgType_MSG_TYPE_ENTITY_ADD_RESPONSE), uint32(1000+entities-1)))
		var ids []uint32
		for _, m := range a.snapshot() {
			if m.Type == hagallpb.MsgType_MSG_TYPE_ENTITY_ADD_RESPONSE {
				var r hagallpb.EntityAddResponse
				if err := m.DataTo(&r); err != nil {
					t.Fatal(err)
				}
				ids = append(ids, r.EntityId)
			}
		}
		go func() {
			for n, id := range ids {
				a.send(&vikjapb.EntityActionRequest{
					Type:      vikjapb.MsgType_MSG_TYPE_VIKJA_ENTITY_ACTION_REQUEST,
					Timestamp: timestamppb.Now(),
					RequestId: uint32(200000 + n),
					EntityAction: &vikjapb.EntityAction{
						EntityId:  id,
						Name:      "action",
						Timestamp: timestamppb.Now(),
					},
				})
				a.send(&odalpb.AssetInstanceAddRequest{
					Type:      odalpb.MsgType_MSG_TYPE_ODAL_ASSET_INSTANCE_ADD_REQUEST,
					Timestamp: timestamppb.Now(),
					RequestId: uint32(300000 + n),
					EntityId:  id,
					AssetId:   "asset",
				})
			}
		}()
		a.waitFor(0, "last asset response", wait, h5Response(int32(odalpb.MsgType_MSG_TYPE_ODAL_ASSET_INSTANCE_ADD_RESPONSE), uint32(300000+entities-1)))

		j := env.dial()

		// concurrently: A deletes its entities, J joins
		go func() {
			for n, id := range ids {
				a.send(&hagallpb.EntityDeleteRequest{
					Type:      hagallpb.MsgType_MSG_TYPE_ENTITY_DELETE_REQUEST,
					Timestamp: timestamppb.Now(),
					RequestId: uint32(100000 + n),
					EntityId:  id,
				})
			}
		}()
		time.Sleep(2 * time.Millisecond)
		j.send(&hagallpb.ParticipantJoinRequest{
			Type:      hagallpb.MsgType_MSG_TYPE_PARTICIPANT_JOIN_REQUEST,
			Timestamp: timestamppb.Now(),
			RequestId: 2,
			SessionId: jr.SessionId,
		})

		a.waitFor(0, "last entity delete response", wait, h5Response(int32(hagallpb.MsgType_MSG_TYPE_ENTITY_DELETE_RESPONSE), uint32(100000+entities-1)))
		j.waitFor(0, "J's vikja state", wait, h5Type(int32(vikjapb.MsgType_MSG_TYPE_VIKJA_STATE)))
		j.waitFor(0, "J's odal state", wait, h5Type(int32(odalpb.MsgType_MSG_TYPE_ODAL_STATE)))
		j.quiesce(300 * time.Millisecond)

		// the server's state: what a late joiner is handed
		l := env.dial()
		l.send(&hagallpb.ParticipantJoinRequest{
			Type:      hagallpb.MsgType_MSG_TYPE_PARTICIPANT_JOIN_REQUEST,
			Timestamp: timestamppb.Now(),
			RequestId: 3,
			SessionId: jr.SessionId,
		})
		vi := l.waitFor(0, "L's vikja state", wait, h5Type(int32(vikjapb.MsgType_MSG_TYPE_VIKJA_STATE)))
		oi := l.waitFor(0, "L's odal state", wait, h5Type(int32(odalpb.MsgType_MSG_TYPE_ODAL_STATE)))
		var lvs vikjapb.State
		var los odalpb.State
		if err := l.snapshot()[vi].DataTo(&lvs); err != nil {
			t.Fatal(err)
		}
		if err := l.snapshot()[oi].DataTo(&los); err != nil {
			t.Fatal(err)
		}
		if len(lvs.EntityActions) != 0 || len(los.AssetInstances) != 0 {
			t.Fatalf("the session still has %d actions, %d asset instances", len(lvs.EntityActions), len(los.AssetInstances))
		}

		// J's view of the actions and of the asset instances, by entity
		var actions, assets map[uint32]bool
		for _, m := range j.snapshot() {
			// (a received message carries its type as a hagallpb.MsgType number)
			switch int32(m.Type.Number()) {
			case int32(vikjapb.MsgType_MSG_TYPE_VIKJA_STATE):
				var s vikjapb.State
				if err := m.DataTo(&s); err != nil {
					t.Fatal(err)
				}
				actions = map[uint32]bool{}
				t.Logf("vikja state: %d actions", len(s.EntityActions))
				for _, ea := range s.EntityActions {
					actions[ea.EntityId] = true
				}
			case int32(odalpb.MsgType_MSG_TYPE_ODAL_STATE):
				var s odalpb.State
				if err := m.DataTo(&s); err != nil {
					t.Fatal(err)
				}
				assets = map[uint32]bool{}
				t.Logf("odal state: %d asset instances", len(s.AssetInstances))
				for _, ai := range s.AssetInstances {
					assets[ai.EntityId] = true
				}
			case int32(hagallpb.MsgType_MSG_TYPE_ENTITY_DELETE_BROADCAST):
				var b hagallpb.EntityDeleteBroadcast
				if err := m.DataTo(&b); err != nil {
					t.Fatal(err)
				}
				// a deletion takes the attachments the view has at that moment with it
				delete(actions, b.EntityId)
				delete(assets, b.EntityId)
			}
		}
		t.Logf("attempt %d: left in J's view: %d actions, %d asset instances", attempt, len(actions), len(assets))
		if len(actions) != 0 || len(assets) != 0 {
			t.Fatalf("attempt %d: the session has no entity, no action and no asset instance; the newcomer's view "+
				"still has %d actions and %d asset instances, of entities whose deletion was broadcast to it "+
				"before it was handed the vikja / odal state that lists them", attempt, len(actions), len(assets))
		}

		a.close()
		j.close()
		l.close()
	}
}
