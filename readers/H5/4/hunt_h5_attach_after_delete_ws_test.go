// websocket/hunt_h5_attach_after_delete_ws_test.go
//
// needs hunt_h5_env_test.go
package websocket

import (
	"testing"
	"time"

	"github.com/aukilabs/hagall-common/messages/hagallpb"
	"google.golang.org/protobuf/types/known/timestamppb"
)

// TestH5AttachmentRelayedAfterEntityDeletion over real WebSocket connections,
// for components: as soon as A's entity is announced, A deletes it and B gives it
// a component. S subscribes to the component type. In the end the entity is gone
// and the session has no component; neither may S's view.
func TestH5ComponentRelayedAfterEntityDeletionWebSocket(t *testing.T) {
	env := newH5Env(t)
	defer env.close()

	const wait = 30 * time.Second

	a, b, s := env.dial(), env.dial(), env.dial()
	a.send(&hagallpb.ParticipantJoinRequest{
		Type:      hagallpb.MsgType_MSG_TYPE_PARTICIPANT_JOIN_REQUEST,
		Timestamp: timestamppb.Now(),
		RequestId: 1,
	})
	i := a.waitFor(0, "A's join response", wait, h5Response(int32(hagallpb.MsgType_MSG_TYPE_PARTICIPANT_JOIN_RESPONSE), 1))
	var jr hagallpb.ParticipantJoinResponse
	if err := a.snapshot()[i].DataTo(&jr); err != nil {
		t.Fatal(err)
	}
	for _, c := range []*h5Client{b, s} {
		c.send(&hagallpb.ParticipantJoinRequest{
			Type:      hagallpb.MsgType_MSG_TYPE_PARTICIPANT_JOIN_REQUEST,
			Timestamp: timestamppb.Now(),
			RequestId: 2,
			SessionId: jr.SessionId,
		})
		c.waitFor(0, "join response", wait, h5Response(int32(hagallpb.MsgType_MSG_TYPE_PARTICIPANT_JOIN_RESPONSE), 2))
	}
	s.send(&hagallpb.EntityComponentTypeAddRequest{
		Type:                    hagallpb.MsgType_MSG_TYPE_ENTITY_COMPONENT_TYPE_ADD_REQUEST,
		Timestamp:               timestamppb.Now(),
		RequestId:               3,
		EntityComponentTypeName: "t",
	})
	i = s.waitFor(0, "type add response", wait, h5Response(int32(hagallpb.MsgType_MSG_TYPE_ENTITY_COMPONENT_TYPE_ADD_RESPONSE), 3))
	var tr hagallpb.EntityComponentTypeAddResponse
	if err := s.snapshot()[i].DataTo(&tr); err != nil {
		t.Fatal(err)
	}
	typeID := tr.EntityComponentTypeId
	s.send(&hagallpb.EntityComponentTypeSubscribeRequest{
		Type:                  hagallpb.MsgType_MSG_TYPE_ENTITY_COMPONENT_TYPE_SUBSCRIBE_REQUEST,
		Timestamp:             timestamppb.Now(),
		RequestId:             4,
		EntityComponentTypeId: typeID,
	})
	s.waitFor(0, "subscribe response", wait, h5Response(int32(hagallpb.MsgType_MSG_TYPE_ENTITY_COMPONENT_TYPE_SUBSCRIBE_RESPONSE), 4))

	const rounds = 20000
	deadline := time.Now().Add(120 * time.Second)

	// B: a component for every entity it is told about
	bStop := make(chan struct{})
	bDone := make(chan struct{})
	go func() {
		defer close(bDone)
		from := 0
		for {
			select {
			case <-bStop:
				return
			default:
			}
			log := b.snapshot()
			if len(log) == from {
				time.Sleep(20 * time.Microsecond)
				continue
			}
			for _, m := range log[from:] {
				if m.Type == hagallpb.MsgType_MSG_TYPE_ENTITY_ADD_BROADCAST {
					var bc hagallpb.EntityAddBroadcast
					if err := m.DataTo(&bc); err != nil {
						return
					}
					b.send(&hagallpb.EntityComponentAddRequest{
						Type:                  hagallpb.MsgType_MSG_TYPE_ENTITY_COMPONENT_ADD_REQUEST,
						Timestamp:             timestamppb.Now(),
						RequestId:             uint32(1000000 + bc.Entity.Id),
						EntityComponentTypeId: typeID,
						EntityId:              bc.Entity.Id,
						Data:                  []byte("d"),
					})
				}
			}
			from = len(log)
		}
	}()

	from := a.logLen()
	done := 0
	for ; done < rounds && time.Now().Before(deadline); done++ {
		a.send(&hagallpb.EntityAddRequest{
			Type:      hagallpb.MsgType_MSG_TYPE_ENTITY_ADD_REQUEST,
			Timestamp: timestamppb.Now(),
			RequestId: uint32(10 + 2*done),
		})
		i := a.waitFor(from, "entity add response", wait, h5Response(int32(hagallpb.MsgType_MSG_TYPE_ENTITY_ADD_RESPONSE), uint32(10+2*done)))
		var er hagallpb.EntityAddResponse
		if err := a.snapshot()[i].DataTo(&er); err != nil {
			t.Fatal(err)
		}
		a.send(&hagallpb.EntityDeleteRequest{
			Type:      hagallpb.MsgType_MSG_TYPE_ENTITY_DELETE_REQUEST,
			Timestamp: timestamppb.Now(),
			RequestId: uint32(11 + 2*done),
			EntityId:  er.EntityId,
		})
		from = a.waitFor(i, "entity delete response", wait, h5Response(int32(hagallpb.MsgType_MSG_TYPE_ENTITY_DELETE_RESPONSE), uint32(11+2*done)))
	}
	b.quiesce(300 * time.Millisecond)
	close(bStop)
	<-bDone
	s.quiesce(300 * time.Millisecond)

	// the session: no entity, no component
	l := env.dial()
	l.send(&hagallpb.ParticipantJoinRequest{
		Type:      hagallpb.MsgType_MSG_TYPE_PARTICIPANT_JOIN_REQUEST,
		Timestamp: timestamppb.Now(),
		RequestId: 5,
		SessionId: jr.SessionId,
	})
	i = l.waitFor(0, "L's session state", wait, h5Type(int32(hagallpb.MsgType_MSG_TYPE_SESSION_STATE)))
	var ls hagallpb.SessionState
	if err := l.snapshot()[i].DataTo(&ls); err != nil {
		t.Fatal(err)
	}
	if len(ls.Entities) != 0 || len(ls.EntityComponents) != 0 {
		t.Fatalf("the session has %d entities, %d components", len(ls.Entities), len(ls.EntityComponents))
	}

	// S's view
	entities := map[uint32]bool{}
	components := map[uint32]bool{} // by entity; one type
	for _, m := range s.snapshot() {
		switch m.Type {
		case hagallpb.MsgType_MSG_TYPE_ENTITY_ADD_BROADCAST:
			var bc hagallpb.EntityAddBroadcast
			if err := m.DataTo(&bc); err != nil {
				t.Fatal(err)
			}
			entities[bc.Entity.Id] = true
		case hagallpb.MsgType_MSG_TYPE_ENTITY_DELETE_BROADCAST:
			var bc hagallpb.EntityDeleteBroadcast
			if err := m.DataTo(&bc); err != nil {
				t.Fatal(err)
			}
			delete(entities, bc.EntityId)
			delete(components, bc.EntityId)
		case hagallpb.MsgType_MSG_TYPE_ENTITY_COMPONENT_ADD_BROADCAST:
			var bc hagallpb.EntityComponentAddBroadcast
			if err := m.DataTo(&bc); err != nil {
				t.Fatal(err)
			}
			components[bc.EntityComponent.EntityId] = true
		case hagallpb.MsgType_MSG_TYPE_ENTITY_COMPONENT_DELETE_BROADCAST:
			var bc hagallpb.EntityComponentDeleteBroadcast
			if err := m.DataTo(&bc); err != nil {
				t.Fatal(err)
			}
			delete(components, bc.EntityComponent.EntityId)
		}
	}
	t.Logf("%d rounds", done)
	if len(entities) != 0 || len(components) != 0 {
		t.Fatalf("after %d rounds the session has no entity and no component; the subscriber's view has %d entities and %d components "+
			"(of entities whose deletion it had been told about before it was told about the component)", done, len(entities), len(components))
	}
}
