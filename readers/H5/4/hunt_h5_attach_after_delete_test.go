// websocket/hunt_h5_attach_after_delete_test.go
//
// needs hunt_h5_env_test.go
package websocket

import (
	"sync"
	"testing"

	"github.com/aukilabs/hagall-common/messages/hagallpb"
	"github.com/aukilabs/hagall-common/messages/vikjapb"
	"github.com/aukilabs/hagall/models"
	"github.com/aukilabs/hagall/modules/vikja"
	"google.golang.org/protobuf/types/known/timestamppb"
)

// The owner A deletes an entity while B attaches a component and an action to
// it. Whatever the outcome of B's requests, the view of a third member S - who
// subscribes to the component type - must end up equal to the session: when the
// entity is gone, S must not be left with a component or an action of it, i.e.
// the addition must not be relayed to S after the deletion of the entity.
func TestH5AttachmentRelayedAfterEntityDeletion(t *testing.T) {
	store := &models.SessionStore{DiscoveryService: &testClient{}}
	a := newH5Conn(store, &vikja.Module{})
	b := newH5Conn(store, &vikja.Module{})
	s := newH5Conn(store, &vikja.Module{})

	a.handle(t, &hagallpb.ParticipantJoinRequest{
		Type:      hagallpb.MsgType_MSG_TYPE_PARTICIPANT_JOIN_REQUEST,
		Timestamp: timestamppb.Now(),
		RequestId: 1,
	})
	sid := store.GlobalSessionID(a.rh.CurrentSession().ID)
	for _, c := range []*h5Conn{b, s} {
		c.handle(t, &hagallpb.ParticipantJoinRequest{
			Type:      hagallpb.MsgType_MSG_TYPE_PARTICIPANT_JOIN_REQUEST,
			Timestamp: timestamppb.Now(),
			RequestId: 2,
			SessionId: sid,
		})
	}
	typeID := a.rh.CurrentSession().GetEntityComponents().AddType("t")
	s.handle(t, &hagallpb.EntityComponentTypeSubscribeRequest{
		Type:                  hagallpb.MsgType_MSG_TYPE_ENTITY_COMPONENT_TYPE_SUBSCRIBE_REQUEST,
		Timestamp:             timestamppb.Now(),
		RequestId:             3,
		EntityComponentTypeId: typeID,
	})

	ghostComponents, ghostActions := 0, 0
	const rounds = 30000
	for i := 0; i < rounds; i++ {
		a.resp.take()
		a.handle(t, &hagallpb.EntityAddRequest{
			Type:      hagallpb.MsgType_MSG_TYPE_ENTITY_ADD_REQUEST,
			Timestamp: timestamppb.Now(),
			RequestId: 4,
		})
		var entityID uint32
		for _, m := range a.resp.take() {
			if m.Type == hagallpb.MsgType_MSG_TYPE_ENTITY_ADD_RESPONSE {
				var res hagallpb.EntityAddResponse
				if err := m.DataTo(&res); err != nil {
					t.Fatal(err)
				}
				entityID = res.EntityId
			}
		}
		s.resp.take()
		b.resp.take()

		var wg sync.WaitGroup
		wg.Add(2)
		go func() {
			defer wg.Done()
			a.handle(t, &hagallpb.EntityDeleteRequest{
				Type:      hagallpb.MsgType_MSG_TYPE_ENTITY_DELETE_REQUEST,
				Timestamp: timestamppb.Now(),
				RequestId: 5,
				EntityId:  entityID,
			})
		}()
		go func() {
			defer wg.Done()
			b.handle(t, &hagallpb.EntityComponentAddRequest{
				Type:                  hagallpb.MsgType_MSG_TYPE_ENTITY_COMPONENT_ADD_REQUEST,
				Timestamp:             timestamppb.Now(),
				RequestId:             6,
				EntityComponentTypeId: typeID,
				EntityId:              entityID,
				Data:                  []byte("d"),
			})
			b.handle(t, &vikjapb.EntityActionRequest{
				Type:      vikjapb.MsgType_MSG_TYPE_VIKJA_ENTITY_ACTION_REQUEST,
				Timestamp: timestamppb.Now(),
				RequestId: 7,
				EntityAction: &vikjapb.EntityAction{
					EntityId:  entityID,
					Name:      "x",
					Timestamp: timestamppb.Now(),
				},
			})
		}()
		wg.Wait()

		if _, ok := a.rh.CurrentSession().EntityByID(entityID); ok {
			t.Fatal("entity still there")
		}
		if l := a.rh.CurrentSession().GetEntityComponents().List(typeID); len(l) != 0 {
			t.Fatalf("round %d: component outlived its entity", i)
		}

		// S's view of this entity
		deleted := false
		for _, m := range s.resp.take() {
			switch m.Type {
			case hagallpb.MsgType_MSG_TYPE_ENTITY_DELETE_BROADCAST:
				deleted = true
			case hagallpb.MsgType_MSG_TYPE_ENTITY_COMPONENT_ADD_BROADCAST:
				if deleted {
					ghostComponents++
				}
			case vikjapb.MsgType_MSG_TYPE_VIKJA_ENTITY_ACTION_BROADCAST:
				if deleted {
					ghostActions++
				}
			}
		}
		if !deleted {
			t.Fatal("deletion not relayed")
		}
	}
	if ghostComponents != 0 || ghostActions != 0 {
		t.Fatalf("in %d rounds a member was told %d time(s) of a component and %d time(s) of an action "+
			"of an entity AFTER it had been told that the entity was deleted; the session holds neither",
			rounds, ghostComponents, ghostActions)
	}
}
