package websocket

import (
	"sync"
	"testing"
	"time"

	"github.com/aukilabs/hagall-common/messages/hagallpb"
	"google.golang.org/protobuf/types/known/timestamppb"
)

func TestHuntStressChurn(t *testing.T) {
	env := newHuntEnv(t, 5*time.Millisecond)
	const N = 3
	stable := make([]*huntClient, N)
	var sid string
	for i := range stable {
		stable[i] = env.client()
		sid, _ = stable[i].join(sid)
	}
	for i := range stable {
		stable[i].settle(100 * time.Millisecond)
	}
	other := env.client()
	sid2, _ := other.join("")

	type rec struct {
		pid     uint32
		eid     uint32
		persist bool
	}
	var mu sync.Mutex
	var recs []rec

	var wg sync.WaitGroup
	for k := 0; k < 6; k++ {
		wg.Add(1)
		go func(k int) {
			defer wg.Done()
			for n := 0; n < 40; n++ {
				c := env.client()
				_, pid := c.join(sid)
				persist := (k+n)%3 == 0
				eid := c.addEntity(persist)
				mu.Lock()
				recs = append(recs, rec{pid, eid, persist})
				mu.Unlock()
				switch (k + n) % 4 {
				case 0:
					c.join(sid2)
				case 1:
					c.join("")
				case 2:
					c.send(&hagallpb.EntityDeleteRequest{Type: hagallpb.MsgType_MSG_TYPE_ENTITY_DELETE_REQUEST, Timestamp: timestamppb.Now(), RequestId: 9, EntityId: eid})
					c.mustNext(int32(hagallpb.MsgType_MSG_TYPE_ENTITY_DELETE_RESPONSE))
				}
				c.conn.Close()
			}
		}(k)
	}
	wg.Wait()
	time.Sleep(2 * time.Second)

	for i, c := range stable {
		joins, leaves, adds, dels := map[uint32]int{}, map[uint32]int{}, map[uint32]int{}, map[uint32]int{}
		for _, m := range c.settle(300 * time.Millisecond) {
			switch hagallpb.MsgType(m.Type.Number()) {
			case hagallpb.MsgType_MSG_TYPE_PARTICIPANT_JOIN_BROADCAST:
				var b hagallpb.ParticipantJoinBroadcast
				m.DataTo(&b)
				joins[b.ParticipantId]++
			case hagallpb.MsgType_MSG_TYPE_PARTICIPANT_LEAVE_BROADCAST:
				var b hagallpb.ParticipantLeaveBroadcast
				m.DataTo(&b)
				leaves[b.ParticipantId]++
				if joins[b.ParticipantId] != 1 {
					t.Errorf("client %d: leave of %d before its join", i, b.ParticipantId)
				}
			case hagallpb.MsgType_MSG_TYPE_ENTITY_ADD_BROADCAST:
				var b hagallpb.EntityAddBroadcast
				m.DataTo(&b)
				adds[b.Entity.Id]++
				if joins[b.Entity.ParticipantId] != 1 || leaves[b.Entity.ParticipantId] != 0 {
					t.Errorf("client %d: entity add out of order", i)
				}
			case hagallpb.MsgType_MSG_TYPE_ENTITY_DELETE_BROADCAST:
				var b hagallpb.EntityDeleteBroadcast
				m.DataTo(&b)
				dels[b.EntityId]++
				if adds[b.EntityId] != 1 {
					t.Errorf("client %d: entity delete before add", i)
				}
			}
		}
		for _, r := range recs {
			if joins[r.pid] != 1 || leaves[r.pid] != 1 || adds[r.eid] != 1 {
				t.Errorf("client %d: participant %d joins=%d leaves=%d adds=%d", i, r.pid, joins[r.pid], leaves[r.pid], adds[r.eid])
			}
			_ = dels
		}
		if len(joins) != len(recs) || len(leaves) != len(recs) || len(adds) != len(recs) {
			t.Errorf("client %d: %d joins %d leaves %d adds, want %d", i, len(joins), len(leaves), len(adds), len(recs))
		}
	}

	// final state as a newcomer sees it
	c := env.client()
	c.send(&hagallpb.ParticipantJoinRequest{Type: hagallpb.MsgType_MSG_TYPE_PARTICIPANT_JOIN_REQUEST, Timestamp: timestamppb.Now(), RequestId: 1, SessionId: sid})
	var st hagallpb.SessionState
	c.mustNext(int32(hagallpb.MsgType_MSG_TYPE_SESSION_STATE)).DataTo(&st)
	if len(st.Participants) != N+1 {
		t.Errorf("participants: %d", len(st.Participants))
	}
	t.Logf("entities left: %d of %d", len(st.Entities), len(recs))
}
