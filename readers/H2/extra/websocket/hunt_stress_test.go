package websocket

import (
	"encoding/binary"
	"sync"
	"testing"
	"time"

	"github.com/aukilabs/hagall-common/messages/hagallpb"
	"github.com/aukilabs/hagall-common/messages/vikjapb"
	"google.golang.org/protobuf/types/known/timestamppb"
)

func TestHuntStressRelays(t *testing.T) {
	env := newHuntEnv(t, 5*time.Millisecond)
	const N = 3
	const M = 300
	stable := make([]*huntClient, N)
	pids := make([]uint32, N)
	var sid string
	for i := range stable {
		stable[i] = env.client()
		var s string
		s, pids[i] = stable[i].join(sid)
		sid = s
	}
	// a second session for churners to switch to
	other := env.client()
	sid2, _ := other.join("")

	stop := make(chan struct{})
	var wg sync.WaitGroup
	for k := 0; k < 4; k++ {
		wg.Add(1)
		go func(k int) {
			defer wg.Done()
			for {
				select {
				case <-stop:
					return
				default:
				}
				c := env.client()
				c.join(sid)
				c.addEntity(k%2 == 0)
				c.send(&hagallpb.CustomMessage{Type: hagallpb.MsgType_MSG_TYPE_CUSTOM_MESSAGE, Timestamp: timestamppb.Now(), Body: []byte("churn")})
				if k%2 == 0 {
					c.join(sid2)
				}
				c.conn.Close()
			}
		}(k)
	}

	for i := range stable {
		wg.Add(1)
		go func(i int) {
			defer wg.Done()
			c := stable[i]
			for n := 0; n < M; n++ {
				body := make([]byte, 8)
				binary.BigEndian.PutUint32(body, uint32(i))
				binary.BigEndian.PutUint32(body[4:], uint32(n))
				switch n % 3 {
				case 0:
					c.send(&hagallpb.CustomMessage{Type: hagallpb.MsgType_MSG_TYPE_CUSTOM_MESSAGE, Timestamp: timestamppb.Now(), Body: body})
				case 1:
					ids := []uint32{pids[(i+1)%N], pids[(i+2)%N], pids[i], 9999, pids[(i+1)%N]}
					c.send(&hagallpb.CustomMessage{Type: hagallpb.MsgType_MSG_TYPE_CUSTOM_MESSAGE, Timestamp: timestamppb.Now(), Body: body, ParticipantIds: ids})
				case 2:
					c.send(&hagallpb.EntityAddRequest{Type: hagallpb.MsgType_MSG_TYPE_ENTITY_ADD_REQUEST, Timestamp: timestamppb.Now(), RequestId: uint32(n), Pose: &hagallpb.Pose{Px: float32(i), Py: float32(n)}})
				}
				if n%10 == 0 {
					time.Sleep(time.Millisecond)
				}
			}
		}(i)
	}
	time.Sleep(500 * time.Millisecond)
	// wait for the stable senders, then stop churners
	done := make(chan struct{})
	go func() { wg.Wait(); close(done) }()
	time.Sleep(2 * time.Second)
	close(stop)
	<-done
	time.Sleep(time.Second)
	_ = vikjapb.MsgType_MSG_TYPE_VIKJA_STATE

	for i, c := range stable {
		lastSeen := map[uint32]int{}
		for j := range stable {
			lastSeen[uint32(j)] = -1
		}
		count := map[uint32]int{}
		responses := 0
		for _, m := range c.settle(300 * time.Millisecond) {
			var from, n uint32
			switch hagallpb.MsgType(m.Type.Number()) {
			case hagallpb.MsgType_MSG_TYPE_CUSTOM_MESSAGE_BROADCAST:
				var bc hagallpb.CustomMessageBroadcast
				m.DataTo(&bc)
				if string(bc.Body) == "churn" {
					continue
				}
				from, n = binary.BigEndian.Uint32(bc.Body), binary.BigEndian.Uint32(bc.Body[4:])
				if bc.ParticipantId != pids[from] {
					t.Errorf("stamp %d want %d", bc.ParticipantId, pids[from])
				}
			case hagallpb.MsgType_MSG_TYPE_ENTITY_ADD_BROADCAST:
				var bc hagallpb.EntityAddBroadcast
				m.DataTo(&bc)
				if bc.Entity.Pose.Py == 0 && bc.Entity.Pose.Px == 0 && bc.Entity.ParticipantId != pids[0] {
					continue // churner
				}
				found := false
				for j := range pids {
					if pids[j] == bc.Entity.ParticipantId {
						found = true
					}
				}
				if !found {
					continue
				}
				from, n = uint32(bc.Entity.Pose.Px), uint32(bc.Entity.Pose.Py)
			case hagallpb.MsgType_MSG_TYPE_ENTITY_ADD_RESPONSE:
				responses++
				continue
			default:
				continue
			}
			if int(from) == i {
				t.Errorf("client %d got its own relay", i)
			}
			if int(n) <= lastSeen[from] {
				t.Errorf("client %d: relay %d of %d after %d", i, n, from, lastSeen[from])
			}
			lastSeen[from] = int(n)
			count[from]++
		}
		for j := range stable {
			if j == i {
				continue
			}
			if count[uint32(j)] != M {
				t.Errorf("client %d received %d relays of %d, want %d", i, count[uint32(j)], j, M)
			}
		}
		if responses != M/3 {
			t.Errorf("client %d: %d entity add responses, want %d", i, responses, M/3)
		}
	}
}
