// websocket/hunt_latency_test.go  (needs websocket/hunt_helpers_test.go)
package websocket

import (
	"testing"
	"time"

	"github.com/aukilabs/hagall-common/messages/hagallpb"
	hwebsocket "github.com/aukilabs/hagall-common/websocket"
	"google.golang.org/protobuf/types/known/timestamppb"
)

func reqID(t *testing.T, m hwebsocket.Msg) uint32 {
	var r hagallpb.Response
	if err := m.DataTo(&r); err != nil {
		t.Fatal(err)
	}
	return r.RequestId
}

// A second signed latency request while the first measurement is running.
func TestHuntSignedLatencyTwoRequests(t *testing.T) {
	env := newHuntEnv(t, 20*time.Millisecond)
	a := env.client()
	a.join("")
	a.settle(100 * time.Millisecond)

	sendLatency := func(id uint32) {
		a.send(&hagallpb.SignedLatencyRequest{
			Type:           hagallpb.MsgType_MSG_TYPE_SIGNED_LATENCY_REQUEST,
			Timestamp:      timestamppb.Now(),
			RequestId:      id,
			IterationCount: 3,
			WalletAddress:  "0x1",
		})
	}
	pong := func(id uint32) {
		a.send(&hagallpb.Response{
			Type:      hagallpb.MsgType_MSG_TYPE_PING_RESPONSE,
			Timestamp: timestamppb.Now(),
			RequestId: id,
		})
	}

	sendLatency(10)
	p1 := reqID(t, a.mustNext(int32(hagallpb.MsgType_MSG_TYPE_PING_REQUEST)))
	sendLatency(11)
	p2 := reqID(t, a.mustNext(int32(hagallpb.MsgType_MSG_TYPE_PING_REQUEST)))

	answered := map[uint32]int{}
	pending := []uint32{p1, p2}
	deadline := time.Now().Add(3 * time.Second)
	for time.Now().Before(deadline) {
		for _, p := range pending {
			pong(p)
		}
		pending = nil
		m, ok := a.next(500*time.Millisecond, func(hwebsocket.Msg) bool { return true })
		if !ok {
			break
		}
		switch hagallpb.MsgType(m.Type.Number()) {
		case hagallpb.MsgType_MSG_TYPE_PING_REQUEST:
			pending = append(pending, reqID(t, m))
		case hagallpb.MsgType_MSG_TYPE_SIGNED_LATENCY_RESPONSE:
			answered[reqID(t, m)]++
			t.Logf("signed latency response for request %d", reqID(t, m))
		case hagallpb.MsgType_MSG_TYPE_ERROR_RESPONSE:
			var e hagallpb.ErrorResponse
			m.DataTo(&e)
			t.Logf("error response request_id=%d code=%v (p1=%d p2=%d)", e.RequestId, e.Code, p1, p2)
			if e.RequestId == 10 || e.RequestId == 11 {
				answered[e.RequestId]++
			}
		}
	}

	if answered[10] != 1 {
		t.Errorf("request 10 answered %d times, want 1", answered[10])
	}
	if answered[11] != 1 {
		t.Errorf("request 11 answered %d times, want 1", answered[11])
	}
}

// Variant: the requester changes session while the measurement is running.
func TestHuntSignedLatencyAcrossSessionChange(t *testing.T) {
	env := newHuntEnv(t, 20*time.Millisecond)
	a := env.client()
	a.join("")
	a.settle(100 * time.Millisecond)

	a.send(&hagallpb.SignedLatencyRequest{
		Type:           hagallpb.MsgType_MSG_TYPE_SIGNED_LATENCY_REQUEST,
		Timestamp:      timestamppb.Now(),
		RequestId:      10,
		IterationCount: 3,
		WalletAddress:  "0x1",
	})
	pending := []uint32{reqID(t, a.mustNext(int32(hagallpb.MsgType_MSG_TYPE_PING_REQUEST)))}
	a.join("")

	answered := 0
	for {
		for _, p := range pending {
			a.send(&hagallpb.Response{Type: hagallpb.MsgType_MSG_TYPE_PING_RESPONSE, Timestamp: timestamppb.Now(), RequestId: p})
		}
		pending = nil
		m, ok := a.next(500*time.Millisecond, func(hwebsocket.Msg) bool { return true })
		if !ok {
			break
		}
		switch hagallpb.MsgType(m.Type.Number()) {
		case hagallpb.MsgType_MSG_TYPE_PING_REQUEST:
			pending = append(pending, reqID(t, m))
		case hagallpb.MsgType_MSG_TYPE_SIGNED_LATENCY_RESPONSE:
			if reqID(t, m) == 10 {
				answered++
			}
		case hagallpb.MsgType_MSG_TYPE_ERROR_RESPONSE:
			var e hagallpb.ErrorResponse
			m.DataTo(&e)
			t.Logf("error response request_id=%d code=%v", e.RequestId, e.Code)
			if e.RequestId == 10 {
				answered++
			}
		}
	}
	if answered != 1 {
		t.Errorf("request 10 answered %d times, want 1", answered)
	}
}
