// websocket/hunt_refused_join_test.go  (needs websocket/hunt_helpers_test.go)
package websocket

import (
	"testing"
	"time"

	"github.com/aukilabs/hagall-common/messages/hagallpb"
	"google.golang.org/protobuf/types/known/timestamppb"
)

// A join request that is refused (already joined / not found) while the
// requester is in a session is answered with the error response and with
// nothing else.
func TestHuntRefusedJoinIsAnsweredWithTheErrorOnly(t *testing.T) {
	env := newHuntEnv(t, 20*time.Millisecond)
	a := env.client()
	sid, _ := a.join("")
	a.settle(100 * time.Millisecond)

	for _, tc := range []struct {
		session string
		code    hagallpb.ErrorCode
	}{
		{sid, hagallpb.ErrorCode_ERROR_CODE_SESSION_ALREADY_JOINED},
		{"nope", hagallpb.ErrorCode_ERROR_CODE_NOT_FOUND},
	} {
		a.send(&hagallpb.ParticipantJoinRequest{
			Type:      hagallpb.MsgType_MSG_TYPE_PARTICIPANT_JOIN_REQUEST,
			Timestamp: timestamppb.Now(),
			RequestId: 5,
			SessionId: tc.session,
		})
		time.Sleep(300 * time.Millisecond)
		errors := 0
		for _, m := range a.settle(100 * time.Millisecond) {
			if hagallpb.MsgType(m.Type.Number()) == hagallpb.MsgType_MSG_TYPE_ERROR_RESPONSE {
				var e hagallpb.ErrorResponse
				m.DataTo(&e)
				if e.RequestId != 5 || e.Code != tc.code {
					t.Errorf("join %q: answer %v", tc.session, &e)
				}
				errors++
				continue
			}
			t.Errorf("join %q refused with %v, but the requester also received %s", tc.session, tc.code, m.TypeString())
		}
		if errors != 1 {
			t.Errorf("join %q: %d error responses", tc.session, errors)
		}
	}
}
