// websocket/hunt_receipt_test.go  (needs websocket/hunt_helpers_test.go)
package websocket

import (
	"testing"
	"time"

	"github.com/aukilabs/hagall-common/messages/hagallpb"
	"google.golang.org/protobuf/types/known/timestamppb"
)

// A refused receipt request changes nothing.
func TestHuntRefusedReceiptChangesNothing(t *testing.T) {
	for _, tc := range []string{"bad request", "too busy"} {
		t.Run(tc, func(t *testing.T) {
			env := newHuntEnv(t, 20*time.Millisecond)
			a := env.client()
			sid, _ := a.join("")
			b := env.client()
			_, pb := b.join(sid)
			eb := b.addEntity(false)
			a.settle(100 * time.Millisecond)
			b.settle(100 * time.Millisecond)

			var want hagallpb.ErrorCode
			if tc == "bad request" {
				want = hagallpb.ErrorCode_ERROR_CODE_BAD_REQUEST
				b.send(&hagallpb.ReceiptRequest{
					Type: hagallpb.MsgType_MSG_TYPE_RECEIPT_REQUEST, Timestamp: timestamppb.Now(),
					RequestId: 7, Receipt: "r", Hash: []byte("h"), Signature: nil,
				})
			} else {
				want = hagallpb.ErrorCode_ERROR_CODE_SERVER_TOO_BUSY
				// nobody takes the receipts: the queue (4 places here, 128 in the server) fills up
				for i := 0; i < cap(env.receipts); i++ {
					b.send(&hagallpb.ReceiptRequest{
						Type: hagallpb.MsgType_MSG_TYPE_RECEIPT_REQUEST, Timestamp: timestamppb.Now(),
						RequestId: 100 + uint32(i), Receipt: "r", Hash: []byte("h"), Signature: []byte("s"),
					})
					b.mustNext(int32(hagallpb.MsgType_MSG_TYPE_RECEIPT_RESPONSE))
				}
				b.send(&hagallpb.ReceiptRequest{
					Type: hagallpb.MsgType_MSG_TYPE_RECEIPT_REQUEST, Timestamp: timestamppb.Now(),
					RequestId: 7, Receipt: "r", Hash: []byte("h"), Signature: []byte("s"),
				})
			}
			if m, ok := b.next(2*time.Second, byType(int32(hagallpb.MsgType_MSG_TYPE_ERROR_RESPONSE))); ok {
				var e hagallpb.ErrorResponse
				m.DataTo(&e)
				if e.RequestId != 7 || e.Code != want {
					t.Fatalf("answer: %v", &e)
				}
			} else {
				t.Errorf("request 7 was not answered (want error %v); connection closed: %v", want, b.isClosed())
			}

			time.Sleep(500 * time.Millisecond)
			if b.isClosed() {
				t.Errorf("the refused request ended the connection of participant %d", pb)
			}
			for _, m := range a.settle(100 * time.Millisecond) {
				switch hagallpb.MsgType(m.Type.Number()) {
				case hagallpb.MsgType_MSG_TYPE_ENTITY_DELETE_BROADCAST:
					t.Errorf("the refused request removed entity %d from the session (delete broadcast to the other member)", eb)
				case hagallpb.MsgType_MSG_TYPE_PARTICIPANT_LEAVE_BROADCAST:
					t.Errorf("the refused request removed participant %d from the session (leave broadcast to the other member)", pb)
				}
			}
		})
	}
}
