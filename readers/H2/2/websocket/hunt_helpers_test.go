// websocket/hunt_helpers_test.go: a small client for the hunt_*_test.go files
package websocket

import (
	"context"
	"net/http"
	"net/http/httptest"
	"strings"
	"sync"
	"testing"
	"time"

	"github.com/aukilabs/go-tooling/pkg/logs"
	httpcmn "github.com/aukilabs/hagall-common/http"
	"github.com/aukilabs/hagall-common/messages/hagallpb"
	"github.com/aukilabs/hagall-common/ncsclient"
	hwebsocket "github.com/aukilabs/hagall-common/websocket"
	"github.com/aukilabs/hagall/featureflag"
	"github.com/aukilabs/hagall/models"
	"github.com/aukilabs/hagall/modules"
	"github.com/aukilabs/hagall/modules/dagaz"
	"github.com/aukilabs/hagall/modules/odal"
	"github.com/aukilabs/hagall/modules/vikja"
	"github.com/ethereum/go-ethereum/crypto"
	"github.com/google/uuid"
	"golang.org/x/net/websocket"
	"google.golang.org/protobuf/types/known/timestamppb"
)

type huntEnv struct {
	t        *testing.T
	server   *httptest.Server
	store    *models.SessionStore
	receipts chan ncsclient.ReceiptPayload
	cmu      sync.Mutex
	clients  []*huntClient
}

type huntClient struct {
	t    *testing.T
	conn *websocket.Conn

	mu     sync.Mutex
	msgs   []hwebsocket.Msg
	closed bool
	cond   *sync.Cond
}

func newHuntEnv(t *testing.T, frame time.Duration, flags ...string) *huntEnv {
	logs.SetLogger(func(e logs.Entry) {})
	key, err := crypto.GenerateKey()
	if err != nil {
		t.Fatal(err)
	}
	env := &huntEnv{
		t:        t,
		store:    &models.SessionStore{DiscoveryService: &testClient{}},
		receipts: make(chan ncsclient.ReceiptPayload, 4),
	}
	env.server = httptest.NewServer(websocket.Server{
		Handshake: func(c *websocket.Config, r *http.Request) error { return nil },
		Handler: func(conn *websocket.Conn) {
			defer conn.Close()
			var h Handler = &RealtimeHandler{
				ClientSyncClockInterval: time.Hour,
				ClientIdleTimeout:       time.Minute,
				FrameDuration:           frame,
				Sessions:                env.store,
				Modules:                 []modules.Module{&vikja.Module{}, &odal.Module{}, &dagaz.Module{}},
				FeatureFlags:            featureflag.New(flags),
				ReceiptChan:             env.receipts,
				PrivateKey:              key,
			}
			h = HandlerWithLogs(h, time.Hour)
			h = HandlerWithMetrics(h, "https://auki-test.com")
			defer h.Close()
			Handle(context.Background(), conn, h)
		},
	})
	t.Cleanup(func() {
		env.cmu.Lock()
		defer env.cmu.Unlock()
		for _, c := range env.clients {
			c.conn.Close()
		}
		env.server.Close()
	})
	return env
}

func (e *huntEnv) client() *huntClient {
	config, err := websocket.NewConfig(strings.ReplaceAll(e.server.URL, "http://", "ws://"), "http://localhost")
	if err != nil {
		e.t.Fatal(err)
	}
	config.Header.Set(httpcmn.HeaderPosemeshClientID, uuid.NewString())
	conn, err := websocket.DialConfig(config)
	if err != nil {
		e.t.Fatal(err)
	}
	c := &huntClient{t: e.t, conn: conn}
	c.cond = sync.NewCond(&c.mu)
	e.cmu.Lock()
	e.clients = append(e.clients, c)
	e.cmu.Unlock()
	go func() {
		for {
			msg, _, err := hwebsocket.Receive(conn)
			c.mu.Lock()
			if err != nil {
				c.closed = true
				c.cond.Broadcast()
				c.mu.Unlock()
				return
			}
			c.msgs = append(c.msgs, msg)
			c.cond.Broadcast()
			c.mu.Unlock()
		}
	}()
	return c
}

func (c *huntClient) send(p hwebsocket.ProtoMsg) {
	msg, err := hwebsocket.MsgFromProto(p)
	if err != nil {
		c.t.Fatal(err)
	}
	if _, err := hwebsocket.Send(c.conn, msg); err != nil {
		c.t.Fatalf("send: %v", err)
	}
}

// next waits for the next message matching the filter, removes it from the
// buffer and returns it. The other messages stay buffered.
func (c *huntClient) next(timeout time.Duration, match func(hwebsocket.Msg) bool) (hwebsocket.Msg, bool) {
	deadline := time.Now().Add(timeout)
	timer := time.AfterFunc(timeout, func() {
		c.mu.Lock()
		c.cond.Broadcast()
		c.mu.Unlock()
	})
	defer timer.Stop()

	c.mu.Lock()
	defer c.mu.Unlock()
	for {
		for i, m := range c.msgs {
			if match(m) {
				c.msgs = append(c.msgs[:i:i], c.msgs[i+1:]...)
				return m, true
			}
		}
		if c.closed || !time.Now().Before(deadline) {
			return hwebsocket.Msg{}, false
		}
		c.cond.Wait()
	}
}

func byType(n int32) func(hwebsocket.Msg) bool {
	return func(m hwebsocket.Msg) bool { return int32(m.Type.Number()) == n }
}

func (c *huntClient) mustNext(n int32) hwebsocket.Msg {
	c.t.Helper()
	m, ok := c.next(5*time.Second, byType(n))
	if !ok {
		c.t.Fatalf("no message of type %d received; buffered: %v", n, c.types())
	}
	return m
}

func (c *huntClient) types() []string {
	c.mu.Lock()
	defer c.mu.Unlock()
	var res []string
	for _, m := range c.msgs {
		res = append(res, m.TypeString())
	}
	return res
}

// settle waits until nothing has been received for d, then returns and clears
// the buffered messages.
func (c *huntClient) settle(d time.Duration) []hwebsocket.Msg {
	last := -1
	for {
		c.mu.Lock()
		n := len(c.msgs)
		c.mu.Unlock()
		if n == last {
			break
		}
		last = n
		time.Sleep(d)
	}
	c.mu.Lock()
	defer c.mu.Unlock()
	res := c.msgs
	c.msgs = nil
	return res
}

func (c *huntClient) isClosed() bool {
	c.mu.Lock()
	defer c.mu.Unlock()
	return c.closed
}

// join joins the session with the given id ("" for a new one) and returns the
// session id and the participant id.
func (c *huntClient) join(sessionID string) (string, uint32) {
	c.t.Helper()
	c.send(&hagallpb.ParticipantJoinRequest{
		Type:      hagallpb.MsgType_MSG_TYPE_PARTICIPANT_JOIN_REQUEST,
		Timestamp: timestamppb.Now(),
		RequestId: 1000,
		SessionId: sessionID,
	})
	m := c.mustNext(int32(hagallpb.MsgType_MSG_TYPE_PARTICIPANT_JOIN_RESPONSE))
	var res hagallpb.ParticipantJoinResponse
	if err := m.DataTo(&res); err != nil {
		c.t.Fatal(err)
	}
	return res.SessionId, res.ParticipantId
}

func (c *huntClient) addEntity(persist bool) uint32 {
	c.t.Helper()
	c.send(&hagallpb.EntityAddRequest{
		Type:      hagallpb.MsgType_MSG_TYPE_ENTITY_ADD_REQUEST,
		Timestamp: timestamppb.Now(),
		RequestId: 1001,
		Pose:      &hagallpb.Pose{},
		Persist:   persist,
	})
	m := c.mustNext(int32(hagallpb.MsgType_MSG_TYPE_ENTITY_ADD_RESPONSE))
	var res hagallpb.EntityAddResponse
	if err := m.DataTo(&res); err != nil {
		c.t.Fatal(err)
	}
	return res.EntityId
}

// tryJoin is join for a connection that the server may be closing: it reports
// false when the connection ended instead of the join being answered.
func (c *huntClient) tryJoin(sessionID string) bool {
	c.t.Helper()
	msg, err := hwebsocket.MsgFromProto(&hagallpb.ParticipantJoinRequest{
		Type:      hagallpb.MsgType_MSG_TYPE_PARTICIPANT_JOIN_REQUEST,
		Timestamp: timestamppb.Now(),
		RequestId: 1000,
		SessionId: sessionID,
	})
	if err != nil {
		c.t.Fatal(err)
	}
	if _, err := hwebsocket.Send(c.conn, msg); err != nil {
		return false
	}
	_, ok := c.next(5*time.Second, byType(int32(hagallpb.MsgType_MSG_TYPE_PARTICIPANT_JOIN_RESPONSE)))
	if !ok && !c.isClosed() {
		c.t.Fatal("join neither answered nor the connection closed")
	}
	return ok
}

// tryAddEntity is addEntity for a connection that the server may be closing.
func (c *huntClient) tryAddEntity() (uint32, bool) {
	c.t.Helper()
	msg, err := hwebsocket.MsgFromProto(&hagallpb.EntityAddRequest{
		Type:      hagallpb.MsgType_MSG_TYPE_ENTITY_ADD_REQUEST,
		Timestamp: timestamppb.Now(),
		RequestId: 1001,
		Pose:      &hagallpb.Pose{},
	})
	if err != nil {
		c.t.Fatal(err)
	}
	if _, err := hwebsocket.Send(c.conn, msg); err != nil {
		return 0, false
	}
	m, ok := c.next(5*time.Second, byType(int32(hagallpb.MsgType_MSG_TYPE_ENTITY_ADD_RESPONSE)))
	if !ok {
		if !c.isClosed() {
			c.t.Fatal("entity add neither answered nor the connection closed")
		}
		return 0, false
	}
	var res hagallpb.EntityAddResponse
	if err := m.DataTo(&res); err != nil {
		c.t.Fatal(err)
	}
	return res.EntityId, true
}
