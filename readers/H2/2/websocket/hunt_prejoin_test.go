// websocket/hunt_prejoin_test.go  (needs websocket/hunt_helpers_test.go)
package websocket

import (
	"testing"
	"time"

	"github.com/aukilabs/hagall-common/messages/hagallpb"
	"google.golang.org/protobuf/types/known/timestamppb"
)

// A pose update sent by a connection that is in no session must never be
// executed.
func TestHuntPoseUpdateBeforeJoin(t *testing.T) {
	env := newHuntEnv(t, 300*time.Millisecond)
	b := env.client()
	sid, _ := b.join("")
	b.addEntity(false) // entity 1
	b.settle(100 * time.Millisecond)

	a := env.client()
	// not in a session: refers to the entity id the session will hand out next
	a.send(&hagallpb.EntityUpdatePose{
		Type:      hagallpb.MsgType_MSG_TYPE_ENTITY_UPDATE_POSE,
		Timestamp: timestamppb.Now(),
		EntityId:  2,
		Pose:      &hagallpb.Pose{Px: 42, Py: 42, Pz: 42},
	})
	time.Sleep(700 * time.Millisecond) // more than two frames
	if a.isClosed() {
		t.Log("connection closed: the update ended the connection")
		return
	}

	if !a.tryJoin(sid) {
		t.Log("connection closed: the update ended the connection")
		return
	}
	id, ok := a.tryAddEntity()
	if !ok {
		t.Log("connection closed: the update ended the connection")
		return
	}
	if id != 2 {
		t.Fatalf("entity id = %d", id)
	}

	time.Sleep(time.Second)
	for _, m := range b.settle(100 * time.Millisecond) {
		if hagallpb.MsgType(m.Type.Number()) == hagallpb.MsgType_MSG_TYPE_ENTITY_UPDATE_POSE_BROADCAST {
			var bc hagallpb.EntityUpdatePoseBroadcast
			m.DataTo(&bc)
			t.Errorf("the pose update sent before the join was executed and relayed: entity %d pose %v", bc.EntityId, bc.Pose)
		}
	}

	// what a newcomer is told
	c := env.client()
	c.send(&hagallpb.ParticipantJoinRequest{
		Type:      hagallpb.MsgType_MSG_TYPE_PARTICIPANT_JOIN_REQUEST,
		Timestamp: timestamppb.Now(),
		RequestId: 1,
		SessionId: sid,
	})
	var st hagallpb.SessionState
	c.mustNext(int32(hagallpb.MsgType_MSG_TYPE_SESSION_STATE)).DataTo(&st)
	for _, e := range st.Entities {
		if e.Id == 2 && e.Pose.Px == 42 {
			t.Errorf("entity 2 has the pose of the update sent before the join: %v", e.Pose)
		}
	}
}

// A pose update made in one session must not be executed in another one.
func TestHuntPoseUpdateCarriedToNextSession(t *testing.T) {
	env := newHuntEnv(t, 300*time.Millisecond)
	a := env.client()
	a.join("")
	if id := a.addEntity(false); id != 1 {
		t.Fatalf("entity id = %d", id)
	}
	time.Sleep(350 * time.Millisecond) // let a frame go by, so that the next one is far away

	a.send(&hagallpb.EntityUpdatePose{
		Type:      hagallpb.MsgType_MSG_TYPE_ENTITY_UPDATE_POSE,
		Timestamp: timestamppb.Now(),
		EntityId:  1,
		Pose:      &hagallpb.Pose{Px: 42, Py: 42, Pz: 42},
	})
	sidB, _ := a.join("")
	if id := a.addEntity(false); id != 1 {
		t.Fatalf("entity id = %d", id)
	}
	time.Sleep(time.Second)

	c := env.client()
	c.send(&hagallpb.ParticipantJoinRequest{
		Type:      hagallpb.MsgType_MSG_TYPE_PARTICIPANT_JOIN_REQUEST,
		Timestamp: timestamppb.Now(),
		RequestId: 1,
		SessionId: sidB,
	})
	var st hagallpb.SessionState
	c.mustNext(int32(hagallpb.MsgType_MSG_TYPE_SESSION_STATE)).DataTo(&st)
	for _, e := range st.Entities {
		if e.Id == 1 && e.Pose.Px == 42 {
			t.Errorf("entity 1 of the second session has the pose of the update made in the first session: %v", e.Pose)
		}
	}
}

// A component update sent by a connection that is in no session must never be
// executed.
func TestHuntComponentUpdateBeforeJoin(t *testing.T) {
	env := newHuntEnv(t, 300*time.Millisecond)
	b := env.client()
	sid, _ := b.join("")
	b.addEntity(false) // entity 1
	b.send(&hagallpb.EntityComponentTypeAddRequest{
		Type: hagallpb.MsgType_MSG_TYPE_ENTITY_COMPONENT_TYPE_ADD_REQUEST, Timestamp: timestamppb.Now(),
		RequestId: 2, EntityComponentTypeName: "t",
	})
	b.mustNext(int32(hagallpb.MsgType_MSG_TYPE_ENTITY_COMPONENT_TYPE_ADD_RESPONSE))
	b.send(&hagallpb.EntityComponentAddRequest{
		Type: hagallpb.MsgType_MSG_TYPE_ENTITY_COMPONENT_ADD_REQUEST, Timestamp: timestamppb.Now(),
		RequestId: 3, EntityComponentTypeId: 1, EntityId: 1, Data: []byte("original"),
	})
	b.mustNext(int32(hagallpb.MsgType_MSG_TYPE_ENTITY_COMPONENT_ADD_RESPONSE))
	b.send(&hagallpb.EntityComponentTypeSubscribeRequest{
		Type: hagallpb.MsgType_MSG_TYPE_ENTITY_COMPONENT_TYPE_SUBSCRIBE_REQUEST, Timestamp: timestamppb.Now(),
		RequestId: 4, EntityComponentTypeId: 1,
	})
	b.mustNext(int32(hagallpb.MsgType_MSG_TYPE_ENTITY_COMPONENT_TYPE_SUBSCRIBE_RESPONSE))
	b.settle(100 * time.Millisecond)

	a := env.client()
	a.send(&hagallpb.EntityComponentUpdate{
		Type: hagallpb.MsgType_MSG_TYPE_ENTITY_COMPONENT_UPDATE, Timestamp: timestamppb.Now(),
		EntityComponentTypeId: 1, EntityId: 1, Data: []byte("sent before joining"),
	})
	time.Sleep(700 * time.Millisecond)
	if a.isClosed() {
		return
	}
	if !a.tryJoin(sid) {
		return
	}
	time.Sleep(time.Second)

	for _, m := range b.settle(100 * time.Millisecond) {
		if hagallpb.MsgType(m.Type.Number()) == hagallpb.MsgType_MSG_TYPE_ENTITY_COMPONENT_UPDATE_BROADCAST {
			var bc hagallpb.EntityComponentUpdateBroadcast
			m.DataTo(&bc)
			t.Errorf("the component update sent before the join was executed and relayed: %q", bc.EntityComponent.Data)
		}
	}
}
