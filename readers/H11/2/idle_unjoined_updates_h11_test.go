// intended path: websocket/idle_unjoined_updates_h11_test.go
package websocket

import (
	"context"
	"net/http"
	"net/http/httptest"
	"strings"
	"testing"
	"time"

	"github.com/aukilabs/go-tooling/pkg/logs"
	"github.com/aukilabs/hagall-common/messages/hagallpb"
	hwebsocket "github.com/aukilabs/hagall-common/websocket"
	"github.com/aukilabs/hagall/models"
	"github.com/stretchr/testify/require"
	"golang.org/x/net/websocket"
	"google.golang.org/protobuf/types/known/timestamppb"
)

const h11bIdleTimeout = 2 * time.Second

// h11bServer starts a server as cmd/main.go does; causes receives the cause of every disconnection.
func h11bServer(t *testing.T, causes chan<- string) string {
	logs.SetLogger(func(e logs.Entry) {})
	sessions := &models.SessionStore{DiscoveryService: &testClient{}}
	server := httptest.NewServer(websocket.Server{
		Handshake: func(*websocket.Config, *http.Request) error { return nil },
		Handler: func(conn *websocket.Conn) {
			defer conn.Close()
			var h Handler = &RealtimeHandler{
				ClientSyncClockInterval: time.Hour,
				ClientIdleTimeout:       h11bIdleTimeout,
				FrameDuration:           15 * time.Millisecond,
				Sessions:                sessions,
			}
			h = HandlerWithLogs(h, time.Minute)
			h = HandlerWithMetrics(h, "https://h11.example")
			h = &h11bCause{Handler: h, causes: causes}
			defer h.Close()
			Handle(context.Background(), conn, h)
		},
	})
	t.Cleanup(server.Close)
	return server.URL
}

type h11bCause struct {
	Handler
	causes chan<- string
}

func (h *h11bCause) HandleDisconnect(err error) {
	h.Handler.HandleDisconnect(err)
	h.causes <- err.Error()
}

// h11bKeepSending sends what next returns every 100 ms for three idle timeouts and reports the cause
// of the disconnection, if the server ended the connection meanwhile.
func h11bKeepSending(t *testing.T, next func() hwebsocket.ProtoMsg) (cause string, after time.Duration) {
	causes := make(chan string, 1)
	url := h11bServer(t, causes)
	config, err := websocket.NewConfig(strings.ReplaceAll(url, "http://", "ws://"), "http://localhost")
	require.NoError(t, err)
	conn, err := websocket.DialConfig(config)
	require.NoError(t, err)
	defer conn.Close()

	start := time.Now()
	for time.Since(start) < 3*h11bIdleTimeout {
		msg, err := hwebsocket.MsgFromProto(next())
		require.NoError(t, err)
		hwebsocket.Send(conn, msg)
		select {
		case cause := <-causes:
			return cause, time.Since(start)
		case <-time.After(100 * time.Millisecond):
		}
	}
	return "", 0
}

// C08: a client that stays silent for the idle timeout is disconnected; one that keeps sending is not.
// (C04: what a connection that is in no session sends and needs a session is answered with an error,
// dropped, or ends the connection - here it is dropped: the connection is not ended because of it.)

// control: pose updates without a pose are dropped on reception too, and count as a sign of life
func TestH11UnjoinedClientSendingPoselessUpdatesIsNotIdle(t *testing.T) {
	cause, after := h11bKeepSending(t, func() hwebsocket.ProtoMsg {
		return &hagallpb.EntityUpdatePose{Type: hagallpb.MsgType_MSG_TYPE_ENTITY_UPDATE_POSE, Timestamp: timestamppb.Now(), EntityId: 1}
	})
	require.Empty(t, cause, "disconnected after %v", after)
}

func TestH11UnjoinedClientSendingPoseUpdatesIsNotIdle(t *testing.T) {
	cause, after := h11bKeepSending(t, func() hwebsocket.ProtoMsg {
		return &hagallpb.EntityUpdatePose{Type: hagallpb.MsgType_MSG_TYPE_ENTITY_UPDATE_POSE, Timestamp: timestamppb.Now(), EntityId: 1, Pose: &hagallpb.Pose{Px: 1}}
	})
	require.Empty(t, cause, "disconnected after %v, ten messages a second notwithstanding", after)
}

func TestH11UnjoinedClientSendingComponentUpdatesIsNotIdle(t *testing.T) {
	cause, after := h11bKeepSending(t, func() hwebsocket.ProtoMsg {
		return &hagallpb.EntityComponentUpdate{Type: hagallpb.MsgType_MSG_TYPE_ENTITY_COMPONENT_UPDATE, Timestamp: timestamppb.Now(), EntityComponentTypeId: 1, EntityId: 1, Data: []byte("d")}
	})
	require.Empty(t, cause, "disconnected after %v, ten messages a second notwithstanding", after)
}
