// intended path: websocket/late_subscriber_update_h11_test.go
package websocket

import (
	"context"
	"net/http"
	"net/http/httptest"
	"strings"
	"testing"
	"time"

	"github.com/aukilabs/go-tooling/pkg/logs"
	"github.com/aukilabs/hagall-common/messages/hagallpb"
	hwebsocket "github.com/aukilabs/hagall-common/websocket"
	"github.com/aukilabs/hagall/models"
	"github.com/stretchr/testify/require"
	"golang.org/x/net/websocket"
	"google.golang.org/protobuf/proto"
	"google.golang.org/protobuf/types/known/timestamppb"
)

func h11cServer(t *testing.T) string {
	logs.SetLogger(func(e logs.Entry) {})
	sessions := &models.SessionStore{DiscoveryService: &testClient{}}
	server := httptest.NewServer(websocket.Server{
		Handshake: func(*websocket.Config, *http.Request) error { return nil },
		Handler: func(conn *websocket.Conn) {
			defer conn.Close()
			var h Handler = &RealtimeHandler{
				ClientSyncClockInterval: time.Hour,
				ClientIdleTimeout:       time.Minute,
				FrameDuration:           15 * time.Millisecond,
				Sessions:                sessions,
			}
			h = HandlerWithLogs(h, time.Minute)
			h = HandlerWithMetrics(h, "https://h11.example")
			defer h.Close()
			Handle(context.Background(), conn, h)
		},
	})
	t.Cleanup(server.Close)
	return server.URL
}

type h11cClient struct {
	t    *testing.T
	conn *websocket.Conn
	msgs chan hwebsocket.Msg
}

func h11cDial(t *testing.T, url string) *h11cClient {
	config, err := websocket.NewConfig(strings.ReplaceAll(url, "http://", "ws://"), "http://localhost")
	require.NoError(t, err)
	conn, err := websocket.DialConfig(config)
	require.NoError(t, err)
	t.Cleanup(func() { conn.Close() })
	c := &h11cClient{t: t, conn: conn, msgs: make(chan hwebsocket.Msg, 4096)}
	go func() {
		for {
			msg, _, err := hwebsocket.Receive(conn)
			if err != nil {
				close(c.msgs)
				return
			}
			c.msgs <- msg
		}
	}()
	return c
}

func (c *h11cClient) send(m hwebsocket.ProtoMsg) {
	msg, err := hwebsocket.MsgFromProto(m)
	require.NoError(c.t, err)
	_, err = hwebsocket.Send(c.conn, msg)
	require.NoError(c.t, err)
}

// request sends a request and returns what arrived before its response, decoded into res.
func (c *h11cClient) request(m hwebsocket.ProtoMsg, resType hagallpb.MsgType, res proto.Message) []hwebsocket.Msg {
	c.t.Helper()
	c.send(m)
	var before []hwebsocket.Msg
	timeout := time.After(20 * time.Second)
	for {
		select {
		case msg, ok := <-c.msgs:
			require.True(c.t, ok, "connection closed")
			if msg.Type == hagallpb.MsgType_MSG_TYPE_ERROR_RESPONSE {
				var e hagallpb.ErrorResponse
				msg.DataTo(&e)
				c.t.Fatalf("error response: %v", &e)
			}
			if msg.Type == resType {
				require.NoError(c.t, msg.DataTo(res.(hwebsocket.ProtoMsg)))
				return before
			}
			before = append(before, msg)
		case <-timeout:
			c.t.Fatalf("no %v", resType)
		}
	}
}

func (c *h11cClient) quiet(d time.Duration) []hwebsocket.Msg {
	var got []hwebsocket.Msg
	for {
		select {
		case m, ok := <-c.msgs:
			if !ok {
				return got
			}
			got = append(got, m)
		case <-time.After(d):
			return got
		}
	}
}

type h11cKey struct{ typeID, entityID uint32 }

// h11cApply applies the component broadcasts among msgs to a participant's view.
func h11cApply(t *testing.T, view map[h11cKey]string, msgs []hwebsocket.Msg) {
	for _, m := range msgs {
		switch m.Type {
		case hagallpb.MsgType_MSG_TYPE_SESSION_STATE:
			var s hagallpb.SessionState
			require.NoError(t, m.DataTo(&s))
			for _, ec := range s.EntityComponents {
				view[h11cKey{ec.EntityComponentTypeId, ec.EntityId}] = string(ec.Data)
			}
		case hagallpb.MsgType_MSG_TYPE_ENTITY_COMPONENT_ADD_BROADCAST:
			var b hagallpb.EntityComponentAddBroadcast
			require.NoError(t, m.DataTo(&b))
			view[h11cKey{b.EntityComponent.EntityComponentTypeId, b.EntityComponent.EntityId}] = string(b.EntityComponent.Data)
		case hagallpb.MsgType_MSG_TYPE_ENTITY_COMPONENT_UPDATE_BROADCAST:
			var b hagallpb.EntityComponentUpdateBroadcast
			require.NoError(t, m.DataTo(&b))
			view[h11cKey{b.EntityComponent.EntityComponentTypeId, b.EntityComponent.EntityId}] = string(b.EntityComponent.Data)
		case hagallpb.MsgType_MSG_TYPE_ENTITY_COMPONENT_DELETE_BROADCAST:
			var b hagallpb.EntityComponentDeleteBroadcast
			require.NoError(t, m.DataTo(&b))
			delete(view, h11cKey{b.EntityComponent.EntityComponentTypeId, b.EntityComponent.EntityId})
		}
	}
}

// C01: whenever the session is quiescent, a participant holds - from the state handed to it on joining
// and the broadcasts it has received since - the same components as the server for every component
// type it subscribes to.
//
// The component type has a subscriber all along (this is not about additions and deletions announced
// to nobody for want of a subscriber).
func TestH11SubscriberMissesTheUpdateMadeBeforeItSubscribed(t *testing.T) {
	url := h11cServer(t)
	a := h11cDial(t, url)
	b := h11cDial(t, url)
	now := timestamppb.Now

	var joinA hagallpb.ParticipantJoinResponse
	a.request(&hagallpb.ParticipantJoinRequest{Type: hagallpb.MsgType_MSG_TYPE_PARTICIPANT_JOIN_REQUEST, Timestamp: now(), RequestId: 1},
		hagallpb.MsgType_MSG_TYPE_PARTICIPANT_JOIN_RESPONSE, &joinA)
	var typeRes hagallpb.EntityComponentTypeAddResponse
	a.request(&hagallpb.EntityComponentTypeAddRequest{Type: hagallpb.MsgType_MSG_TYPE_ENTITY_COMPONENT_TYPE_ADD_REQUEST, Timestamp: now(), RequestId: 2, EntityComponentTypeName: "colour"},
		hagallpb.MsgType_MSG_TYPE_ENTITY_COMPONENT_TYPE_ADD_RESPONSE, &typeRes)
	typeID := typeRes.EntityComponentTypeId
	a.request(&hagallpb.EntityComponentTypeSubscribeRequest{Type: hagallpb.MsgType_MSG_TYPE_ENTITY_COMPONENT_TYPE_SUBSCRIBE_REQUEST, Timestamp: now(), RequestId: 3, EntityComponentTypeId: typeID},
		hagallpb.MsgType_MSG_TYPE_ENTITY_COMPONENT_TYPE_SUBSCRIBE_RESPONSE, &hagallpb.EntityComponentTypeSubscribeResponse{})
	var entityRes hagallpb.EntityAddResponse
	a.request(&hagallpb.EntityAddRequest{Type: hagallpb.MsgType_MSG_TYPE_ENTITY_ADD_REQUEST, Timestamp: now(), RequestId: 4, Pose: &hagallpb.Pose{}},
		hagallpb.MsgType_MSG_TYPE_ENTITY_ADD_RESPONSE, &entityRes)
	entityID := entityRes.EntityId
	a.request(&hagallpb.EntityComponentAddRequest{Type: hagallpb.MsgType_MSG_TYPE_ENTITY_COMPONENT_ADD_REQUEST, Timestamp: now(), RequestId: 5, EntityComponentTypeId: typeID, EntityId: entityID, Data: []byte("red")},
		hagallpb.MsgType_MSG_TYPE_ENTITY_COMPONENT_ADD_RESPONSE, &hagallpb.EntityComponentAddResponse{})

	// B joins: the state it is handed holds the component (red).
	viewB := map[h11cKey]string{}
	var joinB hagallpb.ParticipantJoinResponse
	b.request(&hagallpb.ParticipantJoinRequest{Type: hagallpb.MsgType_MSG_TYPE_PARTICIPANT_JOIN_REQUEST, Timestamp: now(), RequestId: 1, SessionId: joinA.SessionId},
		hagallpb.MsgType_MSG_TYPE_PARTICIPANT_JOIN_RESPONSE, &joinB)
	h11cApply(t, viewB, b.quiet(300*time.Millisecond))
	require.Equal(t, "red", viewB[h11cKey{typeID, entityID}])

	// A updates the component (green); the update is relayed to the subscribers, B is none yet.
	a.send(&hagallpb.EntityComponentUpdate{Type: hagallpb.MsgType_MSG_TYPE_ENTITY_COMPONENT_UPDATE, Timestamp: now(), EntityComponentTypeId: typeID, EntityId: entityID, Data: []byte("green")})
	h11cApply(t, viewB, b.quiet(300*time.Millisecond))

	// B subscribes to the type.
	h11cApply(t, viewB, b.request(&hagallpb.EntityComponentTypeSubscribeRequest{Type: hagallpb.MsgType_MSG_TYPE_ENTITY_COMPONENT_TYPE_SUBSCRIBE_REQUEST, Timestamp: now(), RequestId: 2, EntityComponentTypeId: typeID},
		hagallpb.MsgType_MSG_TYPE_ENTITY_COMPONENT_TYPE_SUBSCRIBE_RESPONSE, &hagallpb.EntityComponentTypeSubscribeResponse{}))
	h11cApply(t, viewB, b.quiet(300*time.Millisecond))

	// The session is quiescent. The server's components of the type:
	var list hagallpb.EntityComponentListResponse
	a.request(&hagallpb.EntityComponentListRequest{Type: hagallpb.MsgType_MSG_TYPE_ENTITY_COMPONENT_LIST_REQUEST, Timestamp: now(), RequestId: 6, EntityComponentTypeId: typeID},
		hagallpb.MsgType_MSG_TYPE_ENTITY_COMPONENT_LIST_RESPONSE, &list)
	server := map[h11cKey]string{}
	for _, ec := range list.EntityComponents {
		server[h11cKey{ec.EntityComponentTypeId, ec.EntityId}] = string(ec.Data)
	}
	require.Equal(t, map[h11cKey]string{{typeID, entityID}: "green"}, server)

	held := map[h11cKey]string{}
	for k, v := range viewB {
		if k.typeID == typeID {
			held[k] = v
		}
	}
	require.Equal(t, server, held, "components of the type B subscribes to: the server's vs the ones B holds")
}
