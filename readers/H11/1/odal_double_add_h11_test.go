// intended path: websocket/odal_double_add_h11_test.go
package websocket

import (
	"context"
	"net/http"
	"net/http/httptest"
	"sort"
	"strings"
	"testing"
	"time"

	"github.com/aukilabs/go-tooling/pkg/logs"
	httpcmn "github.com/aukilabs/hagall-common/http"
	"github.com/aukilabs/hagall-common/messages/hagallpb"
	"github.com/aukilabs/hagall-common/messages/odalpb"
	hwebsocket "github.com/aukilabs/hagall-common/websocket"
	"github.com/aukilabs/hagall/models"
	"github.com/aukilabs/hagall/modules"
	"github.com/aukilabs/hagall/modules/odal"
	"github.com/stretchr/testify/require"
	"golang.org/x/net/websocket"
	"google.golang.org/protobuf/types/known/timestamppb"
)

// h11aClient reads everything the server sends into a channel.
type h11aClient struct {
	t    *testing.T
	conn *websocket.Conn
	msgs chan hwebsocket.Msg
}

func h11aDial(t *testing.T, url string) *h11aClient {
	config, err := websocket.NewConfig(strings.ReplaceAll(url, "http://", "ws://"), "http://localhost")
	require.NoError(t, err)
	config.Header.Set(httpcmn.HeaderPosemeshClientID, "h11")
	conn, err := websocket.DialConfig(config)
	require.NoError(t, err)
	c := &h11aClient{t: t, conn: conn, msgs: make(chan hwebsocket.Msg, 4096)}
	go func() {
		for {
			msg, _, err := hwebsocket.Receive(conn)
			if err != nil {
				close(c.msgs)
				return
			}
			if msg.Type != hagallpb.MsgType_MSG_TYPE_SYNC_CLOCK {
				c.msgs <- msg
			}
		}
	}()
	return c
}

// h11aServer starts a server as cmd/main.go does, with the odal module loaded.
func h11aServer(t *testing.T) string {
	logs.SetLogger(func(logs.Entry) {})
	sessions := &models.SessionStore{DiscoveryService: &testClient{}}
	server := httptest.NewServer(websocket.Server{
		Handshake: func(*websocket.Config, *http.Request) error { return nil },
		Handler: func(conn *websocket.Conn) {
			defer conn.Close()
			var h Handler = &RealtimeHandler{
				ClientSyncClockInterval: time.Second,
				ClientIdleTimeout:       time.Minute,
				FrameDuration:           15 * time.Millisecond,
				Sessions:                sessions,
				Modules:                 []modules.Module{&odal.Module{}},
			}
			h = HandlerWithLogs(h, time.Minute)
			h = HandlerWithMetrics(h, "https://h11.example")
			defer h.Close()
			Handle(context.Background(), conn, h)
		},
	})
	t.Cleanup(server.Close)
	return server.URL
}

func (c *h11aClient) send(m hwebsocket.ProtoMsg) {
	msg, err := hwebsocket.MsgFromProto(m)
	require.NoError(c.t, err)
	_, err = hwebsocket.Send(c.conn, msg)
	require.NoError(c.t, err)
}

// until returns the messages received up to and including the first one of the given type.
func (c *h11aClient) until(typ int32) []hwebsocket.Msg {
	c.t.Helper()
	var got []hwebsocket.Msg
	timeout := time.After(20 * time.Second)
	for {
		select {
		case m, ok := <-c.msgs:
			require.True(c.t, ok, "connection closed")
			got = append(got, m)
			if int32(m.Type.Number()) == typ {
				return got
			}
		case <-timeout:
			c.t.Fatalf("no message of type %d", typ)
		}
	}
}

// quiet returns what arrives until nothing has arrived for d.
func (c *h11aClient) quiet(d time.Duration) []hwebsocket.Msg {
	var got []hwebsocket.Msg
	for {
		select {
		case m, ok := <-c.msgs:
			if !ok {
				return got
			}
			got = append(got, m)
		case <-time.After(d):
			return got
		}
	}
}

// C01: the asset instances a participant holds (those handed to it on joining, plus every add relayed
// to it since) are the ones the server holds, which are the ones handed to a newcomer; and in a
// sequential history no participant is relayed an add of something it already has.
func TestH11OdalSecondAssetInstanceOfAnEntity(t *testing.T) {
	url := h11aServer(t)

	a := h11aDial(t, url)
	defer a.conn.Close()
	b := h11aDial(t, url)
	defer b.conn.Close()

	a.send(&hagallpb.ParticipantJoinRequest{Type: hagallpb.MsgType_MSG_TYPE_PARTICIPANT_JOIN_REQUEST, Timestamp: timestamppb.Now(), RequestId: 1})
	var joinA hagallpb.ParticipantJoinResponse
	ms := a.until(int32(hagallpb.MsgType_MSG_TYPE_PARTICIPANT_JOIN_RESPONSE))
	require.NoError(t, ms[len(ms)-1].DataTo(&joinA))
	a.until(int32(odalpb.MsgType_MSG_TYPE_ODAL_STATE))

	// B's view of the asset instances: the state handed to it, then every add relayed to it.
	viewB := map[uint32]*odalpb.AssetInstance{} // by asset instance id
	b.send(&hagallpb.ParticipantJoinRequest{Type: hagallpb.MsgType_MSG_TYPE_PARTICIPANT_JOIN_REQUEST, Timestamp: timestamppb.Now(), RequestId: 1, SessionId: joinA.SessionId})
	ms = b.until(int32(odalpb.MsgType_MSG_TYPE_ODAL_STATE))
	var stateB odalpb.State
	require.NoError(t, ms[len(ms)-1].DataTo(&stateB))
	for _, ai := range stateB.AssetInstances {
		viewB[ai.Id] = ai
	}

	a.send(&hagallpb.EntityAddRequest{Type: hagallpb.MsgType_MSG_TYPE_ENTITY_ADD_REQUEST, Timestamp: timestamppb.Now(), RequestId: 2, Pose: &hagallpb.Pose{}})
	var addRes hagallpb.EntityAddResponse
	ms = a.until(int32(hagallpb.MsgType_MSG_TYPE_ENTITY_ADD_RESPONSE))
	require.NoError(t, ms[len(ms)-1].DataTo(&addRes))

	// Two asset instances for the same entity, one after the other (on the unchanged code both
	// requests are accepted; a server that refuses the second one is fine too).
	for i := uint32(0); i < 2; i++ {
		a.send(&odalpb.AssetInstanceAddRequest{Type: odalpb.MsgType_MSG_TYPE_ODAL_ASSET_INSTANCE_ADD_REQUEST, Timestamp: timestamppb.Now(), RequestId: 10 + i, EntityId: addRes.EntityId, AssetId: "asset"})
		// a ping tells when the request has been handled, whatever its answer
		a.send(&hagallpb.Request{Type: hagallpb.MsgType_MSG_TYPE_PING_REQUEST, Timestamp: timestamppb.Now(), RequestId: 20 + i})
		for _, m := range a.until(int32(hagallpb.MsgType_MSG_TYPE_PING_RESPONSE)) {
			switch int32(m.Type.Number()) {
			case int32(odalpb.MsgType_MSG_TYPE_ODAL_ASSET_INSTANCE_ADD_RESPONSE):
				var res odalpb.AssetInstanceAddResponse
				require.NoError(t, m.DataTo(&res))
				t.Logf("A: request %d accepted, asset instance %d", res.RequestId, res.AssetInstanceId)
			case int32(hagallpb.MsgType_MSG_TYPE_ERROR_RESPONSE):
				var res hagallpb.ErrorResponse
				require.NoError(t, m.DataTo(&res))
				t.Logf("A: request %d refused: %v", res.RequestId, res.Code)
			}
		}
	}

	entityHasInstance := map[uint32]bool{}
	for _, m := range b.quiet(500 * time.Millisecond) {
		if int32(m.Type.Number()) != int32(odalpb.MsgType_MSG_TYPE_ODAL_ASSET_INSTANCE_ADD_BROADCAST) {
			continue
		}
		var bc odalpb.AssetInstanceAddBroadcast
		require.NoError(t, m.DataTo(&bc))
		t.Logf("B is relayed the add of %v", bc.AssetInstance)
		if entityHasInstance[bc.AssetInstance.EntityId] {
			t.Errorf("B is relayed the add of an asset instance for entity %d, which already has one: if the entity holds one instance, this is an add of something B already has; if it holds several, see below",
				bc.AssetInstance.EntityId)
		}
		entityHasInstance[bc.AssetInstance.EntityId] = true
		viewB[bc.AssetInstance.Id] = bc.AssetInstance
	}

	// The session is quiescent. What a newcomer is handed is the server's state.
	c := h11aDial(t, url)
	defer c.conn.Close()
	c.send(&hagallpb.ParticipantJoinRequest{Type: hagallpb.MsgType_MSG_TYPE_PARTICIPANT_JOIN_REQUEST, Timestamp: timestamppb.Now(), RequestId: 1, SessionId: joinA.SessionId})
	ms = c.until(int32(odalpb.MsgType_MSG_TYPE_ODAL_STATE))
	var stateC odalpb.State
	require.NoError(t, ms[len(ms)-1].DataTo(&stateC))

	var held, handed []uint32
	for id := range viewB {
		held = append(held, id)
	}
	for _, ai := range stateC.AssetInstances {
		handed = append(handed, ai.Id)
	}
	sort.Slice(held, func(i, j int) bool { return held[i] < held[j] })
	sort.Slice(handed, func(i, j int) bool { return handed[i] < handed[j] })
	require.Equal(t, handed, held, "asset instance ids: handed to a newcomer (the server's state) vs held by participant B")
}
