// intended path: modules/dagaz/h9_obs_slanted_ray_test.go
//
// OBSERVATION (C20 names only vertical rays): a slanted ray that runs along the grid's lower border line
// (From.z == To.z == grid.Min.z, or the same in x) is given up after its first cell: 0/0 = NaN in the
// per-cell step (grid_spatial_partition.go:211-216 / 203-208), t becomes NaN, the walk breaks.
// grid.Min.z is 0 until a sample with negative z arrives, so "z = 0" is the ordinary case.
package dagaz

import "testing"

func TestH9ObsSlantedRayAlongGridBorderMisses(t *testing.T) {
	g := NewRegularGrid(1, 1, 2)
	c := Vector3f{5, 0, 0.5}
	e := Vector3f{0.5, 0, 0.5} // plane x 4.5..5.5, z 0..1, y 0
	g.InsertQuad(Quad{Center: c, Extents: e, Normal: calculateNormal(c, e)})
	plane := g.GetRegion(g.Min, g.Max)[0]

	for _, z := range []float32{0.5, 0} {
		r := Ray{From: Vector3f{1, 2, z}, To: Vector3f{5, 0, z}} // reaches y=0 at x=5: on the plane
		ok, _ := IntersectQuad(r, *plane)
		hit, _ := g.IntersectQuad(r)
		if ok && hit == nil {
			t.Errorf("ray %v meets the stored plane (ray-quad test: hit) but the grid query returns no plane (grid.Min.z=%v)", r, g.Min.z)
		}
	}
}
