// intended path: modules/dagaz/h9_obs_memory_test.go
//
// OBSERVATION (outside the 64 m domain of C20; C08 "the server process keeps running"): validPoint admits
// centres AND extents up to 4096, so a footprint reaches +-8192 and the dense grid 8193 x 8193 cells of
// 24 bytes. Two samples (one ~100-byte message) make the session retain about 1.8 GiB and hold the
// session's ground-plane lock for seconds (23 s on the loaded test machine); every further sample that
// covers the grid is appended to all 67 million cells (about +1 GiB each).
// Heavy test: allocates about 2 GiB.
package dagaz

import (
	"runtime"
	"testing"
	"time"

	"github.com/aukilabs/hagall-common/messages/dagazpb"
)

func TestH9ObsTwoAdmittedSamplesRetainGigabytes(t *testing.T) {
	g := NewRegularGrid(1, 1, 2)
	var m0, m1 runtime.MemStats
	runtime.GC()
	runtime.ReadMemStats(&m0)
	start := time.Now()
	for _, s := range []float32{1, -1} {
		q := &dagazpb.Quad{
			Center:  &dagazpb.Point{X: s * maxCoordinate, Y: 0, Z: s * maxCoordinate},
			Extents: &dagazpb.Point{X: maxCoordinate, Y: 0, Z: maxCoordinate},
		}
		if !validPoint(q.Center) || !validPoint(q.Extents) {
			t.Fatal("expected to be admitted")
		}
		g.InsertQuad(NewQuadFromProtobuf(q))
	}
	took := time.Since(start)
	runtime.GC()
	runtime.ReadMemStats(&m1)
	retained := (int64(m1.HeapInuse) - int64(m0.HeapInuse)) >> 20
	t.Logf("grid %d x %d cells, %v, retained %d MiB", len(g.Grid), len(g.Grid[0]), took, retained)
	if retained > 256 {
		t.Errorf("two samples of one message make the session retain %d MiB (took %v with the session's lock held)", retained, took)
	}
	runtime.KeepAlive(g)
}
