package dagaz

import (
	"fmt"
	"math"
	"math/rand"
	"os"
	"strconv"
	"testing"
)

type h9op struct {
	c, e Vector3f
}

func h9mk(c, e Vector3f) Quad {
	return Quad{Center: c, Extents: e, Normal: calculateNormal(c, e)}
}

func h9stored(g *RegularGrid) map[*Quad]bool {
	s := map[*Quad]bool{}
	for y := range g.Grid {
		for x := range g.Grid[y] {
			for _, q := range g.Grid[y][x] {
				s[q] = true
			}
		}
	}
	return s
}

// returns list of violations
func h9check(g *RegularGrid, strict bool) []string {
	var out []string
	rows := len(g.Grid)
	cols := len(g.Grid[0])
	for y := range g.Grid {
		if len(g.Grid[y]) != cols {
			out = append(out, fmt.Sprintf("ragged row %d", y))
			return out
		}
	}
	if float64(g.Max.x-g.Min.x) != float64(cols)*float64(g.Resolution) || float64(g.Max.z-g.Min.z) != float64(rows)*float64(g.Resolution) {
		out = append(out, "bounds != dims")
	}
	st := h9stored(g)
	if int(g.PlaneCount) != len(st) {
		out = append(out, fmt.Sprintf("PlaneCount %d != stored %d", g.PlaneCount, len(st)))
	}
	reg := g.GetRegion(Vector3f{-1e6, -1e6, -1e6}, Vector3f{1e6, 1e6, 1e6})
	if len(reg) != len(st) {
		out = append(out, fmt.Sprintf("region %d != stored %d", len(reg), len(st)))
	}
	res := float64(g.Resolution)
	for q := range st {
		mn := Sub(q.Center, q.Extents)
		mx := Add(q.Center, q.Extents)
		tol := float32(1e-4)
		if mn.x < g.Min.x-tol || mn.z < g.Min.z-tol || mx.x > g.Max.x+tol || mx.z > g.Max.z+tol {
			out = append(out, fmt.Sprintf("footprint outside bounds: %v..%v grid %v..%v", mn, mx, g.Min, g.Max))
		}
		for y := 0; y < rows; y++ {
			zlo := float64(g.Min.z) + float64(y)*res
			zhi := zlo + res
			for x := 0; x < cols; x++ {
				xlo := float64(g.Min.x) + float64(x)*res
				xhi := xlo + res
				var ov bool
				if strict {
					ov = float64(mn.x) < xhi && float64(mx.x) > xlo && float64(mn.z) < zhi && float64(mx.z) > zlo
				} else {
					ov = float64(mn.x) < xhi && float64(mx.x) >= xlo && float64(mn.z) < zhi && float64(mx.z) >= zlo
				}
				if ov {
					if ok, _ := arrayContains(g.Grid[y][x], q); !ok {
						out = append(out, fmt.Sprintf("quad c=%v e=%v (fp %v..%v) not in cell x=%d y=%d [%v,%v)x[%v,%v)", q.Center, q.Extents, mn, mx, x, y, xlo, xhi, zlo, zhi))
					}
				}
			}
		}
		// vertical ray through the centre
		r := Ray{From: Vector3f{q.Center.x, q.Center.y + 1, q.Center.z}, To: Vector3f{q.Center.x, q.Center.y - 1, q.Center.z}}
		if h, _ := g.IntersectQuad(r); h == nil {
			out = append(out, fmt.Sprintf("vertical ray through centre of c=%v e=%v n=%v hits nothing", q.Center, q.Extents, q.Normal))
		}
	}
	return out
}

func h9near(rng *rand.Rand, v float32) float32 {
	k := rng.Intn(7) - 3
	for ; k > 0; k-- {
		v = math.Nextafter32(v, float32(math.Inf(1)))
	}
	for ; k < 0; k++ {
		v = math.Nextafter32(v, float32(math.Inf(-1)))
	}
	return v
}

func h9gen(rng *rand.Rand, span float32) h9op {
	coord := func() float32 {
		switch rng.Intn(4) {
		case 0:
			return h9near(rng, float32(2*(rng.Intn(int(span))-int(span)/2)))
		case 1:
			return float32(rng.Intn(int(span)*2)-int(span)) / 2
		default:
			return (rng.Float32()*2 - 1) * span
		}
	}
	ext := func() float32 {
		switch rng.Intn(6) {
		case 0:
			return float32(rng.Intn(8)+1) / 2
		case 1:
			return h9near(rng, float32(rng.Intn(4)+1))
		case 2:
			if os.Getenv("H9_TINY") != "" {
				return rng.Float32()*1e-5 + 1e-9
			}
			return rng.Float32()*0.01 + 0.0005
		case 3:
			return rng.Float32() * 12
		default:
			return rng.Float32()*2 + 0.01
		}
	}
	ys := []float32{0, 0, 0, 0.3, 0.5, 1.0, -0.4}
	c := Vector3f{coord(), ys[rng.Intn(len(ys))], coord()}
	if os.Getenv("H9_Y") != "" {
		c.y += float32(rng.Intn(128) - 64)
		if rng.Intn(3) == 0 {
			c.y = (rng.Float32()*2 - 1) * 64
		}
	}
	e := Vector3f{ext(), 0, ext()}
	if os.Getenv("H9_EY") != "" && rng.Intn(2) == 0 {
		e.y = rng.Float32() * 0.5
	}
	// keep inside 64
	clampf := func(c, e float32) (float32, float32) {
		if c+e > 64 {
			c = 64 - e
		}
		if c-e < -64 {
			c = -64 + e
		}
		return c, e
	}
	c.x, e.x = clampf(c.x, e.x)
	c.z, e.z = clampf(c.z, e.z)
	return h9op{c, e}
}

func TestH9Fuzz(t *testing.T) {
	seeds := 3000
	if s := os.Getenv("H9_SEEDS"); s != "" {
		seeds, _ = strconv.Atoi(s)
	}
	strict := os.Getenv("H9_LOOSE") == ""
	found := 0
	for seed := 0; seed < seeds && found < 5; seed++ {
		rng := rand.New(rand.NewSource(int64(seed)))
		g := NewRegularGrid(1, 1, 2)
		span := float32([]int{4, 8, 16, 60}[rng.Intn(4)])
		n := 3 + rng.Intn(40)
		var ops []h9op
		func() {
			defer func() {
				if r := recover(); r != nil {
					found++
					t.Errorf("seed %d PANIC %v after ops %v", seed, r, ops)
				}
			}()
			for i := 0; i < n; i++ {
				op := h9gen(rng, span)
				if st := h9stored(g); len(st) > 0 && rng.Intn(3) > 0 {
					// pick a stored quad (deterministically: the one with smallest centre ordering index k)
					var list []*Quad
					for y := range g.Grid {
						for x := range g.Grid[y] {
							list = append(list, g.Grid[y][x]...)
						}
					}
					q := list[rng.Intn(len(list))]
					op.c.y = q.Center.y
					op.c.x = q.Center.x + (rng.Float32()*2-1)*q.Extents.x
					op.c.z = q.Center.z + (rng.Float32()*2-1)*q.Extents.z
					if rng.Intn(2) == 0 {
						// make an edge land near a cell boundary
						b := float32(2 * math.Round(float64(op.c.x+op.e.x)/2))
						if b-op.c.x > 0.001 {
							op.e.x = h9near(rng, b-op.c.x)
						}
					}
					if rng.Intn(2) == 0 {
						b := float32(2 * math.Round(float64(op.c.x-op.e.x)/2))
						if op.c.x-b > 0.001 {
							op.e.x = h9near(rng, op.c.x-b)
						}
					}
					if op.c.x+op.e.x > 64 || op.c.x-op.e.x < -64 || op.c.z+op.e.z > 64 || op.c.z-op.e.z < -64 {
						continue
					}
				}
				ops = append(ops, op)
				g.InsertQuad(h9mk(op.c, op.e))
				if v := h9check(g, strict); len(v) > 0 {
					found++
					t.Errorf("seed %d after %d ops: %v", seed, len(ops), v[0])
					for _, o := range ops {
						t.Logf("  {Vector3f{%v, %v, %v}, Vector3f{%v, %v, %v}},  // bits c.x=%#x e.x=%#x c.z=%#x e.z=%#x", o.c.x, o.c.y, o.c.z, o.e.x, o.e.y, o.e.z,
							math.Float32bits(o.c.x), math.Float32bits(o.e.x), math.Float32bits(o.c.z), math.Float32bits(o.e.z))
					}
					return
				}
			}
		}()
	}
}
