package dagaz

import (
	"math"
	"math/rand"
	"os"
	"strconv"
	"testing"
	"time"
)

func h9wild(rng *rand.Rand, span float32) float32 {
	switch rng.Intn(12) {
	case 0:
		return 0
	case 1:
		return float32(math.Copysign(0, -1))
	case 2:
		return h9near(rng, float32(2*(rng.Intn(int(span))-int(span)/2)))
	case 3:
		return -rng.Float32() * span
	case 4:
		return math.SmallestNonzeroFloat32 * float32(rng.Intn(5))
	case 5:
		return float32(rng.Intn(int(span)*2) - int(span))
	case 6:
		return span
	case 7:
		return -span
	default:
		return (rng.Float32()*2 - 1) * span
	}
}

func h9wildRay(rng *rand.Rand, span float32) float32 {
	switch rng.Intn(14) {
	case 0:
		return float32(math.NaN())
	case 1:
		return float32(math.Inf(1))
	case 2:
		return float32(math.Inf(-1))
	case 3:
		return math.MaxFloat32
	case 4:
		return -math.MaxFloat32
	case 5:
		return 1e30
	default:
		return h9wild(rng, span)
	}
}

func TestH9C08Fuzz(t *testing.T) {
	seeds := 3000
	if s := os.Getenv("H9_SEEDS"); s != "" {
		seeds, _ = strconv.Atoi(s)
	}
	for seed := 0; seed < seeds; seed++ {
		rng := rand.New(rand.NewSource(int64(seed)))
		g := NewRegularGrid(1, 1, 2)
		span := float32([]int{4, 8, 16, 64, 200}[rng.Intn(5)])
		n := 3 + rng.Intn(30)
		var log []string
		done := make(chan struct{})
		go func() {
			defer close(done)
			defer func() {
				if r := recover(); r != nil {
					t.Errorf("seed %d PANIC %v\n%v", seed, r, log)
				}
			}()
			for i := 0; i < n; i++ {
				switch rng.Intn(4) {
				case 0, 1:
					c := Vector3f{h9wild(rng, span), h9wild(rng, 2), h9wild(rng, span)}
					e := Vector3f{h9wild(rng, span/4), 0, h9wild(rng, span/4)}
					if rng.Intn(4) == 0 {
						e.y = h9wild(rng, 2)
					}
					// same admission as the handler
					ok := true
					for _, v := range []float32{c.x, c.y, c.z, e.x, e.y, e.z} {
						if !(v >= -maxCoordinate && v <= maxCoordinate) {
							ok = false
						}
					}
					if !ok {
						continue
					}
					log = append(log, "ins "+strconv.FormatFloat(float64(c.x), 'g', -1, 32)+","+strconv.FormatFloat(float64(c.y), 'g', -1, 32)+","+strconv.FormatFloat(float64(c.z), 'g', -1, 32)+" e "+strconv.FormatFloat(float64(e.x), 'g', -1, 32)+","+strconv.FormatFloat(float64(e.y), 'g', -1, 32)+","+strconv.FormatFloat(float64(e.z), 'g', -1, 32))
					g.InsertQuad(Quad{Center: c, Extents: e, Normal: calculateNormal(c, e)})
				case 2:
					r := Ray{From: Vector3f{h9wildRay(rng, span*2), h9wildRay(rng, 2), h9wildRay(rng, span*2)}, To: Vector3f{h9wildRay(rng, span*2), h9wildRay(rng, 2), h9wildRay(rng, span*2)}}
					if rng.Intn(3) == 0 {
						r.To.x = r.From.x
						r.To.z = r.From.z
					}
					log = append(log, "ray")
					g.IntersectQuad(r)
				case 3:
					g.GetRegion(Vector3f{h9wildRay(rng, span*2), 0, h9wildRay(rng, span*2)}, Vector3f{h9wildRay(rng, span*2), 0, h9wildRay(rng, span*2)})
					g.GetDebugInfo()
				}
			}
		}()
		select {
		case <-done:
		case <-time.After(60 * time.Second):
			t.Fatalf("seed %d WEDGED\n%v", seed, log)
		}
	}
}
