// intended path: modules/dagaz/h9_zero_normal_test.go
//
// C20 "the geometric primitives (... normal ...) agree with exact-arithmetic references" and
// "a vertical ray through the centre of a stored plane hits a plane".
//
// calculateNormal does not take the cross product of the extents: it first ADDS the centre to them and
// then subtracts it again, in float32. An extent smaller than half a float32 step of the centre
// coordinate (1.9e-6 m at 32..64 m, 9.5e-7 m at 16..32 m) is absorbed by the addition, the edge vector
// comes back as zero, and the normal is (0,0,0) instead of (0,1,0). Such a plane is stored and counted
// but no ray can ever hit it (the ray test needs normal.dir != 0).
package dagaz

import (
	"testing"

	"github.com/aukilabs/hagall-common/messages/dagazpb"
)

func TestH9NormalOfThinPlaneFarFromOriginIsZero(t *testing.T) {
	for _, tc := range []struct{ c, e Vector3f }{
		{Vector3f{60, 0, 1}, Vector3f{1.5e-6, 0, 1}}, // 3 micrometres wide, 2 m long, 60 m from the origin
		{Vector3f{1, 0, 23.5}, Vector3f{1.5, 0, 4.5e-7}},
		{Vector3f{1, 0, 1}, Vector3f{1.5e-6, 0, 1}}, // the same plane near the origin: fine
	} {
		n := calculateNormal(tc.c, tc.e)
		// exact arithmetic: (c+(ex,0,0))-c = (ex,0,0), (c+(0,0,ez))-c = (0,0,ez); (0,0,ez) x (ex,0,0) = (0, ez*ex, 0); normalised: (0,1,0)
		if !n.EqualWithEpsilon(Vector3f{0, 1, 0}, 1e-6) {
			t.Errorf("calculateNormal(centre %v, extents %v) = %v, exact reference (0,1,0)", tc.c, tc.e, n)
		}
	}
}

func TestH9ThinPlaneFarFromOriginCannotBeHit(t *testing.T) {
	g := NewRegularGrid(1, 1, 2)
	sample := &dagazpb.Quad{
		Center:  &dagazpb.Point{X: 60, Y: 0, Z: 1},
		Extents: &dagazpb.Point{X: 1.5e-6, Y: 0, Z: 1},
	}
	if !validPoint(sample.Center) || !validPoint(sample.Extents) {
		t.Fatal("the sample is expected to be admitted by the handler")
	}

	g.InsertQuad(NewQuadFromProtobuf(sample)) // what HandleDagazQuadSample does
	if g.PlaneCount != 1 {
		t.Fatalf("PlaneCount=%d", g.PlaneCount)
	}
	stored := g.GetRegion(Vector3f{-100, 0, -100}, Vector3f{100, 0, 100})
	if len(stored) != 1 {
		t.Fatalf("region returned %d planes", len(stored))
	}
	q := stored[0]
	t.Logf("stored plane: centre %v extents %v normal %v", q.Center, q.Extents, q.Normal)

	hit, _ := g.IntersectQuad(Ray{From: Vector3f{q.Center.x, q.Center.y + 1, q.Center.z}, To: Vector3f{q.Center.x, q.Center.y - 1, q.Center.z}})
	if hit == nil {
		t.Errorf("a vertical ray through the centre %v of the only stored plane hits nothing", q.Center)
	}
}
