// intended path: websocket/h9_dagaz_stale_cell_test.go
//
// End-to-end form of modules/dagaz/h9_stale_cell_test.go: a participant sends five ordinary ground-plane
// samples, the session then holds ONE plane (region request), and a vertical ray through the centre of
// that very plane is answered with the "no plane" quad (zero centre, zero extents).
package websocket

import (
	"context"
	"testing"
	"time"

	"github.com/aukilabs/hagall-common/messages/dagazpb"
	"github.com/aukilabs/hagall-common/messages/hagallpb"
	"github.com/aukilabs/hagall-common/scenario"
	hwebsocket "github.com/aukilabs/hagall-common/websocket"
	"github.com/stretchr/testify/require"
	"google.golang.org/protobuf/types/known/timestamppb"
)

func TestH9DagazRayThroughCentreOfOnlyPlaneHitsNothing(t *testing.T) {
	clientA, _, close := NewTestingEnv(t, newTestHandler(newDagazTestModule))
	defer close()

	ctx, cancel := context.WithTimeout(context.Background(), 60*time.Second)
	defer cancel()

	sample := func(cx, ex float32) *dagazpb.Quad {
		return &dagazpb.Quad{
			Center:  &dagazpb.Point{X: cx, Y: 0, Z: 1},
			Extents: &dagazpb.Point{X: ex, Y: 0, Z: 0.5},
		}
	}

	var stored *dagazpb.Quad

	err := scenario.NewScenario(clientA).
		Send(func() hwebsocket.ProtoMsg {
			return &hagallpb.ParticipantJoinRequest{
				Type:      hagallpb.MsgType_MSG_TYPE_PARTICIPANT_JOIN_REQUEST,
				Timestamp: timestamppb.Now(),
				RequestId: 1,
			}
		}).
		Receive(
			scenario.FilterByRequestID(1),
			scenario.FilterByType(hagallpb.MsgType_MSG_TYPE_PARTICIPANT_JOIN_RESPONSE),
		).
		Send(func() hwebsocket.ProtoMsg {
			return &dagazpb.DagazQuadSample{
				Type:      dagazpb.MsgType_MSG_TYPE_DAGAZ_QUAD_SAMPLE,
				Timestamp: timestamppb.Now(),
				Samples: []*dagazpb.Quad{
					sample(-5.3, 0.7),
					sample(-4.8, 1.2),
					sample(-5, 6),
					sample(-5, 20),
					sample(-10, 0.5),
				},
			}
		}).
		Send(func() hwebsocket.ProtoMsg {
			return &dagazpb.DagazGetRegionRequest{
				Type:      dagazpb.MsgType_MSG_TYPE_DAGAZ_GET_REGION_REQUEST,
				Timestamp: timestamppb.Now(),
				RequestId: 2,
				Min:       &dagazpb.Point{X: -100, Y: -100, Z: -100},
				Max:       &dagazpb.Point{X: 100, Y: 100, Z: 100},
			}
		}).
		Receive(
			scenario.FilterByType(dagazpb.MsgType_MSG_TYPE_DAGAZ_GET_REGION_RESPONSE),
			func(msg hwebsocket.Msg) error {
				var res dagazpb.DagazGetRegionResponse
				require.NoError(t, msg.DataTo(&res))
				require.Len(t, res.Quads, 1, "the five samples overlap at the same height: one plane")
				stored = res.Quads[0]
				t.Logf("the session's only plane: centre %v extents %v", stored.Center, stored.Extents)
				return nil
			}).
		Send(func() hwebsocket.ProtoMsg {
			return &dagazpb.DagazGetGroundPlaneRequest{
				Type:      dagazpb.MsgType_MSG_TYPE_DAGAZ_GET_GROUND_PLANE_REQUEST,
				Timestamp: timestamppb.Now(),
				RequestId: 3,
				Ray: &dagazpb.Ray{
					From: &dagazpb.Point{X: stored.Center.X, Y: stored.Center.Y + 1, Z: stored.Center.Z},
					To:   &dagazpb.Point{X: stored.Center.X, Y: stored.Center.Y - 1, Z: stored.Center.Z},
				},
			}
		}).
		Receive(
			scenario.FilterByType(dagazpb.MsgType_MSG_TYPE_DAGAZ_GET_GROUND_PLANE_RESPONSE),
			func(msg hwebsocket.Msg) error {
				var res dagazpb.DagazGetGroundPlaneResponse
				require.NoError(t, msg.DataTo(&res))
				t.Logf("ground plane under the centre: centre %v extents %v", res.Ground.Center, res.Ground.Extents)
				require.Equal(t, stored.Center.X, res.Ground.Center.X, "a vertical ray through the centre of the stored plane must hit it")
				require.Equal(t, stored.Extents.X, res.Ground.Extents.X)
				return nil
			}).
		Run(ctx)
	require.NoError(t, err)
}
