// intended path: modules/dagaz/h9_stale_cell_test.go
//
// C20 "every stored plane is registered in every grid cell its footprint overlaps" and
// "a vertical ray through the centre of a stored plane hits a plane".
//
// mergeQuads does not remember the cells a plane is registered in: it recomputes them from the plane's
// footprint with cellOf, which clamps a corner that lies a hair outside the grid onto the border cell.
// Once the grid has grown on that side the same corner is no longer clamped, it falls into the NEW
// neighbouring cell, and mergeQuads believes the plane is already registered there.
package dagaz

import (
	"math"
	"testing"
)

// h9cellsMissing lists the lower x bound of every cell of row z in [0,2) that the footprint of q
// overlaps with a positive area without q being listed in it.
func h9cellsMissing(g *RegularGrid, q *Quad) []float64 {
	var out []float64
	res := float64(g.Resolution)
	mn := Sub(q.Center, q.Extents)
	mx := Add(q.Center, q.Extents)
	for y := range g.Grid {
		zlo := float64(g.Min.z) + float64(y)*res
		for x := range g.Grid[y] {
			xlo := float64(g.Min.x) + float64(x)*res
			if float64(mn.x) < xlo+res && float64(mx.x) > xlo && float64(mn.z) < zlo+res && float64(mx.z) > zlo {
				if ok, _ := arrayContains(g.Grid[y][x], q); !ok {
					out = append(out, xlo)
				}
			}
		}
	}
	return out
}

func h9only(t *testing.T, g *RegularGrid) *Quad {
	all := g.GetRegion(Vector3f{-1000, 0, -1000}, Vector3f{1000, 0, 1000})
	if len(all) != 1 || g.PlaneCount != 1 {
		t.Fatalf("expected a single plane, region returned %d, PlaneCount=%d", len(all), g.PlaneCount)
	}
	return all[0]
}

func h9insert(g *RegularGrid, cx, ex float32) {
	c := Vector3f{cx, 0, 1}
	e := Vector3f{ex, 0, 0.5}
	g.InsertQuad(Quad{Center: c, Extents: e, Normal: calculateNormal(c, e)})
}

// Three samples: the plane covers x in [-7, -3.32] but is not listed in the cell [-8,-6).
func TestH9MergedPlaneMissingFromCellItCovers(t *testing.T) {
	g := NewRegularGrid(1, 1, 2) // as created by Module.Init

	h9insert(g, -5.3, 0.7) // footprint x -6 .. -4.6, grid grows to x >= -6
	h9insert(g, -4.8, 1.2) // merged: footprint x -6.0000005 .. -4.4 : a hair below grid.Min.x, clamped to the border cell
	h9insert(g, -5, 6)     // grid grows to x >= -12; merged: footprint x -7 .. -3.32

	q := h9only(t, g)
	mn := Sub(q.Center, q.Extents)
	mx := Add(q.Center, q.Extents)
	t.Logf("grid x %v..%v; plane centre %v extents %v footprint x %v..%v", g.Min.x, g.Max.x, q.Center, q.Extents, mn.x, mx.x)

	if miss := h9cellsMissing(g, q); len(miss) > 0 {
		t.Errorf("the plane (x %v..%v) is not registered in the cells starting at x=%v", mn.x, mx.x, miss)
	}

	// a vertical ray half a metre inside the plane's edge
	hit, _ := g.IntersectQuad(Ray{From: Vector3f{-6.5, 1, 1}, To: Vector3f{-6.5, -1, 1}})
	if hit == nil {
		t.Errorf("a vertical ray at x=-6.5, z=1 hits nothing although the only plane covers x %v..%v, z %v..%v", mn.x, mx.x, mn.z, mx.z)
	}
}

// Five samples: the plane's own centre ends up in the cell it is missing from.
func TestH9VerticalRayThroughCentreOfMergedPlaneMisses(t *testing.T) {
	g := NewRegularGrid(1, 1, 2)

	h9insert(g, -5.3, 0.7)
	h9insert(g, -4.8, 1.2)
	h9insert(g, -5, 6)    // plane x -7 .. -3.32, missing from cell [-8,-6)
	h9insert(g, -5, 20)   // plane x -10.6 .. 0.34: added to [-12,-10) and [-10,-8) only
	h9insert(g, -10, 0.5) // merged from the cell [-10,-8): the centre moves to x = -6.10

	q := h9only(t, g)
	mn := Sub(q.Center, q.Extents)
	mx := Add(q.Center, q.Extents)
	t.Logf("grid x %v..%v; plane centre %v extents %v footprint x %v..%v; missing from cells at x=%v", g.Min.x, g.Max.x, q.Center, q.Extents, mn.x, mx.x, h9cellsMissing(g, q))

	hit, _ := g.IntersectQuad(Ray{From: Vector3f{q.Center.x, q.Center.y + 1, q.Center.z}, To: Vector3f{q.Center.x, q.Center.y - 1, q.Center.z}})
	if hit == nil {
		t.Errorf("a vertical ray through the centre %v of the only stored plane hits nothing", q.Center)
	}

	// and a sample equal to the stored plane is not merged into it: the session now holds it twice
	g.InsertQuad(*q)
	if g.PlaneCount != 1 {
		t.Errorf("re-inserting the stored plane itself created a second plane (PlaneCount=%d, MergeCount=%d)", g.PlaneCount, g.MergeCount)
	}
}

// The same on the far side: the merged footprint ends exactly ON grid.Max.x (which is exclusive), is clamped
// to the last cell, the grid grows to the right, and the cell [2,4) is never given the plane.
func TestH9MergedPlaneMissingFromCellItCoversFarSide(t *testing.T) {
	g := NewRegularGrid(1, 1, 2) // x 0..2

	below2 := math.Nextafter32(2, 0) // 1.9999999
	e1, e2 := float32(0.04), float32(0.05)
	h9insert(g, below2-e1, e1) // footprint x 1.92 .. 1.9999999
	h9insert(g, below2-e2, e2) // footprint x 1.90 .. 1.9999999 ; merged: x 1.916 .. 2.0 (= grid.Max.x)
	t.Logf("after two samples the grid ends at x=%v", g.Max.x)
	h9insert(g, 1.96, 3) // grid grows to x -2..6; merged: footprint x 1.32 .. 2.59

	q := h9only(t, g)
	mn := Sub(q.Center, q.Extents)
	mx := Add(q.Center, q.Extents)
	t.Logf("grid x %v..%v; plane centre %v extents %v footprint x %v..%v", g.Min.x, g.Max.x, q.Center, q.Extents, mn.x, mx.x)

	if miss := h9cellsMissing(g, q); len(miss) > 0 {
		t.Errorf("the plane (x %v..%v) is not registered in the cells starting at x=%v", mn.x, mx.x, miss)
	}
	hit, _ := g.IntersectQuad(Ray{From: Vector3f{2.3, 1, 1}, To: Vector3f{2.3, -1, 1}})
	if hit == nil {
		t.Errorf("a vertical ray at x=2.3, z=1 hits nothing although the only plane covers x %v..%v, z %v..%v", mn.x, mx.x, mn.z, mx.z)
	}
}
