// intended path: modules/dagaz/h4_merge_never_ends_test.go
package dagaz

import (
	"testing"
	"time"
)

// Four samples, all at height 0, z in [0.5, 1.5]; x as below.  The grid has 2 m cells; with the
// grid's low border at x = -58 every x >= 1.9999981 is computed into the cell of [2,4) (the float32
// subtraction x - (-58) rounds up to 60), every smaller x into the cell of [0,2).
//
//  1. A = centre 3.2, extents 0.6          [2.6, 3.8]   cell [2,4): [A]
//  2. E = centre 1.9999981, extents 2.3    [-0.3, 4.3]  its centre is not over A: appended.
//     cell [0,2): [E]   cell [2,4): [A, E]
//  3. S1 = centre 2.7, extents 60          over A (A is first in its cell): merged into A, which now
//     spans [-9.4, 15.6] and is appended to cell [0,2) AFTER E: [E, A].  Grid low border: -58.
//  4. S2 = centre -2.4000108, extents 30   over A only: merged into A, whose centre becomes
//     1.999998 = one ulp below E's centre, i.e. in the cell of [0,2) where E comes first.
//
// The cascade of step 4: the ray from A's centre finds E first (same height: t = 0 for both, first
// wins) -> E is merged 20 % towards A: E's centre + 0.2 * (-1 ulp) rounds back to E's centre.  The
// centres are not equal, so InsertQuad goes on with E: the ray from E's centre (cell [2,4)) finds A
// first -> A is merged 20 % towards E: A's centre + 0.2 * (+1 ulp) rounds back.  And so on, for ever.
func TestH4CascadeMergeNeverEnds(t *testing.T) {
	g := NewRegularGrid(1, 1, 2)
	quad := func(cx, ex float32) Quad {
		return Quad{Center: Vector3f{cx, 0, 1}, Extents: Vector3f{ex, 0, 0.5}, Normal: Vector3f{0, 1, 0}}
	}
	g.InsertQuad(quad(3.2, 0.6))
	g.InsertQuad(quad(1.9999981, 2.3))
	g.InsertQuad(quad(2.7, 60))
	if g.PlaneCount != 2 || g.Min.x != -58 {
		t.Fatalf("test premise: planes %d, grid min %v", g.PlaneCount, g.Min)
	}

	done := make(chan struct{})
	go func() {
		defer close(done)
		g.InsertQuad(quad(-2.4000108, 30))
	}()
	select {
	case <-done:
	case <-time.After(10 * time.Second):
		t.Fatalf("InsertQuad has not returned after 10s (it never does; the goroutine spins until the test binary exits)")
	}
}
