// intended path: websocket/h4_dagaz_wedge_test.go
package websocket

import (
	"context"
	"testing"
	"time"

	"github.com/aukilabs/hagall-common/messages/dagazpb"
	"github.com/aukilabs/hagall-common/messages/hagallpb"
	"github.com/aukilabs/hagall-common/scenario"
	hwebsocket "github.com/aukilabs/hagall-common/websocket"
	"github.com/stretchr/testify/require"
	"google.golang.org/protobuf/types/known/timestamppb"
)

// End to end.  A and B are in one session.  A sends ONE well-formed ground-plane message with four
// samples (see modules/dagaz/h4_merge_never_ends_test.go for why these four), then a ping.  B asks
// for the ground-plane debug info.
//
// Unchanged code: the main loop of A's connection never comes back from InsertQuad (it spins, with
// the session's ground-plane write lock held): A's ping is never answered, A cannot be
// disconnected any more (idle timeout, close: all handled by that same loop), and B's handler blocks
// for ever on the read lock.
func TestH4FourGroundPlaneSamplesWedgeTheSession(t *testing.T) {
	clientA, clientB, close := NewTestingEnv(t, newTestHandler(newDagazTestModule))
	defer close()

	ctx, cancel := context.WithTimeout(context.Background(), 60*time.Second)
	defer cancel()

	var sessionID string
	require.NoError(t, scenario.NewScenario(clientA).
		Send(func() hwebsocket.ProtoMsg {
			return &hagallpb.ParticipantJoinRequest{Type: hagallpb.MsgType_MSG_TYPE_PARTICIPANT_JOIN_REQUEST, Timestamp: timestamppb.Now(), RequestId: 1}
		}).
		Receive(
			scenario.FilterByRequestID(1),
			scenario.FilterByType(hagallpb.MsgType_MSG_TYPE_PARTICIPANT_JOIN_RESPONSE),
			func(msg hwebsocket.Msg) error {
				var res hagallpb.ParticipantJoinResponse
				require.NoError(t, msg.DataTo(&res))
				sessionID = res.SessionId
				return nil
			}).
		Run(ctx))
	require.NoError(t, scenario.NewScenario(clientB).
		Send(func() hwebsocket.ProtoMsg {
			return &hagallpb.ParticipantJoinRequest{Type: hagallpb.MsgType_MSG_TYPE_PARTICIPANT_JOIN_REQUEST, Timestamp: timestamppb.Now(), RequestId: 1, SessionId: sessionID}
		}).
		Receive(
			scenario.FilterByRequestID(1),
			scenario.FilterByType(hagallpb.MsgType_MSG_TYPE_PARTICIPANT_JOIN_RESPONSE),
		).
		Run(ctx))

	quad := func(cx, ex float32) *dagazpb.Quad {
		return &dagazpb.Quad{Center: &dagazpb.Point{X: cx, Y: 0, Z: 1}, Extents: &dagazpb.Point{X: ex, Y: 0, Z: 0.5}}
	}

	ctxA, cancelA := context.WithTimeout(ctx, 10*time.Second)
	defer cancelA()
	errA := scenario.NewScenario(clientA).
		Send(func() hwebsocket.ProtoMsg {
			return &dagazpb.DagazQuadSample{
				Type:      dagazpb.MsgType_MSG_TYPE_DAGAZ_QUAD_SAMPLE,
				Timestamp: timestamppb.Now(),
				Samples: []*dagazpb.Quad{
					quad(3.2, 0.6),
					quad(1.9999981, 2.3),
					quad(2.7, 60),
					quad(-2.4000108, 30),
				},
			}
		}).
		Send(func() hwebsocket.ProtoMsg {
			return &hagallpb.Request{Type: hagallpb.MsgType_MSG_TYPE_PING_REQUEST, Timestamp: timestamppb.Now(), RequestId: 2}
		}).
		Receive(
			scenario.FilterByRequestID(2),
			scenario.FilterByType(hagallpb.MsgType_MSG_TYPE_PING_RESPONSE),
		).
		Run(ctxA)
	if errA != nil {
		t.Errorf("A's ping, sent right after its four samples, is not answered within 10s: %v", errA)
	}

	ctxB, cancelB := context.WithTimeout(ctx, 10*time.Second)
	defer cancelB()
	errB := scenario.NewScenario(clientB).
		Send(func() hwebsocket.ProtoMsg {
			return &dagazpb.DagazGetDebugInfoRequest{Type: dagazpb.MsgType_MSG_TYPE_DAGAZ_GET_DEBUG_INFO_REQUEST, Timestamp: timestamppb.Now(), RequestId: 3}
		}).
		Send(func() hwebsocket.ProtoMsg {
			return &hagallpb.Request{Type: hagallpb.MsgType_MSG_TYPE_PING_REQUEST, Timestamp: timestamppb.Now(), RequestId: 4}
		}).
		Receive(
			scenario.FilterByRequestID(4),
			scenario.FilterByType(hagallpb.MsgType_MSG_TYPE_PING_RESPONSE),
		).
		Run(ctxB)
	if errB != nil {
		t.Errorf("B (same session) asked for the ground-plane debug info and then pinged: no ping answer within 10s, its handler is blocked on the ground-plane lock: %v", errB)
	}
}
