// intended path: modules/dagaz/h4_dense_grid_memory_test.go
package dagaz

import (
	"context"
	"runtime"
	"testing"
	"time"

	"github.com/aukilabs/hagall-common/messages/dagazpb"
	hwebsocket "github.com/aukilabs/hagall-common/websocket"
	"github.com/aukilabs/hagall/models"
	"google.golang.org/protobuf/types/known/timestamppb"
)

// The validation accepts coordinates and extents up to 4096 m, "so that a single absurd coordinate
// cannot exhaust memory".  But the grid is dense AND every plane is appended to every cell it
// covers: one accepted sample with centre 0 and extents 4096 makes a 4097 x 4097 grid (16.8 million
// slice headers, 24 bytes each) and appends a pointer to each cell (16.8 million 8-byte
// allocations).  Every further sample of that size at another height (they do not merge when they
// are more than 0.6 m apart) adds another 130-260 MB.  The number of samples in a message is not
// bounded (the frame limit of 32 MB allows some 800 000), nor is the number of sessions a client
// may create.
//
// This test sends ONE message of about 130 bytes with 3 samples and gives the server a budget of
// 256 MB for it.  (WARNING: allocates about 1 GB and takes several seconds.)
func TestH4OneSmallMessageCostsAGigabyte(t *testing.T) {
	s := models.NewSession(1, time.Hour)
	defer s.Close()
	m := &Module{}
	m.Init(s, &models.Participant{ID: 1})

	var samples []*dagazpb.Quad
	for i := 0; i < 3; i++ {
		samples = append(samples, &dagazpb.Quad{
			Center:  &dagazpb.Point{X: 0, Y: float32(2 * i), Z: 0},
			Extents: &dagazpb.Point{X: 4096, Y: 0, Z: 4096},
		})
	}
	msg, err := hwebsocket.MsgFromProto(&dagazpb.DagazQuadSample{
		Type:      dagazpb.MsgType_MSG_TYPE_DAGAZ_QUAD_SAMPLE,
		Timestamp: timestamppb.Now(),
		Samples:   samples,
	})
	if err != nil {
		t.Fatal(err)
	}

	var before, after runtime.MemStats
	runtime.GC()
	runtime.ReadMemStats(&before)
	start := time.Now()
	if err := m.HandleMsg(context.Background(), nil, msg); err != nil {
		t.Fatal(err)
	}
	elapsed := time.Since(start)
	runtime.GC()
	runtime.ReadMemStats(&after)
	runtime.KeepAlive(m)
	runtime.KeepAlive(s)

	grown := int64(after.HeapAlloc) - int64(before.HeapAlloc)
	info := m.state.SpatialPartition.GetDebugInfo()
	t.Logf("3 samples: grid %d x %d cells, %d planes, live heap +%d MB, handler (holding the session's ground-plane lock) busy for %v",
		info.Row_count, info.Col_count, info.Plane_count, grown>>20, elapsed)
	if grown > 256<<20 {
		t.Errorf("one ground-plane message with 3 samples left %d MB of live heap in the session (budget: 256 MB); each further sample adds 130-260 MB", grown>>20)
	}
}
