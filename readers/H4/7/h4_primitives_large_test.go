// intended path: modules/dagaz/h4_primitives_large_test.go
package dagaz

import (
	"math"
	"math/rand"
	"testing"
)

// The primitives against exact references, for finite vectors that are not small.

// The normal of a horizontal plane is (0,1,0) whatever its size.  Vector3f.Length squares in
// float32: the squares overflow for components above 1.8e19, i.e. (the normal is e.z*e.x before it
// is normalised) for extents above about 4.3e9 - the mirror image of the known underflow below
// 1e-10.
func TestH4NormalOfALargePlane(t *testing.T) {
	for _, e := range []float32{1, 1e6, 4e9, 5e9, 1e15, 2e19} {
		n := calculateNormal(Vector3f{0, 0, 0}, Vector3f{e, 0, e})
		if !(math.Abs(float64(n.x)) < 1e-6 && math.Abs(float64(n.y)-1) < 1e-6 && math.Abs(float64(n.z)) < 1e-6) {
			t.Errorf("extents (%v, 0, %v): normal %v, want (0, 1, 0)", e, e, n)
		}
	}
}

// A vertical segment through the middle of a horizontal quad, starting above it and ending below
// it, intersects it.  IntersectQuad recomputes the hit point in float32 and then wants its y within
// 1e-4 of the (flat) quad: with a long ray the rounding error of From.y + dir.y*t alone is larger.
func TestH4LongVerticalRayThroughTheMiddleOfAQuad(t *testing.T) {
	rng := rand.New(rand.NewSource(1))
	for _, h := range []float32{64, 1000, 4096, 20000} {
		miss, n := 0, 0
		var example Ray
		var exampleY float32
		for i := 0; i < 10000; i++ {
			cy := (rng.Float32()*2 - 1) * 64
			q := Quad{Center: Vector3f{1, cy, 1}, Extents: Vector3f{0.5, 0, 0.5}}
			q.Normal = calculateNormal(q.Center, q.Extents)
			r := Ray{From: Vector3f{1, h * rng.Float32(), 1}, To: Vector3f{1, -h * rng.Float32(), 1}}
			if !(r.From.y > cy+1 && r.To.y < cy-1) {
				continue
			}
			n++
			if hit, _ := IntersectQuad(r, q); !hit {
				if miss == 0 {
					example, exampleY = r, cy
				}
				miss++
			}
		}
		if miss > 0 {
			t.Errorf("rays up to %v m long: %d of %d miss the quad they go through; e.g. quad at height %v, ray %v -> %v", 2*h, miss, n, exampleY, example.From, example.To)
		}
	}
}
