// intended path: websocket/h4_dagaz_hole_test.go
package websocket

import (
	"context"
	"testing"
	"time"

	"github.com/aukilabs/hagall-common/messages/dagazpb"
	"github.com/aukilabs/hagall-common/messages/hagallpb"
	"github.com/aukilabs/hagall-common/scenario"
	hwebsocket "github.com/aukilabs/hagall-common/websocket"
	"github.com/stretchr/testify/require"
	"google.golang.org/protobuf/types/known/timestamppb"
)

// End to end version of modules/dagaz/h4_stale_far_cell_test.go: four samples that merge into one
// plane; the region query returns that plane; the ground-plane query with the vertical ray
// through the centre of that very plane answers "no ground" (a quad with zero extents).
func TestH4GroundPlaneQueryThroughThePlanesCentreFindsNothing(t *testing.T) {
	clientA, _, close := NewTestingEnv(t, newTestHandler(newDagazTestModule))
	defer close()

	ctx, cancel := context.WithTimeout(context.Background(), 30*time.Second)
	defer cancel()

	quad := func(cx, ex float32) *dagazpb.Quad {
		return &dagazpb.Quad{Center: &dagazpb.Point{X: cx, Y: 0, Z: 1}, Extents: &dagazpb.Point{X: ex, Y: 0, Z: 0.5}}
	}
	var plane *dagazpb.Quad

	err := scenario.NewScenario(clientA).
		Send(func() hwebsocket.ProtoMsg {
			return &hagallpb.ParticipantJoinRequest{Type: hagallpb.MsgType_MSG_TYPE_PARTICIPANT_JOIN_REQUEST, Timestamp: timestamppb.Now(), RequestId: 1}
		}).
		Receive(
			scenario.FilterByRequestID(1),
			scenario.FilterByType(hagallpb.MsgType_MSG_TYPE_PARTICIPANT_JOIN_RESPONSE),
		).
		Send(func() hwebsocket.ProtoMsg {
			return &dagazpb.DagazQuadSample{
				Type:      dagazpb.MsgType_MSG_TYPE_DAGAZ_QUAD_SAMPLE,
				Timestamp: timestamppb.Now(),
				Samples:   []*dagazpb.Quad{quad(1, 0.9999999), quad(1.5, 21), quad(5, 1), quad(5, 1)},
			}
		}).
		Send(func() hwebsocket.ProtoMsg {
			return &dagazpb.DagazGetRegionRequest{
				Type:      dagazpb.MsgType_MSG_TYPE_DAGAZ_GET_REGION_REQUEST,
				Timestamp: timestamppb.Now(),
				RequestId: 2,
				Min:       &dagazpb.Point{X: -100, Y: -100, Z: -100},
				Max:       &dagazpb.Point{X: 100, Y: 100, Z: 100},
			}
		}).
		Receive(
			scenario.FilterByType(dagazpb.MsgType_MSG_TYPE_DAGAZ_GET_REGION_RESPONSE),
			func(msg hwebsocket.Msg) error {
				var res dagazpb.DagazGetRegionResponse
				require.NoError(t, msg.DataTo(&res))
				require.Len(t, res.Quads, 1)
				plane = res.Quads[0]
				return nil
			}).
		Send(func() hwebsocket.ProtoMsg {
			return &dagazpb.DagazGetGroundPlaneRequest{
				Type:      dagazpb.MsgType_MSG_TYPE_DAGAZ_GET_GROUND_PLANE_REQUEST,
				Timestamp: timestamppb.Now(),
				RequestId: 3,
				Ray: &dagazpb.Ray{
					From: &dagazpb.Point{X: plane.Center.X, Y: plane.Center.Y + 1, Z: plane.Center.Z},
					To:   &dagazpb.Point{X: plane.Center.X, Y: plane.Center.Y - 1, Z: plane.Center.Z},
				},
			}
		}).
		Receive(
			scenario.FilterByType(dagazpb.MsgType_MSG_TYPE_DAGAZ_GET_GROUND_PLANE_RESPONSE),
			func(msg hwebsocket.Msg) error {
				var res dagazpb.DagazGetGroundPlaneResponse
				require.NoError(t, msg.DataTo(&res))
				t.Logf("stored plane: centre %v extents %v; ground under its centre: centre %v extents %v", plane.Center, plane.Extents, res.Ground.Center, res.Ground.Extents)
				require.Equal(t, plane.Center.X, res.Ground.Center.X)
				require.Equal(t, plane.Extents.X, res.Ground.Extents.X, "the vertical ray through the centre of the stored plane hits no plane")
				return nil
			}).
		Run(ctx)
	require.NoError(t, err)
}
