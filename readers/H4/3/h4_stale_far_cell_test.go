// intended path: modules/dagaz/h4_stale_far_cell_test.go
package dagaz

import (
	"math"
	"testing"
)

// mergeQuads does not remember which cells a plane is registered in: it recomputes them from the
// plane's footprint and the CURRENT grid origin.  The float32 subtraction (edge - grid.Min) rounds
// differently once the grid has grown to the low side, so the recomputed far cell can be one
// higher than the cell the plane was registered in.  The expansion then starts one cell too far
// and leaves a hole: a cell the plane overlaps by metres but is not registered in.
//
//  1. A = [0, 1.9999999] (far edge one ulp below the cell border 2); grid [0,2): one cell, A in it.
//  2. S1 = centre 1.5, extents 21 -> the grid grows to [-20, 24); S1's centre is over A: merged.
//     A's far edge "was" in cell fl(1.9999999+20)/2 = 22/2 = 11 (really: cell 10), becomes 6.1
//     (cell 13): cells 12 and 13 are added, cell 11 = [2,4) is not.
//  3. S2, S2 = centre 5, extents 1 (over A, in cell 12 where A is registered): merged; A's centre
//     moves to 1.88, then to 2.504 - into the hole.
func TestH4PlaneNotRegisteredUnderItsOwnCentre(t *testing.T) {
	g := NewRegularGrid(1, 1, 2)
	quad := func(cx, ex float32) Quad {
		return Quad{Center: Vector3f{cx, 0, 1}, Extents: Vector3f{ex, 0, 0.5}, Normal: Vector3f{0, 1, 0}}
	}
	g.InsertQuad(quad(1, 0.9999999))
	g.InsertQuad(quad(1.5, 21))
	g.InsertQuad(quad(5, 1))
	g.InsertQuad(quad(5, 1))

	if g.PlaneCount != 1 {
		t.Fatalf("test premise: one plane expected, got %d", g.PlaneCount)
	}
	planes := g.GetRegion(Vector3f{-100, 0, -100}, Vector3f{100, 0, 100})
	if len(planes) != 1 {
		t.Fatalf("test premise: region returns %d planes", len(planes))
	}
	a := planes[0]
	t.Logf("the plane: centre %v extents %v, x in [%v, %v]; grid x in [%v, %v)", a.Center, a.Extents, a.Center.x-a.Extents.x, a.Center.x+a.Extents.x, g.Min.x, g.Max.x)

	// every cell the footprint overlaps (by more than a millimetre) holds the plane
	for row := range g.Grid {
		for col := range g.Grid[row] {
			x0 := float64(g.Min.x) + 2*float64(col)
			z0 := float64(g.Min.z) + 2*float64(row)
			ox := math.Min(x0+2, float64(a.Center.x+a.Extents.x)) - math.Max(x0, float64(a.Center.x-a.Extents.x))
			oz := math.Min(z0+2, float64(a.Center.z+a.Extents.z)) - math.Max(z0, float64(a.Center.z-a.Extents.z))
			if ox > 1e-3 && oz > 1e-3 {
				if ok, _ := arrayContains(g.Grid[row][col], a); !ok {
					t.Errorf("the plane overlaps cell x in [%v, %v) by %.3f m x %.3f m but is not registered in it", x0, x0+2, ox, oz)
				}
			}
		}
	}

	// a vertical ray through the centre of the stored plane hits a plane
	ray := Ray{From: Vector3f{a.Center.x, a.Center.y + 1, a.Center.z}, To: Vector3f{a.Center.x, a.Center.y - 1, a.Center.z}}
	if hit, _ := g.IntersectQuad(ray); hit == nil {
		t.Errorf("the vertical ray through the centre %v of the only stored plane hits nothing", a.Center)
	}
}
