// intended path: modules/dagaz/h4_merge_below_min_test.go
package dagaz

import (
	"context"
	"testing"

	"github.com/aukilabs/hagall-common/messages/dagazpb"
	hwebsocket "github.com/aukilabs/hagall-common/websocket"
	"github.com/aukilabs/hagall/models"
	"google.golang.org/protobuf/types/known/timestamppb"
)

// Two overlapping samples at the same height whose near (low x) edges both lie exactly on the
// grid's low border (an even number of metres): the merged plane's near edge is
// 0.8*edge + 0.2*edge = edge in exact arithmetic, but fl(centre') - fl(extents') comes out one ulp
// BELOW the border.  mergeQuads turns the negative cell coordinate into a uint (2^64-1 on amd64)
// and walks the "left edge" strip out of the cell array.
func TestH4MergedPlaneRoundsBelowGridMin(t *testing.T) {
	quads := [][2]float32{ // centre.x, extents.x ; z is 1 +- 0.5 for both
		{-5.3, 0.7}, // [-6, -4.6]
		{-4.8, 1.2}, // [-6, -3.6], centre above the first plane
	}
	for _, q := range quads {
		if q[0]-q[1] != -6 {
			t.Fatalf("test premise: %v - %v = %v, want -6 exactly", q[0], q[1], q[0]-q[1])
		}
	}

	t.Run("grid", func(t *testing.T) {
		defer func() {
			if r := recover(); r != nil {
				t.Fatalf("InsertQuad panicked: %v", r)
			}
		}()
		g := NewRegularGrid(1, 1, 2)
		for _, q := range quads {
			g.InsertQuad(Quad{Center: Vector3f{q[0], 0, 1}, Extents: Vector3f{q[1], 0, 0.5}, Normal: Vector3f{0, 1, 0}})
		}
		if g.PlaneCount != 1 || g.MergeCount == 0 {
			t.Fatalf("expected one merged plane, got planes=%d merges=%d", g.PlaneCount, g.MergeCount)
		}
	})

	t.Run("module", func(t *testing.T) {
		defer func() {
			if r := recover(); r != nil {
				t.Fatalf("HandleMsg(DagazQuadSample) panicked (in the server net/http recovers it: the connection is cut without the disconnection path): %v", r)
			}
		}()
		s := models.NewSession(1, 0x7fffffffffffffff)
		defer s.Close()
		m := &Module{}
		m.Init(s, &models.Participant{ID: 1})
		var samples []*dagazpb.Quad
		for _, q := range quads {
			samples = append(samples, &dagazpb.Quad{
				Center:  &dagazpb.Point{X: q[0], Y: 0, Z: 1},
				Extents: &dagazpb.Point{X: q[1], Y: 0, Z: 0.5},
			})
		}
		msg, err := hwebsocket.MsgFromProto(&dagazpb.DagazQuadSample{
			Type:      dagazpb.MsgType_MSG_TYPE_DAGAZ_QUAD_SAMPLE,
			Timestamp: timestamppb.Now(),
			Samples:   samples,
		})
		if err != nil {
			t.Fatal(err)
		}
		if err := m.HandleMsg(context.Background(), nil, msg); err != nil {
			t.Fatal(err)
		}
	})
}
