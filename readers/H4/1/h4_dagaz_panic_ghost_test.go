// intended path: websocket/h4_dagaz_panic_ghost_test.go
package websocket

import (
	"context"
	"testing"
	"time"

	"github.com/aukilabs/hagall-common/messages/dagazpb"
	"github.com/aukilabs/hagall-common/messages/hagallpb"
	"github.com/aukilabs/hagall-common/scenario"
	hwebsocket "github.com/aukilabs/hagall-common/websocket"
	"github.com/prometheus/client_golang/prometheus"
	"github.com/stretchr/testify/require"
	"google.golang.org/protobuf/types/known/timestamppb"
)

func h4ConnectedClients(t *testing.T) float64 {
	mfs, err := prometheus.DefaultGatherer.Gather()
	require.NoError(t, err)
	total := 0.0
	for _, mf := range mfs {
		if mf.GetName() != "ws_connected_clients" {
			continue
		}
		for _, m := range mf.GetMetric() {
			total += m.GetGauge().GetValue()
		}
	}
	return total
}

// End to end.  A and B are in one session.  A sends ONE well-formed ground-plane message with two
// samples (both with their low-x edge exactly on x = -6).  Expected: the samples are stored (merged
// into one plane), A stays connected, and when A then closes, B is told that A left and the
// connected-clients gauge goes back.
//
// Unchanged code: the main loop of A's connection panics in mergeQuads (index out of range).  The
// panic is recovered by net/http (the handler runs on the http serving goroutine, in cmd/main.go as
// in this test environment), so the connection is cut WITHOUT the disconnection path: A stays in
// the session as a ghost participant, B never gets the leave broadcast, the gauge stays up.
func TestH4TwoGroundPlaneSamplesLeaveAGhost(t *testing.T) {
	before := h4ConnectedClients(t)

	clientA, clientB, close := NewTestingEnv(t, newTestHandler(newDagazTestModule))
	defer close()

	ctx, cancel := context.WithTimeout(context.Background(), 30*time.Second)
	defer cancel()

	var sessionID string
	err := scenario.NewScenario(clientA).
		Send(func() hwebsocket.ProtoMsg {
			return &hagallpb.ParticipantJoinRequest{
				Type:      hagallpb.MsgType_MSG_TYPE_PARTICIPANT_JOIN_REQUEST,
				Timestamp: timestamppb.Now(),
				RequestId: 1,
			}
		}).
		Receive(
			scenario.FilterByRequestID(1),
			scenario.FilterByType(hagallpb.MsgType_MSG_TYPE_PARTICIPANT_JOIN_RESPONSE),
			func(msg hwebsocket.Msg) error {
				var res hagallpb.ParticipantJoinResponse
				require.NoError(t, msg.DataTo(&res))
				sessionID = res.SessionId
				return nil
			}).
		Run(ctx)
	require.NoError(t, err)

	var participantA uint32 = 1
	err = scenario.NewScenario(clientB).
		Send(func() hwebsocket.ProtoMsg {
			return &hagallpb.ParticipantJoinRequest{
				Type:      hagallpb.MsgType_MSG_TYPE_PARTICIPANT_JOIN_REQUEST,
				Timestamp: timestamppb.Now(),
				RequestId: 1,
				SessionId: sessionID,
			}
		}).
		Receive(
			scenario.FilterByRequestID(1),
			scenario.FilterByType(hagallpb.MsgType_MSG_TYPE_PARTICIPANT_JOIN_RESPONSE),
		).
		Run(ctx)
	require.NoError(t, err)
	require.Equal(t, before+2, h4ConnectedClients(t))

	ctxA, cancelA := context.WithTimeout(ctx, 10*time.Second)
	defer cancelA()
	errA := scenario.NewScenario(clientA).
		Send(func() hwebsocket.ProtoMsg {
			return &dagazpb.DagazQuadSample{
				Type:      dagazpb.MsgType_MSG_TYPE_DAGAZ_QUAD_SAMPLE,
				Timestamp: timestamppb.Now(),
				Samples: []*dagazpb.Quad{
					{Center: &dagazpb.Point{X: -5.3, Y: 0, Z: 1}, Extents: &dagazpb.Point{X: 0.7, Y: 0, Z: 0.5}},
					{Center: &dagazpb.Point{X: -4.8, Y: 0, Z: 1}, Extents: &dagazpb.Point{X: 1.2, Y: 0, Z: 0.5}},
				},
			}
		}).
		Send(func() hwebsocket.ProtoMsg {
			return &dagazpb.DagazGetDebugInfoRequest{
				Type:      dagazpb.MsgType_MSG_TYPE_DAGAZ_GET_DEBUG_INFO_REQUEST,
				Timestamp: timestamppb.Now(),
				RequestId: 2,
			}
		}).
		Receive(
			scenario.FilterByType(dagazpb.MsgType_MSG_TYPE_DAGAZ_GET_DEBUG_INFO_RESPONSE),
			func(msg hwebsocket.Msg) error {
				var res dagazpb.DagazGetDebugInfoResponse
				require.NoError(t, msg.DataTo(&res))
				require.EqualValues(t, 1, res.GridPlaneCount)
				return nil
			}).
		Run(ctxA)
	if errA != nil {
		t.Errorf("A sent two valid samples and a debug info request; instead of the response: %v", errA)
	}

	// However A's connection ends, it ends through the normal path: B is told, the gauge goes back.
	clientA.Close()
	ctxB, cancelB := context.WithTimeout(ctx, 5*time.Second)
	defer cancelB()
	errB := scenario.NewScenario(clientB).
		Receive(
			scenario.FilterByType(hagallpb.MsgType_MSG_TYPE_PARTICIPANT_LEAVE_BROADCAST),
			func(msg hwebsocket.Msg) error {
				var res hagallpb.ParticipantLeaveBroadcast
				require.NoError(t, msg.DataTo(&res))
				require.Equal(t, participantA, res.ParticipantId)
				return nil
			}).
		Run(ctxB)
	if errB != nil {
		t.Errorf("B was not told within 5s that A left (A is a ghost in the session): %v", errB)
	}
	if got := h4ConnectedClients(t); got != before+1 {
		t.Errorf("connected-clients gauge: %v, want %v (only B is connected)", got, before+1)
	}
}

// The consequence for the others: the ghost's send queue (512 messages) has no reader any more.
// Once B has caused 512 broadcasts, the 513th blocks B's main loop for ever in
// Session.Broadcast -> ghost.Responder.SendMsg (under the session's participant lock, so nobody
// can join or leave that session either).
func TestH4GhostWedgesTheOtherParticipant(t *testing.T) {
	clientA, clientB, close := NewTestingEnv(t, newTestHandler(newDagazTestModule))
	defer close()

	ctx, cancel := context.WithTimeout(context.Background(), 60*time.Second)
	defer cancel()

	var sessionID string
	require.NoError(t, scenario.NewScenario(clientA).
		Send(func() hwebsocket.ProtoMsg {
			return &hagallpb.ParticipantJoinRequest{Type: hagallpb.MsgType_MSG_TYPE_PARTICIPANT_JOIN_REQUEST, Timestamp: timestamppb.Now(), RequestId: 1}
		}).
		Receive(
			scenario.FilterByRequestID(1),
			scenario.FilterByType(hagallpb.MsgType_MSG_TYPE_PARTICIPANT_JOIN_RESPONSE),
			func(msg hwebsocket.Msg) error {
				var res hagallpb.ParticipantJoinResponse
				require.NoError(t, msg.DataTo(&res))
				sessionID = res.SessionId
				return nil
			}).
		Run(ctx))
	require.NoError(t, scenario.NewScenario(clientB).
		Send(func() hwebsocket.ProtoMsg {
			return &hagallpb.ParticipantJoinRequest{Type: hagallpb.MsgType_MSG_TYPE_PARTICIPANT_JOIN_REQUEST, Timestamp: timestamppb.Now(), RequestId: 1, SessionId: sessionID}
		}).
		Receive(
			scenario.FilterByRequestID(1),
			scenario.FilterByType(hagallpb.MsgType_MSG_TYPE_PARTICIPANT_JOIN_RESPONSE),
		).
		Run(ctx))

	msg, err := hwebsocket.MsgFromProto(&dagazpb.DagazQuadSample{
		Type:      dagazpb.MsgType_MSG_TYPE_DAGAZ_QUAD_SAMPLE,
		Timestamp: timestamppb.Now(),
		Samples: []*dagazpb.Quad{
			{Center: &dagazpb.Point{X: -5.3, Y: 0, Z: 1}, Extents: &dagazpb.Point{X: 0.7, Y: 0, Z: 0.5}},
			{Center: &dagazpb.Point{X: -4.8, Y: 0, Z: 1}, Extents: &dagazpb.Point{X: 1.2, Y: 0, Z: 0.5}},
		},
	})
	require.NoError(t, err)
	_, err = hwebsocket.Send(clientA, msg)
	require.NoError(t, err)
	time.Sleep(500 * time.Millisecond)
	clientA.Close()

	// B goes on working: 600 entities, then a ping.  B reads everything it is sent.
	go func() {
		for i := 0; i < 600; i++ {
			m, _ := hwebsocket.MsgFromProto(&hagallpb.EntityAddRequest{Type: hagallpb.MsgType_MSG_TYPE_ENTITY_ADD_REQUEST, Timestamp: timestamppb.Now(), RequestId: uint32(100 + i)})
			if _, err := hwebsocket.Send(clientB, m); err != nil {
				return
			}
		}
		m, _ := hwebsocket.MsgFromProto(&hagallpb.Request{Type: hagallpb.MsgType_MSG_TYPE_PING_REQUEST, Timestamp: timestamppb.Now(), RequestId: 9999})
		hwebsocket.Send(clientB, m)
	}()
	ctxB, cancelB := context.WithTimeout(ctx, 20*time.Second)
	defer cancelB()
	added := 0
	err = scenario.NewScenario(clientB).
		Receive(
			func(msg hwebsocket.Msg) error {
				if msg.Type.Number() == hagallpb.MsgType_MSG_TYPE_ENTITY_ADD_RESPONSE.Number() {
					added++
				}
				return nil
			},
			scenario.FilterByRequestID(9999),
			scenario.FilterByType(hagallpb.MsgType_MSG_TYPE_PING_RESPONSE),
		).
		Run(ctxB)
	if err != nil {
		t.Errorf("B got %d of 600 entity add responses and no answer to its ping within 20s: %v", added, err)
	}
}
