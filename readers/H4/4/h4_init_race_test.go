// intended path: modules/dagaz/h4_init_race_test.go
package dagaz

import (
	"sync"
	"sync/atomic"
	"testing"
	"time"

	"github.com/aukilabs/hagall/models"
)

// Module.Init looks the session's ground-plane state up and, when there is none, stores a new one:
// two participants whose joins reach Init at the same moment (websocket/realtime.go calls it at the
// end of HandleParticipantJoin, on each connection's own goroutine, after the session is already
// findable) both see "none" and each stores its own.  The first is overwritten in the session but
// stays in that participant's module: from then on the two work on different grids.
func TestH4ConcurrentInitGivesParticipantsDifferentGrids(t *testing.T) {
	const rounds = 2000
	split := 0
	for i := 0; i < rounds; i++ {
		s := models.NewSession(uint32(i+1), time.Hour)
		var ma, mb Module
		var wg sync.WaitGroup
		var ready int32
		wg.Add(2)
		run := func(m *Module, id uint32) {
			defer wg.Done()
			atomic.AddInt32(&ready, 1)
			for atomic.LoadInt32(&ready) < 2 {
			}
			m.Init(s, &models.Participant{ID: id})
		}
		go run(&ma, 1)
		go run(&mb, 2)
		wg.Wait()
		s.Close()

		if ma.state == mb.state {
			continue
		}
		split++
		if split > 1 {
			continue
		}
		// what it means: a plane stored by one is not there for the other
		ma.state.SpatialPartition.InsertQuad(Quad{Center: Vector3f{1, 0, 1}, Extents: Vector3f{0.5, 0, 0.5}, Normal: Vector3f{0, 1, 0}})
		a := len(ma.state.SpatialPartition.GetRegion(Vector3f{-10, 0, -10}, Vector3f{10, 0, 10}))
		b := len(mb.state.SpatialPartition.GetRegion(Vector3f{-10, 0, -10}, Vector3f{10, 0, 10}))
		t.Errorf("round %d: the two participants of one session hold different ground-plane states; after one stored a plane the covering region holds %d plane(s) for it and %d for the other", i, a, b)
	}
	if split > 0 {
		t.Errorf("%d of %d pairs of simultaneous Init calls ended with two states for one session", split, rounds)
	}
}
