// intended path: websocket/h4_dagaz_join_race_test.go
package websocket

import (
	"context"
	"net/http"
	"net/http/httptest"
	"strings"
	"sync"
	"sync/atomic"
	"testing"
	"time"

	"github.com/aukilabs/go-tooling/pkg/logs"
	"github.com/aukilabs/hagall-common/messages/dagazpb"
	"github.com/aukilabs/hagall-common/messages/hagallpb"
	hwebsocket "github.com/aukilabs/hagall-common/websocket"
	"github.com/aukilabs/hagall/models"
	"github.com/aukilabs/hagall/modules"
	"github.com/google/uuid"
	"golang.org/x/net/websocket"
	"google.golang.org/protobuf/types/known/timestamppb"
)

func h4send(c *websocket.Conn, m hwebsocket.ProtoMsg) error {
	msg, err := hwebsocket.MsgFromProto(m)
	if err != nil {
		return err
	}
	_, err = hwebsocket.Send(c, msg)
	return err
}

// One client creates a session while others (who know or guess its id: session ids are sequential)
// join it at the same moment.  Then every participant stores one ground plane and, when all are
// stored, asks for the region covering everything.  All must see all planes.
func TestH4JoinRaceSplitsGroundPlanes(t *testing.T) {
	logs.SetLogger(func(e logs.Entry) {})
	store := &models.SessionStore{DiscoveryService: &testClient{}}
	newHandler := func() Handler {
		return &RealtimeHandler{
			ClientSyncClockInterval: time.Hour,
			ClientIdleTimeout:       time.Minute,
			FrameDuration:           time.Millisecond * 50,
			Sessions:                store,
			Modules:                 []modules.Module{newDagazTestModule()},
		}
	}
	server := httptest.NewServer(websocket.Server{
		Handshake: func(c *websocket.Config, r *http.Request) error { return nil },
		Handler: func(conn *websocket.Conn) {
			defer conn.Close()
			handler := newHandler()
			defer handler.Close()
			Handle(context.Background(), conn, handler)
		},
	})
	defer server.Close()
	dial := func() *websocket.Conn {
		config, err := websocket.NewConfig(strings.ReplaceAll(server.URL, "http://", "ws://"), "http://localhost")
		if err != nil {
			t.Fatal(err)
		}
		config.Header.Set("X-Forwarded-for", "192.0.0.0")
		config.Header.Set("posemesh-client-id", uuid.NewString())
		conn, err := websocket.DialConfig(config)
		if err != nil {
			t.Fatal(err)
		}
		return conn
	}

	const joiners = 4
	const sid = "tedx1" // the first session of the server; the id is free again once the session has ended

	type client struct {
		conn    *websocket.Conn
		joined  chan string
		regions chan int
		debug   chan uint32
	}
	newClient := func() *client {
		c := &client{conn: dial(), joined: make(chan string, 1), regions: make(chan int, 4), debug: make(chan uint32, 4)}
		go func() {
			for {
				msg, _, err := hwebsocket.Receive(c.conn)
				if err != nil {
					return
				}
				switch msg.Type.Number() {
				case hagallpb.MsgType_MSG_TYPE_PARTICIPANT_JOIN_RESPONSE.Number():
					var res hagallpb.ParticipantJoinResponse
					msg.DataTo(&res)
					c.joined <- res.SessionId
				case dagazpb.MsgType_MSG_TYPE_DAGAZ_GET_REGION_RESPONSE.Number():
					var res dagazpb.DagazGetRegionResponse
					msg.DataTo(&res)
					c.regions <- len(res.Quads)
				case dagazpb.MsgType_MSG_TYPE_DAGAZ_GET_DEBUG_INFO_RESPONSE.Number():
					var res dagazpb.DagazGetDebugInfoResponse
					msg.DataTo(&res)
					c.debug <- res.GridPlaneCount
				}
			}
		}()
		return c
	}

	attempts := 0
	deadline := time.Now().Add(180 * time.Second)
	for time.Now().Before(deadline) && !t.Failed() {
		attempts++
		for {
			if _, ok := store.GetByGlobalID(sid); !ok {
				break
			}
			time.Sleep(time.Millisecond)
		}
		creator := newClient()
		all := []*client{creator}
		var stop int32
		var wg sync.WaitGroup
		for i := 0; i < joiners; i++ {
			c := newClient()
			all = append(all, c)
			wg.Add(1)
			go func() {
				defer wg.Done()
				// keep asking for the session until it is there
				for i := uint32(1); atomic.LoadInt32(&stop) == 0; i++ {
					if h4send(c.conn, &hagallpb.ParticipantJoinRequest{Type: hagallpb.MsgType_MSG_TYPE_PARTICIPANT_JOIN_REQUEST, Timestamp: timestamppb.Now(), RequestId: i, SessionId: sid}) != nil {
						return
					}
					select {
					case s := <-c.joined:
						c.joined <- s
						return
					default:
					}
				}
			}()
		}
		time.Sleep(2 * time.Millisecond)
		h4send(creator.conn, &hagallpb.ParticipantJoinRequest{Type: hagallpb.MsgType_MSG_TYPE_PARTICIPANT_JOIN_REQUEST, Timestamp: timestamppb.Now(), RequestId: 1})
		wg.Wait()
		atomic.StoreInt32(&stop, 1)
		for i, c := range all {
			select {
			case s := <-c.joined:
				if s != sid {
					t.Fatalf("client %d joined %q", i, s)
				}
			case <-time.After(20 * time.Second):
				t.Fatalf("client %d never joined", i)
			}
		}
		// every participant stores one plane of its own, and waits until the server has handled it
		for i, c := range all {
			h4send(c.conn, &dagazpb.DagazQuadSample{Type: dagazpb.MsgType_MSG_TYPE_DAGAZ_QUAD_SAMPLE, Timestamp: timestamppb.Now(),
				Samples: []*dagazpb.Quad{{Center: &dagazpb.Point{X: float32(4*i) + 1, Y: 0, Z: 1}, Extents: &dagazpb.Point{X: 0.5, Y: 0, Z: 0.5}}}})
			h4send(c.conn, &dagazpb.DagazGetDebugInfoRequest{Type: dagazpb.MsgType_MSG_TYPE_DAGAZ_GET_DEBUG_INFO_REQUEST, Timestamp: timestamppb.Now(), RequestId: 7})
			select {
			case <-c.debug:
			case <-time.After(20 * time.Second):
				t.Fatalf("client %d: no debug info", i)
			}
		}
		for i, c := range all {
			h4send(c.conn, &dagazpb.DagazGetRegionRequest{Type: dagazpb.MsgType_MSG_TYPE_DAGAZ_GET_REGION_REQUEST, Timestamp: timestamppb.Now(), RequestId: 9,
				Min: &dagazpb.Point{X: -100, Y: -100, Z: -100}, Max: &dagazpb.Point{X: 100, Y: 100, Z: 100}})
			select {
			case n := <-c.regions:
				if n != len(all) {
					t.Errorf("attempt %d: %d participants of session %s stored one ground plane each; the region covering everything returns %d planes to participant %d", attempts, len(all), sid, n, i)
				}
			case <-time.After(20 * time.Second):
				t.Fatalf("client %d: no region response", i)
			}
		}
		for _, c := range all {
			c.conn.Close()
		}
	}
	t.Logf("attempts %d", attempts)
}
