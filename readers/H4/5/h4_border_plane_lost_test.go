// intended path: modules/dagaz/h4_border_plane_lost_test.go
package dagaz

import "testing"

// A small plane (2 micrometres wide: extents 1e-6 m, four orders of magnitude above the 1e-10 m
// where the normal degenerates) that lies just below the grid's high border, in a grid whose low
// border is at -64: both of its edges are computed into the cell one past the last (the float32
// subtraction 1.999997 - (-64) rounds up to 66.0).  InsertQuad clamps the far cell to the last
// column but not the near cell, so its append loop runs from column 33 to column 32: the plane is
// counted and registered nowhere.
func TestH4PlaneUnderTheHighBorderIsRegisteredNowhere(t *testing.T) {
	g := NewRegularGrid(1, 1, 2)
	g.InsertQuad(Quad{Center: Vector3f{-63, 0, 1}, Extents: Vector3f{0.5, 0, 0.5}, Normal: Vector3f{0, 1, 0}})
	if g.Min.x != -64 || g.Max.x != 2 {
		t.Fatalf("test premise: grid x in [%v, %v)", g.Min.x, g.Max.x)
	}

	small := Quad{Center: Vector3f{1.999998, 3, 1}, Extents: Vector3f{1e-6, 0, 0.5}, Normal: Vector3f{0, 1, 0}}
	g.InsertQuad(small)
	if g.Max.x != 2 {
		t.Fatalf("test premise: the plane is inside the grid, the grid does not grow; grid x in [%v, %v)", g.Min.x, g.Max.x)
	}
	if g.PlaneCount != 2 {
		t.Fatalf("test premise: two planes stored, got %d", g.PlaneCount)
	}

	stored := map[*Quad]bool{}
	for row := range g.Grid {
		for col := range g.Grid[row] {
			for _, q := range g.Grid[row][col] {
				stored[q] = true
			}
		}
	}
	if len(stored) != int(g.PlaneCount) {
		t.Errorf("plane count %d, distinct planes registered in the cells: %d", g.PlaneCount, len(stored))
	}
	if region := g.GetRegion(Vector3f{-100, 0, -100}, Vector3f{100, 0, 100}); len(region) != 2 {
		t.Errorf("the region covering the grid returns %d of the 2 stored planes", len(region))
	}
	ray := Ray{From: Vector3f{small.Center.x, small.Center.y + 1, small.Center.z}, To: Vector3f{small.Center.x, small.Center.y - 1, small.Center.z}}
	if hit, _ := g.IntersectQuad(ray); hit == nil {
		t.Errorf("the vertical ray through the centre of the stored plane %v hits nothing", small.Center)
	}
}
