// intended path: cmd/shutdown_e2e_test.go   (needs cmd/e2e_harness_test.go)
package main

import (
	"net"
	"syscall"
	"testing"
	"time"

	"github.com/aukilabs/hagall-common/messages/hagallpb"
	hwebsocket "github.com/aukilabs/hagall-common/websocket"
	"golang.org/x/net/websocket"
	"google.golang.org/protobuf/types/known/timestamppb"
)

func dialRelay(t *testing.T, e *e2e) *websocket.Conn {
	cfg, err := websocket.NewConfig("ws://"+e.addr+"/", "http://"+e.addr)
	if err != nil {
		t.Fatal(err)
	}
	cfg.Header.Set("Authorization", "Bearer "+e.token())
	c, err := websocket.DialConfig(cfg)
	if err != nil {
		t.Fatal(err)
	}
	return c
}

func sendProto(t *testing.T, c *websocket.Conn, m hwebsocket.ProtoMsg) {
	msg, err := hwebsocket.MsgFromProto(m)
	if err != nil {
		t.Fatal(err)
	}
	if _, err := hwebsocket.Send(c, msg); err != nil {
		t.Fatal(err)
	}
}

// waitFor reads until a message of the given type arrives; it reports the
// error that ended the reading otherwise.
func waitFor(c *websocket.Conn, typ hagallpb.MsgType, d time.Duration) error {
	c.SetReadDeadline(time.Now().Add(d))
	for {
		m, _, err := hwebsocket.Receive(c)
		if err != nil {
			return err
		}
		if m.Type == typ {
			return nil
		}
	}
}

// One unauthenticated client that has sent the head of a request and holds back
// its body keeps the process from stopping on SIGTERM for as long as it likes;
// meanwhile every relay connection has left its loop without being
// disconnected: it stays open, in its session and in the gauge, gets no sync
// clock any more, and its requests are read and dropped without an answer.
func TestShutdownIsHeldByOneStalledRequest(t *testing.T) {
	e := startE2E(t)

	stalled, err := net.Dial("tcp", e.addr)
	if err != nil {
		t.Fatal(err)
	}
	defer stalled.Close()
	// no token, any route that is not hijacked: the 10 announced bytes never come
	stalled.Write([]byte("POST /version HTTP/1.1\r\nHost: x\r\nContent-Length: 10\r\n\r\n"))
	time.Sleep(300 * time.Millisecond)

	ws := dialRelay(t, e)
	defer ws.Close()
	sendProto(t, ws, &hagallpb.ParticipantJoinRequest{
		Type:      hagallpb.MsgType_MSG_TYPE_PARTICIPANT_JOIN_REQUEST,
		Timestamp: timestamppb.Now(),
		RequestId: 1,
	})
	if err := waitFor(ws, hagallpb.MsgType_MSG_TYPE_PARTICIPANT_JOIN_RESPONSE, 10*time.Second); err != nil {
		t.Fatal(err)
	}

	start := time.Now()
	e.cmd.Process.Signal(syscall.SIGTERM)

	select {
	case <-e.exited:
		t.Logf("the server exited %v after SIGTERM", time.Since(start))
		return
	case <-time.After(15 * time.Second):
		t.Errorf("the server is still running 15s after SIGTERM (a request whose body never comes is open on %s)", e.addr)
	}

	// what has become of the participant meanwhile: its connection is neither
	// served (no sync clock, requests dropped) nor run through the disconnection
	// (it stays in its session and in the gauge); the connection is only closed,
	// without more, once the client sends something.
	sendProto(t, ws, &hagallpb.Request{
		Type:      hagallpb.MsgType_MSG_TYPE_PING_REQUEST,
		Timestamp: timestamppb.Now(),
		RequestId: 9,
	})
	if err := waitFor(ws, hagallpb.MsgType_MSG_TYPE_PING_RESPONSE, 8*time.Second); err != nil {
		t.Logf("the joined participant's ping request (id 9), sent 15s after SIGTERM, was not answered: %.160s", err.Error())
	}
	t.Logf("connected-clients gauge while the shutdown hangs: %s", e.metric("ws_connected_clients"))

	stalled.Close()
	select {
	case <-e.exited:
		t.Logf("the server exited %v after SIGTERM, as soon as the stalled request was closed", time.Since(start))
	case <-time.After(10 * time.Second):
		t.Errorf("still running 10s after the stalled request was closed")
	}
}
