// intended path: cmd/smoketest_stall_e2e_test.go   (needs cmd/e2e_harness_test.go)
package main

import (
	"bytes"
	"encoding/json"
	"net"
	"net/http"
	"strings"
	"testing"
	"time"
)

// Any holder of a user access token can POST /smoke-test. With a target that
// accepts the connection and never answers the WebSocket handshake, every such
// POST leaves two goroutines (and a socket) in the server for ever, whatever
// timeout the trigger asks for, and no result is ever reported.
func TestSmokeTestStallingTargetLeaksGoroutines(t *testing.T) {
	e := startE2E(t)

	l, err := net.Listen("tcp", "127.0.0.1:0")
	if err != nil {
		t.Fatal(err)
	}
	defer l.Close()
	release := make(chan struct{})
	defer close(release)
	go func() {
		for {
			c, err := l.Accept()
			if err != nil {
				return
			}
			go func() { <-release; c.Close() }()
		}
	}()

	time.Sleep(300 * time.Millisecond)
	base := e.goroutineCount()

	const n = 5
	const timeout = 500 * time.Millisecond
	for i := 0; i < n; i++ {
		body, _ := json.Marshal(map[string]any{
			"endpoint":              "http://" + l.Addr().String(),
			"token":                 "whatever",
			"max_session_id_length": 64,
			"timeout":               int64(timeout),
		})
		req, _ := http.NewRequest("POST", "http://"+e.addr+"/smoke-test", bytes.NewReader(body))
		req.Header.Set("Authorization", "Bearer "+e.token())
		res, err := http.DefaultClient.Do(req)
		if err != nil {
			t.Fatal(err)
		}
		res.Body.Close()
		if res.StatusCode != 200 {
			t.Fatalf("trigger answered %d", res.StatusCode)
		}
	}

	// 20 times the timeout the triggers asked for
	time.Sleep(20 * timeout)

	e.mu.Lock()
	results := len(e.results)
	e.mu.Unlock()
	after := e.goroutineCount()
	t.Logf("goroutines before %d, after %d smoke tests (timeout %v) and a wait of %v: %d; results reported to the discovery service: %d",
		base, n, timeout, 20*timeout, after, results)
	if results != n {
		t.Errorf("%d smoke tests triggered, %d results reported", n, results)
	}
	if after > base+2 {
		stuck := 0
		for _, g := range strings.Split(e.goroutines(), "\n\n") {
			if strings.Contains(g, "RunSmokeTest") {
				t.Logf("%s", g)
				stuck++
			}
		}
		t.Errorf("%d goroutines more than before the smoke tests", after-base)
	}
}
