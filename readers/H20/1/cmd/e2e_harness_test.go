// intended path: cmd/e2e_harness_test.go
//
// End-to-end harness: the test binary re-executes itself as the real server
// (main() of cmd/main.go, configured through its environment variables) against a
// fake discovery service that registers it and hands it a secret.
package main

import (
	"bufio"
	"bytes"
	"encoding/json"
	"fmt"
	"io"
	"net"
	"net/http"
	"net/http/httptest"
	"os"
	"os/exec"
	"strings"
	"sync"
	"syscall"
	"testing"
	"time"

	httpcmn "github.com/aukilabs/hagall-common/http"
)

func TestMain(m *testing.M) {
	if os.Getenv("HAGALL_E2E_CHILD") == "1" {
		os.Args = os.Args[:1]
		main()
		os.Exit(0)
	}
	os.Exit(m.Run())
}

type e2e struct {
	t         *testing.T
	addr      string
	adminAddr string
	secret    string
	hds       *httptest.Server
	cmd       *exec.Cmd
	out       *lockedBuffer
	exited    chan struct{}

	mu      sync.Mutex
	results []string
	registrations int
}

type lockedBuffer struct {
	mu sync.Mutex
	b  bytes.Buffer
}

func (l *lockedBuffer) Write(p []byte) (int, error) {
	l.mu.Lock()
	defer l.mu.Unlock()
	return l.b.Write(p)
}
func (l *lockedBuffer) String() string {
	l.mu.Lock()
	defer l.mu.Unlock()
	return l.b.String()
}

func freeAddr(t *testing.T) string {
	l, err := net.Listen("tcp", "127.0.0.1:0")
	if err != nil {
		t.Fatal(err)
	}
	defer l.Close()
	return l.Addr().String()
}

func startE2E(t *testing.T) *e2e {
	e := &e2e{t: t, secret: "s3cr3t-" + fmt.Sprint(time.Now().UnixNano()), out: &lockedBuffer{}, exited: make(chan struct{})}
	e.addr = freeAddr(t)
	e.adminAddr = freeAddr(t)

	mux := http.NewServeMux()
	mux.HandleFunc("/servers", func(w http.ResponseWriter, r *http.Request) {
		if r.Method == http.MethodDelete {
			w.WriteHeader(200)
			return
		}
		var in struct {
			State string `json:"state"`
		}
		b, _ := io.ReadAll(r.Body)
		json.Unmarshal(b, &in)
		e.mu.Lock()
		e.registrations++
		if os.Getenv("E2E_ROTATE") != "" {
			e.secret = fmt.Sprintf("rotated-secret-%d", e.registrations)
		}
		secret := e.secret
		delay := 50 * time.Millisecond
		if e.registrations > 1 && os.Getenv("E2E_ROTATE") != "" {
			delay = 1500 * time.Millisecond
		}
		e.mu.Unlock()
		go func() {
			time.Sleep(delay)
			req, _ := http.NewRequest("POST", "http://"+e.addr+"/registrations", nil)
			req.Header.Set(httpcmn.HeaderHagallRegistrationStateKey, in.State)
			req.Header.Set(httpcmn.HeaderHagallIDKey, "srv1")
			req.Header.Set(httpcmn.HeaderHagallJWTSecretHeaderKey, secret)
			for i := 0; i < 50; i++ {
				res, err := http.DefaultClient.Do(req)
				if err == nil {
					res.Body.Close()
					return
				}
				time.Sleep(100 * time.Millisecond)
			}
		}()
		w.WriteHeader(200)
	})
	mux.HandleFunc("/smoke-test-results", func(w http.ResponseWriter, r *http.Request) {
		b, _ := io.ReadAll(r.Body)
		e.mu.Lock()
		e.results = append(e.results, string(b))
		e.mu.Unlock()
		w.WriteHeader(200)
	})
	mux.HandleFunc("/", func(w http.ResponseWriter, r *http.Request) {
		io.Copy(io.Discard, r.Body)
		w.WriteHeader(200)
	})
	e.hds = httptest.NewServer(mux)

	e.cmd = exec.Command(os.Args[0])
	e.cmd.Env = append(os.Environ(),
		"HAGALL_E2E_CHILD=1",
		"HAGALL_ADDR="+e.addr,
		"HAGALL_ADMIN_ADDR="+e.adminAddr,
		"HAGALL_PUBLIC_ENDPOINT=http://"+e.addr,
		"HAGALL_PRIVATE_KEY=4c0883a69102937d6231471b5dbb6204fe5129617082792ae468d01a3f362318",
		"HAGALL_HDS_ENDPOINT="+e.hds.URL,
		"HAGALL_EVENTS_ENDPOINT="+e.hds.URL+"/events",
		"HAGALL_NCS_ENDPOINT="+e.hds.URL+"/ncs",
		"HAGALL_LOG_LEVEL=debug",
		"HAGALL_CLOCK_CHECKER_INITIAL_DELAY=1h",
		"HAGALL_CLIENT_IDLE_TIMEOUT="+envOr("E2E_IDLE", "5m"),
		"HAGALL_HDS_HEALTHCHECK_TTL="+envOr("E2E_TTL", "2m"),
		"HAGALL_HDS_REGISTRATION_INTERVAL="+envOr("E2E_REGINT", "15s"),
	)
	e.cmd.Stdout = e.out
	e.cmd.Stderr = e.out
	if err := e.cmd.Start(); err != nil {
		t.Fatal(err)
	}
	go func() {
		e.cmd.Wait()
		close(e.exited)
	}()
	t.Cleanup(func() {
		select {
		case <-e.exited:
		default:
			e.cmd.Process.Kill()
			<-e.exited
		}
		e.hds.Close()
		if t.Failed() || os.Getenv("E2E_LOG") != "" {
			t.Logf("server output:\n%s", tail(e.out.String(), 6000))
		}
	})

	deadline := time.Now().Add(30 * time.Second)
	for time.Now().Before(deadline) {
		res, err := http.Get("http://" + e.addr + "/ready")
		if err == nil {
			res.Body.Close()
			if res.StatusCode == 200 {
				return e
			}
		}
		select {
		case <-e.exited:
			t.Fatalf("server exited early:\n%s", e.out.String())
		default:
		}
		time.Sleep(100 * time.Millisecond)
	}
	t.Fatalf("server never ready:\n%s", e.out.String())
	return nil
}

func envOr(k, d string) string {
	if v := os.Getenv(k); v != "" {
		return v
	}
	return d
}

func tail(s string, n int) string {
	if len(s) > n {
		return s[len(s)-n:]
	}
	return s
}

func (e *e2e) token() string {
	e.mu.Lock()
	secret := e.secret
	e.mu.Unlock()
	tok, err := httpcmn.GenerateHagallUserAccessToken("appkey", secret, time.Hour)
	if err != nil {
		e.t.Fatal(err)
	}
	return tok
}

func (e *e2e) alive() bool {
	select {
	case <-e.exited:
		return false
	default:
		return true
	}
}

func (e *e2e) goroutines() string {
	res, err := http.Get("http://" + e.adminAddr + "/debug/pprof/goroutine?debug=1")
	if err != nil {
		return "ERR " + err.Error()
	}
	defer res.Body.Close()
	b, _ := io.ReadAll(res.Body)
	return string(b)
}

func (e *e2e) goroutineCount() int {
	s := e.goroutines()
	var n int
	fmt.Sscanf(s, "goroutine profile: total %d", &n)
	return n
}

func (e *e2e) metric(name string) string {
	res, err := http.Get("http://" + e.adminAddr + "/metrics")
	if err != nil {
		return "ERR " + err.Error()
	}
	defer res.Body.Close()
	var out []string
	sc := bufio.NewScanner(res.Body)
	sc.Buffer(make([]byte, 1<<20), 1<<20)
	for sc.Scan() {
		if strings.HasPrefix(sc.Text(), name) {
			out = append(out, sc.Text())
		}
	}
	return strings.Join(out, "\n")
}

// raw sends the raw bytes and returns everything the server answers until it
// closes the connection or the timeout elapses.
func (e *e2e) raw(req string, timeout time.Duration) string {
	c, err := net.Dial("tcp", e.addr)
	if err != nil {
		return "DIALERR " + err.Error()
	}
	defer c.Close()
	c.Write([]byte(req))
	c.SetReadDeadline(time.Now().Add(timeout))
	b, _ := io.ReadAll(c)
	return string(b)
}

func (e *e2e) stop() time.Duration {
	start := time.Now()
	e.cmd.Process.Signal(syscall.SIGTERM)
	select {
	case <-e.exited:
	case <-time.After(30 * time.Second):
		e.t.Errorf("server did not exit within 30s of SIGTERM")
	}
	return time.Since(start)
}
