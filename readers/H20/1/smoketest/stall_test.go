// intended path: smoketest/stall_test.go
package smoketest

import (
	"bytes"
	"context"
	"encoding/json"
	"net"
	"net/http"
	"net/http/httptest"
	"runtime"
	"strings"
	"testing"
	"time"

	hsmoketest "github.com/aukilabs/hagall-common/smoketest"
)

// A smoke test target that accepts the TCP connection and then says nothing
// (never answers the WebSocket handshake) must not hold the smoke test for
// longer than the timeout its trigger asks for: the run ends, its goroutines
// end, and a result (failed / timeout) is reported.
func TestSmokeTestTargetStallsBeforeHandshake(t *testing.T) {
	l, err := net.Listen("tcp", "127.0.0.1:0")
	if err != nil {
		t.Fatal(err)
	}
	defer l.Close()

	release := make(chan struct{})
	defer close(release)
	go func() {
		for {
			c, err := l.Accept()
			if err != nil {
				return
			}
			go func(c net.Conn) {
				// reads the handshake request, answers nothing
				go func() {
					buf := make([]byte, 4096)
					for {
						if _, err := c.Read(buf); err != nil {
							return
						}
					}
				}()
				<-release
				c.Close()
			}(c)
		}
	}()

	ctx, cancel := context.WithCancel(context.Background())
	defer cancel()

	done := make(chan struct{}) // closed when the goroutine of the run has returned
	runCtx := context.WithValue(ctx, testCtxKeyValue, testContext{
		Context: ctx,
		Cancel:  func() { close(done) },
	})

	results := make(chan hsmoketest.SmokeTestResults, 1)
	handler := HandleSmokeTest(runCtx, Options{
		Endpoint: "http://localhagall",
		MakeHagallServerToken: func(string, string, time.Duration) (string, error) {
			return "", nil
		},
		SendResult: func(_ context.Context, res hsmoketest.SmokeTestResults) error {
			results <- res
			return nil
		},
	})

	const timeout = 300 * time.Millisecond
	body, _ := json.Marshal(hsmoketest.SmokeTestRequest{
		Endpoint:           "http://" + l.Addr().String(),
		MaxSessionIDLength: 11,
		Timeout:            timeout,
	})

	rec := httptest.NewRecorder()
	handler.ServeHTTP(rec, httptest.NewRequest(http.MethodPost, "http://localhagall/smoke-test", bytes.NewReader(body)))
	if rec.Code != http.StatusOK {
		t.Fatalf("trigger answered %d", rec.Code)
	}

	// generous: 20 times the timeout of the request, and then some
	const patience = 20*timeout + 4*time.Second
	select {
	case res := <-results:
		if res.Status == hsmoketest.StatusSuccess {
			t.Fatalf("a target that never answered passed the smoke test: %+v", res)
		}
		t.Logf("result reported: %+v", res)
	case <-time.After(patience):
		t.Errorf("no smoke test result %v after a trigger with timeout %v: the run is still waiting for the handshake answer of the target", patience, timeout)
	}

	select {
	case <-done:
	case <-time.After(time.Second):
		buf := make([]byte, 1<<20)
		buf = buf[:runtime.Stack(buf, true)]
		var stuck []string
		for _, g := range strings.Split(string(buf), "\n\n") {
			if strings.Contains(g, "RunSmokeTest") || strings.Contains(g, "hybiClientHandshake") {
				stuck = append(stuck, g)
			}
		}
		t.Errorf("the goroutine of the smoke test run has not returned; even cancelling the server context does not end it.\n%s", strings.Join(stuck, "\n\n"))
		cancel()
		select {
		case <-done:
			t.Log("(it ended once the server context was cancelled)")
		case <-time.After(2 * time.Second):
			t.Log("(still there 2s after the server context was cancelled)")
		}
	}
}
