// websocket/h21_joiner_state_test.go  (needs websocket/h21_harness_test.go)
package websocket

import (
	"sync"
	"testing"
	"time"

	"github.com/aukilabs/hagall-common/messages/hagallpb"
)

func h21JoinerState(t *testing.T, viaDelete bool) {
	store := h21NewStore()
	keeper := h21NewPeer(store)
	sid := keeper.join(t, "")
	typeID := keeper.addType(t, "T")

	deadline := time.Now().Add(90 * time.Second)
	bad := 0
	trials := 0
	for time.Now().Before(deadline) && bad == 0 {
		trials++
		owner := h21NewPeer(store)
		owner.join(t, sid)
		const nEnt = 64
		ents := make([]uint32, nEnt)
		for i := range ents {
			ents[i] = owner.addEntity(t, false)
			if !owner.addComponent(t, typeID, ents[i], []byte("x")) {
				t.Fatal("add refused")
			}
		}

		joiner := h21NewPeer(store)
		var wg sync.WaitGroup
		start := make(chan struct{})
		wg.Add(2)
		go func() {
			defer wg.Done()
			<-start
			if viaDelete {
				for _, e := range ents {
					owner.deleteEntity(t, e)
				}
			}
			owner.leave()
		}()
		go func() {
			defer wg.Done()
			<-start
			joiner.join(t, sid)
		}()
		close(start)
		wg.Wait()

		st := h21SessionState(t, joiner)
		have := map[uint32]bool{}
		for _, e := range st.Entities {
			have[e.Id] = true
		}
		for _, c := range st.EntityComponents {
			if !have[c.EntityId] {
				bad++
				told := 0
				for _, m := range joiner.snapshot() {
					if m.Type == hagallpb.MsgType_MSG_TYPE_ENTITY_DELETE_BROADCAST {
						var b hagallpb.EntityDeleteBroadcast
						if m.DataTo(&b) == nil && b.EntityId == c.EntityId {
							told++
						}
					}
				}
				t.Errorf("trial %d: the state handed to the joiner holds a component (type %d) of entity %d, which is not among the %d entities of that state (deletion of that entity relayed to the joiner afterwards: %d times)",
					trials, c.EntityComponentTypeId, c.EntityId, len(st.Entities), told)
				break
			}
		}
		joiner.leave()
		keeper.take()
	}
	t.Logf("trials: %d", trials)
}

func TestH21JoinerStateComponentOfDeletedEntity(t *testing.T) { h21JoinerState(t, true) }
func TestH21JoinerStateComponentOfLeaversEntity(t *testing.T) { h21JoinerState(t, false) }

