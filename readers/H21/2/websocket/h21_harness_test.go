// websocket/h21_harness_test.go
// Helpers of the H21 tests: real RealtimeHandlers driven directly, one per
// connection, each with a recording responder.
package websocket

import (
	"context"
	"sync"
	"testing"
	"time"

	"github.com/aukilabs/hagall-common/messages/hagallpb"
	hwebsocket "github.com/aukilabs/hagall-common/websocket"
	"github.com/aukilabs/hagall/models"
	"github.com/aukilabs/hagall/modules"
	"google.golang.org/protobuf/types/known/timestamppb"
)

// h21Peer is one connection: a real RealtimeHandler driven directly, with a
// recording responder.
type h21Peer struct {
	h *RealtimeHandler

	mu   sync.Mutex
	msgs []hwebsocket.Msg
}

func (p *h21Peer) Send(m hwebsocket.ProtoMsg) {
	msg, err := hwebsocket.MsgFromProto(m)
	if err != nil {
		panic(err)
	}
	p.SendMsg(msg)
}

func (p *h21Peer) SendMsg(m hwebsocket.Msg) {
	p.mu.Lock()
	p.msgs = append(p.msgs, m)
	p.mu.Unlock()
}

func (p *h21Peer) take() []hwebsocket.Msg {
	p.mu.Lock()
	defer p.mu.Unlock()
	out := p.msgs
	p.msgs = nil
	return out
}

func (p *h21Peer) snapshot() []hwebsocket.Msg {
	p.mu.Lock()
	defer p.mu.Unlock()
	out := make([]hwebsocket.Msg, len(p.msgs))
	copy(out, p.msgs)
	return out
}

func h21NewStore() *models.SessionStore {
	return &models.SessionStore{DiscoveryService: &testClient{}}
}

func h21NewPeer(store *models.SessionStore, mods ...modules.Module) *h21Peer {
	p := &h21Peer{}
	p.h = &RealtimeHandler{
		ClientSyncClockInterval: time.Second,
		ClientIdleTimeout:       time.Minute,
		FrameDuration:           time.Hour,
		Sessions:                store,
		Modules:                 mods,
	}
	return p
}

func h21Msg(t testing.TB, m hwebsocket.ProtoMsg) hwebsocket.Msg {
	msg, err := hwebsocket.MsgFromProto(m)
	if err != nil {
		t.Fatal(err)
	}
	return msg
}

func (p *h21Peer) join(t testing.TB, sessionID string) string {
	err := p.h.HandleParticipantJoin(context.Background(), func() {}, p, h21Msg(t, &hagallpb.ParticipantJoinRequest{
		Type:      hagallpb.MsgType_MSG_TYPE_PARTICIPANT_JOIN_REQUEST,
		Timestamp: timestamppb.Now(),
		SessionId: sessionID,
		RequestId: 1,
	}))
	if err != nil {
		t.Fatal(err)
	}
	if p.h.currentSession == nil {
		return ""
	}
	return p.h.Sessions.GlobalSessionID(p.h.currentSession.ID)
}

func (p *h21Peer) addEntity(t testing.TB, persist bool) uint32 {
	before := len(p.snapshot())
	err := p.h.HandleEntityAdd(context.Background(), p, h21Msg(t, &hagallpb.EntityAddRequest{
		Type:      hagallpb.MsgType_MSG_TYPE_ENTITY_ADD_REQUEST,
		Timestamp: timestamppb.Now(),
		RequestId: 2,
		Persist:   persist,
	}))
	if err != nil {
		t.Fatal(err)
	}
	for _, m := range p.snapshot()[before:] {
		if m.Type == hagallpb.MsgType_MSG_TYPE_ENTITY_ADD_RESPONSE {
			var r hagallpb.EntityAddResponse
			if err := m.DataTo(&r); err != nil {
				t.Fatal(err)
			}
			return r.EntityId
		}
	}
	t.Fatal("no entity add response")
	return 0
}

func (p *h21Peer) deleteEntity(t testing.TB, id uint32) {
	if err := p.h.HandleEntityDelete(context.Background(), p, h21Msg(t, &hagallpb.EntityDeleteRequest{
		Type:      hagallpb.MsgType_MSG_TYPE_ENTITY_DELETE_REQUEST,
		Timestamp: timestamppb.Now(),
		RequestId: 3,
		EntityId:  id,
	})); err != nil {
		t.Fatal(err)
	}
}

func (p *h21Peer) addType(t testing.TB, name string) uint32 {
	before := len(p.snapshot())
	if err := p.h.HandleEntityComponentTypeAdd(context.Background(), p, h21Msg(t, &hagallpb.EntityComponentTypeAddRequest{
		Type:                    hagallpb.MsgType_MSG_TYPE_ENTITY_COMPONENT_TYPE_ADD_REQUEST,
		Timestamp:               timestamppb.Now(),
		RequestId:               4,
		EntityComponentTypeName: name,
	})); err != nil {
		t.Fatal(err)
	}
	for _, m := range p.snapshot()[before:] {
		if m.Type == hagallpb.MsgType_MSG_TYPE_ENTITY_COMPONENT_TYPE_ADD_RESPONSE {
			var r hagallpb.EntityComponentTypeAddResponse
			if err := m.DataTo(&r); err != nil {
				t.Fatal(err)
			}
			return r.EntityComponentTypeId
		}
	}
	t.Fatal("no type add response")
	return 0
}

// addComponent returns true when the request was accepted.
func (p *h21Peer) addComponent(t testing.TB, typeID, entityID uint32, data []byte) bool {
	before := len(p.snapshot())
	if err := p.h.HandleEntityComponentAdd(context.Background(), p, h21Msg(t, &hagallpb.EntityComponentAddRequest{
		Type:                  hagallpb.MsgType_MSG_TYPE_ENTITY_COMPONENT_ADD_REQUEST,
		Timestamp:             timestamppb.Now(),
		RequestId:             5,
		EntityComponentTypeId: typeID,
		EntityId:              entityID,
		Data:                  data,
	})); err != nil {
		t.Fatal(err)
	}
	for _, m := range p.snapshot()[before:] {
		if m.Type == hagallpb.MsgType_MSG_TYPE_ENTITY_COMPONENT_ADD_RESPONSE {
			return true
		}
		if m.Type == hagallpb.MsgType_MSG_TYPE_ERROR_RESPONSE {
			var r hagallpb.ErrorResponse
			if m.DataTo(&r) == nil && r.RequestId == 5 {
				return false
			}
		}
	}
	t.Fatal("no component add answer")
	return false
}

func (p *h21Peer) deleteComponent(t testing.TB, typeID, entityID uint32) bool {
	before := len(p.snapshot())
	if err := p.h.HandleEntityComponentDelete(context.Background(), p, h21Msg(t, &hagallpb.EntityComponentDeleteRequest{
		Type:                  hagallpb.MsgType_MSG_TYPE_ENTITY_COMPONENT_DELETE_REQUEST,
		Timestamp:             timestamppb.Now(),
		RequestId:             6,
		EntityComponentTypeId: typeID,
		EntityId:              entityID,
	})); err != nil {
		t.Fatal(err)
	}
	for _, m := range p.snapshot()[before:] {
		if m.Type == hagallpb.MsgType_MSG_TYPE_ENTITY_COMPONENT_DELETE_RESPONSE {
			return true
		}
		if m.Type == hagallpb.MsgType_MSG_TYPE_ERROR_RESPONSE {
			var r hagallpb.ErrorResponse
			if m.DataTo(&r) == nil && r.RequestId == 6 {
				return false
			}
		}
	}
	t.Fatal("no component delete answer")
	return false
}

func (p *h21Peer) updateComponent(t testing.TB, typeID, entityID uint32, data []byte) {
	if err := p.h.HandleEntityComponentUpdate(context.Background(), h21Msg(t, &hagallpb.EntityComponentUpdate{
		Type:                  hagallpb.MsgType_MSG_TYPE_ENTITY_COMPONENT_UPDATE,
		Timestamp:             timestamppb.Now(),
		EntityComponentTypeId: typeID,
		EntityId:              entityID,
		Data:                  data,
	})); err != nil {
		t.Fatal(err)
	}
}

func (p *h21Peer) subscribe(t testing.TB, typeID uint32) bool {
	before := len(p.snapshot())
	if err := p.h.HandleEntityComponentSubscribe(context.Background(), p, h21Msg(t, &hagallpb.EntityComponentTypeSubscribeRequest{
		Type:                  hagallpb.MsgType_MSG_TYPE_ENTITY_COMPONENT_TYPE_SUBSCRIBE_REQUEST,
		Timestamp:             timestamppb.Now(),
		RequestId:             7,
		EntityComponentTypeId: typeID,
	})); err != nil {
		t.Fatal(err)
	}
	for _, m := range p.snapshot()[before:] {
		if m.Type == hagallpb.MsgType_MSG_TYPE_ENTITY_COMPONENT_TYPE_SUBSCRIBE_RESPONSE {
			return true
		}
		if m.Type == hagallpb.MsgType_MSG_TYPE_ERROR_RESPONSE {
			var r hagallpb.ErrorResponse
			if m.DataTo(&r) == nil && r.RequestId == 7 {
				return false
			}
		}
	}
	t.Fatal("no subscribe answer")
	return false
}

func (p *h21Peer) unsubscribe(t testing.TB, typeID uint32) {
	if err := p.h.HandleEntityComponentUnsubscribe(context.Background(), p, h21Msg(t, &hagallpb.EntityComponentTypeUnsubscribeRequest{
		Type:                  hagallpb.MsgType_MSG_TYPE_ENTITY_COMPONENT_TYPE_UNSUBSCRIBE_REQUEST,
		Timestamp:             timestamppb.Now(),
		RequestId:             8,
		EntityComponentTypeId: typeID,
	})); err != nil {
		t.Fatal(err)
	}
}

func (p *h21Peer) list(t testing.TB, typeID uint32) []*hagallpb.EntityComponent {
	before := len(p.snapshot())
	if err := p.h.HandleEntityComponentList(context.Background(), p, h21Msg(t, &hagallpb.EntityComponentListRequest{
		Type:                  hagallpb.MsgType_MSG_TYPE_ENTITY_COMPONENT_LIST_REQUEST,
		Timestamp:             timestamppb.Now(),
		RequestId:             9,
		EntityComponentTypeId: typeID,
	})); err != nil {
		t.Fatal(err)
	}
	for _, m := range p.snapshot()[before:] {
		if m.Type == hagallpb.MsgType_MSG_TYPE_ENTITY_COMPONENT_LIST_RESPONSE {
			var r hagallpb.EntityComponentListResponse
			if err := m.DataTo(&r); err != nil {
				t.Fatal(err)
			}
			return r.EntityComponents
		}
	}
	t.Fatal("no list answer")
	return nil
}

func (p *h21Peer) leave() {
	p.h.HandleDisconnect(nil)
}

func h21SessionState(t testing.TB, p *h21Peer) *hagallpb.SessionState {
	for _, m := range p.snapshot() {
		if m.Type == hagallpb.MsgType_MSG_TYPE_SESSION_STATE {
			var s hagallpb.SessionState
			if err := m.DataTo(&s); err != nil {
				t.Fatal(err)
			}
			return &s
		}
	}
	t.Fatal("no session state")
	return nil
}

