// websocket/h21_refused_add_test.go  (needs websocket/h21_harness_test.go)
package websocket

import (
	"sync"
	"sync/atomic"
	"testing"
	"time"

	"github.com/aukilabs/hagall-common/messages/hagallpb"
)

// A component add that is refused (its entity is being deleted) must never be
// seen by anyone: not in a list, not in the state handed to a joiner.
func TestH21RefusedAddSeen(t *testing.T) {
	store := h21NewStore()
	keeper := h21NewPeer(store)
	sid := keeper.join(t, "")
	typeID := keeper.addType(t, "T")
	adder := h21NewPeer(store)
	adder.join(t, sid)
	owner := h21NewPeer(store)
	owner.join(t, sid)

	deadline := time.Now().Add(90 * time.Second)
	trials := 0
	refusedTotal := 0
	for time.Now().Before(deadline) && !t.Failed() {
		trials++
		e := owner.addEntity(t, false)

		lister := h21NewPeer(store)
		lister.join(t, sid)

		var wg sync.WaitGroup
		start := make(chan struct{})
		var stop atomic.Bool
		var accepted bool
		var seen atomic.Bool
		wg.Add(2)
		go func() {
			defer wg.Done()
			<-start
			owner.deleteEntity(t, e)
		}()
		go func() {
			defer wg.Done()
			<-start
			accepted = adder.addComponent(t, typeID, e, []byte("x"))
		}()
		done := make(chan struct{})
		go func() {
			defer close(done)
			<-start
			for !stop.Load() {
				for _, c := range lister.list(t, typeID) {
					if c.EntityId == e {
						seen.Store(true)
					}
				}
				lister.take()
			}
		}()
		close(start)
		wg.Wait()
		stop.Store(true)
		<-done

		if !accepted {
			refusedTotal++
			if seen.Load() {
				t.Errorf("trial %d: the add of component (%d, %d) was refused, yet a list returned it", trials, typeID, e)
			}
		}
		lister.leave()
		keeper.take()
		adder.take()
		owner.take()
	}
	t.Logf("trials: %d refused: %d", trials, refusedTotal)
}

// The same with a joiner: a refused add must not be in the state it is handed.
func TestH21RefusedAddInJoinerState(t *testing.T) {
	store := h21NewStore()
	keeper := h21NewPeer(store)
	sid := keeper.join(t, "")
	typeID := keeper.addType(t, "T")
	adder := h21NewPeer(store)
	adder.join(t, sid)
	owner := h21NewPeer(store)
	owner.join(t, sid)

	deadline := time.Now().Add(120 * time.Second)
	trials, refusedTotal := 0, 0
	for time.Now().Before(deadline) && !t.Failed() {
		trials++
		e := owner.addEntity(t, false)
		joiner := h21NewPeer(store)

		var wg sync.WaitGroup
		start := make(chan struct{})
		var accepted bool
		wg.Add(3)
		go func() {
			defer wg.Done()
			<-start
			owner.deleteEntity(t, e)
		}()
		go func() {
			defer wg.Done()
			<-start
			accepted = adder.addComponent(t, typeID, e, []byte("x"))
		}()
		go func() {
			defer wg.Done()
			<-start
			joiner.join(t, sid)
		}()
		close(start)
		wg.Wait()

		if !accepted {
			refusedTotal++
			st := h21SessionState(t, joiner)
			for _, c := range st.EntityComponents {
				inState := false
				for _, se := range st.Entities {
					if se.Id == e {
						inState = true
					}
				}
				if c.EntityId == e {
					told := false
					for _, m := range joiner.snapshot() {
						if m.Type == hagallpb.MsgType_MSG_TYPE_ENTITY_DELETE_BROADCAST {
							told = true
						}
					}
					t.Errorf("trial %d: the add of component (%d, %d) was refused, yet it is in the state handed to a joiner (the entity is in that state: %v; joiner told later about the deletion of the entity: %v)",
						trials, typeID, e, inState, told)
				}
			}
		}
		joiner.leave()
		keeper.take()
		adder.take()
		owner.take()
	}
	t.Logf("trials: %d refused: %d", trials, refusedTotal)
}
