// modules/vikja/h19_instant_test.go
package vikja

import (
	"math"
	"math/big"
	"testing"

	"github.com/aukilabs/hagall-common/messages/vikjapb"
	"google.golang.org/protobuf/types/known/timestamppb"
)

// trueInstant is the instant a timestamp names, in nanoseconds, without any
// rounding, wrapping or saturation: seconds*1e9 + nanos.
func trueInstant(ts *timestamppb.Timestamp) *big.Int {
	v := new(big.Int).Mul(big.NewInt(ts.GetSeconds()), big.NewInt(1e9))
	return v.Add(v, big.NewInt(int64(ts.GetNanos())))
}

// For every pair (stored, request) of timestamps taken at the corners of the
// two fields, SetEntityActionIfLatest must refuse the request exactly when the
// instant it names lies before the stored one.
func TestH19InstantCorners(t *testing.T) {
	seconds := []int64{
		math.MinInt64, math.MinInt64 + 1, math.MinInt64 + 2, math.MinInt64 + 3, math.MinInt64 + 4,
		-1, 0, 1,
		math.MaxInt64 - 4, math.MaxInt64 - 3, math.MaxInt64 - 2, math.MaxInt64 - 1, math.MaxInt64,
	}
	nanos := []int32{
		math.MinInt32, -2_000_000_001, -2_000_000_000, -1_999_999_999, -1_000_000_001, -1_000_000_000, -999_999_999, -1,
		0, 1, 999_999_999, 1_000_000_000, 1_000_000_001, 1_999_999_999, 2_000_000_000, 2_000_000_001, math.MaxInt32,
	}

	var all []*timestamppb.Timestamp
	for _, s := range seconds {
		for _, n := range nanos {
			all = append(all, &timestamppb.Timestamp{Seconds: s, Nanos: n})
		}
	}

	failures := 0
	for _, stored := range all {
		for _, req := range all {
			var s State
			s.SetEntityAction(&vikjapb.EntityAction{EntityId: 1, Name: "a", Timestamp: stored})
			accepted := s.SetEntityActionIfLatest(&vikjapb.EntityAction{EntityId: 1, Name: "a", Timestamp: req})
			want := trueInstant(req).Cmp(trueInstant(stored)) >= 0
			if accepted != want {
				failures++
				if failures <= 12 {
					t.Errorf("stored {%d s, %d ns} request {%d s, %d ns}: accepted=%v, want %v (instants %s vs %s ns)",
						stored.Seconds, stored.Nanos, req.Seconds, req.Nanos, accepted, want,
						trueInstant(stored), trueInstant(req))
				}
			}
		}
	}
	if failures > 0 {
		t.Errorf("%d of %d pairs are ordered wrongly", failures, len(all)*len(all))
	}
}

// The two smallest instances, spelled out.
func TestH19OlderAcceptedOverNewerAtTheTop(t *testing.T) {
	var s State
	// stored: MaxInt64 s + 1e9 ns = the instant (MaxInt64+1) s
	newer := &vikjapb.EntityAction{EntityId: 1, Name: "a", Timestamp: &timestamppb.Timestamp{Seconds: math.MaxInt64, Nanos: 1_000_000_000}}
	// request: MaxInt64 s + 5 ns, almost a second EARLIER
	olderOne := &vikjapb.EntityAction{EntityId: 1, Name: "a", Timestamp: &timestamppb.Timestamp{Seconds: math.MaxInt64, Nanos: 5}}

	if !s.SetEntityActionIfLatest(newer) {
		t.Fatal("first action refused")
	}
	if s.SetEntityActionIfLatest(olderOne) {
		t.Errorf("an action almost a second older than the stored one replaced it")
	}

	var s2 State
	if !s2.SetEntityActionIfLatest(olderOne) {
		t.Fatal("first action refused")
	}
	if !s2.SetEntityActionIfLatest(newer) {
		t.Errorf("an action almost a second newer than the stored one was refused")
	}
}

func TestH19OlderAcceptedOverNewerAtTheBottom(t *testing.T) {
	var s State
	stored := &vikjapb.EntityAction{EntityId: 1, Name: "a", Timestamp: &timestamppb.Timestamp{Seconds: math.MinInt64, Nanos: 0}}
	// half a second EARLIER than the stored one
	olderOne := &vikjapb.EntityAction{EntityId: 1, Name: "a", Timestamp: &timestamppb.Timestamp{Seconds: math.MinInt64, Nanos: -500_000_000}}

	if !s.SetEntityActionIfLatest(stored) {
		t.Fatal("first action refused")
	}
	if s.SetEntityActionIfLatest(olderOne) {
		t.Errorf("an action half a second older than the stored one replaced it")
	}
}
