// websocket/h19_vikja_saturation_test.go
package websocket

import (
	"context"
	"math"
	"testing"
	"time"

	"github.com/aukilabs/hagall-common/messages/hagallpb"
	"github.com/aukilabs/hagall-common/messages/vikjapb"
	"github.com/aukilabs/hagall-common/scenario"
	hwebsocket "github.com/aukilabs/hagall-common/websocket"
	"github.com/aukilabs/hagall/modules"
	"github.com/aukilabs/hagall/modules/vikja"
	"github.com/stretchr/testify/require"
	"google.golang.org/protobuf/types/known/timestamppb"
)

// C16: "an action older than the stored one is refused". Over the wire: the
// stored action names the instant (MaxInt64+1) s, written {MaxInt64 s, 1e9 ns};
// the request names MaxInt64 s + 5 ns, almost a second earlier. It must be
// answered with an error and a newcomer must be handed the stored (newer) one.
func TestH19OlderActionReplacesNewerOneAtTheTopOfTheRange(t *testing.T) {
	clientA, clientB, close := NewTestingEnv(t, newTestHandler(func() modules.Module { return &vikja.Module{} }))
	defer close()

	ctx, cancel := context.WithTimeout(context.Background(), 20*time.Second)
	defer cancel()

	newer := &timestamppb.Timestamp{Seconds: math.MaxInt64, Nanos: 1_000_000_000}
	older := &timestamppb.Timestamp{Seconds: math.MaxInt64, Nanos: 5}

	var sessionID string
	var entityID uint32
	var secondAnswer hagallpb.MsgType
	var secondAnswerVikja bool

	err := scenario.NewScenario(clientA).
		Send(func() hwebsocket.ProtoMsg {
			return &hagallpb.ParticipantJoinRequest{
				Type:      hagallpb.MsgType_MSG_TYPE_PARTICIPANT_JOIN_REQUEST,
				Timestamp: timestamppb.Now(),
				RequestId: 1,
			}
		}).
		Receive(
			scenario.FilterByRequestID(1),
			scenario.FilterByType(hagallpb.MsgType_MSG_TYPE_PARTICIPANT_JOIN_RESPONSE),
			func(msg hwebsocket.Msg) error {
				var res hagallpb.ParticipantJoinResponse
				err := msg.DataTo(&res)
				sessionID = res.SessionId
				return err
			},
		).
		Send(func() hwebsocket.ProtoMsg {
			return &hagallpb.EntityAddRequest{
				Type:      hagallpb.MsgType_MSG_TYPE_ENTITY_ADD_REQUEST,
				Timestamp: timestamppb.Now(),
				RequestId: 2,
			}
		}).
		Receive(
			scenario.FilterByRequestID(2),
			scenario.FilterByType(hagallpb.MsgType_MSG_TYPE_ENTITY_ADD_RESPONSE),
			func(msg hwebsocket.Msg) error {
				var res hagallpb.EntityAddResponse
				err := msg.DataTo(&res)
				entityID = res.EntityId
				return err
			},
		).
		Send(func() hwebsocket.ProtoMsg {
			return &vikjapb.EntityActionRequest{
				Type:      vikjapb.MsgType_MSG_TYPE_VIKJA_ENTITY_ACTION_REQUEST,
				Timestamp: timestamppb.Now(),
				RequestId: 3,
				EntityAction: &vikjapb.EntityAction{
					EntityId: entityID, Name: "a", Timestamp: newer, Data: []byte("newer"),
				},
			}
		}).
		Receive(
			scenario.FilterByRequestID(3),
			scenario.FilterByType(vikjapb.MsgType_MSG_TYPE_VIKJA_ENTITY_ACTION_RESPONSE),
		).
		Send(func() hwebsocket.ProtoMsg {
			return &vikjapb.EntityActionRequest{
				Type:      vikjapb.MsgType_MSG_TYPE_VIKJA_ENTITY_ACTION_REQUEST,
				Timestamp: timestamppb.Now(),
				RequestId: 4,
				EntityAction: &vikjapb.EntityAction{
					EntityId: entityID, Name: "a", Timestamp: older, Data: []byte("older"),
				},
			}
		}).
		Receive(
			scenario.FilterByRequestID(4),
			func(msg hwebsocket.Msg) error {
				secondAnswer = hagallpb.MsgType(msg.Type.Number())
				secondAnswerVikja = msg.Type.Number() == vikjapb.MsgType_MSG_TYPE_VIKJA_ENTITY_ACTION_RESPONSE.Number()
				return nil
			},
		).
		Run(ctx)
	require.NoError(t, err)

	var handed []*vikjapb.EntityAction
	err = scenario.NewScenario(clientB).
		Send(func() hwebsocket.ProtoMsg {
			return &hagallpb.ParticipantJoinRequest{
				Type:      hagallpb.MsgType_MSG_TYPE_PARTICIPANT_JOIN_REQUEST,
				Timestamp: timestamppb.Now(),
				RequestId: 5,
				SessionId: sessionID,
			}
		}).
		Receive(
			scenario.FilterByType(vikjapb.MsgType_MSG_TYPE_VIKJA_STATE),
			func(msg hwebsocket.Msg) error {
				var s vikjapb.State
				err := msg.DataTo(&s)
				handed = s.EntityActions
				return err
			},
		).
		Run(ctx)
	require.NoError(t, err)

	require.False(t, secondAnswerVikja,
		"the action for MaxInt64 s + 5 ns was accepted over the stored one for (MaxInt64+1) s, which is later")
	require.Equal(t, hagallpb.MsgType_MSG_TYPE_ERROR_RESPONSE, secondAnswer)
	require.Len(t, handed, 1)
	require.Equal(t, "newer", string(handed[0].Data), "the newcomer is handed the older of the two actions")
}
