// websocket/hunt_modinit_test.go
package websocket

import (
	"context"
	"sync"
	"testing"
	"time"

	"github.com/aukilabs/hagall-common/messages/dagazpb"
	"github.com/aukilabs/hagall-common/messages/hagallpb"
	"github.com/aukilabs/hagall-common/messages/odalpb"
	"github.com/aukilabs/hagall-common/messages/vikjapb"
	hwebsocket "github.com/aukilabs/hagall-common/websocket"
	"github.com/aukilabs/hagall/models"
	"github.com/aukilabs/hagall/modules"
	"github.com/aukilabs/hagall/modules/dagaz"
	"github.com/aukilabs/hagall/modules/odal"
	"github.com/aukilabs/hagall/modules/vikja"
	"google.golang.org/protobuf/types/known/timestamppb"
)

type huntSink struct {
	mu   sync.Mutex
	msgs []hwebsocket.Msg
}

func (s *huntSink) Send(p hwebsocket.ProtoMsg) {
	m, err := hwebsocket.MsgFromProto(p)
	if err != nil {
		return
	}
	s.SendMsg(m)
}

func (s *huntSink) SendMsg(m hwebsocket.Msg) {
	s.mu.Lock()
	s.msgs = append(s.msgs, m)
	s.mu.Unlock()
}

// last returns the last message of the given type and forgets everything.
func (s *huntSink) last(t *testing.T, typ int32, into hwebsocket.ProtoMsg) bool {
	s.mu.Lock()
	defer s.mu.Unlock()
	defer func() { s.msgs = nil }()
	for i := len(s.msgs) - 1; i >= 0; i-- {
		if int32(s.msgs[i].Type.Number()) == typ {
			if err := s.msgs[i].DataTo(into); err != nil {
				t.Fatal(err)
			}
			return true
		}
	}
	return false
}

func huntMsg(t *testing.T, p hwebsocket.ProtoMsg) hwebsocket.Msg {
	m, err := hwebsocket.MsgFromProto(p)
	if err != nil {
		t.Fatal(err)
	}
	return m
}

type huntConn struct {
	h    *RealtimeHandler
	sink *huntSink
}

// handle does what handler.handleMessage does for the message types used here.
func (c *huntConn) handle(t *testing.T, p hwebsocket.ProtoMsg) {
	ctx := context.Background()
	msg := huntMsg(t, p)
	var err error
	switch msg.Type {
	case hagallpb.MsgType_MSG_TYPE_PARTICIPANT_JOIN_REQUEST:
		err = c.h.HandleParticipantJoin(ctx, func() {}, c.sink, msg)
	case hagallpb.MsgType_MSG_TYPE_ENTITY_ADD_REQUEST:
		err = c.h.HandleEntityAdd(ctx, c.sink, msg)
	}
	if err != nil {
		t.Fatal(err)
	}
	if c.h.CurrentParticipant() == nil {
		return
	}
	for _, m := range c.h.Modules {
		if err := c.h.HandleWithModule(ctx, m, c.sink, msg); err != nil {
			t.Fatal(err)
		}
	}
}

func (c *huntConn) addEntity(t *testing.T) uint32 {
	c.handle(t, &hagallpb.EntityAddRequest{
		Type:      hagallpb.MsgType_MSG_TYPE_ENTITY_ADD_REQUEST,
		Timestamp: timestamppb.Now(),
		RequestId: 2,
	})
	var res hagallpb.EntityAddResponse
	if !c.sink.last(t, int32(hagallpb.MsgType_MSG_TYPE_ENTITY_ADD_RESPONSE.Number()), &res) {
		t.Fatal("no entity add response")
	}
	return res.EntityId
}

func (c *huntConn) addAsset(t *testing.T, entity uint32) uint32 {
	c.handle(t, &odalpb.AssetInstanceAddRequest{
		Type:      odalpb.MsgType_MSG_TYPE_ODAL_ASSET_INSTANCE_ADD_REQUEST,
		Timestamp: timestamppb.Now(),
		RequestId: 3,
		EntityId:  entity,
		AssetId:   "piano",
	})
	var res odalpb.AssetInstanceAddResponse
	if !c.sink.last(t, int32(odalpb.MsgType_MSG_TYPE_ODAL_ASSET_INSTANCE_ADD_RESPONSE.Number()), &res) {
		t.Fatal("no asset instance add response")
	}
	return res.AssetInstanceId
}

// TestHuntModuleInitRace: the creator of a session and a participant that joins
// the session by its id at the same moment must share the state of every
// module.
func TestHuntModuleInitRace(t *testing.T) {
	store := &models.SessionStore{DiscoveryService: &testClient{}}
	newConn := func() *huntConn {
		return &huntConn{
			h: &RealtimeHandler{
				ClientSyncClockInterval: time.Second,
				ClientIdleTimeout:       time.Minute,
				FrameDuration:           time.Hour,
				Sessions:                store,
				Modules:                 []modules.Module{&vikja.Module{}, &odal.Module{}, &dagaz.Module{}},
			},
			sink: &huntSink{},
		}
	}

	// session ids are reused: with nothing else on the server the next
	// session always gets the same, predictable, id
	predicted := store.GlobalSessionID(1)

	const rounds = 30000
	var failures []string
	round := 0
	for ; round < rounds && len(failures) == 0; round++ {
		a, b := newConn(), newConn()

		var wg sync.WaitGroup
		wg.Add(2)
		go func() {
			defer wg.Done()
			a.handle(t, &hagallpb.ParticipantJoinRequest{
				Type:      hagallpb.MsgType_MSG_TYPE_PARTICIPANT_JOIN_REQUEST,
				Timestamp: timestamppb.Now(),
				RequestId: 1,
			})
		}()
		go func() {
			defer wg.Done()
			// a client that knows which id is next, asking for it until it is there
			for {
				b.handle(t, &hagallpb.ParticipantJoinRequest{
					Type:      hagallpb.MsgType_MSG_TYPE_PARTICIPANT_JOIN_REQUEST,
					Timestamp: timestamppb.Now(),
					RequestId: 1,
					SessionId: predicted,
				})
				if b.h.CurrentParticipant() != nil {
					return
				}
			}
		}()
		wg.Wait()

		if a.h.CurrentSession() == nil || a.h.CurrentSession() != b.h.CurrentSession() {
			t.Fatalf("round %d: a and b are not in the same session", round)
		}
		a.sink.last(t, -1, nil)
		b.sink.last(t, -1, nil)

		// odal: asset instance ids are unique in the session
		ea, eb := a.addEntity(t), b.addEntity(t)
		ia, ib := a.addAsset(t, ea), b.addAsset(t, eb)
		if ia == ib {
			failures = append(failures, "odal: two asset instances of one session got the same id")
			t.Logf("round %d: odal: a's asset instance on entity %d and b's on entity %d both have id %d", round, ea, eb, ia)
		}

		// vikja: an action a sets is in the state a newcomer... here: b's own view
		a.handle(t, &vikjapb.EntityActionRequest{
			Type:      vikjapb.MsgType_MSG_TYPE_VIKJA_ENTITY_ACTION_REQUEST,
			Timestamp: timestamppb.Now(),
			RequestId: 4,
			EntityAction: &vikjapb.EntityAction{
				EntityId:  ea,
				Name:      "open",
				Timestamp: timestamppb.Now(),
			},
		})
		// what the session hands to a third participant c
		c := newConn()
		c.handle(t, &hagallpb.ParticipantJoinRequest{
			Type:      hagallpb.MsgType_MSG_TYPE_PARTICIPANT_JOIN_REQUEST,
			Timestamp: timestamppb.Now(),
			RequestId: 1,
			SessionId: predicted,
		})
		var vs vikjapb.State
		if !c.sink.last(t, int32(vikjapb.MsgType_MSG_TYPE_VIKJA_STATE.Number()), &vs) {
			t.Fatalf("round %d: no vikja state for c", round)
		}
		if len(vs.EntityActions) != 1 {
			failures = append(failures, "vikja: the action set by a member is not in the state handed to a newcomer")
			t.Logf("round %d: vikja: c got %d entity actions, want 1", round, len(vs.EntityActions))
		}

		// dagaz: a sample inserted by a is seen by b
		a.handle(t, &dagazpb.DagazQuadSample{
			Type:      dagazpb.MsgType_MSG_TYPE_DAGAZ_QUAD_SAMPLE,
			Timestamp: timestamppb.Now(),
			Samples: []*dagazpb.Quad{{
				Center:  &dagazpb.Point{X: 0.5, Y: 0, Z: 0.5},
				Extents: &dagazpb.Point{X: 0.2, Y: 0, Z: 0.2},
			}},
		})
		b.handle(t, &dagazpb.DagazGetDebugInfoRequest{
			Type:      dagazpb.MsgType_MSG_TYPE_DAGAZ_GET_DEBUG_INFO_REQUEST,
			Timestamp: timestamppb.Now(),
			RequestId: 5,
		})
		var di dagazpb.DagazGetDebugInfoResponse
		if !b.sink.last(t, int32(dagazpb.MsgType_MSG_TYPE_DAGAZ_GET_DEBUG_INFO_RESPONSE.Number()), &di) {
			t.Fatalf("round %d: no dagaz debug info for b", round)
		}
		if di.GridPlaneCount != 1 {
			failures = append(failures, "dagaz: the plane inserted by one member is not in the grid another member queries")
			t.Logf("round %d: dagaz: b sees %d planes, want 1", round, di.GridPlaneCount)
		}

		a.h.HandleDisconnect(nil)
		b.h.HandleDisconnect(nil)
		c.h.HandleDisconnect(nil)
		if _, ok := store.GetByGlobalID(predicted); ok {
			t.Fatalf("round %d: session still there", round)
		}
	}
	t.Logf("%d rounds", round)
	for _, f := range failures {
		t.Error(f)
	}
}
