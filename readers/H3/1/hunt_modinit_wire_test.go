// websocket/hunt_modinit_wire_test.go
//
// needs the wire client of websocket/hunt_wire_client_test.go
package websocket

import (
	"fmt"
	"sync"
	"sync/atomic"
	"testing"
	"time"

	"github.com/aukilabs/hagall-common/messages/hagallpb"
	hwebsocket "github.com/aukilabs/hagall-common/websocket"
	"google.golang.org/protobuf/types/known/timestamppb"
)

// TestHuntModuleInitRaceOnTheWire: over real connections and with the
// production decorators. Client A creates a session; three other clients,
// which know which id the next session gets (ids are sequential and reused),
// ask for that id until it is there. Then each adds an entity with an asset
// instance: the asset instance ids of the session must all differ.
func TestHuntModuleInitRaceOnTheWire(t *testing.T) {
	url, store, stop := newWireServer(t, 50*time.Millisecond)
	defer stop()

	predicted := store.GlobalSessionID(1)

	deadline := time.Now().Add(120 * time.Second)
	round := 0
	for ; time.Now().Before(deadline); round++ {
		const joiners = 3
		a := newWireClient(t, url)
		bs := make([]*wireClient, joiners)
		for i := range bs {
			bs[i] = newWireClient(t, url)
		}

		var joined [joiners]atomic.Bool
		var asked sync.WaitGroup
		for i, b := range bs {
			asked.Add(1)
			go func(i int, b *wireClient) {
				defer asked.Done()
				for id := uint32(1); !joined[i].Load(); id++ {
					msg, _ := hwebsocket.MsgFromProto(&hagallpb.ParticipantJoinRequest{
						Type:      hagallpb.MsgType_MSG_TYPE_PARTICIPANT_JOIN_REQUEST,
						Timestamp: timestamppb.Now(),
						RequestId: id,
						SessionId: predicted,
					})
					if _, err := hwebsocket.Send(b.conn, msg); err != nil {
						return
					}
				}
			}(i, b)
		}

		a.send(&hagallpb.ParticipantJoinRequest{
			Type:      hagallpb.MsgType_MSG_TYPE_PARTICIPANT_JOIN_REQUEST,
			Timestamp: timestamppb.Now(),
			RequestId: 1,
		})
		var ja hagallpb.ParticipantJoinResponse
		a.until(int32(hagallpb.MsgType_MSG_TYPE_PARTICIPANT_JOIN_RESPONSE.Number()), &ja)
		if ja.SessionId != predicted {
			t.Fatalf("round %d: setup: a in %s", round, ja.SessionId)
		}
		for i, b := range bs {
			var jb hagallpb.ParticipantJoinResponse
			b.until(int32(hagallpb.MsgType_MSG_TYPE_PARTICIPANT_JOIN_RESPONSE.Number()), &jb)
			joined[i].Store(true)
			if jb.SessionId != predicted || ja.SessionUuid != jb.SessionUuid {
				t.Fatalf("round %d: setup: a in %s (%s), b%d in %s (%s)", round, ja.SessionId, ja.SessionUuid, i, jb.SessionId, jb.SessionUuid)
			}
		}
		asked.Wait()

		// asset instance id -> entity it was given to
		ids := map[uint32]uint32{}
		collision := ""
		for _, c := range append([]*wireClient{a}, bs...) {
			entity, asset := c.addEntityAndAsset()
			if other, ok := ids[asset]; ok {
				collision = fmt.Sprintf("the asset instances of entity %d and of entity %d both have id %d", other, entity, asset)
			}
			ids[asset] = entity
		}

		a.conn.Close()
		for _, b := range bs {
			b.conn.Close()
		}

		if collision != "" {
			t.Fatalf("round %d: session %s (%s), %d participants: %s", round, predicted, ja.SessionUuid, joiners+1, collision)
		}

		// the session ends, its id becomes free again
		for {
			if _, ok := store.GetByGlobalID(predicted); !ok {
				break
			}
			time.Sleep(time.Millisecond)
		}
	}
	t.Logf("%d rounds without a collision", round)
}
