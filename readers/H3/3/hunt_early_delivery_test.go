// websocket/hunt_early_delivery_test.go
//
// needs the wire client of websocket/hunt_wire_client_test.go
package websocket

import (
	"sync/atomic"
	"testing"
	"time"

	"github.com/aukilabs/hagall-common/messages/hagallpb"
	hwebsocket "github.com/aukilabs/hagall-common/websocket"
	"google.golang.org/protobuf/types/known/timestamppb"
)

// X goes back and forth between session A (kept alive by Y, who keeps sending
// custom messages to everybody in A) and session B (kept alive by Z, who does
// the same in B). After the server has told X that it is in A, and until it
// tells X that it is in B, X must not get anything from B. It does, and after
// that it still gets messages of A: for a while X is a member of both sessions
// and is handed the traffic of both, which it cannot tell apart (the sender is
// "participant 1" in both).
func TestHuntSwitchEarlyDelivery(t *testing.T) {
	var stopZ atomic.Bool
	defer stopZ.Store(true)
	url, _, stop := newWireServer(t, 50*time.Millisecond)
	defer stop()

	y := newWireClient(t, url)
	defer y.conn.Close()
	sessionA := y.join("").SessionId
	go func() {
		for range y.in {
		}
	}()
	spam := func(c *wireClient, body string) {
		for !stopZ.Load() {
			msg, _ := hwebsocket.MsgFromProto(&hagallpb.CustomMessage{
				Type:      hagallpb.MsgType_MSG_TYPE_CUSTOM_MESSAGE,
				Timestamp: timestamppb.Now(),
				Body:      []byte(body),
			})
			if _, err := hwebsocket.Send(c.conn, msg); err != nil {
				return
			}
		}
	}

	z := newWireClient(t, url)
	defer z.conn.Close()
	sessionB := z.join("").SessionId
	go func() {
		for range z.in {
		}
	}()

	go spam(y, "from A")
	go spam(z, "from B")

	x := newWireClient(t, url)
	defer x.conn.Close()

	deadline := time.Now().Add(60 * time.Second)
	in := "" // the session the server has last told X it is in
	target := sessionA
	x.send(&hagallpb.ParticipantJoinRequest{
		Type: hagallpb.MsgType_MSG_TYPE_PARTICIPANT_JOIN_REQUEST, Timestamp: timestamppb.Now(), RequestId: 1, SessionId: target,
	})
	switches := 0
	early := 0 // messages of B that X got since it was told it is in A
	for msg := range x.in {
		switch msg.Type {
		case hagallpb.MsgType_MSG_TYPE_PARTICIPANT_JOIN_RESPONSE:
			var res hagallpb.ParticipantJoinResponse
			if err := msg.DataTo(&res); err != nil {
				t.Fatal(err)
			}
			in = res.SessionId
			switches++
			if time.Now().After(deadline) {
				t.Logf("%d switches, nothing early", switches)
				return
			}
			if in == sessionA {
				target = sessionB
			} else {
				target = sessionA
			}
			x.send(&hagallpb.ParticipantJoinRequest{
				Type: hagallpb.MsgType_MSG_TYPE_PARTICIPANT_JOIN_REQUEST, Timestamp: timestamppb.Now(), RequestId: 1, SessionId: target,
			})
			early = 0
		case hagallpb.MsgType_MSG_TYPE_CUSTOM_MESSAGE_BROADCAST:
			var b hagallpb.CustomMessageBroadcast
			if err := msg.DataTo(&b); err != nil {
				t.Fatal(err)
			}
			if in != sessionA {
				continue
			}
			switch string(b.Body) {
			case "from B":
				early++
			case "from A":
				if early != 0 {
					t.Fatalf("after %d switches: X was told it is in %s; before being told anything else it got %d custom messages of session %s, and then again one of session %s, all from \"participant %d\"",
						switches, sessionA, early, sessionB, sessionA, b.ParticipantId)
				}
			}
		}
	}
}
