// websocket/hunt_held_update_test.go
//
// needs the wire client of websocket/hunt_wire_client_test.go
package websocket

import (
	"testing"
	"time"

	"github.com/aukilabs/hagall-common/messages/hagallpb"
	hwebsocket "github.com/aukilabs/hagall-common/websocket"
	"google.golang.org/protobuf/types/known/timestamppb"
)

// TestHuntUpdateSentInOneSessionAppliedInAnother: X is in session A and sends a
// component update, then asks to join session B. The update was sent to
// session A. It must not change, nor be relayed in, session B.
func TestHuntUpdateSentInOneSessionAppliedInAnother(t *testing.T) {
	url, _, stop := newWireServer(t, 50*time.Millisecond)
	defer stop()

	y := newWireClient(t, url)
	defer y.conn.Close()
	sessionB := y.join("").SessionId
	typeB, entityB := y.component("of B")
	y.subscribe(typeB)

	x := newWireClient(t, url)
	defer x.conn.Close()
	sessionA := x.join("").SessionId
	typeA, entityA := x.component("of A")
	if sessionA == sessionB {
		t.Fatal("setup: one session")
	}
	if typeA != typeB || entityA != entityB {
		t.Fatalf("setup: ids do not coincide: type %d/%d entity %d/%d", typeA, typeB, entityA, entityB)
	}
	// a witness in A
	z := newWireClient(t, url)
	defer z.conn.Close()
	z.join(sessionA)
	z.subscribe(typeA)

	// let a frame of A pass so that nothing is pending
	time.Sleep(200 * time.Millisecond)

	x.send(&hagallpb.EntityComponentUpdate{
		Type:                  hagallpb.MsgType_MSG_TYPE_ENTITY_COMPONENT_UPDATE,
		Timestamp:             timestamppb.Now(),
		EntityComponentTypeId: typeA,
		EntityId:              entityA,
		Data:                  []byte("sent by X while in A"),
	})
	x.join(sessionB)

	upd := int32(hagallpb.MsgType_MSG_TYPE_ENTITY_COMPONENT_UPDATE_BROADCAST.Number())
	for _, msg := range y.within(time.Second, upd) {
		var b hagallpb.EntityComponentUpdateBroadcast
		if err := msg.DataTo(&b); err != nil {
			t.Fatal(err)
		}
		t.Errorf("Y, in session B, was relayed the update that X sent while in session A: %q", b.EntityComponent.Data)
	}
	for _, ec := range y.list(typeB) {
		if string(ec.Data) != "of B" {
			t.Errorf("session B: component (%d,%d) now holds %q, want %q", ec.EntityComponentTypeId, ec.EntityId, ec.Data, "of B")
		}
	}
	t.Logf("in A the witness got %d update broadcasts; A's component holds %q", len(z.within(200*time.Millisecond, upd)), z.list(typeA)[0].Data)
}

// TestHuntUpdateSentBeforeJoiningApplied: X is in no session and sends a
// component update, then joins session B. Nothing sent before joining may
// change session B.
func TestHuntUpdateSentBeforeJoiningApplied(t *testing.T) {
	url, _, stop := newWireServer(t, 50*time.Millisecond)
	defer stop()

	y := newWireClient(t, url)
	defer y.conn.Close()
	sessionB := y.join("").SessionId
	typeB, entityB := y.component("of B")
	y.subscribe(typeB)

	x := newWireClient(t, url)
	defer x.conn.Close()
	x.send(&hagallpb.EntityComponentUpdate{
		Type:                  hagallpb.MsgType_MSG_TYPE_ENTITY_COMPONENT_UPDATE,
		Timestamp:             timestamppb.Now(),
		EntityComponentTypeId: typeB,
		EntityId:              entityB,
		Data:                  []byte("sent by X before joining"),
	})
	time.Sleep(300 * time.Millisecond)
	// (a server that handled the update in its turn has refused it, "session
	// not joined", and closed the connection: that is fine too)
	if msg, err := hwebsocket.MsgFromProto(&hagallpb.ParticipantJoinRequest{
		Type:      hagallpb.MsgType_MSG_TYPE_PARTICIPANT_JOIN_REQUEST,
		Timestamp: timestamppb.Now(),
		RequestId: 1,
		SessionId: sessionB,
	}); err == nil {
		hwebsocket.Send(x.conn, msg)
	}

	upd := int32(hagallpb.MsgType_MSG_TYPE_ENTITY_COMPONENT_UPDATE_BROADCAST.Number())
	for _, msg := range y.within(time.Second, upd) {
		var b hagallpb.EntityComponentUpdateBroadcast
		if err := msg.DataTo(&b); err != nil {
			t.Fatal(err)
		}
		t.Errorf("Y, in session B, was relayed the update that X sent before it joined: %q", b.EntityComponent.Data)
	}
	for _, ec := range y.list(typeB) {
		if string(ec.Data) != "of B" {
			t.Errorf("session B: component (%d,%d) now holds %q, want %q", ec.EntityComponentTypeId, ec.EntityId, ec.Data, "of B")
		}
	}
}
