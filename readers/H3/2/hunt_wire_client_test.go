// websocket/hunt_wire_client_test.go
//
// A server with the three modules and the production decorators, and a client
// that keeps reading whatever it is sent.
package websocket

import (
	"context"
	"net/http"
	"net/http/httptest"
	"strings"
	"testing"
	"time"

	"github.com/aukilabs/go-tooling/pkg/logs"
	httpcmn "github.com/aukilabs/hagall-common/http"
	"github.com/aukilabs/hagall-common/messages/hagallpb"
	"github.com/aukilabs/hagall-common/messages/odalpb"
	hwebsocket "github.com/aukilabs/hagall-common/websocket"
	"github.com/aukilabs/hagall/models"
	"github.com/aukilabs/hagall/modules"
	"github.com/aukilabs/hagall/modules/dagaz"
	"github.com/aukilabs/hagall/modules/odal"
	"github.com/aukilabs/hagall/modules/vikja"
	"github.com/google/uuid"
	"golang.org/x/net/websocket"
	"google.golang.org/protobuf/types/known/timestamppb"
)

func newWireServer(t *testing.T, frame time.Duration) (url string, store *models.SessionStore, stop func()) {
	logs.SetLogger(func(e logs.Entry) {})

	store = &models.SessionStore{DiscoveryService: &testClient{}}
	server := httptest.NewServer(websocket.Server{
		Handshake: func(c *websocket.Config, r *http.Request) error { return nil },
		Handler: func(conn *websocket.Conn) {
			defer conn.Close()
			var h Handler = &RealtimeHandler{
				ClientSyncClockInterval: time.Second,
				ClientIdleTimeout:       time.Minute,
				FrameDuration:           frame,
				Sessions:                store,
				Modules:                 []modules.Module{&vikja.Module{}, &odal.Module{}, &dagaz.Module{}},
			}
			h = HandlerWithLogs(h, time.Second)
			h = HandlerWithMetrics(h, "https://auki-test.com")
			defer h.Close()
			Handle(context.Background(), conn, h)
		},
	})
	return server.URL, store, server.Close
}

type wireClient struct {
	t    *testing.T
	conn *websocket.Conn
	in   chan hwebsocket.Msg
}

func newWireClient(t *testing.T, url string) *wireClient {
	config, err := websocket.NewConfig(strings.ReplaceAll(url, "http://", "ws://"), "http://localhost")
	if err != nil {
		t.Fatal(err)
	}
	config.Header.Set("User-Agent", "ted")
	config.Header.Set(httpcmn.HeaderPosemeshClientID, uuid.NewString())
	conn, err := websocket.DialConfig(config)
	if err != nil {
		t.Fatal(err)
	}
	c := &wireClient{t: t, conn: conn, in: make(chan hwebsocket.Msg, 4096)}
	go func() {
		defer close(c.in)
		for {
			msg, _, err := hwebsocket.Receive(conn)
			if err != nil {
				return
			}
			c.in <- msg // the client keeps reading whatever it is sent
		}
	}()
	return c
}

func (c *wireClient) send(p hwebsocket.ProtoMsg) {
	msg, err := hwebsocket.MsgFromProto(p)
	if err != nil {
		c.t.Fatal(err)
	}
	if _, err := hwebsocket.Send(c.conn, msg); err != nil {
		c.t.Fatal(err)
	}
}

// until reads until a message of the given type number arrives.
func (c *wireClient) until(typ int32, into hwebsocket.ProtoMsg) {
	timeout := time.After(20 * time.Second)
	for {
		select {
		case msg, ok := <-c.in:
			if !ok {
				c.t.Fatalf("connection closed while waiting for message type %d", typ)
			}
			if int32(msg.Type.Number()) == typ {
				if err := msg.DataTo(into); err != nil {
					c.t.Fatal(err)
				}
				return
			}
		case <-timeout:
			c.t.Fatalf("timeout waiting for message type %d", typ)
		}
	}
}

func (c *wireClient) addEntityAndAsset() (entity, asset uint32) {
	c.send(&hagallpb.EntityAddRequest{
		Type:      hagallpb.MsgType_MSG_TYPE_ENTITY_ADD_REQUEST,
		Timestamp: timestamppb.Now(),
		RequestId: 100,
	})
	var ea hagallpb.EntityAddResponse
	c.until(int32(hagallpb.MsgType_MSG_TYPE_ENTITY_ADD_RESPONSE.Number()), &ea)

	c.send(&odalpb.AssetInstanceAddRequest{
		Type:      odalpb.MsgType_MSG_TYPE_ODAL_ASSET_INSTANCE_ADD_REQUEST,
		Timestamp: timestamppb.Now(),
		RequestId: 101,
		EntityId:  ea.EntityId,
		AssetId:   "piano",
	})
	var aa odalpb.AssetInstanceAddResponse
	c.until(int32(odalpb.MsgType_MSG_TYPE_ODAL_ASSET_INSTANCE_ADD_RESPONSE.Number()), &aa)
	return ea.EntityId, aa.AssetInstanceId
}

func (c *wireClient) join(sessionID string) *hagallpb.ParticipantJoinResponse {
	c.send(&hagallpb.ParticipantJoinRequest{
		Type:      hagallpb.MsgType_MSG_TYPE_PARTICIPANT_JOIN_REQUEST,
		Timestamp: timestamppb.Now(),
		RequestId: 1,
		SessionId: sessionID,
	})
	var res hagallpb.ParticipantJoinResponse
	c.until(int32(hagallpb.MsgType_MSG_TYPE_PARTICIPANT_JOIN_RESPONSE.Number()), &res)
	return &res
}

// component makes the connection register the type "t", add an entity and add
// to it a component of that type holding data; it returns the type and entity
// ids.
func (c *wireClient) component(data string) (typeID, entityID uint32) {
	c.send(&hagallpb.EntityComponentTypeAddRequest{
		Type:                    hagallpb.MsgType_MSG_TYPE_ENTITY_COMPONENT_TYPE_ADD_REQUEST,
		Timestamp:               timestamppb.Now(),
		RequestId:               2,
		EntityComponentTypeName: "t",
	})
	var ta hagallpb.EntityComponentTypeAddResponse
	c.until(int32(hagallpb.MsgType_MSG_TYPE_ENTITY_COMPONENT_TYPE_ADD_RESPONSE.Number()), &ta)

	c.send(&hagallpb.EntityAddRequest{
		Type:      hagallpb.MsgType_MSG_TYPE_ENTITY_ADD_REQUEST,
		Timestamp: timestamppb.Now(),
		RequestId: 3,
		Persist:   true,
	})
	var ea hagallpb.EntityAddResponse
	c.until(int32(hagallpb.MsgType_MSG_TYPE_ENTITY_ADD_RESPONSE.Number()), &ea)

	c.send(&hagallpb.EntityComponentAddRequest{
		Type:                  hagallpb.MsgType_MSG_TYPE_ENTITY_COMPONENT_ADD_REQUEST,
		Timestamp:             timestamppb.Now(),
		RequestId:             4,
		EntityComponentTypeId: ta.EntityComponentTypeId,
		EntityId:              ea.EntityId,
		Data:                  []byte(data),
	})
	var ca hagallpb.EntityComponentAddResponse
	c.until(int32(hagallpb.MsgType_MSG_TYPE_ENTITY_COMPONENT_ADD_RESPONSE.Number()), &ca)
	return ta.EntityComponentTypeId, ea.EntityId
}

func (c *wireClient) subscribe(typeID uint32) {
	c.send(&hagallpb.EntityComponentTypeSubscribeRequest{
		Type:                  hagallpb.MsgType_MSG_TYPE_ENTITY_COMPONENT_TYPE_SUBSCRIBE_REQUEST,
		Timestamp:             timestamppb.Now(),
		RequestId:             5,
		EntityComponentTypeId: typeID,
	})
	var res hagallpb.EntityComponentTypeSubscribeResponse
	c.until(int32(hagallpb.MsgType_MSG_TYPE_ENTITY_COMPONENT_TYPE_SUBSCRIBE_RESPONSE.Number()), &res)
}

func (c *wireClient) list(typeID uint32) []*hagallpb.EntityComponent {
	c.send(&hagallpb.EntityComponentListRequest{
		Type:                  hagallpb.MsgType_MSG_TYPE_ENTITY_COMPONENT_LIST_REQUEST,
		Timestamp:             timestamppb.Now(),
		RequestId:             6,
		EntityComponentTypeId: typeID,
	})
	var res hagallpb.EntityComponentListResponse
	c.until(int32(hagallpb.MsgType_MSG_TYPE_ENTITY_COMPONENT_LIST_RESPONSE.Number()), &res)
	return res.EntityComponents
}

// within collects for d the messages of the given type that arrive.
func (c *wireClient) within(d time.Duration, typ int32) []hwebsocket.Msg {
	var got []hwebsocket.Msg
	timeout := time.After(d)
	for {
		select {
		case msg, ok := <-c.in:
			if !ok {
				return got
			}
			if int32(msg.Type.Number()) == typ {
				got = append(got, msg)
			}
		case <-timeout:
			return got
		}
	}
}
