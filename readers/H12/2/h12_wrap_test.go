// intended path: models/h12_wrap_test.go
package models

import (
	"math"
	"os"
	"testing"
	"time"
)

// White box: the state the generator is in after 2^32-2 allocations.
func TestH12SequentialIDWrapFast(t *testing.T) {
	s := NewSession(1, time.Hour)
	defer s.Close()

	first := s.NewEntityID() // 1, held by a live entity
	s.AddEntity(&Entity{ID: first, ParticipantID: 7})

	s.entityIDs.currentID = math.MaxUint32 - 1 // as after 2^32-2 allocations
	seen := map[uint32]bool{first: true}
	for i := 0; i < 3; i++ {
		id := s.NewEntityID()
		if id == 0 {
			t.Errorf("allocation %d: id 0 issued (the handlers refuse id 0 as a bad request)", i)
		}
		if seen[id] {
			e, _ := s.EntityByID(id)
			t.Errorf("allocation %d: entity id %d issued a second time, while entity %d of participant %d is live", i, id, id, e.ParticipantID)
		}
		seen[id] = true
	}
}

// Black box: really allocate 2^32 ids. Takes a few minutes: H12_SLOW=1.
func TestH12SequentialIDWrapSlow(t *testing.T) {
	if os.Getenv("H12_SLOW") == "" {
		t.Skip("set H12_SLOW=1")
	}
	var g SequentialIDGenerator
	first := g.New()
	var n uint64 = 1
	for {
		id := g.New()
		n++
		if id == 0 {
			t.Errorf("allocation %d returned id 0", n)
		}
		if id == first {
			t.Fatalf("allocation %d returned id %d again (first returned by allocation 1, never released)", n, id)
		}
		if n > 1<<32+2 {
			return
		}
	}
}
