// intended path: websocket/h12_order_test.go  (needs websocket/h12_helpers_test.go next to it)
package websocket

import (
	"testing"
	"time"

	"github.com/aukilabs/hagall-common/messages/hagallpb"
	"google.golang.org/protobuf/types/known/timestamppb"
)

// Two updates that concern the same entity, sent by one participant in a given order,
// must be relayed in that order.
func TestH12UpdateOrderPerEntity(t *testing.T) {
	env := newH12Env(t, newTestHandler())
	defer env.close()

	a := env.client()
	b := env.client()
	a.join("")
	b.join(a.sid)

	e := a.addEntity()
	t1 := a.addType("t1")
	t2 := a.addType("t2")
	a.addComponent(t1, e, []byte{0})
	a.addComponent(t2, e, []byte{0})
	b.subscribe(t1)
	b.subscribe(t2)

	const rounds = 40
	compThenComp := 0
	compThenPose := 0
	for i := 1; i <= rounds; i++ {
		// component T1 of e, then component T2 of e, then the pose of e
		a.send(&hagallpb.EntityComponentUpdate{
			Type:                  hagallpb.MsgType_MSG_TYPE_ENTITY_COMPONENT_UPDATE,
			Timestamp:             timestamppb.Now(),
			EntityComponentTypeId: t1,
			EntityId:              e,
			Data:                  []byte{byte(i)},
		})
		a.send(&hagallpb.EntityComponentUpdate{
			Type:                  hagallpb.MsgType_MSG_TYPE_ENTITY_COMPONENT_UPDATE,
			Timestamp:             timestamppb.Now(),
			EntityComponentTypeId: t2,
			EntityId:              e,
			Data:                  []byte{byte(i)},
		})
		a.send(&hagallpb.EntityUpdatePose{
			Type:      hagallpb.MsgType_MSG_TYPE_ENTITY_UPDATE_POSE,
			Timestamp: timestamppb.Now(),
			EntityId:  e,
			Pose:      &hagallpb.Pose{Px: float32(i)},
		})

		// what b is relayed, in order
		var seq []string
		for len(seq) < 3 {
			m, ok := b.next(5 * time.Second)
			if !ok {
				t.Fatalf("round %d: timeout, got %v", i, seq)
			}
			switch m.Type {
			case hagallpb.MsgType_MSG_TYPE_ENTITY_COMPONENT_UPDATE_BROADCAST:
				var bc hagallpb.EntityComponentUpdateBroadcast
				if err := m.DataTo(&bc); err != nil {
					t.Fatal(err)
				}
				if bc.EntityComponent.EntityComponentTypeId == t1 {
					seq = append(seq, "c1")
				} else {
					seq = append(seq, "c2")
				}
			case hagallpb.MsgType_MSG_TYPE_ENTITY_UPDATE_POSE_BROADCAST:
				seq = append(seq, "pose")
			}
		}
		idx := map[string]int{}
		for k, s := range seq {
			idx[s] = k
		}
		if idx["c1"] > idx["c2"] {
			compThenComp++
		}
		if idx["c2"] > idx["pose"] || idx["c1"] > idx["pose"] {
			compThenPose++
		}
		t.Logf("round %d: sent [c1 c2 pose], relayed %v", i, seq)
	}
	if compThenComp != 0 {
		t.Errorf("%d of %d rounds: the update of component t2 of entity %d, sent after the one of t1, was relayed before it", compThenComp, rounds, e)
	}
	if compThenPose != 0 {
		t.Errorf("%d of %d rounds: the pose update of entity %d, sent after its component updates, was relayed before them", compThenPose, rounds, e)
	}
}
