// intended path: websocket/h12_helpers_test.go
package websocket

import (
	"context"
	"net/http"
	"net/http/httptest"
	"strings"
	"testing"
	"time"

	"github.com/aukilabs/go-tooling/pkg/logs"
	httpcmn "github.com/aukilabs/hagall-common/http"
	"github.com/aukilabs/hagall-common/messages/hagallpb"
	hwebsocket "github.com/aukilabs/hagall-common/websocket"
	"github.com/google/uuid"
	"golang.org/x/net/websocket"
	"google.golang.org/protobuf/types/known/timestamppb"
)

type h12Env struct {
	t      *testing.T
	server *httptest.Server
}

func newH12Env(t *testing.T, newHandler func() Handler) *h12Env {
	logs.SetLogger(func(e logs.Entry) {})
	server := httptest.NewServer(websocket.Server{
		Handshake: func(c *websocket.Config, r *http.Request) error { return nil },
		Handler: func(conn *websocket.Conn) {
			defer conn.Close()
			handler := newHandler()
			defer handler.Close()
			Handle(context.Background(), conn, handler)
		},
	})
	return &h12Env{t: t, server: server}
}

func (e *h12Env) close() { e.server.Close() }

type h12Client struct {
	t    *testing.T
	conn *websocket.Conn
	in   chan hwebsocket.Msg
	pid  uint32
	sid  string
}

func (e *h12Env) client() *h12Client {
	config, err := websocket.NewConfig(strings.ReplaceAll(e.server.URL, "http://", "ws://"), "http://localhost")
	if err != nil {
		e.t.Fatal(err)
	}
	config.Header.Set("User-Agent", "ted")
	config.Header.Set(httpcmn.HeaderPosemeshClientID, uuid.NewString())
	conn, err := websocket.DialConfig(config)
	if err != nil {
		e.t.Fatal(err)
	}
	c := &h12Client{t: e.t, conn: conn, in: make(chan hwebsocket.Msg, 100000)}
	go func() {
		defer close(c.in)
		for {
			msg, _, err := hwebsocket.Receive(conn)
			if err != nil {
				return
			}
			if msg.Type == hagallpb.MsgType_MSG_TYPE_SYNC_CLOCK {
				continue
			}
			c.in <- msg
		}
	}()
	return c
}

func (c *h12Client) send(p hwebsocket.ProtoMsg) {
	msg, err := hwebsocket.MsgFromProto(p)
	if err != nil {
		c.t.Fatal(err)
	}
	if _, err := hwebsocket.Send(c.conn, msg); err != nil {
		c.t.Fatal(err)
	}
}

// next returns the next message (not a sync clock) or ok=false on timeout / closed connection.
func (c *h12Client) next(d time.Duration) (hwebsocket.Msg, bool) {
	select {
	case m, ok := <-c.in:
		return m, ok
	case <-time.After(d):
		return hwebsocket.Msg{}, false
	}
}

// until skips messages until one of the given type; fails the test on timeout.
func (c *h12Client) until(typ interface{ Number() int32 }, d time.Duration) hwebsocket.Msg {
	deadline := time.Now().Add(d)
	for {
		m, ok := c.next(time.Until(deadline))
		if !ok {
			c.t.Fatalf("timeout / closed waiting for message type %v", typ)
		}
		if int32(m.Type.Number()) == typ.Number() {
			return m
		}
	}
}

func (c *h12Client) join(sessionID string) {
	c.send(&hagallpb.ParticipantJoinRequest{
		Type:      hagallpb.MsgType_MSG_TYPE_PARTICIPANT_JOIN_REQUEST,
		Timestamp: timestamppb.Now(),
		RequestId: 1,
		SessionId: sessionID,
	})
	m := c.until(h12T(hagallpb.MsgType_MSG_TYPE_PARTICIPANT_JOIN_RESPONSE), 10*time.Second)
	var res hagallpb.ParticipantJoinResponse
	if err := m.DataTo(&res); err != nil {
		c.t.Fatal(err)
	}
	c.pid = res.ParticipantId
	c.sid = res.SessionId
	c.until(h12T(hagallpb.MsgType_MSG_TYPE_SESSION_STATE), 10*time.Second)
}

type h12T hagallpb.MsgType

func (t h12T) Number() int32 { return int32(t) }

func (c *h12Client) addEntity() uint32 {
	c.send(&hagallpb.EntityAddRequest{
		Type:      hagallpb.MsgType_MSG_TYPE_ENTITY_ADD_REQUEST,
		Timestamp: timestamppb.Now(),
		RequestId: 2,
		Pose:      &hagallpb.Pose{},
	})
	m := c.until(h12T(hagallpb.MsgType_MSG_TYPE_ENTITY_ADD_RESPONSE), 10*time.Second)
	var res hagallpb.EntityAddResponse
	if err := m.DataTo(&res); err != nil {
		c.t.Fatal(err)
	}
	return res.EntityId
}

func (c *h12Client) addType(name string) uint32 {
	c.send(&hagallpb.EntityComponentTypeAddRequest{
		Type:                    hagallpb.MsgType_MSG_TYPE_ENTITY_COMPONENT_TYPE_ADD_REQUEST,
		Timestamp:               timestamppb.Now(),
		RequestId:               3,
		EntityComponentTypeName: name,
	})
	m := c.until(h12T(hagallpb.MsgType_MSG_TYPE_ENTITY_COMPONENT_TYPE_ADD_RESPONSE), 10*time.Second)
	var res hagallpb.EntityComponentTypeAddResponse
	if err := m.DataTo(&res); err != nil {
		c.t.Fatal(err)
	}
	return res.EntityComponentTypeId
}

func (c *h12Client) addComponent(typeID, entityID uint32, data []byte) {
	c.send(&hagallpb.EntityComponentAddRequest{
		Type:                  hagallpb.MsgType_MSG_TYPE_ENTITY_COMPONENT_ADD_REQUEST,
		Timestamp:             timestamppb.Now(),
		RequestId:             4,
		EntityComponentTypeId: typeID,
		EntityId:              entityID,
		Data:                  data,
	})
	c.until(h12T(hagallpb.MsgType_MSG_TYPE_ENTITY_COMPONENT_ADD_RESPONSE), 10*time.Second)
}

func (c *h12Client) subscribe(typeID uint32) {
	c.send(&hagallpb.EntityComponentTypeSubscribeRequest{
		Type:                  hagallpb.MsgType_MSG_TYPE_ENTITY_COMPONENT_TYPE_SUBSCRIBE_REQUEST,
		Timestamp:             timestamppb.Now(),
		RequestId:             5,
		EntityComponentTypeId: typeID,
	})
	c.until(h12T(hagallpb.MsgType_MSG_TYPE_ENTITY_COMPONENT_TYPE_SUBSCRIBE_RESPONSE), 10*time.Second)
}

// ping makes sure everything sent before has been handled by the server's main loop of this connection.
func (c *h12Client) ping() {
	c.send(&hagallpb.Request{
		Type:      hagallpb.MsgType_MSG_TYPE_PING_REQUEST,
		Timestamp: timestamppb.Now(),
		RequestId: 99,
	})
	c.until(h12T(hagallpb.MsgType_MSG_TYPE_PING_RESPONSE), 10*time.Second)
}
