// intended path: websocket/hunt_vikja_farfuture_test.go
package websocket

import (
	"math"
	"testing"
	"time"

	"github.com/aukilabs/hagall-common/messages/hagallpb"
	"github.com/aukilabs/hagall-common/messages/vikjapb"
	"golang.org/x/net/websocket"
	protobuf "google.golang.org/protobuf/proto"
	"google.golang.org/protobuf/types/known/timestamppb"
)

// C16: "For each entity and action name the server keeps the action with the
// latest client timestamp: an action older than the stored one is refused, an
// equal or newer one replaces it" - for all histories with arbitrary (equal,
// decreasing, far-future, zero) timestamps.
//
// A client timestamp whose seconds lie within 62135596800 of MaxInt64 is the
// latest there can be, yet the server takes it for older than any other
// timestamp: it is refused after an ordinary action, and an ordinary (older)
// action replaces it.
func TestHuntVikjaFarFutureTimestamp(t *testing.T) {
	clientA, clientB, closeEnv := NewTestingEnv(t, newTestHandler(newVikjaTestModule))
	defer closeEnv()

	type rmsg struct {
		typ   int32
		reqID uint32
		body  []byte
	}
	recv := func(conn *websocket.Conn, want func(rmsg) bool) rmsg {
		t.Helper()
		conn.SetReadDeadline(time.Now().Add(20 * time.Second))
		for {
			var data []byte
			if err := websocket.Message.Receive(conn, &data); err != nil {
				t.Fatalf("receive: %v", err)
			}
			var m hagallpb.Msg
			var r hagallpb.Response
			if protobuf.Unmarshal(data, &m) != nil || protobuf.Unmarshal(data, &r) != nil {
				continue
			}
			got := rmsg{typ: int32(m.Type), reqID: r.RequestId, body: data}
			if want(got) {
				return got
			}
		}
	}
	send := func(conn *websocket.Conn, m protobuf.Message) {
		t.Helper()
		b, err := protobuf.Marshal(m)
		if err != nil {
			t.Fatal(err)
		}
		if err := websocket.Message.Send(conn, b); err != nil {
			t.Fatal(err)
		}
	}
	byReq := func(id uint32) func(rmsg) bool { return func(m rmsg) bool { return m.reqID == id } }

	// A creates a session and an entity, B joins.
	send(clientA, &hagallpb.ParticipantJoinRequest{Type: hagallpb.MsgType_MSG_TYPE_PARTICIPANT_JOIN_REQUEST, Timestamp: timestamppb.Now(), RequestId: 1})
	var join hagallpb.ParticipantJoinResponse
	protobuf.Unmarshal(recv(clientA, byReq(1)).body, &join)
	send(clientA, &hagallpb.EntityAddRequest{Type: hagallpb.MsgType_MSG_TYPE_ENTITY_ADD_REQUEST, Timestamp: timestamppb.Now(), RequestId: 2})
	var add hagallpb.EntityAddResponse
	protobuf.Unmarshal(recv(clientA, byReq(2)).body, &add)
	send(clientB, &hagallpb.ParticipantJoinRequest{Type: hagallpb.MsgType_MSG_TYPE_PARTICIPANT_JOIN_REQUEST, Timestamp: timestamppb.Now(), RequestId: 3, SessionId: join.SessionId})
	recv(clientB, byReq(3))

	setAction := func(id uint32, ts *timestamppb.Timestamp, data string) int32 {
		send(clientA, &vikjapb.EntityActionRequest{
			Type: vikjapb.MsgType_MSG_TYPE_VIKJA_ENTITY_ACTION_REQUEST, Timestamp: timestamppb.Now(), RequestId: id,
			EntityAction: &vikjapb.EntityAction{EntityId: add.EntityId, Name: "act", Timestamp: ts, Data: []byte(data)},
		})
		return recv(clientA, byReq(id)).typ
	}

	ordinary := timestamppb.New(time.Date(2026, 9, 27, 0, 0, 0, 0, time.UTC))
	farFuture := &timestamppb.Timestamp{Seconds: math.MaxInt64}
	accepted := int32(vikjapb.MsgType_MSG_TYPE_VIKJA_ENTITY_ACTION_RESPONSE)

	if got := setAction(10, ordinary, "ordinary"); got != accepted {
		t.Fatalf("the first action was not accepted: message type %d", got)
	}
	// newer than the stored one: must replace it
	if got := setAction(11, farFuture, "far-future"); got != accepted {
		t.Errorf("an action with a later client timestamp (seconds=MaxInt64) than the stored one (2026) was refused: message type %d", got)
	} else {
		// older than the stored one: must be refused
		if got := setAction(12, ordinary, "ordinary-again"); got == accepted {
			t.Errorf("an action with an older client timestamp (2026) replaced the stored one (seconds=MaxInt64)")
		}
	}

	// the other way round, on another name
	setAction2 := func(id uint32, ts *timestamppb.Timestamp, data string) int32 {
		send(clientA, &vikjapb.EntityActionRequest{
			Type: vikjapb.MsgType_MSG_TYPE_VIKJA_ENTITY_ACTION_REQUEST, Timestamp: timestamppb.Now(), RequestId: id,
			EntityAction: &vikjapb.EntityAction{EntityId: add.EntityId, Name: "act2", Timestamp: ts, Data: []byte(data)},
		})
		return recv(clientA, byReq(id)).typ
	}
	if got := setAction2(20, farFuture, "far-future"); got != accepted {
		t.Fatalf("the first action was not accepted: message type %d", got)
	}
	if got := setAction2(21, ordinary, "ordinary"); got == accepted {
		t.Errorf("an action with an older client timestamp (2026) replaced the stored one (seconds=MaxInt64) and was relayed")
	}
}
