// intended path: modules/vikja/hunt_state_farfuture_test.go
package vikja

import (
	"math"
	"testing"
	"time"

	"github.com/aukilabs/hagall-common/messages/vikjapb"
	"google.golang.org/protobuf/types/known/timestamppb"
)

// C16: the action with the latest client timestamp is kept. A timestamp whose
// seconds lie within 62135596800 (the seconds between year 1 and 1970) of
// MaxInt64 wraps around inside time.Unix and compares as older than anything.
func TestHuntStateFarFutureTimestamp(t *testing.T) {
	now := timestamppb.New(time.Date(2026, 9, 27, 0, 0, 0, 0, time.UTC))
	for _, far := range []*timestamppb.Timestamp{
		{Seconds: math.MaxInt64},
		{Seconds: math.MaxInt64 - 62135596800 + 1}, // the first one that wraps
		{Seconds: math.MaxInt64 - 62135596800},     // the last one that does not
	} {
		s := &State{}
		if !s.SetEntityActionIfLatest(&vikjapb.EntityAction{EntityId: 1, Name: "a", Timestamp: now}) {
			t.Fatal("the first action was refused")
		}
		if !s.SetEntityActionIfLatest(&vikjapb.EntityAction{EntityId: 1, Name: "a", Timestamp: far}) {
			t.Errorf("seconds=%d: newer than the stored action (2026), yet refused", far.Seconds)
			continue
		}
		if s.SetEntityActionIfLatest(&vikjapb.EntityAction{EntityId: 1, Name: "a", Timestamp: now}) {
			t.Errorf("seconds=%d: an older action (2026) replaced it", far.Seconds)
		}
	}
}
