// websocket/h15_vikja_nanos_test.go
package websocket

import (
	"context"
	"testing"
	"time"

	"github.com/aukilabs/hagall-common/messages/hagallpb"
	"github.com/aukilabs/hagall-common/messages/vikjapb"
	"github.com/aukilabs/hagall-common/scenario"
	hwebsocket "github.com/aukilabs/hagall-common/websocket"
	"github.com/stretchr/testify/require"
	"google.golang.org/protobuf/types/known/timestamppb"
)

// C16: "For each entity and action name the server keeps the action with the
// latest client timestamp: an action older than the stored one is refused".
//
// A protobuf Timestamp is seconds + nanos; the instant it names is
// seconds + nanos/1e9 (Timestamp.AsTime, time.Unix: "it is valid to pass nsec
// outside the range [0, 999999999]"). Since e3978dd the server compares the
// two fields one after the other, so a timestamp whose nanos are not
// normalised is ordered by its seconds field alone.
func TestH15EntityActionNanosNotNormalised(t *testing.T) {
	clientA, _, close := NewTestingEnv(t, newTestHandler(newVikjaTestModule))
	defer close()

	ctx, cancel := context.WithTimeout(context.Background(), 20*time.Second)
	defer cancel()

	var entityID uint32

	stored := &timestamppb.Timestamp{Seconds: 1000, Nanos: 0}            // t = 1000.0 s
	older := &timestamppb.Timestamp{Seconds: 1001, Nanos: -2_000_000_000} // t =  999.0 s
	newer := &timestamppb.Timestamp{Seconds: 999, Nanos: 2_000_000_000}   // t = 1001.0 s
	require.True(t, older.AsTime().Before(stored.AsTime()))
	require.True(t, newer.AsTime().After(stored.AsTime()))

	action := func(reqID uint32, name string, ts *timestamppb.Timestamp) func() hwebsocket.ProtoMsg {
		return func() hwebsocket.ProtoMsg {
			return &vikjapb.EntityActionRequest{
				Type:      vikjapb.MsgType_MSG_TYPE_VIKJA_ENTITY_ACTION_REQUEST,
				Timestamp: timestamppb.Now(),
				RequestId: reqID,
				EntityAction: &vikjapb.EntityAction{
					Name:      name,
					Timestamp: ts,
					EntityId:  entityID,
				},
			}
		}
	}

	var olderAnswer, newerAnswer string

	err := scenario.NewScenario(clientA).
		Send(func() hwebsocket.ProtoMsg {
			return &hagallpb.ParticipantJoinRequest{
				Type:      hagallpb.MsgType_MSG_TYPE_PARTICIPANT_JOIN_REQUEST,
				Timestamp: timestamppb.Now(),
				RequestId: 1,
			}
		}).
		Receive(
			scenario.FilterByRequestID(1),
			scenario.FilterByType(hagallpb.MsgType_MSG_TYPE_PARTICIPANT_JOIN_RESPONSE),
		).
		Send(func() hwebsocket.ProtoMsg {
			return &hagallpb.EntityAddRequest{
				Type:      hagallpb.MsgType_MSG_TYPE_ENTITY_ADD_REQUEST,
				Timestamp: timestamppb.Now(),
				RequestId: 2,
			}
		}).
		Receive(
			scenario.FilterByRequestID(2),
			scenario.FilterByType(hagallpb.MsgType_MSG_TYPE_ENTITY_ADD_RESPONSE),
			func(msg hwebsocket.Msg) error {
				var res hagallpb.EntityAddResponse
				err := msg.DataTo(&res)
				entityID = res.EntityId
				return err
			},
		).
		Send(action(3, "wave", stored)).
		Receive(
			scenario.FilterByRequestID(3),
			scenario.FilterByType(vikjapb.MsgType_MSG_TYPE_VIKJA_ENTITY_ACTION_RESPONSE),
		).
		// an action one second OLDER than the stored one
		Send(action(4, "wave", older)).
		Receive(
			scenario.FilterByRequestID(4),
			func(msg hwebsocket.Msg) error {
				olderAnswer = msg.TypeString()
				return nil
			},
		).
		// another action name, so that the two halves do not depend on each
		// other: the same reference, then an action one second NEWER
		Send(action(5, "nod", stored)).
		Receive(
			scenario.FilterByRequestID(5),
			scenario.FilterByType(vikjapb.MsgType_MSG_TYPE_VIKJA_ENTITY_ACTION_RESPONSE),
		).
		Send(action(6, "nod", newer)).
		Receive(
			scenario.FilterByRequestID(6),
			func(msg hwebsocket.Msg) error {
				newerAnswer = msg.TypeString()
				return nil
			},
		).
		Run(ctx)
	require.NoError(t, err)

	t.Logf("older action (999.0 s against stored 1000.0 s) answered with %s", olderAnswer)
	t.Logf("newer action (1001.0 s against stored 1000.0 s) answered with %s", newerAnswer)

	require.Equal(t, "MSG_TYPE_ERROR_RESPONSE", olderAnswer,
		"an action OLDER than the stored one (999.0 s < 1000.0 s) must be refused")
	require.Equal(t, "MSG_TYPE_VIKJA_ENTITY_ACTION_RESPONSE", newerAnswer,
		"an action NEWER than the stored one (1001.0 s > 1000.0 s) must replace it")
}
