// intended path: websocket/h8_huge_body_test.go  (needs websocket/h8_harness_test.go)
package websocket

import (
	"testing"
	"time"

	"github.com/aukilabs/hagall-common/messages/hagallpb"
)

// C14: "A body larger than 10240 bytes is refused with a too-large error and
// delivered to no one."  A custom message whose body is larger than the
// WebSocket library's default frame limit (32 MiB) is not refused with a
// too-large error: the connection is closed, the sender leaves the session
// (its entities are removed, its departure is relayed).
func TestH8CustomMessageLargerThanFrameLimitIsRefusedWithTooLarge(t *testing.T) {
	hs := newH8Server(t, 20*time.Millisecond, time.Minute)
	a := hs.client()
	a.join("")
	b := hs.client()
	b.join(a.sid)
	b.addEntity(false)
	a.fence()
	for _, size := range []int{10241, 1 << 20, 31 << 20, 33 << 20} {
		fromA, fromB := a.count(), b.count()
		b.custom(make([]byte, size))
		_, _, ok := b.waitFrom(fromB, h8Timeout, func(m h8Msg) bool {
			if m.typ != int32(hagallpb.MsgType_MSG_TYPE_ERROR_RESPONSE) {
				return false
			}
			var e hagallpb.ErrorResponse
			m.msg.DataTo(&e)
			return e.Code == hagallpb.ErrorCode_ERROR_CODE_TOO_LARGE
		})
		if !ok {
			t.Errorf("body of %d bytes: no too-large error (connection closed by the server: %v)", size, b.isClosed())
		}
		if !b.isClosed() {
			b.fence()
		} else {
			// give the departure time to be relayed
			a.waitFrom(fromA, 10*time.Second, func(m h8Msg) bool {
				return m.typ == int32(hagallpb.MsgType_MSG_TYPE_PARTICIPANT_LEAVE_BROADCAST)
			})
		}
		a.fence()
		if n := a.countType(fromA, hagallpb.MsgType_MSG_TYPE_CUSTOM_MESSAGE_BROADCAST); n != 0 {
			t.Errorf("body of %d bytes: delivered", size)
		}
		if n := a.countType(fromA, hagallpb.MsgType_MSG_TYPE_PARTICIPANT_LEAVE_BROADCAST); n != 0 {
			t.Errorf("body of %d bytes: the sender was removed from the session (leave broadcasts: %d, entity delete broadcasts: %d)",
				size, n, a.countType(fromA, hagallpb.MsgType_MSG_TYPE_ENTITY_DELETE_BROADCAST))
		}
		if b.isClosed() {
			break
		}
	}
}
