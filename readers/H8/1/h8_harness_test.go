// intended path: websocket/h8_harness_test.go  (test helper shared by the H8 reproductions; no test of its own)
package websocket

import (
	"context"
	"net/http"
	"net/http/httptest"
	"strings"
	"sync"
	"testing"
	"time"

	"github.com/aukilabs/go-tooling/pkg/logs"
	"github.com/aukilabs/hagall-common/messages/hagallpb"
	hwebsocket "github.com/aukilabs/hagall-common/websocket"
	"github.com/aukilabs/hagall/models"
	"github.com/aukilabs/hagall/modules"
	"github.com/aukilabs/hagall/modules/odal"
	"github.com/aukilabs/hagall/modules/vikja"
	"github.com/google/uuid"
	"golang.org/x/net/websocket"
	"google.golang.org/protobuf/types/known/timestamppb"
)

type h8Server struct {
	t      *testing.T
	srv    *httptest.Server
	store  *models.SessionStore
	frame  time.Duration
	idle   time.Duration
	reqIDs uint32
	mu     sync.Mutex
}

func newH8Server(t *testing.T, frame, idle time.Duration) *h8Server {
	logs.SetLogger(func(e logs.Entry) {})
	hs := &h8Server{t: t, frame: frame, idle: idle}
	hs.store = &models.SessionStore{DiscoveryService: &testClient{}}
	hs.srv = httptest.NewServer(websocket.Server{
		Handshake: func(c *websocket.Config, r *http.Request) error { return nil },
		Handler: func(conn *websocket.Conn) {
			defer conn.Close()
			var h Handler = &RealtimeHandler{
				ClientSyncClockInterval: time.Hour,
				ClientIdleTimeout:       hs.idle,
				FrameDuration:           hs.frame,
				Sessions:                hs.store,
				Modules:                 []modules.Module{&vikja.Module{}, &odal.Module{}},
			}
			defer h.Close()
			Handle(context.Background(), conn, h)
		},
	})
	t.Cleanup(hs.srv.Close)
	return hs
}

type h8Msg struct {
	typ int32
	msg hwebsocket.Msg
}

type h8Client struct {
	t      *testing.T
	hs     *h8Server
	conn   *websocket.Conn
	mu     sync.Mutex
	cond   *sync.Cond
	msgs   []h8Msg
	closed bool
	pid    uint32
	sid    string
	wmu    sync.Mutex
}

func (hs *h8Server) client() *h8Client {
	config, err := websocket.NewConfig(strings.ReplaceAll(hs.srv.URL, "http://", "ws://"), "http://localhost")
	if err != nil {
		hs.t.Fatal(err)
	}
	config.Header.Set("User-Agent", "ted")
	config.Header.Set("posemesh-client-id", uuid.NewString())
	conn, err := websocket.DialConfig(config)
	if err != nil {
		hs.t.Fatal(err)
	}
	c := &h8Client{t: hs.t, hs: hs, conn: conn}
	c.cond = sync.NewCond(&c.mu)
	go func() {
		for {
			msg, _, err := hwebsocket.Receive(conn)
			c.mu.Lock()
			if err != nil {
				c.closed = true
				c.cond.Broadcast()
				c.mu.Unlock()
				return
			}
			c.msgs = append(c.msgs, h8Msg{typ: int32(msg.Type.Number()), msg: msg})
			c.cond.Broadcast()
			c.mu.Unlock()
		}
	}()
	hs.t.Cleanup(func() { conn.Close() })
	return c
}

func (hs *h8Server) rid() uint32 {
	hs.mu.Lock()
	defer hs.mu.Unlock()
	hs.reqIDs++
	return hs.reqIDs
}

func (c *h8Client) send(p hwebsocket.ProtoMsg) {
	msg, err := hwebsocket.MsgFromProto(p)
	if err != nil {
		c.t.Fatal(err)
	}
	c.wmu.Lock()
	defer c.wmu.Unlock()
	if _, err := hwebsocket.Send(c.conn, msg); err != nil {
		c.t.Logf("send failed: %v", err)
	}
}

// waitFrom waits for the first message at index >= from that matches; returns it and its index.
func (c *h8Client) waitFrom(from int, timeout time.Duration, match func(h8Msg) bool) (h8Msg, int, bool) {
	deadline := time.Now().Add(timeout)
	timer := time.AfterFunc(timeout, func() {
		c.mu.Lock()
		c.cond.Broadcast()
		c.mu.Unlock()
	})
	defer timer.Stop()
	c.mu.Lock()
	defer c.mu.Unlock()
	i := from
	for {
		for ; i < len(c.msgs); i++ {
			if match(c.msgs[i]) {
				return c.msgs[i], i, true
			}
		}
		if c.closed || time.Now().After(deadline) {
			return h8Msg{}, -1, false
		}
		c.cond.Wait()
	}
}

func (c *h8Client) count() int {
	c.mu.Lock()
	defer c.mu.Unlock()
	return len(c.msgs)
}

func (c *h8Client) snapshot(from int) []h8Msg {
	c.mu.Lock()
	defer c.mu.Unlock()
	out := make([]h8Msg, len(c.msgs)-from)
	copy(out, c.msgs[from:])
	return out
}

func (c *h8Client) isClosed() bool {
	c.mu.Lock()
	defer c.mu.Unlock()
	return c.closed
}

const h8Timeout = 20 * time.Second

// response waits for the response (or error response) with the given request id.
func (c *h8Client) response(from int, rid uint32) h8Msg {
	m, _, ok := c.waitFrom(from, h8Timeout, func(m h8Msg) bool {
		var r hagallpb.Response
		if err := m.msg.DataTo(&r); err != nil {
			return false
		}
		return r.RequestId == rid && m.typ != int32(hagallpb.MsgType_MSG_TYPE_PING_REQUEST)
	})
	if !ok {
		c.t.Fatalf("no response to request %d", rid)
	}
	return m
}

// fence makes sure everything sent so far by this client has been handled and everything queued
// for this client before has been received.
func (c *h8Client) fence() {
	from := c.count()
	rid := c.hs.rid()
	c.send(&hagallpb.Request{Type: hagallpb.MsgType_MSG_TYPE_PING_REQUEST, Timestamp: timestamppb.Now(), RequestId: rid})
	_, _, ok := c.waitFrom(from, h8Timeout, func(m h8Msg) bool {
		if m.typ != int32(hagallpb.MsgType_MSG_TYPE_PING_RESPONSE) {
			return false
		}
		var r hagallpb.Response
		m.msg.DataTo(&r)
		return r.RequestId == rid
	})
	if !ok {
		c.t.Fatalf("fence failed")
	}
}

func (c *h8Client) join(sessionID string) *hagallpb.SessionState {
	from := c.count()
	rid := c.hs.rid()
	c.send(&hagallpb.ParticipantJoinRequest{Type: hagallpb.MsgType_MSG_TYPE_PARTICIPANT_JOIN_REQUEST, Timestamp: timestamppb.Now(), RequestId: rid, SessionId: sessionID})
	m := c.response(from, rid)
	if m.typ != int32(hagallpb.MsgType_MSG_TYPE_PARTICIPANT_JOIN_RESPONSE) {
		c.t.Fatalf("join failed: type %d", m.typ)
	}
	var r hagallpb.ParticipantJoinResponse
	m.msg.DataTo(&r)
	c.pid = r.ParticipantId
	c.sid = r.SessionId
	sm, _, ok := c.waitFrom(from, h8Timeout, func(m h8Msg) bool { return m.typ == int32(hagallpb.MsgType_MSG_TYPE_SESSION_STATE) })
	if !ok {
		c.t.Fatalf("no session state")
	}
	var st hagallpb.SessionState
	sm.msg.DataTo(&st)
	return &st
}

func (c *h8Client) addEntity(persist bool) uint32 {
	from := c.count()
	rid := c.hs.rid()
	c.send(&hagallpb.EntityAddRequest{Type: hagallpb.MsgType_MSG_TYPE_ENTITY_ADD_REQUEST, Timestamp: timestamppb.Now(), RequestId: rid, Persist: persist,
		Pose: &hagallpb.Pose{Px: 1, Rw: 1}})
	m := c.response(from, rid)
	if m.typ != int32(hagallpb.MsgType_MSG_TYPE_ENTITY_ADD_RESPONSE) {
		c.t.Fatalf("entity add failed: type %d", m.typ)
	}
	var r hagallpb.EntityAddResponse
	m.msg.DataTo(&r)
	return r.EntityId
}

func (c *h8Client) addType(name string) uint32 {
	from := c.count()
	rid := c.hs.rid()
	c.send(&hagallpb.EntityComponentTypeAddRequest{Type: hagallpb.MsgType_MSG_TYPE_ENTITY_COMPONENT_TYPE_ADD_REQUEST, Timestamp: timestamppb.Now(), RequestId: rid, EntityComponentTypeName: name})
	m := c.response(from, rid)
	if m.typ != int32(hagallpb.MsgType_MSG_TYPE_ENTITY_COMPONENT_TYPE_ADD_RESPONSE) {
		c.t.Fatalf("type add failed: type %d", m.typ)
	}
	var r hagallpb.EntityComponentTypeAddResponse
	m.msg.DataTo(&r)
	return r.EntityComponentTypeId
}

// request sends p (which must carry request id rid) and returns the type of the response and the error code, if any.
func (c *h8Client) request(rid uint32, p hwebsocket.ProtoMsg) (int32, hagallpb.ErrorCode) {
	from := c.count()
	c.send(p)
	m := c.response(from, rid)
	if m.typ == int32(hagallpb.MsgType_MSG_TYPE_ERROR_RESPONSE) {
		var e hagallpb.ErrorResponse
		m.msg.DataTo(&e)
		return m.typ, e.Code
	}
	return m.typ, 0
}

func (c *h8Client) addComponent(typeID, entityID uint32, data []byte) (int32, hagallpb.ErrorCode) {
	rid := c.hs.rid()
	return c.request(rid, &hagallpb.EntityComponentAddRequest{Type: hagallpb.MsgType_MSG_TYPE_ENTITY_COMPONENT_ADD_REQUEST, Timestamp: timestamppb.Now(), RequestId: rid, EntityComponentTypeId: typeID, EntityId: entityID, Data: data})
}

func (c *h8Client) deleteComponent(typeID, entityID uint32) (int32, hagallpb.ErrorCode) {
	rid := c.hs.rid()
	return c.request(rid, &hagallpb.EntityComponentDeleteRequest{Type: hagallpb.MsgType_MSG_TYPE_ENTITY_COMPONENT_DELETE_REQUEST, Timestamp: timestamppb.Now(), RequestId: rid, EntityComponentTypeId: typeID, EntityId: entityID})
}

func (c *h8Client) subscribe(typeID uint32) (int32, hagallpb.ErrorCode) {
	rid := c.hs.rid()
	return c.request(rid, &hagallpb.EntityComponentTypeSubscribeRequest{Type: hagallpb.MsgType_MSG_TYPE_ENTITY_COMPONENT_TYPE_SUBSCRIBE_REQUEST, Timestamp: timestamppb.Now(), RequestId: rid, EntityComponentTypeId: typeID})
}

func (c *h8Client) unsubscribe(typeID uint32) (int32, hagallpb.ErrorCode) {
	rid := c.hs.rid()
	return c.request(rid, &hagallpb.EntityComponentTypeUnsubscribeRequest{Type: hagallpb.MsgType_MSG_TYPE_ENTITY_COMPONENT_TYPE_UNSUBSCRIBE_REQUEST, Timestamp: timestamppb.Now(), RequestId: rid, EntityComponentTypeId: typeID})
}

func (c *h8Client) deleteEntity(entityID uint32) (int32, hagallpb.ErrorCode) {
	rid := c.hs.rid()
	return c.request(rid, &hagallpb.EntityDeleteRequest{Type: hagallpb.MsgType_MSG_TYPE_ENTITY_DELETE_REQUEST, Timestamp: timestamppb.Now(), RequestId: rid, EntityId: entityID})
}

func (c *h8Client) listComponents(typeID uint32) []*hagallpb.EntityComponent {
	from := c.count()
	rid := c.hs.rid()
	c.send(&hagallpb.EntityComponentListRequest{Type: hagallpb.MsgType_MSG_TYPE_ENTITY_COMPONENT_LIST_REQUEST, Timestamp: timestamppb.Now(), RequestId: rid, EntityComponentTypeId: typeID})
	m := c.response(from, rid)
	var r hagallpb.EntityComponentListResponse
	m.msg.DataTo(&r)
	return r.EntityComponents
}

func (c *h8Client) updateComponent(typeID, entityID uint32, data []byte) {
	c.send(&hagallpb.EntityComponentUpdate{Type: hagallpb.MsgType_MSG_TYPE_ENTITY_COMPONENT_UPDATE, Timestamp: timestamppb.Now(), EntityComponentTypeId: typeID, EntityId: entityID, Data: data})
}

func (c *h8Client) updatePose(entityID uint32, px float32) {
	c.send(&hagallpb.EntityUpdatePose{Type: hagallpb.MsgType_MSG_TYPE_ENTITY_UPDATE_POSE, Timestamp: timestamppb.Now(), EntityId: entityID, Pose: &hagallpb.Pose{Px: px, Rw: 1}})
}

func (c *h8Client) custom(body []byte, to ...uint32) {
	c.send(&hagallpb.CustomMessage{Type: hagallpb.MsgType_MSG_TYPE_CUSTOM_MESSAGE, Timestamp: timestamppb.Now(), ParticipantIds: to, Body: body})
}

func (c *h8Client) countType(from int, typ hagallpb.MsgType) int {
	n := 0
	for _, m := range c.snapshot(from) {
		if m.typ == int32(typ) {
			n++
		}
	}
	return n
}

func nowTS() *timestamppb.Timestamp { return timestamppb.Now() }
