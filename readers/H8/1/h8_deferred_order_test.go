// intended path: websocket/h8_deferred_order_test.go  (needs websocket/h8_harness_test.go)
package websocket

import (
	"testing"
	"time"

	"github.com/aukilabs/hagall-common/messages/hagallpb"
)

// C02: "The relays caused by one participant reach each recipient in the order
// in which that participant made the requests (pose and component updates,
// which wait for the next frame, keep their order per entity only)."
//
// One participant (a) sends, for ONE entity e, in this order and in one burst:
//
//	component update (t1, e), component update (t2, e), pose update (e)
//
// A subscriber (b) of t1 and t2 must be relayed the three updates in that
// order.  Observed: the pose update is always relayed first, and the two
// component updates are relayed in a random order.
func TestH8DeferredUpdatesOfOneEntityKeepTheirOrder(t *testing.T) {
	hs := newH8Server(t, 50*time.Millisecond, time.Minute)
	a := hs.client()
	a.join("")
	b := hs.client()
	b.join(a.sid)
	t1 := a.addType("t1")
	t2 := a.addType("t2")
	e := a.addEntity(false)
	a.addComponent(t1, e, []byte{0})
	a.addComponent(t2, e, []byte{0})
	b.subscribe(t1)
	b.subscribe(t2)
	a.fence()
	b.fence()

	const rounds = 40
	inversionsCC, inversionsCP := 0, 0
	for i := 1; i <= rounds; i++ {
		from := b.count()
		a.updateComponent(t1, e, []byte{byte(i)})
		a.updateComponent(t2, e, []byte{byte(i)})
		a.updatePose(e, float32(i))

		// the three relays of this round, in the order b receives them
		var order []string
		idx := from
		for len(order) < 3 {
			m, at, ok := b.waitFrom(idx, h8Timeout, func(m h8Msg) bool {
				return m.typ == int32(hagallpb.MsgType_MSG_TYPE_ENTITY_COMPONENT_UPDATE_BROADCAST) ||
					m.typ == int32(hagallpb.MsgType_MSG_TYPE_ENTITY_UPDATE_POSE_BROADCAST)
			})
			if !ok {
				t.Fatalf("round %d: a relay is missing (got %v)", i, order)
			}
			idx = at + 1
			if m.typ == int32(hagallpb.MsgType_MSG_TYPE_ENTITY_UPDATE_POSE_BROADCAST) {
				order = append(order, "pose")
				continue
			}
			var u hagallpb.EntityComponentUpdateBroadcast
			m.msg.DataTo(&u)
			if u.EntityComponent.EntityComponentTypeId == t1 {
				order = append(order, "t1")
			} else {
				order = append(order, "t2")
			}
		}
		pos := map[string]int{}
		for k, o := range order {
			pos[o] = k
		}
		if pos["t2"] < pos["t1"] {
			inversionsCC++
			if inversionsCC == 1 {
				t.Logf("round %d: requested [t1 t2 pose], relayed %v", i, order)
			}
		}
		if pos["pose"] < pos["t1"] || pos["pose"] < pos["t2"] {
			inversionsCP++
			if inversionsCP == 1 {
				t.Logf("round %d: requested [t1 t2 pose], relayed %v", i, order)
			}
		}
	}
	t.Logf("%d rounds: (t2,e) relayed before the earlier (t1,e): %d times; pose(e) relayed before an earlier component update of e: %d times",
		rounds, inversionsCC, inversionsCP)
	if inversionsCC > 0 || inversionsCP > 0 {
		t.Errorf("updates of ONE entity made by ONE participant were relayed to a member in another order than they were requested")
	}
}
