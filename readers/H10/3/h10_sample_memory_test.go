// intended path: modules/dagaz/h10_sample_memory_test.go
//
// H10/3 - C08 ("no client behaviour can crash the server"): one ground-plane
// sample that passes the validation added by the fix 585cf55 (every coordinate
// within +-4096) makes the server allocate, and keep for as long as the session
// lives, hundreds of megabytes: the grid is dense, a cell per 2 m x 2 m between
// its farthest samples, and the plane is appended to every cell it covers. The
// message is about 30 bytes long. (Two samples in opposite corners give a grid four
// times as large; every further plane at another height adds 8 bytes per cell;
// any participant of any session can do it, sessions are free to create.)
package dagaz

import (
	"context"
	"runtime"
	"testing"
	"time"

	"github.com/aukilabs/hagall-common/messages/dagazpb"
	hwebsocket "github.com/aukilabs/hagall-common/websocket"
	"github.com/aukilabs/hagall/models"
	"google.golang.org/protobuf/proto"
	"google.golang.org/protobuf/types/known/timestamppb"
)

func TestH10OneAcceptedSampleRetainsHundredsOfMegabytes(t *testing.T) {
	// what one message may cost the server, generously: two million times its size
	const limit = 64 << 20

	m := &Module{}
	session := models.NewSession(1, time.Hour)
	defer session.Close()
	m.Init(session, &models.Participant{ID: 1})

	sample := &dagazpb.DagazQuadSample{
		Type:      dagazpb.MsgType_MSG_TYPE_DAGAZ_QUAD_SAMPLE,
		Timestamp: timestamppb.Now(),
		Samples: []*dagazpb.Quad{{
			Center:  &dagazpb.Point{X: 0, Y: 0, Z: 0},
			Extents: &dagazpb.Point{X: maxCoordinate, Y: 0, Z: maxCoordinate},
		}},
	}
	if !validPoint(sample.Samples[0].Center) || !validPoint(sample.Samples[0].Extents) {
		t.Fatal("the sample is not one the module accepts")
	}
	msg, err := hwebsocket.MsgFromProto(sample)
	if err != nil {
		t.Fatal(err)
	}
	wire, _ := proto.Marshal(sample)

	var before, after runtime.MemStats
	runtime.GC()
	runtime.ReadMemStats(&before)
	start := time.Now()
	if err := m.HandleMsg(context.Background(), nil, msg); err != nil {
		t.Fatal(err)
	}
	elapsed := time.Since(start)
	runtime.GC()
	runtime.ReadMemStats(&after)

	retained := int64(after.HeapAlloc) - int64(before.HeapAlloc)
	info := m.state.SpatialPartition.GetDebugInfo()
	t.Logf("a sample message of %d bytes: grid of %d x %d cells, %d MB and %d objects retained, handled in %v",
		len(wire), info.Row_count, info.Col_count, retained>>20, int64(after.HeapObjects)-int64(before.HeapObjects), elapsed)
	if retained > limit {
		t.Fatalf("one accepted sample message of %d bytes made the server retain %d MB (limit of this test: %d MB)", len(wire), retained>>20, limit>>20)
	}
	runtime.KeepAlive(m)
	runtime.KeepAlive(session)
}
