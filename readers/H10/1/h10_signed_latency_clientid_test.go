// intended path: websocket/h10_signed_latency_clientid_test.go
//
// H10/1 - C18 (and C04): a signed latency measurement of a client whose
// posemesh-client-id header is not valid UTF-8 (for instance Latin-1 "caf\xe9")
// runs all its ping rounds and is then never answered: the latency data cannot
// be marshalled, the failure is reported against the id of the last PING, and
// the signed latency request stays without any response.
package websocket

import (
	"context"
	"fmt"
	"net/http"
	"net/http/httptest"
	"strings"
	"testing"
	"time"

	httpcmn "github.com/aukilabs/hagall-common/http"
	"github.com/aukilabs/hagall-common/messages/hagallpb"
	hwebsocket "github.com/aukilabs/hagall-common/websocket"
	"github.com/aukilabs/hagall/models"
	"github.com/ethereum/go-ethereum/common"
	"github.com/ethereum/go-ethereum/crypto"
	"golang.org/x/net/websocket"
	"google.golang.org/protobuf/proto"
	"google.golang.org/protobuf/types/known/timestamppb"
)

func TestH10SignedLatencyClientIDNotUTF8(t *testing.T) {
	store := &models.SessionStore{DiscoveryService: &testClient{}}
	key, err := crypto.GenerateKey()
	if err != nil {
		t.Fatal(err)
	}
	server := httptest.NewServer(websocket.Server{
		Handshake: func(c *websocket.Config, r *http.Request) error { return nil },
		Handler: func(conn *websocket.Conn) {
			defer conn.Close()
			var h Handler = &RealtimeHandler{
				ClientSyncClockInterval: time.Hour,
				ClientIdleTimeout:       5 * time.Minute,
				FrameDuration:           20 * time.Millisecond,
				Sessions:                store,
				PrivateKey:              key,
			}
			h = HandlerWithLogs(h, time.Hour)
			h = HandlerWithMetrics(h, "https://auki-test.com")
			defer h.Close()
			Handle(context.Background(), conn, h)
		},
	})
	defer server.Close()

	send := func(c *websocket.Conn, m hwebsocket.ProtoMsg) {
		msg, err := hwebsocket.MsgFromProto(m)
		if err != nil {
			t.Fatal(err)
		}
		if _, err := hwebsocket.Send(c, msg); err != nil {
			t.Fatalf("send: %v", err)
		}
	}

	// the first id is the control: same exchange, answered as expected
	for _, clientID := range []string{"cafe", "caf\xe9"} {
		config, err := websocket.NewConfig(strings.ReplaceAll(server.URL, "http://", "ws://"), "http://localhost")
		if err != nil {
			t.Fatal(err)
		}
		config.Header.Set(httpcmn.HeaderPosemeshClientID, clientID)
		c, err := websocket.DialConfig(config)
		if err != nil {
			t.Fatal(err)
		}

		send(c, &hagallpb.ParticipantJoinRequest{
			Type:      hagallpb.MsgType_MSG_TYPE_PARTICIPANT_JOIN_REQUEST,
			Timestamp: timestamppb.Now(),
			RequestId: 1,
		})
		const rounds = 3
		const requestID = 7
		send(c, &hagallpb.SignedLatencyRequest{
			Type:           hagallpb.MsgType_MSG_TYPE_SIGNED_LATENCY_REQUEST,
			Timestamp:      timestamppb.Now(),
			RequestId:      requestID,
			IterationCount: rounds,
			WalletAddress:  "0xabc",
		})

		var seen []string
		pings := 0
		answers := 0
		deadline := time.Now().Add(20 * time.Second)
		for answers == 0 {
			c.SetReadDeadline(deadline)
			msg, _, err := hwebsocket.Receive(c)
			if err != nil {
				t.Fatalf("client id %q: the signed latency request %d got no response at all after its %d ping rounds were answered; received: %v",
					clientID, requestID, pings, seen)
			}
			switch msg.Type {
			case hagallpb.MsgType_MSG_TYPE_PING_REQUEST:
				var p hagallpb.Response
				if err := msg.DataTo(&p); err != nil {
					t.Fatal(err)
				}
				pings++
				seen = append(seen, fmt.Sprintf("ping(%d)", p.RequestId))
				send(c, &hagallpb.Response{
					Type:      hagallpb.MsgType_MSG_TYPE_PING_RESPONSE,
					Timestamp: timestamppb.Now(),
					RequestId: p.RequestId,
				})

			case hagallpb.MsgType_MSG_TYPE_ERROR_RESPONSE:
				var r hagallpb.ErrorResponse
				if err := msg.DataTo(&r); err != nil {
					t.Fatal(err)
				}
				seen = append(seen, fmt.Sprintf("error(%v, request id %d)", r.Code, r.RequestId))
				if r.RequestId == requestID {
					answers++ // an error answer would at least be an answer
				}

			case hagallpb.MsgType_MSG_TYPE_SIGNED_LATENCY_RESPONSE:
				var r hagallpb.SignedLatencyResponse
				if err := msg.DataTo(&r); err != nil {
					t.Fatal(err)
				}
				if r.RequestId != requestID {
					t.Fatalf("response for request %d", r.RequestId)
				}
				answers++
				var data hagallpb.LatencyData
				if err := proto.Unmarshal(r.Data, &data); err != nil {
					t.Fatal(err)
				}
				pub, err := crypto.SigToPub(crypto.Keccak256Hash(r.Data).Bytes(), common.FromHex(r.Signature))
				if err != nil {
					t.Fatal(err)
				}
				if crypto.PubkeyToAddress(*pub) != crypto.PubkeyToAddress(key.PublicKey) {
					t.Fatalf("signature does not verify")
				}
				if data.IterationCount != rounds || len(data.PingRequestIds) != rounds {
					t.Fatalf("rounds: %v", &data)
				}
			}
		}
		if pings != rounds {
			t.Fatalf("client id %q: %d ping rounds, want %d", clientID, pings, rounds)
		}
		t.Logf("client id %q: answered; received %v", clientID, seen)
		c.Close()
	}
}
