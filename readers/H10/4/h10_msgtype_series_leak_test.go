// intended path: websocket/h10_msgtype_series_leak_test.go
//
// H10/4 - C08 ("no client behaviour can crash the server"): the type number of
// a received message is client data (any int32), and it is used, unchecked, as a
// label of the process-wide Prometheus metrics (ws_received_msgs,
// ws_received_bytes, ws_msg_latency) and as the key of the process-wide
// hwebsocket type-name cache. Every distinct number a client sends creates time
// series that are never released, not even when the client is gone: a client
// that counts upwards makes the server grow by about 5 kB per 12-byte message (with the three modules),
// without bound.
package websocket

import (
	"context"
	"net/http"
	"net/http/httptest"
	"runtime"
	"strings"
	"testing"
	"time"

	"github.com/aukilabs/hagall-common/messages/hagallpb"
	hwebsocket "github.com/aukilabs/hagall-common/websocket"
	"github.com/aukilabs/hagall/models"
	"github.com/aukilabs/hagall/modules"
	"github.com/aukilabs/hagall/modules/dagaz"
	"github.com/aukilabs/hagall/modules/odal"
	"github.com/aukilabs/hagall/modules/vikja"
	"github.com/prometheus/client_golang/prometheus"
	"golang.org/x/net/websocket"
	"google.golang.org/protobuf/types/known/timestamppb"
)

func h10CountSeries(cs ...prometheus.Collector) int {
	n := 0
	for _, c := range cs {
		ch := make(chan prometheus.Metric, 1024)
		done := make(chan struct{})
		go func() {
			for range ch {
				n++
			}
			close(done)
		}()
		c.Collect(ch)
		close(ch)
		<-done
	}
	return n
}

func TestH10UnknownMessageTypesLeakMetricSeries(t *testing.T) {
	const messages = 20000

	store := &models.SessionStore{DiscoveryService: &testClient{}}
	ended := make(chan struct{}, 8)
	server := httptest.NewServer(websocket.Server{
		Handshake: func(c *websocket.Config, r *http.Request) error { return nil },
		Handler: func(conn *websocket.Conn) {
			defer conn.Close()
			var h Handler = &RealtimeHandler{
				ClientSyncClockInterval: time.Hour,
				ClientIdleTimeout:       5 * time.Minute,
				FrameDuration:           20 * time.Millisecond,
				Sessions:                store,
				Modules:                 []modules.Module{&vikja.Module{}, &odal.Module{}, &dagaz.Module{}},
			}
			h = HandlerWithLogs(h, time.Hour)
			h = HandlerWithMetrics(h, "https://auki-test.com")
			defer h.Close()
			Handle(context.Background(), conn, h)
			ended <- struct{}{}
		},
	})
	defer server.Close()

	config, err := websocket.NewConfig(strings.ReplaceAll(server.URL, "http://", "ws://"), "http://localhost")
	if err != nil {
		t.Fatal(err)
	}
	c, err := websocket.DialConfig(config)
	if err != nil {
		t.Fatal(err)
	}
	send := func(m hwebsocket.ProtoMsg) {
		msg, err := hwebsocket.MsgFromProto(m)
		if err != nil {
			t.Fatal(err)
		}
		if _, err := hwebsocket.Send(c, msg); err != nil {
			t.Fatalf("send: %v", err)
		}
	}
	waitFor := func(typ hagallpb.MsgType) {
		for {
			c.SetReadDeadline(time.Now().Add(2 * time.Minute))
			msg, _, err := hwebsocket.Receive(c)
			if err != nil {
				t.Fatalf("waiting for %v: %v", typ, err)
			}
			if msg.Type == typ {
				return
			}
		}
	}

	send(&hagallpb.ParticipantJoinRequest{
		Type:      hagallpb.MsgType_MSG_TYPE_PARTICIPANT_JOIN_REQUEST,
		Timestamp: timestamppb.Now(),
		RequestId: 1,
	})
	waitFor(hagallpb.MsgType_MSG_TYPE_PARTICIPANT_JOIN_RESPONSE)

	var before, after runtime.MemStats
	runtime.GC()
	runtime.ReadMemStats(&before)
	seriesBefore := h10CountSeries(wsReceivedMsgs, wsReceivedBytes, wsMsgLatency)

	// messages of types nobody knows: the server ignores each of them
	for i := 0; i < messages; i++ {
		send(&hagallpb.Request{Type: hagallpb.MsgType(1000000 + i), Timestamp: timestamppb.Now()})
	}
	// the server has handled them all once it answers this
	send(&hagallpb.Request{Type: hagallpb.MsgType_MSG_TYPE_PING_REQUEST, Timestamp: timestamppb.Now(), RequestId: 2})
	waitFor(hagallpb.MsgType_MSG_TYPE_PING_RESPONSE)

	c.Close()
	select {
	case <-ended:
	case <-time.After(2 * time.Minute):
		t.Fatal("the handler did not return")
	}

	runtime.GC()
	runtime.ReadMemStats(&after)
	seriesAfter := h10CountSeries(wsReceivedMsgs, wsReceivedBytes, wsMsgLatency)

	t.Logf("%d ignored messages from one client, now gone: %d more metric series, %d MB more heap", messages,
		seriesAfter-seriesBefore, (int64(after.HeapAlloc)-int64(before.HeapAlloc))>>20)
	// a handful of new series (ping, join) is fine; one or more per message is not
	if seriesAfter-seriesBefore > 100 {
		t.Fatalf("%d messages of unknown types left %d metric series behind for ever", messages, seriesAfter-seriesBefore)
	}
}
