// intended path: websocket/h10_idle_poseless_test.go
//
// H10/2 - C08 ("A client that stays silent for the idle timeout is
// disconnected ...; one that keeps sending is not"): a participant that keeps
// sending entity pose updates that carry no pose is disconnected as idle. Since
// the fix 4deb792 such an update is dropped by the receiver goroutine
// (handler.dispatch) and never reaches the main loop, which is the only place
// where the idle timer is reset.
package websocket

import (
	"context"
	"net/http"
	"net/http/httptest"
	"strings"
	"testing"
	"time"

	"github.com/aukilabs/hagall-common/messages/hagallpb"
	hwebsocket "github.com/aukilabs/hagall-common/websocket"
	"github.com/aukilabs/hagall/models"
	"golang.org/x/net/websocket"
	"google.golang.org/protobuf/types/known/timestamppb"
)

func TestH10ClientSendingPoselessUpdatesIsDisconnectedAsIdle(t *testing.T) {
	const idle = 4 * time.Second

	store := &models.SessionStore{DiscoveryService: &testClient{}}
	ended := make(chan struct{}, 8)
	server := httptest.NewServer(websocket.Server{
		Handshake: func(c *websocket.Config, r *http.Request) error { return nil },
		Handler: func(conn *websocket.Conn) {
			defer conn.Close()
			var h Handler = &RealtimeHandler{
				ClientSyncClockInterval: time.Hour,
				ClientIdleTimeout:       idle,
				FrameDuration:           20 * time.Millisecond,
				Sessions:                store,
			}
			h = HandlerWithLogs(h, time.Hour)
			h = HandlerWithMetrics(h, "https://auki-test.com")
			defer h.Close()
			Handle(context.Background(), conn, h)
			ended <- struct{}{}
		},
	})
	defer server.Close()

	// keepSending joins a session, then sends one pose update for the entity 1
	// (which does not exist: the update has no effect either way) every 100ms
	// for the given time. It returns after how long the server ended the
	// connection, or 0 if it did not.
	keepSending := func(withPose bool, during time.Duration) time.Duration {
		config, err := websocket.NewConfig(strings.ReplaceAll(server.URL, "http://", "ws://"), "http://localhost")
		if err != nil {
			t.Fatal(err)
		}
		c, err := websocket.DialConfig(config)
		if err != nil {
			t.Fatal(err)
		}
		defer c.Close()
		go func() { // discard what the server sends
			for {
				if _, _, err := hwebsocket.Receive(c); err != nil {
					return
				}
			}
		}()

		send := func(m hwebsocket.ProtoMsg) error {
			msg, err := hwebsocket.MsgFromProto(m)
			if err != nil {
				t.Fatal(err)
			}
			_, err = hwebsocket.Send(c, msg)
			return err
		}
		if err := send(&hagallpb.ParticipantJoinRequest{
			Type:      hagallpb.MsgType_MSG_TYPE_PARTICIPANT_JOIN_REQUEST,
			Timestamp: timestamppb.Now(),
			RequestId: 1,
		}); err != nil {
			t.Fatal(err)
		}

		start := time.Now()
		for time.Since(start) < during {
			update := &hagallpb.EntityUpdatePose{
				Type:      hagallpb.MsgType_MSG_TYPE_ENTITY_UPDATE_POSE,
				Timestamp: timestamppb.Now(),
				EntityId:  1,
			}
			if withPose {
				update.Pose = &hagallpb.Pose{Px: 1}
			}
			if err := send(update); err != nil {
				return time.Since(start)
			}
			select {
			case <-ended:
				return time.Since(start)
			case <-time.After(100 * time.Millisecond):
			}
		}
		return 0
	}

	// control: the same traffic with a pose keeps the connection
	if after := keepSending(true, 2*idle+idle/2); after != 0 {
		t.Fatalf("control: the connection was ended after %v", after)
	}
	<-ended // the control client has closed its connection

	if after := keepSending(false, 2*idle+idle/2); after != 0 {
		t.Fatalf("the connection of a client that sent a message every 100ms was ended after %v (idle timeout %v)", after, idle)
	}
}
