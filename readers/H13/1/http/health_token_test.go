// intended path: http/health_token_test.go
package http

import (
	"context"
	"net/http"
	"net/http/httptest"
	"strings"
	"sync/atomic"
	"testing"
	"time"

	hds "github.com/aukilabs/hagall-common/hdsclient"
	httpcmn "github.com/aukilabs/hagall-common/http"
	"github.com/stretchr/testify/assert"
	"github.com/stretchr/testify/require"
	"golang.org/x/net/websocket"
)

// The public service of cmd/main.go, reduced to the three routes that matter
// here and wired the same way: /health is the discovery client's health check,
// / is the relay behind VerifyAuthToken, /smoke-test is the smoke test trigger
// behind VerifyAuthTokenHandler.
func newPublicService(hdsClient *hds.Client, relayed, smoked *int32) http.Handler {
	var service http.ServeMux

	service.Handle("/health", HandleWithCORS(http.HandlerFunc(hdsClient.HandleHealthCheck)))

	service.HandleFunc("/smoke-test", VerifyAuthTokenHandler(hdsClient, func(w http.ResponseWriter, r *http.Request) {
		atomic.AddInt32(smoked, 1)
		w.WriteHeader(http.StatusOK)
	}))

	service.Handle("/", HandleWithCORS(websocket.Server{
		Handshake: VerifyAuthToken(context.Background(), hdsClient),
		Handler: func(conn *websocket.Conn) {
			defer conn.Close()
			atomic.AddInt32(relayed, 1)
		},
	}))

	return &service
}

// C15: a client that was never given a token by the discovery service must not
// reach the relay nor the smoke test. Here the client knows nothing: neither
// the secret nor any token. It asks the server's own public /health endpoint,
// announcing itself as "HDS v...", and is handed - in the Authorization
// response header - a token signed with the secret the discovery service
// issued to this server. That token is accepted as a user access token.
func TestHealthCheckHandsOutAnAdmissionToken(t *testing.T) {
	secret := httpcmn.MakeJWTSecret() // known to HDS and to the server only

	hdsClient := hds.NewClient(
		hds.WithHagallEndpoint("http://hagall.test"),
		hds.WithSecret(secret),
		hds.WithServerID("srv"),
	)

	var relayed, smoked int32
	server := httptest.NewServer(newPublicService(hdsClient, &relayed, &smoked))
	defer server.Close()

	// Control: without a token, and with a token signed with another secret,
	// the client is turned away.
	wsURL := "ws" + strings.TrimPrefix(server.URL, "http")
	_, err := websocket.Dial(wsURL, "", server.URL)
	require.Error(t, err, "no token: must be refused")

	other, err := httpcmn.GenerateHagallUserAccessToken("app", httpcmn.MakeJWTSecret(), time.Minute)
	require.NoError(t, err)
	_, err = websocket.Dial(wsURL+"?access_token="+other, "", server.URL)
	require.Error(t, err, "token signed with another secret: must be refused")
	require.EqualValues(t, 0, atomic.LoadInt32(&relayed))

	// The attack: one unauthenticated GET.
	req, err := http.NewRequest(http.MethodGet, server.URL+"/health", nil)
	require.NoError(t, err)
	req.Header.Set("User-Agent", "HDS v0")
	res, err := http.DefaultClient.Do(req)
	require.NoError(t, err)
	res.Body.Close()
	require.Equal(t, http.StatusOK, res.StatusCode)

	leaked := strings.TrimPrefix(res.Header.Get("Authorization"), "Bearer ")
	t.Logf("token handed out by /health to an anonymous caller: %q", leaked)

	if leaked != "" {
		// in each of the three carriers
		cfg, err := websocket.NewConfig(wsURL, server.URL)
		require.NoError(t, err)
		cfg.Header.Set("Authorization", "Bearer "+leaked)
		if conn, err := websocket.DialConfig(cfg); err == nil {
			conn.Close()
		}

		if conn, err := websocket.Dial(wsURL+"?access_token="+leaked, "", server.URL); err == nil {
			conn.Close()
		}

		cfg, err = websocket.NewConfig(wsURL, server.URL)
		require.NoError(t, err)
		cfg.Header.Set("Cookie", (&http.Cookie{Name: "access_token", Value: leaked}).String())
		if conn, err := websocket.DialConfig(cfg); err == nil {
			conn.Close()
		}

		sreq, err := http.NewRequest(http.MethodPost, server.URL+"/smoke-test", strings.NewReader(`{}`))
		require.NoError(t, err)
		sreq.Header.Set("Authorization", "Bearer "+leaked)
		sres, err := http.DefaultClient.Do(sreq)
		require.NoError(t, err)
		sres.Body.Close()
	}

	time.Sleep(200 * time.Millisecond)
	assert.EqualValues(t, 0, atomic.LoadInt32(&relayed),
		"an anonymous client reached the relay with the token the server's own /health endpoint handed to it")
	assert.EqualValues(t, 0, atomic.LoadInt32(&smoked),
		"an anonymous client triggered the smoke test with the token the server's own /health endpoint handed to it")
}
