// intended path: receipt/recid_test.go
//
// Run with the release build's setting:   CGO_ENABLED=0 go test -vet=off -count=1 -run TestCorruptedRecoveryID ./receipt/
// (the release binary is built with CGO_ENABLED=0, see Makefile target bin/hagall)
package receipt

import (
	"context"
	"io"
	"net/http"
	"net/http/httptest"
	"sync"
	"testing"
	"time"

	"github.com/aukilabs/hagall-common/ncsclient"
	"github.com/ethereum/go-ethereum/crypto"
	"github.com/segmentio/encoding/json"
	"github.com/stretchr/testify/require"
)

// C19: a receipt is forwarded iff its signature is a recoverable signature over
// its hash; "every single-field corruption of a valid triple" is never forwarded.
// A recoverable signature is r || s || v with the recovery id v in 0..3 (crypto.Sign
// produces 0 or 1). Setting bit 2 of v (v = 4..7) is a corruption of the signature:
// it is refused by go-ethereum's own libsecp256k1 binding, by crypto.SigToPub users
// such as the credit service and by every on-chain ecrecover - but the pure Go
// implementation that the release build (CGO_ENABLED=0) links reads bit 2 as
// "compressed key" flag of the Bitcoin compact format and accepts it.
func TestCorruptedRecoveryIDIsNeverForwarded(t *testing.T) {
	var mutex sync.Mutex
	var forwarded []ncsclient.ReceiptPayload
	ncs := httptest.NewServer(http.HandlerFunc(func(w http.ResponseWriter, r *http.Request) {
		b, _ := io.ReadAll(r.Body)
		var p ncsclient.ReceiptPayload
		if json.Unmarshal(b, &p) == nil {
			mutex.Lock()
			forwarded = append(forwarded, p)
			mutex.Unlock()
		}
		w.WriteHeader(http.StatusOK)
	}))
	defer ncs.Close()

	ctx, cancel := context.WithCancel(context.Background())
	defer cancel()

	rh := ReceiptHandler{
		NCSEndpoint: ncs.URL,
		ReceiptChan: make(chan ncsclient.ReceiptPayload, 128),
	}
	rh.HandleReceipts(ctx)

	key, err := crypto.GenerateKey()
	require.NoError(t, err)

	text := `{"app_id":"a","client_id":"c","session_id":"tedx1","participant_id":1}`
	hash := crypto.Keccak256([]byte(text))
	sig, err := crypto.Sign(hash, key)
	require.NoError(t, err)
	require.Len(t, sig, 65)
	require.Less(t, sig[64], byte(2))

	// the single corruption: bit 2 of the recovery id (v = 0/1 becomes 4/5)
	bad := append([]byte{}, sig...)
	bad[64] |= 4
	rh.ReceiptChan <- ncsclient.ReceiptPayload{Receipt: text, Hash: hash, Signature: bad}

	// controls, refused by both implementations: other wrong encodings of v
	for _, v := range []byte{27, 28, 8, 255} {
		bad := append([]byte{}, sig...)
		bad[64] = v
		rh.ReceiptChan <- ncsclient.ReceiptPayload{Receipt: text, Hash: hash, Signature: bad}
	}

	time.Sleep(1500 * time.Millisecond)

	mutex.Lock()
	defer mutex.Unlock()
	for _, p := range forwarded {
		t.Errorf("a receipt whose signature has the corrupted recovery id v=%d was forwarded to the credit service", p.Signature[64])
	}
}
