package wire

import (
	"fmt"
	"sort"
	"strings"

	"github.com/aukilabs/hagall-common/messages/dagazpb"
	"github.com/aukilabs/hagall-common/messages/hagallpb"
	"github.com/aukilabs/hagall-common/messages/odalpb"
	"github.com/aukilabs/hagall-common/messages/vikjapb"
	hwebsocket "github.com/aukilabs/hagall-common/websocket"
	"google.golang.org/protobuf/proto"
	"google.golang.org/protobuf/types/known/timestamppb"
)

// Canon holds the canonicalisation state of one history.
type Canon struct {
	uuids    map[string]int
	SidOf    func(global string) (uint32, bool) // inverse of SessionStore.GlobalSessionID
	LastSid  uint32                             // session id of the last join response seen
	LastPing uint32                             // id of the last server-issued ping seen
	// Details of decoded dagaz / latency payloads for the side checks.
	Extra []string
}

func NewCanon(sidOf func(string) (uint32, bool)) *Canon {
	return &Canon{uuids: map[string]int{}, SidOf: sidOf}
}

func (c *Canon) uuid(s string) int {
	if v, ok := c.uuids[s]; ok {
		return v
	}
	v := len(c.uuids) + 1
	c.uuids[s] = v
	return v
}

func ots(t *timestamppb.Timestamp) string {
	if t == nil {
		return "nil"
	}
	if t.Seconds >= NowThreshold {
		return "now"
	}
	return fmt.Sprint(t.Seconds - OtsBase)
}

func otsOpt(t *timestamppb.Timestamp) string {
	s := ots(t)
	if s == "now" {
		return "-"
	}
	return s
}

func poseOf(p *hagallpb.Pose) string {
	if p == nil {
		return "nilpose"
	}
	return PoseNat([7]float32{p.Px, p.Py, p.Pz, p.Rx, p.Ry, p.Rz, p.Rw})
}

func entTok(e *hagallpb.Entity) string {
	return fmt.Sprintf("%d %d %d %s", e.Id, e.ParticipantId, uint32(e.Flag), poseOf(e.Pose))
}

func compTok(c *hagallpb.EntityComponent) string {
	if c == nil {
		return "nilcomp"
	}
	return fmt.Sprintf("%d %d %s", c.EntityComponentTypeId, c.EntityId, hx(c.Data))
}

func compList(cs []*hagallpb.EntityComponent) string {
	toks := make([]string, len(cs))
	for i, c := range cs {
		toks[i] = compTok(c)
	}
	sort.Strings(toks)
	return fmt.Sprintf("[%d %s", len(cs), strings.Join(toks, " "))
}

func actTok(a *vikjapb.EntityAction) string {
	if a == nil {
		return "nilaction"
	}
	ts := "-"
	if a.Timestamp != nil {
		ts = fmt.Sprintf("+ %d %d", a.Timestamp.Seconds, a.Timestamp.Nanos)
	}
	return fmt.Sprintf("%d %s %s %s", a.EntityId, hxs(a.Name), ts, hx(a.Data))
}

func assetTok(a *odalpb.AssetInstance) string {
	if a == nil {
		return "nilasset"
	}
	return fmt.Sprintf("%d %s %d %d", a.Id, hxs(a.AssetId), a.ParticipantId, a.EntityId)
}

func trim(s string) string { return strings.TrimRight(s, " ") }

// OutTokens decodes a server-to-client message into the line protocol.
func (c *Canon) OutTokens(m hwebsocket.Msg) string {
	n := int32(m.Type.Number())
	dec := func(v hwebsocket.ProtoMsg) bool { return m.DataTo(v) == nil }
	switch {
	case n == int32(hagallpb.MsgType_MSG_TYPE_ERROR_RESPONSE):
		var v hagallpb.ErrorResponse
		dec(&v)
		return fmt.Sprintf("error %d %d", v.RequestId, int32(v.Code))
	case n == int32(hagallpb.MsgType_MSG_TYPE_SYNC_CLOCK):
		return "syncClock"
	case n == int32(hagallpb.MsgType_MSG_TYPE_PING_RESPONSE):
		var v hagallpb.Response
		dec(&v)
		return fmt.Sprintf("pingResp %d", v.RequestId)
	case n == int32(hagallpb.MsgType_MSG_TYPE_PING_REQUEST):
		var v hagallpb.Response
		dec(&v)
		c.LastPing = v.RequestId
		return fmt.Sprintf("pingReq %d", v.RequestId)
	case n == int32(hagallpb.MsgType_MSG_TYPE_SIGNED_LATENCY_RESPONSE):
		var v hagallpb.SignedLatencyResponse
		dec(&v)
		var d hagallpb.LatencyData
		if err := proto.Unmarshal(v.Data, &d); err != nil {
			return fmt.Sprintf("latencyResp %d baddata", v.RequestId)
		}
		ids := append([]uint32(nil), d.PingRequestIds...)
		sort.Slice(ids, func(i, j int) bool { return ids[i] < ids[j] })
		c.Extra = append(c.Extra, fmt.Sprintf("latency min=%v max=%v mean=%v p95=%v last=%v client=%s sig=%s",
			d.Min, d.Max, d.Mean, d.P95, d.Last, d.ClientId, v.Signature))
		return fmt.Sprintf("latencyResp %d %d %s %d %s", v.RequestId, d.IterationCount, listU(ids), c.uuid(d.SessionId), hxs(d.WalletAddress))
	case n == int32(hagallpb.MsgType_MSG_TYPE_PARTICIPANT_JOIN_RESPONSE):
		var v hagallpb.ParticipantJoinResponse
		dec(&v)
		sid, ok := c.SidOf(v.SessionId)
		if !ok {
			return fmt.Sprintf("joinResp %d badsid:%s", v.RequestId, v.SessionId)
		}
		c.LastSid = sid
		return fmt.Sprintf("joinResp %d %d %d %d", v.RequestId, sid, c.uuid(v.SessionUuid), v.ParticipantId)
	case n == int32(hagallpb.MsgType_MSG_TYPE_SESSION_STATE):
		var v hagallpb.SessionState
		dec(&v)
		pids := make([]uint32, len(v.Participants))
		for i, p := range v.Participants {
			pids[i] = p.Id
		}
		sort.Slice(pids, func(i, j int) bool { return pids[i] < pids[j] })
		ents := append([]*hagallpb.Entity(nil), v.Entities...)
		sort.Slice(ents, func(i, j int) bool { return ents[i].Id < ents[j].Id })
		es := make([]string, len(ents))
		for i, e := range ents {
			es[i] = entTok(e)
		}
		return trim(fmt.Sprintf("sessionState %s [%d %s", listU(pids), len(es), strings.Join(es, " "))) + " " + trim(compList(v.EntityComponents))
	case n == int32(hagallpb.MsgType_MSG_TYPE_PARTICIPANT_JOIN_BROADCAST):
		var v hagallpb.ParticipantJoinBroadcast
		dec(&v)
		return fmt.Sprintf("joinBcast %s %d", ots(v.OriginTimestamp), v.ParticipantId)
	case n == int32(hagallpb.MsgType_MSG_TYPE_PARTICIPANT_LEAVE_BROADCAST):
		var v hagallpb.ParticipantLeaveBroadcast
		dec(&v)
		return fmt.Sprintf("leaveBcast %d", v.ParticipantId)
	case n == int32(hagallpb.MsgType_MSG_TYPE_ENTITY_ADD_RESPONSE):
		var v hagallpb.EntityAddResponse
		dec(&v)
		return fmt.Sprintf("entityAddResp %d %d", v.RequestId, v.EntityId)
	case n == int32(hagallpb.MsgType_MSG_TYPE_ENTITY_ADD_BROADCAST):
		var v hagallpb.EntityAddBroadcast
		dec(&v)
		if v.Entity == nil {
			return "entityAddBcast nilentity"
		}
		return fmt.Sprintf("entityAddBcast %s %s", ots(v.OriginTimestamp), entTok(v.Entity))
	case n == int32(hagallpb.MsgType_MSG_TYPE_ENTITY_DELETE_RESPONSE):
		var v hagallpb.EntityDeleteResponse
		dec(&v)
		return fmt.Sprintf("entityDeleteResp %d", v.RequestId)
	case n == int32(hagallpb.MsgType_MSG_TYPE_ENTITY_DELETE_BROADCAST):
		var v hagallpb.EntityDeleteBroadcast
		dec(&v)
		return fmt.Sprintf("entityDeleteBcast %s %d", otsOpt(v.OriginTimestamp), v.EntityId)
	case n == int32(hagallpb.MsgType_MSG_TYPE_ENTITY_UPDATE_POSE_BROADCAST):
		var v hagallpb.EntityUpdatePoseBroadcast
		dec(&v)
		return fmt.Sprintf("poseBcast %s %d %s", ots(v.OriginTimestamp), v.EntityId, poseOf(v.Pose))
	case n == int32(hagallpb.MsgType_MSG_TYPE_CUSTOM_MESSAGE_BROADCAST):
		var v hagallpb.CustomMessageBroadcast
		dec(&v)
		return fmt.Sprintf("customBcast %s %d %s", ots(v.OriginTimestamp), v.ParticipantId, hx(v.Body))
	case n == int32(hagallpb.MsgType_MSG_TYPE_ENTITY_COMPONENT_TYPE_ADD_RESPONSE):
		var v hagallpb.EntityComponentTypeAddResponse
		dec(&v)
		return fmt.Sprintf("typeAddResp %d %d", v.RequestId, v.EntityComponentTypeId)
	case n == int32(hagallpb.MsgType_MSG_TYPE_ENTITY_COMPONENT_TYPE_GET_NAME_RESPONSE):
		var v hagallpb.EntityComponentTypeGetNameResponse
		dec(&v)
		return fmt.Sprintf("typeNameResp %d %s", v.RequestId, hxs(v.EntityComponentTypeName))
	case n == int32(hagallpb.MsgType_MSG_TYPE_ENTITY_COMPONENT_TYPE_GET_ID_RESPONSE):
		var v hagallpb.EntityComponentTypeGetIdResponse
		dec(&v)
		return fmt.Sprintf("typeIdResp %d %d", v.RequestId, v.EntityComponentTypeId)
	case n == int32(hagallpb.MsgType_MSG_TYPE_ENTITY_COMPONENT_ADD_RESPONSE):
		var v hagallpb.EntityComponentAddResponse
		dec(&v)
		return fmt.Sprintf("compAddResp %d", v.RequestId)
	case n == int32(hagallpb.MsgType_MSG_TYPE_ENTITY_COMPONENT_ADD_BROADCAST):
		var v hagallpb.EntityComponentAddBroadcast
		dec(&v)
		return fmt.Sprintf("compAddBcast %s %s", ots(v.OriginTimestamp), compTok(v.EntityComponent))
	case n == int32(hagallpb.MsgType_MSG_TYPE_ENTITY_COMPONENT_DELETE_RESPONSE):
		var v hagallpb.EntityComponentDeleteResponse
		dec(&v)
		return fmt.Sprintf("compDeleteResp %d", v.RequestId)
	case n == int32(hagallpb.MsgType_MSG_TYPE_ENTITY_COMPONENT_DELETE_BROADCAST):
		var v hagallpb.EntityComponentDeleteBroadcast
		dec(&v)
		if v.EntityComponent == nil {
			return "compDeleteBcast nilcomp"
		}
		return fmt.Sprintf("compDeleteBcast %s %d %d", ots(v.OriginTimestamp), v.EntityComponent.EntityComponentTypeId, v.EntityComponent.EntityId)
	case n == int32(hagallpb.MsgType_MSG_TYPE_ENTITY_COMPONENT_UPDATE_BROADCAST):
		var v hagallpb.EntityComponentUpdateBroadcast
		dec(&v)
		return fmt.Sprintf("compUpdateBcast %s %s", ots(v.OriginTimestamp), compTok(v.EntityComponent))
	case n == int32(hagallpb.MsgType_MSG_TYPE_ENTITY_COMPONENT_LIST_RESPONSE):
		var v hagallpb.EntityComponentListResponse
		dec(&v)
		return trim(fmt.Sprintf("compListResp %d %s", v.RequestId, compList(v.EntityComponents)))
	case n == int32(hagallpb.MsgType_MSG_TYPE_ENTITY_COMPONENT_TYPE_SUBSCRIBE_RESPONSE):
		var v hagallpb.EntityComponentTypeSubscribeResponse
		dec(&v)
		return fmt.Sprintf("subscribeResp %d", v.RequestId)
	case n == int32(hagallpb.MsgType_MSG_TYPE_ENTITY_COMPONENT_TYPE_UNSUBSCRIBE_RESPONSE):
		var v hagallpb.EntityComponentTypeUnsubscribeResponse
		dec(&v)
		return fmt.Sprintf("unsubscribeResp %d", v.RequestId)
	case n == int32(hagallpb.MsgType_MSG_TYPE_RECEIPT_RESPONSE):
		var v hagallpb.ReceiptResponse
		dec(&v)
		return fmt.Sprintf("receiptResp %d", v.RequestId)
	case n == int32(vikjapb.MsgType_MSG_TYPE_VIKJA_STATE):
		var v vikjapb.State
		dec(&v)
		toks := make([]string, len(v.EntityActions))
		for i, a := range v.EntityActions {
			toks[i] = actTok(a)
		}
		sort.Strings(toks)
		return trim(fmt.Sprintf("vikjaState [%d %s", len(toks), strings.Join(toks, " ")))
	case n == int32(vikjapb.MsgType_MSG_TYPE_VIKJA_ENTITY_ACTION_RESPONSE):
		var v vikjapb.EntityActionResponse
		dec(&v)
		return fmt.Sprintf("actionResp %d", v.RequestId)
	case n == int32(vikjapb.MsgType_MSG_TYPE_VIKJA_ENTITY_ACTION_BROADCAST):
		var v vikjapb.EntityActionBroadcast
		dec(&v)
		return fmt.Sprintf("actionBcast %s %s", ots(v.OriginTimestamp), actTok(v.EntityAction))
	case n == int32(odalpb.MsgType_MSG_TYPE_ODAL_STATE):
		var v odalpb.State
		dec(&v)
		toks := make([]string, len(v.AssetInstances))
		for i, a := range v.AssetInstances {
			toks[i] = assetTok(a)
		}
		sort.Strings(toks)
		return trim(fmt.Sprintf("odalState [%d %s", len(toks), strings.Join(toks, " ")))
	case n == int32(odalpb.MsgType_MSG_TYPE_ODAL_ASSET_INSTANCE_ADD_RESPONSE):
		var v odalpb.AssetInstanceAddResponse
		dec(&v)
		return fmt.Sprintf("assetAddResp %d %d", v.RequestId, v.AssetInstanceId)
	case n == int32(odalpb.MsgType_MSG_TYPE_ODAL_ASSET_INSTANCE_ADD_BROADCAST):
		var v odalpb.AssetInstanceAddBroadcast
		dec(&v)
		return fmt.Sprintf("assetAddBcast %s %s", ots(v.OriginTimestamp), assetTok(v.AssetInstance))
	case n == int32(dagazpb.MsgType_MSG_TYPE_DAGAZ_GET_GROUND_PLANE_RESPONSE):
		var v dagazpb.DagazGetGroundPlaneResponse
		dec(&v)
		c.Extra = append(c.Extra, fmt.Sprintf("ground %d %s", v.RequestId, QuadStr(v.Ground)))
		return fmt.Sprintf("groundPlaneResp %d", v.RequestId)
	case n == int32(dagazpb.MsgType_MSG_TYPE_DAGAZ_GET_REGION_RESPONSE):
		var v dagazpb.DagazGetRegionResponse
		dec(&v)
		qs := make([]string, len(v.Quads))
		for i, q := range v.Quads {
			qs[i] = QuadStr(q)
		}
		sort.Strings(qs)
		c.Extra = append(c.Extra, fmt.Sprintf("region %d %s", v.RequestId, strings.Join(qs, ";")))
		return fmt.Sprintf("regionResp %d", v.RequestId)
	case n == int32(dagazpb.MsgType_MSG_TYPE_DAGAZ_GET_DEBUG_INFO_RESPONSE):
		var v dagazpb.DagazGetDebugInfoResponse
		dec(&v)
		c.Extra = append(c.Extra, fmt.Sprintf("debug %d planes=%d", v.RequestId, v.GridPlaneCount))
		return fmt.Sprintf("debugInfoResp %d", v.RequestId)
	}
	return fmt.Sprintf("unknownOut %d", n)
}

// QuadStr renders a quad with float32 bit-exact decimal text.
func QuadStr(q *dagazpb.Quad) string {
	if q == nil || q.Center == nil || q.Extents == nil {
		return "nilquad"
	}
	return fmt.Sprintf("%v,%v,%v,%v,%v,%v,%d", q.Center.X, q.Center.Y, q.Center.Z, q.Extents.X, q.Extents.Y, q.Extents.Z, q.MergeCount)
}
