// Package wire converts between the harness's request/response values, the protobuf messages the
// real server exchanges, and the one-line token protocol shared with the Lean driver.
package wire

import (
	"encoding/hex"
	"fmt"
	"math"
	"math/big"
	"strconv"
	"strings"

	"github.com/aukilabs/hagall-common/messages/dagazpb"
	"github.com/aukilabs/hagall-common/messages/hagallpb"
	"github.com/aukilabs/hagall-common/messages/odalpb"
	"github.com/aukilabs/hagall-common/messages/vikjapb"
	hwebsocket "github.com/aukilabs/hagall-common/websocket"
	"google.golang.org/protobuf/types/known/timestamppb"
)

// OtsBase is added to a request's origin-timestamp token to get protobuf seconds; anything above
// NowThreshold is a server-generated "now".
const (
	OtsBase      = 0
	NowThreshold = 1_000_000_000
)

type Ts struct {
	Secs, Nanos int64
}

type Action struct {
	Eid  uint32
	Name string
	Ts   *Ts
	Data []byte
}

// Req mirrors the Lean `Req` inductive.
type Req struct {
	Kind    string
	Rid     uint32
	Ots     uint32
	N1, N2  uint32 // generic numeric fields (eid / tid / iter / ty ...)
	Flag    uint32
	Persist bool
	Pose    *[7]float32
	Str     string // wallet / name / asset id
	Target  string // new | id | bogus
	TargetN uint32
	Pids    []uint32
	Data    []byte // body / data / receipt
	Hash    []byte
	Sig     []byte
	Act     *Action
	Quads   []string // dagaz tokens "cx,cy,cz,ex,ey,ez,mc"
	Geo     string   // ray "fx,fy,fz,tx,ty,tz" or box "minx,miny,minz,maxx,maxy,maxz"
	PingRef int      // pingResp only: answer the PingRef-th ping the server issued to this connection (0 = literal Rid)
}

func hx(b []byte) string   { return "x" + hex.EncodeToString(b) }
func hxs(s string) string  { return "x" + hex.EncodeToString([]byte(s)) }
func u(n uint32) string    { return strconv.FormatUint(uint64(n), 10) }
func bl(b bool) string     { if b { return "1" }; return "0" }

func PoseTok(p *[7]float32) string {
	if p == nil {
		return "-"
	}
	return PoseNat(*p)
}

// PoseNat encodes seven float32 bit patterns as one natural number (0 = the zero pose).
func PoseNat(p [7]float32) string {
	n := new(big.Int)
	for _, f := range p {
		n.Lsh(n, 32)
		n.Or(n, new(big.Int).SetUint64(uint64(math.Float32bits(f))))
	}
	return n.String()
}

func tsTok(t *Ts) string {
	if t == nil {
		return "-"
	}
	return fmt.Sprintf("+ %d %d", t.Secs, t.Nanos)
}

func actionTok(a *Action) string {
	return fmt.Sprintf("%d %s %s %s", a.Eid, hxs(a.Name), tsTok(a.Ts), hx(a.Data))
}

func listU(xs []uint32) string {
	var sb strings.Builder
	fmt.Fprintf(&sb, "[%d", len(xs))
	for _, x := range xs {
		sb.WriteString(" " + u(x))
	}
	return sb.String()
}

// Tokens renders the request in the line protocol.
func (r *Req) Tokens() string {
	switch r.Kind {
	case "ping", "pingResp", "debugInfo":
		return r.Kind + " " + u(r.Rid)
	case "signedLatency":
		return fmt.Sprintf("signedLatency %d %d %s", r.Rid, r.N1, hxs(r.Str))
	case "join":
		t := r.Target
		if t == "id" {
			t = "id " + u(r.TargetN)
		}
		if t == "near" {
			t = fmt.Sprintf("near %d %d", r.N1, r.TargetN)
		}
		return fmt.Sprintf("join %d %d %s", r.Rid, r.Ots, t)
	case "entityAdd":
		return fmt.Sprintf("entityAdd %d %d %s %d %s", r.Rid, r.Ots, bl(r.Persist), r.Flag, PoseTok(r.Pose))
	case "entityDelete":
		return fmt.Sprintf("entityDelete %d %d %d", r.Rid, r.Ots, r.N1)
	case "updatePose":
		return fmt.Sprintf("updatePose %d %d %s", r.Ots, r.N1, PoseTok(r.Pose))
	case "custom":
		return fmt.Sprintf("custom %d %s %s", r.Ots, listU(r.Pids), hx(r.Data))
	case "typeAdd", "typeGetId":
		return fmt.Sprintf("%s %d %s", r.Kind, r.Rid, hxs(r.Str))
	case "typeGetName", "compList", "subscribe", "unsubscribe":
		return fmt.Sprintf("%s %d %d", r.Kind, r.Rid, r.N1)
	case "compAdd":
		return fmt.Sprintf("compAdd %d %d %d %d %s", r.Rid, r.Ots, r.N1, r.N2, hx(r.Data))
	case "compDelete":
		return fmt.Sprintf("compDelete %d %d %d %d", r.Rid, r.Ots, r.N1, r.N2)
	case "compUpdate":
		return fmt.Sprintf("compUpdate %d %d %d %s", r.Ots, r.N1, r.N2, hx(r.Data))
	case "receipt":
		return fmt.Sprintf("receipt %d %s %s %s", r.Rid, hx(r.Data), hx(r.Hash), hx(r.Sig))
	case "action":
		if r.Act == nil {
			return fmt.Sprintf("action %d %d -", r.Rid, r.Ots)
		}
		return fmt.Sprintf("action %d %d + %s", r.Rid, r.Ots, actionTok(r.Act))
	case "assetAdd":
		return fmt.Sprintf("assetAdd %d %d %s %d", r.Rid, r.Ots, hxs(r.Str), r.N1)
	case "quadSample":
		var sb strings.Builder
		fmt.Fprintf(&sb, "quadSample [%d", len(r.Quads))
		for _, q := range r.Quads {
			sb.WriteString(" " + hxs(q))
		}
		return sb.String()
	case "groundPlane", "region":
		return fmt.Sprintf("%s %d %s", r.Kind, r.Rid, hxs(r.Geo))
	case "unknown", "undecodable":
		return fmt.Sprintf("%s %d", r.Kind, r.N1)
	}
	panic("unknown request kind " + r.Kind)
}

type tokReader struct {
	toks []string
	pos  int
	err  error
}

func (t *tokReader) next() string {
	if t.pos >= len(t.toks) {
		t.err = fmt.Errorf("unexpected end of line")
		return ""
	}
	s := t.toks[t.pos]
	t.pos++
	return s
}
func (t *tokReader) u32() uint32 {
	v, err := strconv.ParseUint(t.next(), 10, 32)
	if err != nil && t.err == nil {
		t.err = err
	}
	return uint32(v)
}
func (t *tokReader) i64() int64 {
	v, err := strconv.ParseInt(t.next(), 10, 64)
	if err != nil && t.err == nil {
		t.err = err
	}
	return v
}
func (t *tokReader) bytes() []byte {
	s := t.next()
	if !strings.HasPrefix(s, "x") {
		if t.err == nil {
			t.err = fmt.Errorf("expected hex token, got %q", s)
		}
		return nil
	}
	b, err := hex.DecodeString(s[1:])
	if err != nil && t.err == nil {
		t.err = err
	}
	return b
}
func (t *tokReader) str() string { return string(t.bytes()) }
func (t *tokReader) count() int {
	s := t.next()
	if !strings.HasPrefix(s, "[") {
		if t.err == nil {
			t.err = fmt.Errorf("expected list, got %q", s)
		}
		return 0
	}
	n, err := strconv.Atoi(s[1:])
	if err != nil && t.err == nil {
		t.err = err
	}
	return n
}
func (t *tokReader) pose() *[7]float32 {
	s := t.next()
	if s == "-" {
		return nil
	}
	n, ok := new(big.Int).SetString(s, 10)
	if !ok {
		t.err = fmt.Errorf("bad pose %q", s)
		return nil
	}
	var p [7]float32
	mask := new(big.Int).SetUint64(0xffffffff)
	for i := 6; i >= 0; i-- {
		p[i] = math.Float32frombits(uint32(new(big.Int).And(n, mask).Uint64()))
		n.Rsh(n, 32)
	}
	return &p
}

// ParseReq parses the token form produced by Tokens.
func ParseReq(toks []string) (*Req, error) {
	t := &tokReader{toks: toks}
	r := &Req{Kind: t.next()}
	switch r.Kind {
	case "ping", "debugInfo":
		r.Rid = t.u32()
	case "pingResp":
		if tk := t.next(); strings.HasPrefix(tk, "@") {
			r.PingRef, _ = strconv.Atoi(tk[1:])
		} else {
			v, err := strconv.ParseUint(tk, 10, 32)
			if err != nil {
				t.err = err
			}
			r.Rid = uint32(v)
		}
	case "signedLatency":
		r.Rid, r.N1, r.Str = t.u32(), t.u32(), t.str()
	case "join":
		r.Rid, r.Ots = t.u32(), t.u32()
		r.Target = t.next()
		if r.Target == "id" {
			r.TargetN = t.u32()
		}
		if r.Target == "near" {
			r.N1, r.TargetN = t.u32(), t.u32()
		}
	case "entityAdd":
		r.Rid, r.Ots = t.u32(), t.u32()
		r.Persist = t.next() == "1"
		r.Flag = t.u32()
		r.Pose = t.pose()
	case "entityDelete":
		r.Rid, r.Ots, r.N1 = t.u32(), t.u32(), t.u32()
	case "updatePose":
		r.Ots, r.N1 = t.u32(), t.u32()
		r.Pose = t.pose()
	case "custom":
		r.Ots = t.u32()
		n := t.count()
		for i := 0; i < n; i++ {
			r.Pids = append(r.Pids, t.u32())
		}
		r.Data = t.bytes()
	case "typeAdd", "typeGetId":
		r.Rid, r.Str = t.u32(), t.str()
	case "typeGetName", "compList", "subscribe", "unsubscribe":
		r.Rid, r.N1 = t.u32(), t.u32()
	case "compAdd":
		r.Rid, r.Ots, r.N1, r.N2, r.Data = t.u32(), t.u32(), t.u32(), t.u32(), t.bytes()
	case "compDelete":
		r.Rid, r.Ots, r.N1, r.N2 = t.u32(), t.u32(), t.u32(), t.u32()
	case "compUpdate":
		r.Ots, r.N1, r.N2, r.Data = t.u32(), t.u32(), t.u32(), t.bytes()
	case "receipt":
		r.Rid, r.Data, r.Hash, r.Sig = t.u32(), t.bytes(), t.bytes(), t.bytes()
	case "action":
		r.Rid, r.Ots = t.u32(), t.u32()
		if t.next() == "+" {
			a := &Action{Eid: t.u32(), Name: t.str()}
			if t.next() == "+" {
				a.Ts = &Ts{t.i64(), t.i64()}
			}
			a.Data = t.bytes()
			r.Act = a
		}
	case "assetAdd":
		r.Rid, r.Ots, r.Str, r.N1 = t.u32(), t.u32(), t.str(), t.u32()
	case "quadSample":
		n := t.count()
		for i := 0; i < n; i++ {
			r.Quads = append(r.Quads, t.str())
		}
	case "groundPlane", "region":
		r.Rid, r.Geo = t.u32(), t.str()
	case "unknown", "undecodable":
		r.N1 = t.u32()
	default:
		return nil, fmt.Errorf("unknown request kind %q", r.Kind)
	}
	return r, t.err
}

func stamp(ots uint32) *timestamppb.Timestamp {
	return &timestamppb.Timestamp{Seconds: int64(ots) + OtsBase}
}

func posePB(p *[7]float32) *hagallpb.Pose {
	if p == nil {
		return nil
	}
	return &hagallpb.Pose{Px: p[0], Py: p[1], Pz: p[2], Rx: p[3], Ry: p[4], Rz: p[5], Rw: p[6]}
}

func floats(s string) []float32 {
	if s == "" {
		return nil
	}
	parts := strings.Split(s, ",")
	out := make([]float32, len(parts))
	for i, p := range parts {
		f, _ := strconv.ParseFloat(p, 32)
		out[i] = float32(f)
	}
	return out
}

func point(f []float32) *dagazpb.Point { return &dagazpb.Point{X: f[0], Y: f[1], Z: f[2]} }

// QuadPB parses "cx,cy,cz,ex,ey,ez,mc"; "!" alone is a missing sample, a leading "!c," / "!e," drops the
// centre / the extents (sub-messages a client may simply not set).
func QuadPB(s string) *dagazpb.Quad {
	if s == "!" {
		return nil
	}
	noC, noE := strings.HasPrefix(s, "!c,"), strings.HasPrefix(s, "!e,")
	if noC || noE {
		s = s[3:]
	}
	f := floats(s)
	q := &dagazpb.Quad{Center: point(f[0:3]), Extents: point(f[3:6]), MergeCount: uint32(f[6])}
	if noC {
		q.Center = nil
	}
	if noE {
		q.Extents = nil
	}
	return q
}

// geoPoints parses "a,b,c,d,e,f" into two points; a leading "!1," / "!2," / "!0," drops the first / the
// second / both.
func geoPoints(s string) (*dagazpb.Point, *dagazpb.Point) {
	drop := ""
	if strings.HasPrefix(s, "!") {
		drop, s = s[:2], s[3:]
	}
	f := floats(s)
	a, b := point(f[0:3]), point(f[3:6])
	switch drop {
	case "!1":
		a = nil
	case "!2":
		b = nil
	case "!0":
		a, b = nil, nil
	}
	return a, b
}

// Proto builds the protobuf message the client would send. `serial` is put into the message
// timestamp for the kinds whose model constructor has no origin timestamp; the generator keeps
// every message's (seconds, nanos) unique so that a consumed message can be recognised.
func (r *Req) Proto(globalID func(uint32) string, ts *timestamppb.Timestamp) (hwebsocket.ProtoMsg, error) {
	switch r.Kind {
	case "ping":
		return &hagallpb.Request{Type: hagallpb.MsgType_MSG_TYPE_PING_REQUEST, Timestamp: ts, RequestId: r.Rid}, nil
	case "pingResp":
		return &hagallpb.Response{Type: hagallpb.MsgType_MSG_TYPE_PING_RESPONSE, Timestamp: ts, RequestId: r.Rid}, nil
	case "signedLatency":
		return &hagallpb.SignedLatencyRequest{Type: hagallpb.MsgType_MSG_TYPE_SIGNED_LATENCY_REQUEST, Timestamp: ts,
			RequestId: r.Rid, IterationCount: r.N1, WalletAddress: r.Str}, nil
	case "join":
		sid := ""
		switch r.Target {
		case "id":
			sid = globalID(r.TargetN)
		case "bogus":
			sid = "no-such-session"
		case "near":
			// a string that is almost the id of session TargetN: it names no session
			g := globalID(r.TargetN)
			sid = []string{" " + g, g + " ", strings.ToUpper(g), strings.Replace(g, "x", "x0", 1), g + "\n"}[r.N1%5]
		}
		return &hagallpb.ParticipantJoinRequest{Type: hagallpb.MsgType_MSG_TYPE_PARTICIPANT_JOIN_REQUEST, Timestamp: ts,
			RequestId: r.Rid, SessionId: sid}, nil
	case "entityAdd":
		return &hagallpb.EntityAddRequest{Type: hagallpb.MsgType_MSG_TYPE_ENTITY_ADD_REQUEST, Timestamp: ts,
			RequestId: r.Rid, Pose: posePB(r.Pose), Persist: r.Persist, Flag: hagallpb.EntityFlag(r.Flag)}, nil
	case "entityDelete":
		return &hagallpb.EntityDeleteRequest{Type: hagallpb.MsgType_MSG_TYPE_ENTITY_DELETE_REQUEST, Timestamp: ts,
			RequestId: r.Rid, EntityId: r.N1}, nil
	case "updatePose":
		return &hagallpb.EntityUpdatePose{Type: hagallpb.MsgType_MSG_TYPE_ENTITY_UPDATE_POSE, Timestamp: ts,
			EntityId: r.N1, Pose: posePB(r.Pose)}, nil
	case "custom":
		return &hagallpb.CustomMessage{Type: hagallpb.MsgType_MSG_TYPE_CUSTOM_MESSAGE, Timestamp: ts,
			ParticipantIds: r.Pids, Body: r.Data}, nil
	case "typeAdd":
		return &hagallpb.EntityComponentTypeAddRequest{Type: hagallpb.MsgType_MSG_TYPE_ENTITY_COMPONENT_TYPE_ADD_REQUEST,
			Timestamp: ts, RequestId: r.Rid, EntityComponentTypeName: r.Str}, nil
	case "typeGetName":
		return &hagallpb.EntityComponentTypeGetNameRequest{Type: hagallpb.MsgType_MSG_TYPE_ENTITY_COMPONENT_TYPE_GET_NAME_REQUEST,
			Timestamp: ts, RequestId: r.Rid, EntityComponentTypeId: r.N1}, nil
	case "typeGetId":
		return &hagallpb.EntityComponentTypeGetIdRequest{Type: hagallpb.MsgType_MSG_TYPE_ENTITY_COMPONENT_TYPE_GET_ID_REQUEST,
			Timestamp: ts, RequestId: r.Rid, EntityComponentTypeName: r.Str}, nil
	case "compAdd":
		return &hagallpb.EntityComponentAddRequest{Type: hagallpb.MsgType_MSG_TYPE_ENTITY_COMPONENT_ADD_REQUEST,
			Timestamp: ts, RequestId: r.Rid, EntityComponentTypeId: r.N1, EntityId: r.N2, Data: r.Data}, nil
	case "compDelete":
		return &hagallpb.EntityComponentDeleteRequest{Type: hagallpb.MsgType_MSG_TYPE_ENTITY_COMPONENT_DELETE_REQUEST,
			Timestamp: ts, RequestId: r.Rid, EntityComponentTypeId: r.N1, EntityId: r.N2}, nil
	case "compUpdate":
		return &hagallpb.EntityComponentUpdate{Type: hagallpb.MsgType_MSG_TYPE_ENTITY_COMPONENT_UPDATE,
			Timestamp: ts, EntityComponentTypeId: r.N1, EntityId: r.N2, Data: r.Data}, nil
	case "compList":
		return &hagallpb.EntityComponentListRequest{Type: hagallpb.MsgType_MSG_TYPE_ENTITY_COMPONENT_LIST_REQUEST,
			Timestamp: ts, RequestId: r.Rid, EntityComponentTypeId: r.N1}, nil
	case "subscribe":
		return &hagallpb.EntityComponentTypeSubscribeRequest{Type: hagallpb.MsgType_MSG_TYPE_ENTITY_COMPONENT_TYPE_SUBSCRIBE_REQUEST,
			Timestamp: ts, RequestId: r.Rid, EntityComponentTypeId: r.N1}, nil
	case "unsubscribe":
		return &hagallpb.EntityComponentTypeUnsubscribeRequest{Type: hagallpb.MsgType_MSG_TYPE_ENTITY_COMPONENT_TYPE_UNSUBSCRIBE_REQUEST,
			Timestamp: ts, RequestId: r.Rid, EntityComponentTypeId: r.N1}, nil
	case "receipt":
		return &hagallpb.ReceiptRequest{Type: hagallpb.MsgType_MSG_TYPE_RECEIPT_REQUEST, Timestamp: ts,
			RequestId: r.Rid, Receipt: string(r.Data), Hash: r.Hash, Signature: r.Sig}, nil
	case "action":
		var a *vikjapb.EntityAction
		if r.Act != nil {
			a = &vikjapb.EntityAction{EntityId: r.Act.Eid, Name: r.Act.Name, Data: r.Act.Data}
			if r.Act.Ts != nil {
				a.Timestamp = &timestamppb.Timestamp{Seconds: r.Act.Ts.Secs, Nanos: int32(r.Act.Ts.Nanos)}
			}
		}
		return &vikjapb.EntityActionRequest{Type: vikjapb.MsgType_MSG_TYPE_VIKJA_ENTITY_ACTION_REQUEST, Timestamp: ts,
			RequestId: r.Rid, EntityAction: a}, nil
	case "assetAdd":
		return &odalpb.AssetInstanceAddRequest{Type: odalpb.MsgType_MSG_TYPE_ODAL_ASSET_INSTANCE_ADD_REQUEST, Timestamp: ts,
			RequestId: r.Rid, AssetId: r.Str, EntityId: r.N1}, nil
	case "quadSample":
		m := &dagazpb.DagazQuadSample{Type: dagazpb.MsgType_MSG_TYPE_DAGAZ_QUAD_SAMPLE, Timestamp: ts}
		for _, q := range r.Quads {
			m.Samples = append(m.Samples, QuadPB(q))
		}
		return m, nil
	case "groundPlane":
		m := &dagazpb.DagazGetGroundPlaneRequest{Type: dagazpb.MsgType_MSG_TYPE_DAGAZ_GET_GROUND_PLANE_REQUEST, Timestamp: ts, RequestId: r.Rid}
		if r.Geo != "!" { // "!": no ray at all
			a, b := geoPoints(r.Geo)
			m.Ray = &dagazpb.Ray{From: a, To: b}
		}
		return m, nil
	case "region":
		a, b := geoPoints(r.Geo)
		return &dagazpb.DagazGetRegionRequest{Type: dagazpb.MsgType_MSG_TYPE_DAGAZ_GET_REGION_REQUEST, Timestamp: ts,
			RequestId: r.Rid, Min: a, Max: b}, nil
	case "debugInfo":
		return &dagazpb.DagazGetDebugInfoRequest{Type: dagazpb.MsgType_MSG_TYPE_DAGAZ_GET_DEBUG_INFO_REQUEST, Timestamp: ts,
			RequestId: r.Rid}, nil
	case "unknown":
		return &hagallpb.Request{Type: hagallpb.MsgType(r.N1), Timestamp: ts}, nil
	}
	return nil, fmt.Errorf("cannot build protobuf for %q", r.Kind)
}
