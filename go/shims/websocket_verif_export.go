//go:build verif

// Verification shim, added to package websocket at build time with `go build -overlay`.
// It only adds accessors and a synchronous driver around the existing unexported handler:
// nothing in the repository is changed.
package websocket

import (
	"context"
	"fmt"
	"runtime/debug"

	hwebsocket "github.com/aukilabs/hagall-common/websocket"
	"github.com/aukilabs/hagall/models"
	"github.com/prometheus/client_golang/prometheus"
	dto "github.com/prometheus/client_model/go"
)

// VerifConn drives one real `handler` (real scheduler, real handleMessage) without goroutines.
type VerifConn struct {
	h      *handler
	ctx    context.Context
	cancel context.CancelFunc
	resp   responseSender
}

// NewVerifConn builds the unexported handler struct the way handler.Handle does,
// minus the goroutines, the timers and the network connection.
func NewVerifConn(rh Handler, clientID string) *VerifConn {
	if r, ok := rh.(*RealtimeHandler); ok {
		r.clientID = clientID
	}
	ctx, cancel := context.WithCancel(context.Background())
	h := &handler{Handler: rh}
	h.disconnectChan = make(chan error, 8)
	h.sendChan = make(chan hwebsocket.Msg, sendChanSize)
	h.frameChan = make(chan struct{}, 1)
	scheduler := hwebsocket.NewScheduler()
	h.dispatcher = scheduler
	h.consumer = scheduler
	v := &VerifConn{h: h, ctx: ctx, cancel: cancel}
	v.resp = responseSender{send: h.send, sendMsg: h.sendMsg}
	return v
}

// Dispatch is what startReceiving does with a received message.
func (v *VerifConn) Dispatch(msg hwebsocket.Msg) error {
	return v.h.dispatch(v.ctx, msg)
}

// HandleNext is one iteration of the main loop's `case msg := <-h.consumer.Messages()`.
// It returns the message consumed (ok=false when the queue is empty), the handler error,
// and the recovered panic (with the panicking function) if there was one.
func (v *VerifConn) HandleNext() (msg hwebsocket.Msg, ok bool, err error, panicked string) {
	select {
	case msg = <-v.h.consumer.Messages():
	default:
		return msg, false, nil, ""
	}
	ok = true
	defer func() {
		if r := recover(); r != nil {
			panicked = fmt.Sprintf("%v\n%s", r, debug.Stack())
		}
	}()
	err = v.h.handleMessage(v.ctx, msg, v.resp)
	return msg, true, err, ""
}

// PumpFrame is one iteration of startHandlingFrames: when the session has signalled a frame, the updates the scheduler
// holds are put on its queue.  It reports whether there was a signal.
func (v *VerifConn) PumpFrame() bool {
	select {
	case <-v.h.frameChan:
		v.h.dispatcher.HandleFrame()
		return true
	default:
		return false
	}
}

// Disconnect is handleDisconnect without closing the (absent) network connection.
func (v *VerifConn) Disconnect(err error) {
	v.h.Handler.HandleDisconnect(err)
	v.cancel()
}

// Drain returns everything pushed on sendChan since the last call.
func (v *VerifConn) Drain() []hwebsocket.Msg {
	var out []hwebsocket.Msg
	for {
		select {
		case m := <-v.h.sendChan:
			out = append(out, m)
		default:
			return out
		}
	}
}

// SendChanSize exposes the constant for the facts check.
func VerifSendChanSize() int { return sendChanSize }

// VerifCustomMessageMaxSize exposes the constant for the facts check.
func VerifCustomMessageMaxSize() int { return customMessageMaxSize }

// VerifConnectedClients returns the sum of the ws_connected_clients gauge over all labels.
func VerifConnectedClients() float64 {
	ch := make(chan prometheus.Metric, 1024)
	wsConnectedClients.Collect(ch)
	close(ch)
	var sum float64
	for m := range ch {
		var d dto.Metric
		if err := m.Write(&d); err == nil {
			sum += d.GetGauge().GetValue()
		}
	}
	return sum
}

// VerifCurrentSession returns the session this handler believes it is in (nil when not joined).
func (h *RealtimeHandler) VerifCurrentSession() *models.Session { return h.currentSession }

// VerifSetAppKey sets the app key the connection's token would have carried (HandleConnect reads it from the request).
func (h *RealtimeHandler) VerifSetAppKey(k string) { h.appKey = k }
