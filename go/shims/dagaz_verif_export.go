//go:build verif

package dagaz

// VerifOverlap exposes the unexported overlap test to the grid harness.
func VerifOverlap(a, b Quad) bool { return doHorizontalPlanesOverlap(a, b) }

// VerifXYZ exposes the unexported coordinates.
func VerifXYZ(v Vector3f) (float32, float32, float32) { return v.x, v.y, v.z }
