//go:build verif

// Verification shim, added to package odal at build time with `go build -overlay`.
package odal

// VerifAssetCounter returns the highest asset instance id issued in this session.
func (s *State) VerifAssetCounter() uint32 { return s.assetInstanceIDs.VerifCounter() }
