//go:build verif

// Verification shim, added to package models at build time with `go build -overlay`.
package models

import (
	"github.com/prometheus/client_golang/prometheus"
	dto "github.com/prometheus/client_model/go"
)

// VerifTick is the body of one iteration of the frame-dispatch loop in StartDispatchFrames.
func (s *Session) VerifTick() {
	s.frameMutex.RLock()
	for _, h := range s.frameHandlers {
		h()
	}
	s.frameMutex.RUnlock()
}

// VerifFrameHandlerCount returns the number of registered frame handlers.
func (s *Session) VerifFrameHandlerCount() int {
	s.frameMutex.RLock()
	defer s.frameMutex.RUnlock()
	return len(s.frameHandlers)
}

// VerifSessionIDs lists the registered global session ids.
func (s *SessionStore) VerifSessionIDs() []string {
	s.initOnce.Do(s.init)
	s.mutex.RLock()
	defer s.mutex.RUnlock()
	out := make([]string, 0, len(s.sessions))
	for k := range s.sessions {
		out = append(out, k)
	}
	return out
}

// VerifSessionGauge returns the sum of the session_count gauge over all app-key labels.
func VerifSessionGauge() float64 {
	ch := make(chan prometheus.Metric, 1024)
	hagallSessionCount.Collect(ch)
	close(ch)
	var sum float64
	for m := range ch {
		var d dto.Metric
		if err := m.Write(&d); err == nil {
			sum += d.GetGauge().GetValue()
		}
	}
	return sum
}
