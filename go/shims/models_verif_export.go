//go:build verif

// Verification shim, added to package models at build time with `go build -overlay`.
package models

// VerifTick is the body of one iteration of the frame-dispatch loop in StartDispatchFrames.
func (s *Session) VerifTick() {
	s.frameMutex.RLock()
	for _, h := range s.frameHandlers {
		h()
	}
	s.frameMutex.RUnlock()
}

// VerifFrameHandlerCount returns the number of registered frame handlers.
func (s *Session) VerifFrameHandlerCount() int {
	s.frameMutex.RLock()
	defer s.frameMutex.RUnlock()
	return len(s.frameHandlers)
}

// VerifSessionIDs lists the registered global session ids.
func (s *SessionStore) VerifSessionIDs() []string {
	s.initOnce.Do(s.init)
	s.mutex.RLock()
	defer s.mutex.RUnlock()
	out := make([]string, 0, len(s.sessions))
	for k := range s.sessions {
		out = append(out, k)
	}
	return out
}
