//go:build verif

// Verification shim, added to package models at build time with `go build -overlay`.
package models

import (
	"reflect"
	"unsafe"

	"github.com/prometheus/client_golang/prometheus"
	dto "github.com/prometheus/client_model/go"
)

// VerifTick is the body of one iteration of the frame-dispatch loop in StartDispatchFrames.
func (s *Session) VerifTick() {
	s.frameMutex.RLock()
	for _, h := range s.frameHandlers {
		h()
	}
	s.frameMutex.RUnlock()
}

// VerifFrameHandlerCount returns the number of registered frame handlers.
func (s *Session) VerifFrameHandlerCount() int {
	s.frameMutex.RLock()
	defer s.frameMutex.RUnlock()
	return len(s.frameHandlers)
}

// VerifSessionIDs lists the registered global session ids.
func (s *SessionStore) VerifSessionIDs() []string {
	s.initOnce.Do(s.init)
	s.mutex.RLock()
	defer s.mutex.RUnlock()
	out := make([]string, 0, len(s.sessions))
	for k := range s.sessions {
		out = append(out, k)
	}
	return out
}

// VerifSessionGauge returns the sum of the session_count gauge over all app-key labels.
func VerifSessionGauge() float64 {
	ch := make(chan prometheus.Metric, 1024)
	hagallSessionCount.Collect(ch)
	close(ch)
	var sum float64
	for m := range ch {
		var d dto.Metric
		if err := m.Write(&d); err == nil {
			sum += d.GetGauge().GetValue()
		}
	}
	return sum
}

// VerifCounter returns the highest id the generator has issued.
func (g *SequentialIDGenerator) VerifCounter() uint32 {
	g.mutex.Lock()
	defer g.mutex.Unlock()
	return g.currentID
}

// VerifCounters returns the participant and entity id counters of the session and the type id counter of its store.
// The generators are looked up by field name at run time: when /repo no longer has a generator under that name the
// harness still builds, the counter reads as 4294967295 and the state comparison reports it, while every other
// check goes on looking for an input on which a property fails.
func (s *Session) VerifCounters() (participants, entities, types uint32) {
	return verifGenerator(s, "participantIDs"), verifGenerator(s, "entityIDs"), verifGenerator(s.entityComponents, "ids")
}

func verifGenerator(owner any, field string) uint32 {
	o := reflect.ValueOf(owner)
	if o.Kind() != reflect.Pointer || o.IsNil() || o.Elem().Kind() != reflect.Struct {
		return ^uint32(0)
	}
	v := o.Elem().FieldByName(field)
	if !v.IsValid() || !v.CanAddr() || v.Type() != reflect.TypeOf((*SequentialIDGenerator)(nil)).Elem() {
		return ^uint32(0)
	}
	return (*SequentialIDGenerator)(unsafe.Pointer(v.UnsafeAddr())).VerifCounter()
}

// VerifTypes returns the registered component types (id -> name).
func (s *EntityComponentStore) VerifTypes() map[uint32]string {
	s.mutex.RLock()
	defer s.mutex.RUnlock()
	out := make(map[uint32]string, len(s.nameIndex))
	for k, v := range s.nameIndex {
		out[k] = v
	}
	return out
}

// VerifSubscriptions returns the subscriptions (type id -> participant ids).
func (s *EntityComponentStore) VerifSubscriptions() map[uint32][]uint32 {
	s.subscriptionMutex.RLock()
	defer s.subscriptionMutex.RUnlock()
	out := make(map[uint32][]uint32, len(s.subscriptions))
	for k, v := range s.subscriptions {
		for p := range v {
			out[k] = append(out[k], p)
		}
	}
	return out
}

// VerifSessionGaugeByKey returns the session_count gauge per app-key label.
func VerifSessionGaugeByKey() map[string]float64 {
	ch := make(chan prometheus.Metric, 1024)
	hagallSessionCount.Collect(ch)
	close(ch)
	out := map[string]float64{}
	for m := range ch {
		var d dto.Metric
		if err := m.Write(&d); err == nil {
			k := ""
			for _, l := range d.GetLabel() {
				if l.GetName() == appKeyLabel {
					k = l.GetValue()
				}
			}
			out[k] += d.GetGauge().GetValue()
		}
	}
	return out
}
