package main

import (
	"github.com/aukilabs/hagall-common/messages/hagallpb"
	"google.golang.org/protobuf/proto"
)

func protoMarshalImpl(m *hagallpb.Msg) ([]byte, error) { return proto.Marshal(m) }
