// Command wire runs the real server stack (websocket.Handle with the production decorators, real sockets, real
// goroutines, real timers) against scripted client behaviour: malformed frames, well-formed messages with missing
// or boundary fields, bursts of failing requests, stalls, abrupt closes, idleness.  After each scenario it checks
// what C08 promises: every handler returned, nothing panicked, gauges and the session registry are back where
// they were, no goroutine of the server is left, witnesses in the same and in another session were not disturbed.
// One line per scenario run:  W <scenario> seed=<n> ok | W <scenario> seed=<n> VIOLATION <cause> :: detail
package main

import (
	"bytes"
	"context"
	"crypto/ecdsa"
	"flag"
	"fmt"
	"math"
	"math/rand"
	"net/http"
	"net/http/httptest"
	"os"
	"runtime"
	"strings"
	"sync"
	"sync/atomic"
	"time"

	"github.com/aukilabs/go-tooling/pkg/errors"
	"github.com/aukilabs/go-tooling/pkg/logs"
	"github.com/aukilabs/hagall-common/messages/dagazpb"
	"github.com/aukilabs/hagall-common/messages/hagallpb"
	"github.com/aukilabs/hagall-common/messages/odalpb"
	"github.com/aukilabs/hagall-common/messages/vikjapb"
	"github.com/aukilabs/hagall-common/ncsclient"
	hwebsocket "github.com/aukilabs/hagall-common/websocket"
	"github.com/aukilabs/hagall/featureflag"
	"github.com/aukilabs/hagall/models"
	"github.com/aukilabs/hagall/modules"
	"github.com/aukilabs/hagall/modules/dagaz"
	"github.com/aukilabs/hagall/modules/odal"
	"github.com/aukilabs/hagall/modules/vikja"
	hws "github.com/aukilabs/hagall/websocket"
	"github.com/ethereum/go-ethereum/crypto"
	"golang.org/x/net/websocket"
	"google.golang.org/protobuf/types/known/timestamppb"
)

type discovery struct{}

func (discovery) ServerID() string { return "wire" }

type server struct {
	ts       *httptest.Server
	sessions *models.SessionStore
	entered  int64
	returned int64
	panicked int64
	idle     time.Duration
	frame    time.Duration
	receipts chan ncsclient.ReceiptPayload
}

// patience is how long a well-behaved witness waits for an answer before the harness calls it unserved: a wedged handler
// never answers, so a generous wait costs nothing on a correct tree and does not mistake a loaded machine for a defect
const patience = 10 * time.Second

// syncEvery is the server's clock-synchronisation interval; production runs with an interval far below the idle timeout
var syncEvery = time.Hour

func newServer(idle, frame time.Duration) *server {
	s := &server{sessions: &models.SessionStore{DiscoveryService: discovery{}}, idle: idle, frame: frame,
		receipts: make(chan ncsclient.ReceiptPayload, 128)}
	s.ts = httptest.NewServer(websocket.Server{
		Handshake: func(*websocket.Config, *http.Request) error { return nil },
		Handler: func(conn *websocket.Conn) {
			defer conn.Close()
			var rh hws.Handler = &hws.RealtimeHandler{
				ClientSyncClockInterval: syncEvery,
				ClientIdleTimeout:       s.idle,
				FrameDuration:           s.frame,
				Sessions:                s.sessions,
				Modules:                 []modules.Module{&vikja.Module{}, &odal.Module{}, &dagaz.Module{}},
				FeatureFlags:            featureflag.New(nil),
				ReceiptChan:             s.receipts,
				PrivateKey:              wireKey,
			}
			h := hws.HandlerWithLogs(rh, time.Hour)
			h = hws.HandlerWithMetrics(h, "https://wire.test")
			defer h.Close()
			atomic.AddInt64(&s.entered, 1)
			defer func() {
				if r := recover(); r != nil {
					atomic.AddInt64(&s.panicked, 1)
					panic(r)
				}
			}()
			hws.Handle(context.Background(), conn, h)
			atomic.AddInt64(&s.returned, 1)
		},
	})
	return s
}

// the wallet key the server signs latency reports with
var wireKey = func() *ecdsa.PrivateKey {
	k, err := crypto.GenerateKey()
	if err != nil {
		panic(err)
	}
	return k
}()

// ---------------------------------------------------------------- clients

type client struct {
	ws     *websocket.Conn
	mu     sync.Mutex
	got    []hwebsocket.Msg
	closed chan struct{}
	name   string
	// messages the common library's receive function refused for want of a timestamp
	unreadable int32
	// why the read loop ended (the connection was closed, a frame could not be read, ...)
	readErr atomic.Value
}

// fate says what became of the client's connection, for a verdict: still open, or how its read loop ended
func (c *client) fate() string {
	select {
	case <-c.closed:
		return fmt.Sprintf("the client's read loop has ended: %v; it had received %d messages", c.readErr.Load(), func() int { c.mu.Lock(); defer c.mu.Unlock(); return len(c.got) }())
	default:
		return fmt.Sprintf("the client's connection is open; it has received %d messages", func() int { c.mu.Lock(); defer c.mu.Unlock(); return len(c.got) }())
	}
}

func (s *server) dial(name string, read bool) *client {
	c, refused := s.tryDialAs(name, read, "")
	if refused {
		panic("websocket handshake refused")
	}
	return c
}

// tryDialAs: with the client id the connection announces in its handshake (any bytes: it is an HTTP header)
func (s *server) tryDialAs(name string, read bool, clientID string) (*client, bool) {
	cfg, err := websocket.NewConfig(strings.Replace(s.ts.URL, "http://", "ws://", 1), "http://localhost")
	if err != nil {
		panic(err)
	}
	cfg.Header.Set("User-Agent", "wire")
	if clientID != "" {
		cfg.Header["Posemesh-Client-Id"] = []string{clientID}
	}
	ws, err := websocket.DialConfig(cfg)
	if err != nil {
		if clientID != "" {
			return nil, true
		}
		panic(err)
	}
	c := &client{ws: ws, closed: make(chan struct{}), name: name}
	if read {
		go c.readLoop()
	}
	return c, false
}

func (c *client) readLoop() {
	defer close(c.closed)
	for {
		m, _, err := hwebsocket.Receive(c.ws)
		if err != nil {
			if errors.Type(err) == hwebsocket.ErrTypeMsgMissingTimestamp {
				// the frame was read, the common library refuses what is in it: counted, the connection goes on
				atomic.AddInt32(&c.unreadable, 1)
				continue
			}
			c.readErr.Store(err.Error())
			return
		}
		c.mu.Lock()
		c.got = append(c.got, m)
		c.mu.Unlock()
	}
}

func (c *client) send(p hwebsocket.ProtoMsg) error {
	m, err := hwebsocket.MsgFromProto(p)
	if err != nil {
		return err
	}
	c.ws.SetWriteDeadline(time.Now().Add(2 * time.Second))
	_, err = hwebsocket.Send(c.ws, m)
	return err
}

func (c *client) raw(b []byte) error {
	c.ws.SetWriteDeadline(time.Now().Add(2 * time.Second))
	return websocket.Message.Send(c.ws, b)
}

// waitFor polls the inbox for a message of the given type matching f.
func (c *client) waitFor(ty hagallpb.MsgType, d time.Duration, f func(hwebsocket.Msg) bool) (hwebsocket.Msg, bool) {
	deadline := time.Now().Add(d)
	for {
		c.mu.Lock()
		for _, m := range c.got {
			if m.Type != nil && int32(m.Type.Number()) == int32(ty) && (f == nil || f(m)) {
				c.mu.Unlock()
				return m, true
			}
		}
		c.mu.Unlock()
		if time.Now().After(deadline) {
			return hwebsocket.Msg{}, false
		}
		time.Sleep(2 * time.Millisecond)
	}
}

func (c *client) count(ty hagallpb.MsgType, f func(hwebsocket.Msg) bool) int {
	c.mu.Lock()
	defer c.mu.Unlock()
	n := 0
	for _, m := range c.got {
		if m.Type != nil && int32(m.Type.Number()) == int32(ty) && (f == nil || f(m)) {
			n++
		}
	}
	return n
}

func now() *timestamppb.Timestamp { return timestamppb.Now() }

var ridCounter uint32 = 1000

func rid() uint32 { return atomic.AddUint32(&ridCounter, 1) }

// join joins (sessionID "" = new) and returns session id and participant id
func (c *client) join(sessionID string) (string, uint32, bool) {
	r := rid()
	c.send(&hagallpb.ParticipantJoinRequest{Type: hagallpb.MsgType_MSG_TYPE_PARTICIPANT_JOIN_REQUEST, Timestamp: now(), RequestId: r, SessionId: sessionID})
	m, ok := c.waitFor(hagallpb.MsgType_MSG_TYPE_PARTICIPANT_JOIN_RESPONSE, patience, nil)
	if !ok {
		return "", 0, false
	}
	var resp hagallpb.ParticipantJoinResponse
	m.DataTo(&resp)
	return resp.SessionId, resp.ParticipantId, true
}

func (c *client) ping(d time.Duration) bool {
	r := rid()
	if err := c.send(&hagallpb.Request{Type: hagallpb.MsgType_MSG_TYPE_PING_REQUEST, Timestamp: now(), RequestId: r}); err != nil {
		return false
	}
	_, ok := c.waitFor(hagallpb.MsgType_MSG_TYPE_PING_RESPONSE, d, func(m hwebsocket.Msg) bool {
		var resp hagallpb.Response
		m.DataTo(&resp)
		return resp.RequestId == r
	})
	return ok
}

// pingAfterLoad is ping for a client that has just flooded the server: its ping waits behind everything it sent, which
// the server may take a while to work off (race detector, loaded machine).  The client is unserved only when the answer
// is not there and nothing at all has reached it for the length of patience - or after two minutes.
func (c *client) pingAfterLoad() bool {
	c.mu.Lock()
	from := len(c.got)
	c.mu.Unlock()
	r := rid()
	if err := c.send(&hagallpb.Request{Type: hagallpb.MsgType_MSG_TYPE_PING_REQUEST, Timestamp: now(), RequestId: r}); err != nil {
		return false
	}
	// only what has arrived since the last look is examined, and the lock is held for that long only: a client that
	// scans everything it ever received every few milliseconds reads slowly, and a slow reader is ended by the server
	match := answers(r)
	lastAt, start := time.Now(), time.Now()
	for time.Since(start) < 2*time.Minute {
		c.mu.Lock()
		fresh := c.got[from:]
		from = len(c.got)
		c.mu.Unlock()
		for _, m := range fresh {
			if m.Type != nil && int32(m.Type.Number()) == int32(hagallpb.MsgType_MSG_TYPE_PING_RESPONSE) && match(m) {
				return true
			}
		}
		if len(fresh) > 0 {
			lastAt = time.Now()
		} else if time.Since(lastAt) > patience {
			return false
		}
		time.Sleep(20 * time.Millisecond)
	}
	return false
}

func (c *client) addEntity() (uint32, bool) {
	r := rid()
	c.send(&hagallpb.EntityAddRequest{Type: hagallpb.MsgType_MSG_TYPE_ENTITY_ADD_REQUEST, Timestamp: now(), RequestId: r, Pose: &hagallpb.Pose{Px: 1}})
	m, ok := c.waitFor(hagallpb.MsgType_MSG_TYPE_ENTITY_ADD_RESPONSE, patience, func(m hwebsocket.Msg) bool {
		var resp hagallpb.EntityAddResponse
		m.DataTo(&resp)
		return resp.RequestId == r
	})
	if !ok {
		return 0, false
	}
	var resp hagallpb.EntityAddResponse
	m.DataTo(&resp)
	return resp.EntityId, true
}

// ---------------------------------------------------------------- observations

func hagallGoroutines() int {
	buf := make([]byte, 1<<22)
	n := runtime.Stack(buf, true)
	cnt := 0
	for _, g := range bytes.Split(buf[:n], []byte("\n\n")) {
		if bytes.Contains(g, []byte("aukilabs/hagall/websocket.")) || bytes.Contains(g, []byte("aukilabs/hagall/models.")) ||
			bytes.Contains(g, []byte("hagall-common/websocket.")) {
			if bytes.Contains(g, []byte("main.hagallGoroutines")) {
				continue
			}
			cnt++
		}
	}
	return cnt
}

func leftoverStacks() string {
	buf := make([]byte, 1<<22)
	n := runtime.Stack(buf, true)
	var out []string
	for _, g := range bytes.Split(buf[:n], []byte("\n\n")) {
		if (bytes.Contains(g, []byte("aukilabs/hagall/websocket.")) || bytes.Contains(g, []byte("aukilabs/hagall/models."))) &&
			!bytes.Contains(g, []byte("main.leftoverStacks")) {
			lines := strings.Split(string(g), "\n")
			var fn []string
			for _, l := range lines[1:] {
				if strings.HasPrefix(l, "\t") || strings.HasPrefix(l, "created by") {
					continue
				}
				// function name without its arguments
				if i := strings.LastIndex(l, "("); i > 0 {
					l = l[:i]
				}
				l = strings.TrimPrefix(l, "github.com/aukilabs/")
				fn = append(fn, l)
				if len(fn) == 7 {
					break
				}
			}
			state := lines[0]
			if i := strings.Index(state, "["); i >= 0 {
				state = state[i:]
			}
			out = append(out, state+" "+strings.Join(fn, " < "))
		}
	}
	if os.Getenv("WIRE_DUMP") != "" {
		os.Stderr.Write(buf[:n])
	}
	return strings.Join(out, " | ")
}

type verdict struct {
	cause  string
	detail string
}

// settle closes the clients and waits until the server is back to rest, or says what is not
func (s *server) settle(clients []*client, base int, wait time.Duration) *verdict {
	for _, c := range clients {
		c.ws.Close()
	}
	deadline := time.Now().Add(wait)
	for {
		entered, returned, panicked := atomic.LoadInt64(&s.entered), atomic.LoadInt64(&s.returned), atomic.LoadInt64(&s.panicked)
		g := hagallGoroutines()
		gauge := hws.VerifConnectedClients()
		sessions := len(s.sessions.VerifSessionIDs())
		if returned == entered && panicked == 0 && g <= base && gauge == 0 && sessions == 0 {
			return nil
		}
		if time.Now().After(deadline) {
			switch {
			case panicked > 0:
				return &verdict{"handler-panicked", fmt.Sprintf("%d of %d handlers panicked", panicked, entered)}
			case returned+panicked < entered:
				return &verdict{"handler-never-returned", fmt.Sprintf("%d of %d connections: websocket.Handle has not returned %s after every client closed; %s", entered-returned-panicked, entered, wait, leftoverStacks())}
			case sessions != 0:
				return &verdict{"ghost-session", fmt.Sprintf("%d sessions still registered after every client left", sessions)}
			case gauge != 0:
				return &verdict{"connected-clients-gauge", fmt.Sprintf("ws_connected_clients is %v after every client left", gauge)}
			default:
				return &verdict{"goroutines-left", fmt.Sprintf("%d server goroutines left (%d at rest): %s", g, base, leftoverStacks())}
			}
		}
		time.Sleep(5 * time.Millisecond)
	}
}

// ---------------------------------------------------------------- message zoo

func nanPose(r *rand.Rand) *hagallpb.Pose {
	odd := []float32{float32(math.NaN()), float32(math.Inf(1)), float32(math.Inf(-1)), 3e38, -3e38, 0, 1e-45}
	p := &hagallpb.Pose{}
	p.Px, p.Py, p.Pz = odd[r.Intn(len(odd))], odd[r.Intn(len(odd))], odd[r.Intn(len(odd))]
	p.Rx, p.Ry, p.Rz, p.Rw = odd[r.Intn(len(odd))], 0, 0, odd[r.Intn(len(odd))]
	return p
}

func oddPoint(r *rand.Rand) *dagazpb.Point {
	odd := []float32{float32(math.NaN()), float32(math.Inf(1)), float32(math.Inf(-1)), 3e38, -1e30, 1e9, 0, -0.5, 70}
	if r.Intn(4) == 0 {
		return nil
	}
	return &dagazpb.Point{X: odd[r.Intn(len(odd))], Y: odd[r.Intn(len(odd))], Z: odd[r.Intn(len(odd))]}
}

// zoo returns structurally valid messages of every type with optional fields absent or at boundary values
func zoo(r *rand.Rand, eid uint32) []hwebsocket.ProtoMsg {
	ts := now
	big := strings.Repeat("x", 70000)
	ids := []uint32{0, eid, eid + 1, math.MaxUint32}
	id := func() uint32 { return ids[r.Intn(len(ids))] }
	var out []hwebsocket.ProtoMsg
	add := func(m hwebsocket.ProtoMsg) { out = append(out, m) }
	add(&hagallpb.Request{Type: hagallpb.MsgType_MSG_TYPE_PING_REQUEST, Timestamp: ts()})
	add(&hagallpb.Response{Type: hagallpb.MsgType_MSG_TYPE_PING_RESPONSE, Timestamp: ts(), RequestId: id()})
	add(&hagallpb.SignedLatencyRequest{Type: hagallpb.MsgType_MSG_TYPE_SIGNED_LATENCY_REQUEST, Timestamp: ts(), RequestId: rid(), IterationCount: []uint32{0, 1, 3, 50, 51, math.MaxUint32}[r.Intn(6)], WalletAddress: []string{"", "0xabc", big}[r.Intn(3)]})
	add(&hagallpb.EntityAddRequest{Type: hagallpb.MsgType_MSG_TYPE_ENTITY_ADD_REQUEST, Timestamp: ts(), RequestId: rid()})
	add(&hagallpb.EntityAddRequest{Type: hagallpb.MsgType_MSG_TYPE_ENTITY_ADD_REQUEST, Timestamp: ts(), RequestId: rid(), Pose: nanPose(r), Persist: r.Intn(2) == 0})
	add(&hagallpb.EntityDeleteRequest{Type: hagallpb.MsgType_MSG_TYPE_ENTITY_DELETE_REQUEST, Timestamp: ts(), RequestId: rid(), EntityId: id()})
	add(&hagallpb.EntityUpdatePose{Type: hagallpb.MsgType_MSG_TYPE_ENTITY_UPDATE_POSE, Timestamp: ts(), EntityId: id()})
	add(&hagallpb.EntityUpdatePose{Type: hagallpb.MsgType_MSG_TYPE_ENTITY_UPDATE_POSE, Timestamp: ts(), EntityId: id(), Pose: nanPose(r)})
	add(&hagallpb.CustomMessage{Type: hagallpb.MsgType_MSG_TYPE_CUSTOM_MESSAGE, Timestamp: ts()})
	add(&hagallpb.CustomMessage{Type: hagallpb.MsgType_MSG_TYPE_CUSTOM_MESSAGE, Timestamp: ts(), ParticipantIds: []uint32{0, 1, 1, math.MaxUint32}, Body: []byte(big[:10241])})
	add(&hagallpb.EntityComponentTypeAddRequest{Type: hagallpb.MsgType_MSG_TYPE_ENTITY_COMPONENT_TYPE_ADD_REQUEST, Timestamp: ts(), RequestId: rid(), EntityComponentTypeName: []string{"", "t", big}[r.Intn(3)]})
	add(&hagallpb.EntityComponentTypeGetNameRequest{Type: hagallpb.MsgType_MSG_TYPE_ENTITY_COMPONENT_TYPE_GET_NAME_REQUEST, Timestamp: ts(), RequestId: rid(), EntityComponentTypeId: id()})
	add(&hagallpb.EntityComponentTypeGetIdRequest{Type: hagallpb.MsgType_MSG_TYPE_ENTITY_COMPONENT_TYPE_GET_ID_REQUEST, Timestamp: ts(), RequestId: rid(), EntityComponentTypeName: []string{"", "t"}[r.Intn(2)]})
	add(&hagallpb.EntityComponentAddRequest{Type: hagallpb.MsgType_MSG_TYPE_ENTITY_COMPONENT_ADD_REQUEST, Timestamp: ts(), RequestId: rid(), EntityComponentTypeId: id(), EntityId: id()})
	add(&hagallpb.EntityComponentDeleteRequest{Type: hagallpb.MsgType_MSG_TYPE_ENTITY_COMPONENT_DELETE_REQUEST, Timestamp: ts(), RequestId: rid(), EntityComponentTypeId: id(), EntityId: id()})
	add(&hagallpb.EntityComponentUpdate{Type: hagallpb.MsgType_MSG_TYPE_ENTITY_COMPONENT_UPDATE, Timestamp: ts(), EntityComponentTypeId: id(), EntityId: id()})
	add(&hagallpb.EntityComponentListRequest{Type: hagallpb.MsgType_MSG_TYPE_ENTITY_COMPONENT_LIST_REQUEST, Timestamp: ts(), RequestId: rid(), EntityComponentTypeId: id()})
	add(&hagallpb.EntityComponentTypeSubscribeRequest{Type: hagallpb.MsgType_MSG_TYPE_ENTITY_COMPONENT_TYPE_SUBSCRIBE_REQUEST, Timestamp: ts(), RequestId: rid(), EntityComponentTypeId: id()})
	add(&hagallpb.EntityComponentTypeUnsubscribeRequest{Type: hagallpb.MsgType_MSG_TYPE_ENTITY_COMPONENT_TYPE_UNSUBSCRIBE_REQUEST, Timestamp: ts(), RequestId: rid(), EntityComponentTypeId: id()})
	add(&vikjapb.EntityActionRequest{Type: vikjapb.MsgType_MSG_TYPE_VIKJA_ENTITY_ACTION_REQUEST, Timestamp: ts(), RequestId: rid()})
	add(&vikjapb.EntityActionRequest{Type: vikjapb.MsgType_MSG_TYPE_VIKJA_ENTITY_ACTION_REQUEST, Timestamp: ts(), RequestId: rid(), EntityAction: &vikjapb.EntityAction{EntityId: id(), Name: []string{"", "a", big}[r.Intn(3)]}})
	add(&vikjapb.EntityActionRequest{Type: vikjapb.MsgType_MSG_TYPE_VIKJA_ENTITY_ACTION_REQUEST, Timestamp: ts(), RequestId: rid(), EntityAction: &vikjapb.EntityAction{EntityId: id(), Name: "a", Timestamp: &timestamppb.Timestamp{Seconds: []int64{math.MinInt64, -1, 0, math.MaxInt64}[r.Intn(4)], Nanos: []int32{-1, 0, math.MaxInt32}[r.Intn(3)]}}})
	add(&odalpb.AssetInstanceAddRequest{Type: odalpb.MsgType_MSG_TYPE_ODAL_ASSET_INSTANCE_ADD_REQUEST, Timestamp: ts(), RequestId: rid(), AssetId: []string{"", "a", big}[r.Intn(3)], EntityId: id()})
	add(&dagazpb.DagazQuadSample{Type: dagazpb.MsgType_MSG_TYPE_DAGAZ_QUAD_SAMPLE, Timestamp: ts()})
	add(&dagazpb.DagazQuadSample{Type: dagazpb.MsgType_MSG_TYPE_DAGAZ_QUAD_SAMPLE, Timestamp: ts(), Samples: []*dagazpb.Quad{nil, {}, {Center: oddPoint(r), Extents: oddPoint(r)}, {Center: &dagazpb.Point{X: 1, Z: 1}, Extents: &dagazpb.Point{X: 1, Z: 1}}}})
	add(&dagazpb.DagazGetGroundPlaneRequest{Type: dagazpb.MsgType_MSG_TYPE_DAGAZ_GET_GROUND_PLANE_REQUEST, Timestamp: ts(), RequestId: rid()})
	add(&dagazpb.DagazGetGroundPlaneRequest{Type: dagazpb.MsgType_MSG_TYPE_DAGAZ_GET_GROUND_PLANE_REQUEST, Timestamp: ts(), RequestId: rid(), Ray: &dagazpb.Ray{From: oddPoint(r), To: oddPoint(r)}})
	add(&dagazpb.DagazGetRegionRequest{Type: dagazpb.MsgType_MSG_TYPE_DAGAZ_GET_REGION_REQUEST, Timestamp: ts(), RequestId: rid(), Min: oddPoint(r), Max: oddPoint(r)})
	add(&dagazpb.DagazGetDebugInfoRequest{Type: dagazpb.MsgType_MSG_TYPE_DAGAZ_GET_DEBUG_INFO_REQUEST, Timestamp: ts(), RequestId: rid()})
	add(&hagallpb.ReceiptRequest{Type: hagallpb.MsgType_MSG_TYPE_RECEIPT_REQUEST, Timestamp: ts(), RequestId: rid()})
	add(&hagallpb.Request{Type: hagallpb.MsgType(9999), Timestamp: ts(), RequestId: rid()})
	r.Shuffle(len(out), func(i, j int) { out[i], out[j] = out[j], out[i] })
	return out
}

// garbage: frames that are not a message at all, or a known type with a body that does not decode
func garbage(r *rand.Rand) [][]byte {
	var out [][]byte
	for i := 0; i < 6; i++ {
		b := make([]byte, r.Intn(64))
		r.Read(b)
		out = append(out, b)
	}
	out = append(out, nil, []byte{}, bytes.Repeat([]byte{0xff}, 4096))
	for _, ty := range []int32{2, 4, 6, 10, 12, 14, 16, 20, 24, 28, 30, 32, 36, 42, 101, 201, 300, 301, 303, 305} {
		m, _ := hwebsocket.MsgFromProto(&hagallpb.Request{Type: hagallpb.MsgType(ty), Timestamp: now(), RequestId: 7})
		_ = m
		// envelope fields (type, timestamp) valid, the rest of the body random
		env, _ := protoMarshal(&hagallpb.Msg{Type: hagallpb.MsgType(ty), Timestamp: now()})
		junk := make([]byte, 1+r.Intn(24))
		r.Read(junk)
		out = append(out, append(env, junk...))
	}
	r.Shuffle(len(out), func(i, j int) { out[i], out[j] = out[j], out[i] })
	return out
}

// ---------------------------------------------------------------- scenarios

type world struct {
	s        *server
	base     int
	w1, w2   *client // witnesses in session A
	w3       *client // witness in session B
	sidA     string
	all      []*client
	r        *rand.Rand
	entityW1 uint32
	pid1     uint32
	pid2     uint32
	stop     chan struct{}
}

func newWorld(seed int64, idle, frame time.Duration) *world {
	w := &world{s: newServer(idle, frame), r: rand.New(rand.NewSource(seed))}
	w.base = hagallGoroutines()
	w.w1, w.w2, w.w3 = w.s.dial("w1", true), w.s.dial("w2", true), w.s.dial("w3", true)
	w.all = []*client{w.w1, w.w2, w.w3}
	w.sidA, w.pid1, _ = w.w1.join("")
	_, w.pid2, _ = w.w2.join(w.sidA)
	w.w3.join("")
	w.entityW1, _ = w.w1.addEntity()
	// the witnesses are well-behaved clients: they keep talking, so the idle timeout is not for them
	w.stop = make(chan struct{})
	// (each on its own clock: a witness whose socket is backed up must not keep the others from talking)
	for _, c := range []*client{w.w1, w.w2, w.w3} {
		go func(c *client) {
			t := time.NewTicker(idle / 4)
			defer t.Stop()
			for {
				select {
				case <-w.stop:
					return
				case <-t.C:
					c.send(&hagallpb.Request{Type: hagallpb.MsgType_MSG_TYPE_PING_REQUEST, Timestamp: now(), RequestId: 1})
				}
			}
		}(c)
	}
	return w
}

// keepAlive makes the witnesses talk so that they are not idle
func (w *world) witnessesFine() *verdict {
	if !w.w3.ping(patience) {
		return &verdict{"other-session-disturbed", "a participant of another session got no ping response in time"}
	}
	if !w.w1.ping(patience) {
		return &verdict{"same-session-witness-disturbed", "a well-behaved participant of the offender's session got no ping response in time; server goroutines: " + leftoverStacks()}
	}
	eid, ok := w.w2.addEntity()
	if !ok {
		return &verdict{"same-session-witness-disturbed", "a well-behaved participant of the offender's session could not add an entity in time"}
	}
	// pose updates travel through the session's frame worker: it must still be turning
	px := float32(1000 + rid()%1000)
	w.w2.send(&hagallpb.EntityUpdatePose{Type: hagallpb.MsgType_MSG_TYPE_ENTITY_UPDATE_POSE, Timestamp: now(), EntityId: eid, Pose: &hagallpb.Pose{Px: px}})
	if _, ok := w.w1.waitFor(hagallpb.MsgType_MSG_TYPE_ENTITY_UPDATE_POSE_BROADCAST, patience, func(m hwebsocket.Msg) bool {
		var b hagallpb.EntityUpdatePoseBroadcast
		m.DataTo(&b)
		return b.EntityId == eid && b.Pose != nil && b.Pose.Px == px
	}); !ok {
		return &verdict{"session-frame-worker-stuck", "a pose update of a well-behaved participant of the offender's session was not relayed to the other witness in time; server goroutines: " + leftoverStacks()}
	}
	return nil
}

func (w *world) offender(joinA bool, read bool) (*client, uint32) {
	o := w.s.dial("offender", read)
	w.all = append(w.all, o)
	var pid uint32
	if joinA && read {
		_, pid, _ = o.join(w.sidA)
	} else if joinA {
		o.send(&hagallpb.ParticipantJoinRequest{Type: hagallpb.MsgType_MSG_TYPE_PARTICIPANT_JOIN_REQUEST, Timestamp: now(), RequestId: rid(), SessionId: w.sidA})
		time.Sleep(30 * time.Millisecond)
	}
	return o, pid
}

// exactlyOneLeave: the witnesses see the offender leave at most once, and exactly once if it had joined and is gone
func (w *world) leaves(pid uint32) int {
	return w.w1.count(hagallpb.MsgType_MSG_TYPE_PARTICIPANT_LEAVE_BROADCAST, func(m hwebsocket.Msg) bool {
		var b hagallpb.ParticipantLeaveBroadcast
		m.DataTo(&b)
		return b.ParticipantId == pid
	})
}

func (w *world) finish(v *verdict, pid uint32, wait time.Duration) *verdict {
	if v == nil {
		v = w.witnessesFine()
	}
	if v == nil {
		for _, c := range w.all {
			if n := atomic.LoadInt32(&c.unreadable); n > 0 {
				v = &verdict{"message-without-timestamp", fmt.Sprintf("client %s was sent %d messages without a timestamp: the receive function of the common library refuses them", c.name, n)}
				break
			}
		}
	}
	if v == nil && pid != 0 {
		// the offender is closed first: its departure must reach the witnesses exactly once
		w.all[len(w.all)-1].ws.Close()
		deadline := time.Now().Add(wait)
		for w.leaves(pid) == 0 && time.Now().Before(deadline) {
			time.Sleep(5 * time.Millisecond)
		}
		time.Sleep(20 * time.Millisecond)
		if n := w.leaves(pid); n != 1 {
			v = &verdict{"departure-not-exactly-once", fmt.Sprintf("the witnesses saw participant %d leave %d times", pid, n)}
		}
	}
	close(w.stop)
	if sv := w.s.settle(w.all, w.base, wait); v == nil {
		v = sv
	}
	w.s.ts.Close()
	return v
}

func scenarioMalformed(seed int64, idle, frame time.Duration) *verdict {
	w := newWorld(seed, idle, frame)
	joined := w.r.Intn(3) > 0
	o, pid := w.offender(joined, true)
	if joined {
		o.addEntity()
	}
	for _, b := range garbage(w.r) {
		if o.raw(b) != nil {
			break
		}
	}
	time.Sleep(50 * time.Millisecond)
	return w.finish(nil, pid, 3*time.Second+2*idle)
}

func scenarioFields(seed int64, idle, frame time.Duration) *verdict {
	w := newWorld(seed, idle, frame)
	joined := w.r.Intn(4) > 0
	o, pid := w.offender(joined, true)
	var eid uint32
	if joined {
		eid, _ = o.addEntity()
	}
	for _, m := range zoo(w.r, eid) {
		if o.send(m) != nil {
			// the server ended the connection (legitimately, e.g. a session-less request): start over
			o, pid = w.offender(joined, true)
		}
	}
	time.Sleep(80 * time.Millisecond)
	return w.finish(nil, pid, 3*time.Second+2*idle)
}

func scenarioBurst(seed int64, idle, frame time.Duration) *verdict {
	w := newWorld(seed, idle, frame)
	// many failing requests in one write: each makes the handler report an error
	for k := 0; k < 12; k++ {
		o := w.s.dial("burst", false)
		w.all = append(w.all, o)
		size := []int{40, 40, 600}[k%3] // the large ones leave a backlog behind the first failure
		for i := 0; i < size; i++ {
			if o.send(&hagallpb.EntityAddRequest{Type: hagallpb.MsgType_MSG_TYPE_ENTITY_ADD_REQUEST, Timestamp: now(), RequestId: rid()}) != nil {
				break
			}
		}
	}
	time.Sleep(100 * time.Millisecond)
	return w.finish(nil, 0, 3*time.Second+2*idle)
}

func scenarioAbrupt(seed int64, idle, frame time.Duration) *verdict {
	w := newWorld(seed, idle, frame)
	var pid uint32
	for k := 0; k < 10; k++ {
		o, p := w.offender(w.r.Intn(2) == 0, true)
		if p != 0 {
			pid = 0 // several offenders: only the generic end-state checks
		}
		switch w.r.Intn(4) {
		case 0: // right after asking to join
			o.send(&hagallpb.ParticipantJoinRequest{Type: hagallpb.MsgType_MSG_TYPE_PARTICIPANT_JOIN_REQUEST, Timestamp: now(), RequestId: rid(), SessionId: w.sidA})
		case 1: // in the middle of a burst of work
			for i := 0; i < 30; i++ {
				o.send(&hagallpb.EntityAddRequest{Type: hagallpb.MsgType_MSG_TYPE_ENTITY_ADD_REQUEST, Timestamp: now(), RequestId: rid(), Pose: &hagallpb.Pose{}})
			}
		case 2: // in the middle of a frame
			o.ws.Write([]byte{0x82, 0x7e, 0x10})
		}
		o.ws.Close()
	}
	time.Sleep(50 * time.Millisecond)
	return w.finish(nil, pid, 3*time.Second+2*idle)
}

func scenarioStallChatty(seed int64, idle, frame time.Duration) *verdict {
	w := newWorld(seed, idle, frame)
	// a client that keeps sending requests and never reads the answers
	o, _ := w.offender(true, false)
	name := string(bytes.Repeat([]byte{'n'}, 9000))
	o.send(&hagallpb.EntityComponentTypeAddRequest{Type: hagallpb.MsgType_MSG_TYPE_ENTITY_COMPONENT_TYPE_ADD_REQUEST, Timestamp: now(), RequestId: rid(), EntityComponentTypeName: name})
	done := make(chan struct{})
	go func() {
		defer close(done)
		for i := 0; i < 6000; i++ {
			// every one of these is answered with the 9 kB name, which the client never reads
			if o.send(&hagallpb.EntityComponentTypeGetNameRequest{Type: hagallpb.MsgType_MSG_TYPE_ENTITY_COMPONENT_TYPE_GET_NAME_REQUEST, Timestamp: now(), RequestId: rid(), EntityComponentTypeId: 1}) != nil {
				return
			}
		}
	}()
	select {
	case <-done:
	case <-time.After(3 * time.Second):
	}
	v := w.witnessesFine()
	return w.finish(v, 0, 4*time.Second+2*idle)
}

// a member that stops reading while it keeps sending requests (answered with large responses) and pose updates: its
// send queue fills, its main loop blocks on it, its scheduler queue fills, and the session's frame worker has updates to
// hand to that scheduler.  When the connection is finally ended, the session and its other members must move on.
func scenarioStallPose(seed int64, idle, frame time.Duration) *verdict {
	w := newWorld(seed, idle, frame)
	o, _ := w.offender(true, false)
	name := string(bytes.Repeat([]byte{'n'}, 9000))
	o.send(&hagallpb.EntityComponentTypeAddRequest{Type: hagallpb.MsgType_MSG_TYPE_ENTITY_COMPONENT_TYPE_ADD_REQUEST, Timestamp: now(), RequestId: rid(), EntityComponentTypeName: name})
	done := make(chan struct{})
	go func() {
		defer close(done)
		for i := 0; i < 8000; i++ {
			if i%7 == 0 {
				// any entity id will do: the scheduler keeps the update until the next frame whoever owns the entity
				if o.send(&hagallpb.EntityUpdatePose{Type: hagallpb.MsgType_MSG_TYPE_ENTITY_UPDATE_POSE, Timestamp: now(), EntityId: uint32(1 + i%5), Pose: &hagallpb.Pose{Px: float32(i)}}) != nil {
					return
				}
			}
			if o.send(&hagallpb.EntityComponentTypeGetNameRequest{Type: hagallpb.MsgType_MSG_TYPE_ENTITY_COMPONENT_TYPE_GET_NAME_REQUEST, Timestamp: now(), RequestId: rid(), EntityComponentTypeId: 1}) != nil {
				return
			}
		}
	}()
	select {
	case <-done:
	case <-time.After(2*idle + 2*time.Second):
	}
	o.ws.Close()
	time.Sleep(idle + 300*time.Millisecond)
	v := w.witnessesFine()
	return w.finish(v, 0, 4*time.Second+2*idle)
}

func scenarioStallSilent(seed int64, idle, frame time.Duration) *verdict {
	w := newWorld(seed, idle, frame)
	// a member that neither reads nor sends while the others broadcast a lot
	w.offender(true, false)
	body := bytes.Repeat([]byte{1}, 10000)
	start := time.Now()
	stuck := false
	for i := 0; i < 1500 && !stuck; i++ {
		if w.w1.send(&hagallpb.CustomMessage{Type: hagallpb.MsgType_MSG_TYPE_CUSTOM_MESSAGE, Timestamp: now(), Body: body}) != nil {
			stuck = true
		}
		if i%100 == 0 && !w.w3.ping(patience) {
			return w.finish(&verdict{"other-session-disturbed", "a participant of another session got no ping response while a member of the first session was stalled"}, 0, 4*time.Second+2*idle)
		}
	}
	_ = start
	// the stalled member is idle: it must be disconnected by the idle timeout, after which the session moves again
	time.Sleep(2*idle + 300*time.Millisecond)
	v := w.witnessesFine()
	return w.finish(v, 0, 4*time.Second+2*idle)
}

func scenarioIdle(seed int64, idle, frame time.Duration) *verdict {
	// as in production, the server's own heartbeat is much more frequent than the idle timeout: it must not count as
	// activity of the client
	syncEvery = idle / 4
	defer func() { syncEvery = time.Hour }()
	w := newWorld(seed, idle, frame)
	silent, _ := w.offender(true, true)
	chatty := w.s.dial("chatty", true)
	w.all = append(w.all, chatty)
	talk := int(seed % 6) // every way of talking in turn
	if talk < 4 {
		chatty.join(w.sidA)
	} // else: a connection that is in no session - it has no frames, what it sends still shows that it is there
	// the talking client sends a request every quarter of the idle timeout, on its own clock (it does not wait for the
	// answers: a slow machine must not turn it into a silent one)
	stopTalking := make(chan struct{})
	go func() {
		t := time.NewTicker(idle / 4)
		defer t.Stop()
		for {
			select {
			case <-stopTalking:
				return
			case <-t.C:
				// whatever it sends, it is not idle: requests that are answered, updates that wait for a frame, updates
				// that are dropped for carrying no pose, messages of no known type
				switch talk {
				case 0:
					chatty.send(&hagallpb.Request{Type: hagallpb.MsgType_MSG_TYPE_PING_REQUEST, Timestamp: now(), RequestId: rid()})
				case 1:
					chatty.send(&hagallpb.EntityUpdatePose{Type: hagallpb.MsgType_MSG_TYPE_ENTITY_UPDATE_POSE, Timestamp: now(), EntityId: 1})
				case 2:
					chatty.send(&hagallpb.EntityUpdatePose{Type: hagallpb.MsgType_MSG_TYPE_ENTITY_UPDATE_POSE, Timestamp: now(), EntityId: 77, Pose: &hagallpb.Pose{Px: 1}})
				case 3:
					chatty.send(&hagallpb.Request{Type: hagallpb.MsgType(4242), Timestamp: now()})
				case 4:
					chatty.send(&hagallpb.EntityUpdatePose{Type: hagallpb.MsgType_MSG_TYPE_ENTITY_UPDATE_POSE, Timestamp: now(), EntityId: 1, Pose: &hagallpb.Pose{Px: 1}})
				default:
					chatty.send(&hagallpb.EntityComponentUpdate{Type: hagallpb.MsgType_MSG_TYPE_ENTITY_COMPONENT_UPDATE, Timestamp: now(), EntityComponentTypeId: 1, EntityId: 1, Data: []byte{1}})
				}
			}
		}
	}()
	time.Sleep(3 * idle)
	talking := chatty.ping(patience)
	close(stopTalking)
	if !talking {
		return w.finish(&verdict{"talking-client-disconnected", fmt.Sprintf("a client that sends a message (kind %d: 0 ping, 1 pose update without a pose, 2 pose update, 3 unknown type; without having joined: 4 pose update, 5 component update) every quarter of the idle timeout was disconnected", talk)}, 0, 3*time.Second+2*idle)
	}
	select {
	case <-silent.closed:
	default:
		return w.finish(&verdict{"silent-client-not-disconnected", fmt.Sprintf("a client silent for %s (idle timeout %s) is still connected", 3*idle, idle)}, 0, 3*time.Second+2*idle)
	}
	return w.finish(nil, 0, 3*time.Second+2*idle)
}

// scenarioOrder: a recipient that reads slowly for a while (its send queue on the server fills up) and then catches
// up must still receive one sender's relays in the order the sender made the requests, each exactly once (C02)
func scenarioOrder(seed int64, idle, frame time.Duration) *verdict {
	w := newWorld(seed, 5*time.Second, frame)
	slow := w.s.dial("slow", false)
	w.all = append(w.all, slow)
	slow.send(&hagallpb.ParticipantJoinRequest{Type: hagallpb.MsgType_MSG_TYPE_PARTICIPANT_JOIN_REQUEST, Timestamp: now(), RequestId: rid(), SessionId: w.sidA})
	time.Sleep(50 * time.Millisecond)
	movable, _ := w.w2.addEntity()
	// a component of the entity, of a type the slow member subscribes to (it can still send: it only does not read)
	var tid uint32
	w.w2.send(&hagallpb.EntityComponentTypeAddRequest{Type: hagallpb.MsgType_MSG_TYPE_ENTITY_COMPONENT_TYPE_ADD_REQUEST, Timestamp: now(), RequestId: rid(), EntityComponentTypeName: "order"})
	if m, ok := w.w2.waitFor(hagallpb.MsgType_MSG_TYPE_ENTITY_COMPONENT_TYPE_ADD_RESPONSE, patience, nil); ok {
		var b hagallpb.EntityComponentTypeAddResponse
		m.DataTo(&b)
		tid = b.EntityComponentTypeId
	}
	if tid != 0 {
		slow.send(&hagallpb.EntityComponentTypeSubscribeRequest{Type: hagallpb.MsgType_MSG_TYPE_ENTITY_COMPONENT_TYPE_SUBSCRIBE_REQUEST, Timestamp: now(), RequestId: rid(), EntityComponentTypeId: tid})
		time.Sleep(50 * time.Millisecond)
		w.w2.send(&hagallpb.EntityComponentAddRequest{Type: hagallpb.MsgType_MSG_TYPE_ENTITY_COMPONENT_ADD_REQUEST, Timestamp: now(), RequestId: rid(), EntityComponentTypeId: tid, EntityId: movable, Data: []byte{1}})
		w.w2.waitFor(hagallpb.MsgType_MSG_TYPE_ENTITY_COMPONENT_ADD_RESPONSE, patience, nil)
	}
	const total = 5000
	body := bytes.Repeat([]byte{9}, 4000)
	sent := make(chan struct{})
	var progress int64
	go func() {
		defer close(sent)
		for i := 0; i < total; i++ {
			b := append([]byte(fmt.Sprintf("%08d", i)), body...)
			if w.w1.send(&hagallpb.CustomMessage{Type: hagallpb.MsgType_MSG_TYPE_CUSTOM_MESSAGE, Timestamp: now(), Body: b}) != nil {
				return
			}
			atomic.AddInt64(&progress, 1)
		}
	}()
	// the backlog builds up: until the sender itself makes no progress any more (the slow member's queue, the socket
	// buffers and the sender's own connection are all full)
	for last, still := int64(-1), 0; still < 8; {
		time.Sleep(50 * time.Millisecond)
		if p := atomic.LoadInt64(&progress); p == last {
			still++
		} else {
			last, still = p, 0
		}
		if atomic.LoadInt64(&progress) >= total {
			break
		}
	}
	// behind the backlog, another member creates an entity and moves it: the slow member must be told, once it catches up
	moved := make(chan uint32, 1)
	go func() {
		// the pose update first: it is relayed while the slow member's queue is full
		w.w2.send(&hagallpb.EntityUpdatePose{Type: hagallpb.MsgType_MSG_TYPE_ENTITY_UPDATE_POSE, Timestamp: now(), EntityId: movable, Pose: &hagallpb.Pose{Px: 4242}})
		if tid != 0 { // and an update of the component the slow member subscribes to
			w.w2.send(&hagallpb.EntityComponentUpdate{Type: hagallpb.MsgType_MSG_TYPE_ENTITY_COMPONENT_UPDATE, Timestamp: now(), EntityComponentTypeId: tid, EntityId: movable, Data: []byte{0x42, 0x42}})
		}
		time.Sleep(200 * time.Millisecond) // a few frames: the update is on its way to the others before anything else of this member
		eid, _ := w.w2.addEntity()
		moved <- eid
	}()
	time.Sleep(500 * time.Millisecond)
	go slow.readLoop()
	select {
	case <-sent:
	case <-time.After(20 * time.Second):
	}
	deadline := time.Now().Add(10 * time.Second)
	for slow.count(hagallpb.MsgType_MSG_TYPE_CUSTOM_MESSAGE_BROADCAST, nil) < total && time.Now().Before(deadline) {
		time.Sleep(10 * time.Millisecond)
	}
	var v *verdict
	slow.mu.Lock()
	last := -1
	n := 0
	for _, m := range slow.got {
		if m.Type == nil || int32(m.Type.Number()) != int32(hagallpb.MsgType_MSG_TYPE_CUSTOM_MESSAGE_BROADCAST) {
			continue
		}
		var b hagallpb.CustomMessageBroadcast
		m.DataTo(&b)
		var seq int
		fmt.Sscanf(string(b.Body[:8]), "%d", &seq)
		n++
		if seq <= last && v == nil {
			v = &verdict{"relays-out-of-order", fmt.Sprintf("a recipient catching up on a backlog received relay %d after relay %d of the same sender", seq, last)}
		}
		last = seq
	}
	slow.mu.Unlock()
	if v == nil && n != total {
		v = &verdict{"relays-lost", fmt.Sprintf("a recipient that caught up received %d of %d relays", n, total)}
	}
	if v == nil {
		select {
		case eid := <-moved:
			if eid != 0 {
				if _, ok := slow.waitFor(hagallpb.MsgType_MSG_TYPE_ENTITY_ADD_BROADCAST, patience, func(m hwebsocket.Msg) bool {
					var b hagallpb.EntityAddBroadcast
					m.DataTo(&b)
					return b.Entity != nil && b.Entity.Id == eid
				}); !ok {
					v = &verdict{"relays-lost", fmt.Sprintf("a recipient that caught up on a backlog was never told of entity %d, created by another member meanwhile", eid)}
				} else if _, ok := slow.waitFor(hagallpb.MsgType_MSG_TYPE_ENTITY_UPDATE_POSE_BROADCAST, patience, func(m hwebsocket.Msg) bool {
					var b hagallpb.EntityUpdatePoseBroadcast
					m.DataTo(&b)
					return b.EntityId == movable && b.Pose != nil && b.Pose.Px == 4242
				}); !ok {
					v = &verdict{"relays-lost", fmt.Sprintf("a recipient that caught up on a backlog was never relayed the pose update of entity %d, made by another member meanwhile", movable)}
				} else if _, ok := slow.waitFor(hagallpb.MsgType_MSG_TYPE_ENTITY_COMPONENT_UPDATE_BROADCAST, patience, func(m hwebsocket.Msg) bool {
					var b hagallpb.EntityComponentUpdateBroadcast
					m.DataTo(&b)
					return b.EntityComponent != nil && b.EntityComponent.EntityId == movable && bytes.Equal(b.EntityComponent.Data, []byte{0x42, 0x42})
				}); !ok && tid != 0 {
					v = &verdict{"notification-lost", fmt.Sprintf("a subscriber that caught up on a backlog was never notified of the update of the component (type %d, entity %d) made by another member meanwhile", tid, movable)}
				}
			}
		case <-time.After(patience):
			v = &verdict{"same-session-witness-disturbed", "a member that created an entity while another member lagged was not answered in time"}
		}
	}
	return w.finish(v, 0, 8*time.Second)
}

// custom messages at the edges of what the protocol allows: a body of exactly the largest size with a long recipient list
// (duplicates, the sender, strangers with large ids) is delivered once to the member it names; one byte more is refused
// with the too-large error and the connection lives on
func scenarioBigFrame(seed int64, idle, frame time.Duration) *verdict {
	w := newWorld(seed, idle, frame)
	var ids []uint32
	for i := 0; i < 50; i++ {
		ids = append(ids, w.pid2, w.pid1)
	}
	for i := 0; i < 100; i++ {
		ids = append(ids, 4000000000+uint32(w.r.Intn(1000000)))
	}
	w.r.Shuffle(len(ids), func(i, j int) { ids[i], ids[j] = ids[j], ids[i] })
	body := bytes.Repeat([]byte{5}, 10240)
	body[0] = byte(w.r.Intn(250))
	var v *verdict
	w.w1.send(&hagallpb.CustomMessage{Type: hagallpb.MsgType_MSG_TYPE_CUSTOM_MESSAGE, Timestamp: now(), Body: body, ParticipantIds: ids})
	match := func(m hwebsocket.Msg) bool {
		var b hagallpb.CustomMessageBroadcast
		m.DataTo(&b)
		return bytes.Equal(b.Body, body)
	}
	if _, ok := w.w2.waitFor(hagallpb.MsgType_MSG_TYPE_CUSTOM_MESSAGE_BROADCAST, patience, match); !ok {
		v = &verdict{"custom-delivery", "a custom message with a body of exactly 10240 bytes and 200 recipient ids naming a member was not delivered to that member"}
	}
	time.Sleep(100 * time.Millisecond)
	if n := w.w2.count(hagallpb.MsgType_MSG_TYPE_CUSTOM_MESSAGE_BROADCAST, match); v == nil && n != 1 {
		v = &verdict{"custom-delivery", fmt.Sprintf("a member named 50 times in a recipient list received the message %d times", n)}
	}
	if v == nil {
		r := rid()
		_ = r
		w.w1.send(&hagallpb.CustomMessage{Type: hagallpb.MsgType_MSG_TYPE_CUSTOM_MESSAGE, Timestamp: now(), Body: append(body, 1), ParticipantIds: ids})
		if _, ok := w.w1.waitFor(hagallpb.MsgType_MSG_TYPE_ERROR_RESPONSE, patience, func(m hwebsocket.Msg) bool {
			var e hagallpb.ErrorResponse
			m.DataTo(&e)
			return int32(e.Code) == int32(hagallpb.ErrorCode_ERROR_CODE_TOO_LARGE)
		}); !ok {
			v = &verdict{"custom-size-limit", "a custom message with a body of 10241 bytes was not refused with the too-large error"}
		} else if !w.w1.ping(patience) {
			v = &verdict{"custom-size-limit", "the sender of a too large custom message was disconnected instead of refused"}
		}
	}
	return w.finish(v, 0, 3*time.Second+2*idle)
}

// a member whose send queue is full (it stopped reading while the others relay a lot) asks to move to a session of its
// own and then reads again: it must be answered, and the session it left must go on
func scenarioStallSwitch(seed int64, idle, frame time.Duration) *verdict {
	w := newWorld(seed, 5*time.Second, frame)
	o := w.s.dial("mover", false)
	w.all = append(w.all, o)
	o.send(&hagallpb.ParticipantJoinRequest{Type: hagallpb.MsgType_MSG_TYPE_PARTICIPANT_JOIN_REQUEST, Timestamp: now(), RequestId: rid(), SessionId: w.sidA})
	time.Sleep(50 * time.Millisecond)
	body := bytes.Repeat([]byte{7}, 10000)
	flooded := make(chan struct{})
	go func() {
		defer close(flooded)
		for i := 0; i < 3000; i++ {
			if w.w1.send(&hagallpb.CustomMessage{Type: hagallpb.MsgType_MSG_TYPE_CUSTOM_MESSAGE, Timestamp: now(), Body: body}) != nil {
				return
			}
		}
	}()
	time.Sleep(800 * time.Millisecond) // the mover's queue fills, the relays to it stall
	r := rid()
	o.send(&hagallpb.ParticipantJoinRequest{Type: hagallpb.MsgType_MSG_TYPE_PARTICIPANT_JOIN_REQUEST, Timestamp: now(), RequestId: r})
	time.Sleep(200 * time.Millisecond)
	go o.readLoop()
	var v *verdict
	if _, ok := o.waitFor(hagallpb.MsgType_MSG_TYPE_PARTICIPANT_JOIN_RESPONSE, 2*patience, func(m hwebsocket.Msg) bool {
		var resp hagallpb.ParticipantJoinResponse
		m.DataTo(&resp)
		return resp.RequestId == r
	}); !ok {
		v = &verdict{"request-never-answered", "a member that asked to move to a new session while its send queue was full was never answered after it started reading again; server goroutines: " + leftoverStacks()}
	}
	select {
	case <-flooded:
	case <-time.After(2 * patience):
		if v == nil {
			v = &verdict{"same-session-witness-disturbed", "a member relaying to a session whose other member moved away is still blocked; server goroutines: " + leftoverStacks()}
		}
	}
	return w.finish(v, 0, 8*time.Second)
}

// scenarioConcurrent: 4-16 well-behaved clients (they all keep reading) work concurrently in two shared sessions with
// every module loaded and the production decorators: every request must complete, and (built with -race) no access
// to shared state may be unsynchronised (C09)
func scenarioConcurrent(seed int64, idle, frame time.Duration) *verdict {
	// the idle timeout is long: a client that is done waits, silent, for the slowest of the others before it is pinged,
	// and on a loaded machine that has taken longer than the five seconds this scenario used to grant
	w := newWorld(seed, time.Minute, frame)
	k := 4 + w.r.Intn(13)
	var wg sync.WaitGroup
	var clients []*client
	sids := []string{w.sidA}
	sidB, _, _ := w.w3.join("")
	_ = sidB
	var mu sync.Mutex
	for i := 0; i < k; i++ {
		c := w.s.dial(fmt.Sprintf("c%d", i), true)
		clients = append(clients, c)
		w.all = append(w.all, c)
	}
	stopAt := time.Now().Add(1500 * time.Millisecond)
	for i, c := range clients {
		wg.Add(1)
		go func(i int, c *client) {
			defer wg.Done()
			r := rand.New(rand.NewSource(seed*100 + int64(i)))
			mu.Lock()
			sid := sids[r.Intn(len(sids))]
			mu.Unlock()
			if r.Intn(4) == 0 {
				sid = ""
			}
			got, _, _ := c.join(sid)
			if sid == "" && got != "" {
				mu.Lock()
				sids = append(sids, got)
				mu.Unlock()
			}
			var eids []uint32
			bigQueries := 0
			for time.Now().Before(stopAt) {
				switch r.Intn(14) {
				case 0:
					if e, ok := c.addEntity(); ok {
						eids = append(eids, e)
					}
				case 1, 2:
					if len(eids) > 0 {
						c.send(&hagallpb.EntityUpdatePose{Type: hagallpb.MsgType_MSG_TYPE_ENTITY_UPDATE_POSE, Timestamp: now(), EntityId: eids[r.Intn(len(eids))], Pose: &hagallpb.Pose{Px: r.Float32()}})
					}
				case 3:
					c.send(&hagallpb.EntityComponentTypeAddRequest{Type: hagallpb.MsgType_MSG_TYPE_ENTITY_COMPONENT_TYPE_ADD_REQUEST, Timestamp: now(), RequestId: rid(), EntityComponentTypeName: fmt.Sprintf("t%d", r.Intn(3))})
				case 4:
					c.send(&hagallpb.EntityComponentTypeSubscribeRequest{Type: hagallpb.MsgType_MSG_TYPE_ENTITY_COMPONENT_TYPE_SUBSCRIBE_REQUEST, Timestamp: now(), RequestId: rid(), EntityComponentTypeId: uint32(1 + r.Intn(3))})
				case 5:
					if len(eids) > 0 {
						c.send(&hagallpb.EntityComponentAddRequest{Type: hagallpb.MsgType_MSG_TYPE_ENTITY_COMPONENT_ADD_REQUEST, Timestamp: now(), RequestId: rid(), EntityComponentTypeId: uint32(1 + r.Intn(3)), EntityId: eids[r.Intn(len(eids))], Data: []byte{1}})
					}
				case 6:
					if len(eids) > 0 {
						c.send(&hagallpb.EntityComponentUpdate{Type: hagallpb.MsgType_MSG_TYPE_ENTITY_COMPONENT_UPDATE, Timestamp: now(), EntityComponentTypeId: uint32(1 + r.Intn(3)), EntityId: eids[r.Intn(len(eids))], Data: []byte{2}})
					}
				case 7:
					m := &hagallpb.CustomMessage{Type: hagallpb.MsgType_MSG_TYPE_CUSTOM_MESSAGE, Timestamp: now(), Body: []byte("hello")}
					if r.Intn(2) == 0 { // addressed: goes through Session.BroadcastTo
						m.ParticipantIds = []uint32{uint32(1 + r.Intn(8)), uint32(1 + r.Intn(8))}
					}
					c.send(m)
				case 8:
					if len(eids) > 0 {
						c.send(&vikjapb.EntityActionRequest{Type: vikjapb.MsgType_MSG_TYPE_VIKJA_ENTITY_ACTION_REQUEST, Timestamp: now(), RequestId: rid(),
							EntityAction: &vikjapb.EntityAction{EntityId: eids[r.Intn(len(eids))], Name: "a", Timestamp: now()}})
					}
				case 9:
					if len(eids) > 0 {
						c.send(&odalpb.AssetInstanceAddRequest{Type: odalpb.MsgType_MSG_TYPE_ODAL_ASSET_INSTANCE_ADD_REQUEST, Timestamp: now(), RequestId: rid(), AssetId: "asset", EntityId: eids[r.Intn(len(eids))]})
					}
				case 10:
					x, z, e := float32(r.Intn(20)), float32(r.Intn(20)), float32(1)
					if seed%2 == 0 { // a venue, not a room: a grid of tens of thousands of cells, floors that span thousands of them
						x, z, e = float32(r.Intn(260)-130), float32(r.Intn(260)-130), float32(5+r.Intn(55))
					}
					c.send(&dagazpb.DagazQuadSample{Type: dagazpb.MsgType_MSG_TYPE_DAGAZ_QUAD_SAMPLE, Timestamp: now(), Samples: []*dagazpb.Quad{{Center: &dagazpb.Point{X: x, Y: float32(r.Intn(3)) * 2, Z: z}, Extents: &dagazpb.Point{X: e, Z: e}}}})
				case 11:
					lim := float32(50)
					if seed%2 == 0 {
						lim = 600
					}
					kind := r.Intn(3)
					if kind == 0 && seed%2 == 0 {
						// a query over a venue costs the server milliseconds (tens of them under the race detector): a few per
						// client, so that the phase ends with the work done and not with a backlog
						if bigQueries >= 6 {
							kind = 1
						}
						bigQueries++
					}
					switch kind {
					case 0:
						c.send(&dagazpb.DagazGetRegionRequest{Type: dagazpb.MsgType_MSG_TYPE_DAGAZ_GET_REGION_REQUEST, Timestamp: now(), RequestId: rid(), Min: &dagazpb.Point{X: -lim, Z: -lim}, Max: &dagazpb.Point{X: lim, Z: lim}})
					case 1:
						x, z := float32(r.Intn(40)-20), float32(r.Intn(40)-20)
						c.send(&dagazpb.DagazGetGroundPlaneRequest{Type: dagazpb.MsgType_MSG_TYPE_DAGAZ_GET_GROUND_PLANE_REQUEST, Timestamp: now(), RequestId: rid(),
							Ray: &dagazpb.Ray{From: &dagazpb.Point{X: x, Y: 10, Z: z}, To: &dagazpb.Point{X: x, Y: -10, Z: z}}})
					default:
						c.send(&dagazpb.DagazGetDebugInfoRequest{Type: dagazpb.MsgType_MSG_TYPE_DAGAZ_GET_DEBUG_INFO_REQUEST, Timestamp: now(), RequestId: rid()})
					}
				case 12:
					if len(eids) > 0 && r.Intn(3) == 0 {
						c.send(&hagallpb.EntityDeleteRequest{Type: hagallpb.MsgType_MSG_TYPE_ENTITY_DELETE_REQUEST, Timestamp: now(), RequestId: rid(), EntityId: eids[0]})
						eids = eids[1:]
					}
				default:
					if r.Intn(2) == 0 { // switch session: a leave and a join under the participant lock
						mu.Lock()
						sid := sids[r.Intn(len(sids))]
						mu.Unlock()
						c.join(sid)
						eids = nil
					}
				}
				if r.Intn(3) == 0 {
					time.Sleep(time.Duration(r.Intn(3)) * time.Millisecond)
				}
			}
		}(i, c)
	}
	wg.Wait()
	var v *verdict
	for i, c := range clients {
		if !c.pingAfterLoad() {
			v = &verdict{"request-never-completes", fmt.Sprintf("client %d of %d got no ping response after the concurrent phase although nothing had reached it for 10 s (%s); server goroutines: %s", i, k, c.fate(), leftoverStacks())}
			break
		}
	}
	return w.finish(v, 0, 8*time.Second)
}

func answers(id uint32) func(hwebsocket.Msg) bool {
	return func(m hwebsocket.Msg) bool {
		var resp hagallpb.Response
		m.DataTo(&resp)
		return resp.RequestId == id
	}
}

// scenarioShared: one member keeps rewriting the items of a session - a component, a pose, an action, a floor - while
// others keep reading the very same items: component lists, region queries, and the session and module state handed to
// a member who joins again and again.  What the stores publish is read by other goroutines: it may be replaced, never
// rewritten in place (C09; under the race detector an in-place write shows as a race with the encoder).
func scenarioShared(seed int64, idle, frame time.Duration) *verdict {
	w := newWorld(seed, time.Minute, frame)
	writer := w.w1
	eid := w.entityW1
	var tid uint32
	writer.send(&hagallpb.EntityComponentTypeAddRequest{Type: hagallpb.MsgType_MSG_TYPE_ENTITY_COMPONENT_TYPE_ADD_REQUEST, Timestamp: now(), RequestId: rid(), EntityComponentTypeName: "shared"})
	if m, ok := writer.waitFor(hagallpb.MsgType_MSG_TYPE_ENTITY_COMPONENT_TYPE_ADD_RESPONSE, patience, nil); ok {
		var b hagallpb.EntityComponentTypeAddResponse
		m.DataTo(&b)
		tid = b.EntityComponentTypeId
	}
	if tid == 0 {
		return &verdict{"request-never-completes", "the component type request of the writer got no answer"}
	}
	writer.send(&hagallpb.EntityComponentAddRequest{Type: hagallpb.MsgType_MSG_TYPE_ENTITY_COMPONENT_ADD_REQUEST, Timestamp: now(), RequestId: rid(), EntityComponentTypeId: tid, EntityId: eid, Data: []byte{1}})
	writer.waitFor(hagallpb.MsgType_MSG_TYPE_ENTITY_COMPONENT_ADD_RESPONSE, patience, nil)
	readers := []*client{w.w2}
	for i := 0; i < 2; i++ {
		c := w.s.dial(fmt.Sprintf("r%d", i), true)
		c.join(w.sidA)
		c.send(&hagallpb.EntityComponentTypeSubscribeRequest{Type: hagallpb.MsgType_MSG_TYPE_ENTITY_COMPONENT_TYPE_SUBSCRIBE_REQUEST, Timestamp: now(), RequestId: rid(), EntityComponentTypeId: tid})
		readers = append(readers, c)
		w.all = append(w.all, c)
	}
	comer := w.s.dial("comer", true)
	w.all = append(w.all, comer)
	stopAt := time.Now().Add(900 * time.Millisecond)
	var wg sync.WaitGroup
	wg.Add(1)
	go func() {
		defer wg.Done()
		r := rand.New(rand.NewSource(seed))
		for i := 0; time.Now().Before(stopAt); i++ {
			switch i % 4 {
			case 0:
				writer.send(&hagallpb.EntityComponentUpdate{Type: hagallpb.MsgType_MSG_TYPE_ENTITY_COMPONENT_UPDATE, Timestamp: now(), EntityComponentTypeId: tid, EntityId: eid, Data: bytes.Repeat([]byte{byte(i)}, 1+r.Intn(200))})
			case 1:
				writer.send(&hagallpb.EntityUpdatePose{Type: hagallpb.MsgType_MSG_TYPE_ENTITY_UPDATE_POSE, Timestamp: now(), EntityId: eid, Pose: &hagallpb.Pose{Px: r.Float32()}})
			case 2:
				writer.send(&vikjapb.EntityActionRequest{Type: vikjapb.MsgType_MSG_TYPE_VIKJA_ENTITY_ACTION_REQUEST, Timestamp: now(), RequestId: rid(),
					EntityAction: &vikjapb.EntityAction{EntityId: eid, Name: "a", Timestamp: now(), Data: bytes.Repeat([]byte{byte(i)}, 1+r.Intn(100))}})
			default:
				writer.send(&dagazpb.DagazQuadSample{Type: dagazpb.MsgType_MSG_TYPE_DAGAZ_QUAD_SAMPLE, Timestamp: now(), Samples: []*dagazpb.Quad{{Center: &dagazpb.Point{X: float32(r.Intn(6)), Z: float32(r.Intn(6))}, Extents: &dagazpb.Point{X: 1, Z: 1}}}})
			}
			if i%8 == 7 {
				time.Sleep(time.Millisecond)
			}
		}
	}()
	for i, c := range readers {
		wg.Add(1)
		go func(i int, c *client) {
			defer wg.Done()
			for n := 0; time.Now().Before(stopAt); n++ {
				id := rid()
				if n%3 == 2 {
					c.send(&dagazpb.DagazGetRegionRequest{Type: dagazpb.MsgType_MSG_TYPE_DAGAZ_GET_REGION_REQUEST, Timestamp: now(), RequestId: id, Min: &dagazpb.Point{X: -10, Z: -10}, Max: &dagazpb.Point{X: 10, Z: 10}})
					c.waitFor(hagallpb.MsgType(dagazpb.MsgType_MSG_TYPE_DAGAZ_GET_REGION_RESPONSE), patience, answers(id))
					continue
				}
				c.send(&hagallpb.EntityComponentListRequest{Type: hagallpb.MsgType_MSG_TYPE_ENTITY_COMPONENT_LIST_REQUEST, Timestamp: now(), RequestId: id, EntityComponentTypeId: tid})
				c.waitFor(hagallpb.MsgType_MSG_TYPE_ENTITY_COMPONENT_LIST_RESPONSE, patience, answers(id))
			}
		}(i, c)
	}
	wg.Add(1)
	go func() {
		defer wg.Done()
		for n := 0; time.Now().Before(stopAt); n++ {
			if n%2 == 0 {
				comer.join(w.sidA)
			} else {
				comer.join("")
			}
		}
	}()
	wg.Wait()
	var v *verdict
	for i, c := range append(readers, writer, comer) {
		if !c.pingAfterLoad() {
			v = &verdict{"request-never-completes", fmt.Sprintf("client %d got no ping response after the shared phase although nothing had reached it for 10 s (%s); server goroutines: %s", i, c.fate(), leftoverStacks())}
			break
		}
	}
	return w.finish(v, 0, 8*time.Second)
}

// scenarioChurn: sessions created and left at once, again and again - a session ends with its last member, and with it
// its frame worker (C07)
func scenarioChurn(seed int64, idle, frame time.Duration) *verdict {
	w := newWorld(seed, idle, frame)
	for k := 0; k < 40; k++ {
		c := w.s.dial("churn", true)
		w.all = append(w.all, c)
		switch w.r.Intn(3) {
		case 0: // create and hang up without waiting for the answer
			c.send(&hagallpb.ParticipantJoinRequest{Type: hagallpb.MsgType_MSG_TYPE_PARTICIPANT_JOIN_REQUEST, Timestamp: now(), RequestId: rid()})
			c.ws.Close()
		case 1: // create, then switch to a new session at once (the first one ends)
			c.join("")
			c.join("")
			c.ws.Close()
		default: // create, let a few frames pass, leave
			c.join("")
			time.Sleep(time.Duration(w.r.Intn(3)) * frame)
			c.ws.Close()
		}
	}
	return w.finish(nil, 0, 3*time.Second+2*idle)
}

// scenarioTypes: the participants of one session register the same new component type names at the same moment -
// a name gets one id, an id one name (C10)
func scenarioTypes(seed int64, idle, frame time.Duration) *verdict {
	w := newWorld(seed, 5*time.Second, frame)
	k := 6
	var clients []*client
	for i := 0; i < k; i++ {
		c := w.s.dial(fmt.Sprintf("t%d", i), true)
		c.join(w.sidA)
		clients = append(clients, c)
		w.all = append(w.all, c)
	}
	const names = 40
	for n := 0; n < names; n++ {
		var wg sync.WaitGroup
		start := make(chan struct{})
		for _, c := range clients {
			wg.Add(1)
			go func(c *client) {
				defer wg.Done()
				<-start
				c.send(&hagallpb.EntityComponentTypeAddRequest{Type: hagallpb.MsgType_MSG_TYPE_ENTITY_COMPONENT_TYPE_ADD_REQUEST, Timestamp: now(), RequestId: rid(), EntityComponentTypeName: fmt.Sprintf("type-%d", n)})
			}(c)
		}
		close(start)
		wg.Wait()
	}
	time.Sleep(100 * time.Millisecond)
	// read the registry back: ids 1.. must carry distinct names
	seen := map[string]uint32{}
	var v *verdict
	c := clients[0]
	for id := uint32(1); id <= names+10 && v == nil; id++ {
		r := rid()
		c.send(&hagallpb.EntityComponentTypeGetNameRequest{Type: hagallpb.MsgType_MSG_TYPE_ENTITY_COMPONENT_TYPE_GET_NAME_REQUEST, Timestamp: now(), RequestId: r, EntityComponentTypeId: id})
		// answered with the name, or refused (no such id): either way an answer carrying the request id - however loaded
		// the machine is
		var m hwebsocket.Msg
		ok := false
		for deadline := time.Now().Add(5 * time.Second); time.Now().Before(deadline); time.Sleep(2 * time.Millisecond) {
			if m, ok = c.waitFor(hagallpb.MsgType_MSG_TYPE_ENTITY_COMPONENT_TYPE_GET_NAME_RESPONSE, 0, func(m hwebsocket.Msg) bool {
				var resp hagallpb.EntityComponentTypeGetNameResponse
				m.DataTo(&resp)
				return resp.RequestId == r
			}); ok {
				break
			}
			if _, refused := c.waitFor(hagallpb.MsgType_MSG_TYPE_ERROR_RESPONSE, 0, func(m hwebsocket.Msg) bool {
				var resp hagallpb.ErrorResponse
				m.DataTo(&resp)
				return resp.RequestId == r
			}); refused {
				break
			}
		}
		if !ok {
			continue // no such id
		}
		var resp hagallpb.EntityComponentTypeGetNameResponse
		m.DataTo(&resp)
		if other, dup := seen[resp.EntityComponentTypeName]; dup {
			v = &verdict{"type-name-registered-twice", fmt.Sprintf("component type name %q is registered under ids %d and %d", resp.EntityComponentTypeName, other, id)}
		}
		seen[resp.EntityComponentTypeName] = id
	}
	if v == nil && len(seen) != names {
		v = &verdict{"type-registry-size", fmt.Sprintf("%d names were registered concurrently, the registry holds %d", names, len(seen))}
	}
	return w.finish(v, 0, 8*time.Second)
}

// scenarioReceipts: over a real socket every receipt is answered - accepted, bad request when a field is empty, too busy
// when the queue is full (nobody drains it here: 128 slots) - and the submitter's connection goes on
func scenarioReceipts(seed int64, idle, frame time.Duration) *verdict {
	w := newWorld(seed, 5*time.Second, frame)
	joined := w.r.Intn(2) == 0
	c := w.s.dial("submitter", true)
	w.all = append(w.all, c)
	if joined {
		c.join(w.sidA)
	}
	answer := func(r uint32) (string, bool) {
		var kind string
		deadline := time.Now().Add(patience)
		for time.Now().Before(deadline) {
			if _, ok := c.waitFor(hagallpb.MsgType_MSG_TYPE_RECEIPT_RESPONSE, 0, func(m hwebsocket.Msg) bool {
				var b hagallpb.ReceiptResponse
				m.DataTo(&b)
				return b.RequestId == r
			}); ok {
				return "accepted", true
			}
			if _, ok := c.waitFor(hagallpb.MsgType_MSG_TYPE_ERROR_RESPONSE, 0, func(m hwebsocket.Msg) bool {
				var b hagallpb.ErrorResponse
				m.DataTo(&b)
				if b.RequestId == r {
					kind = fmt.Sprintf("error-%d", int32(b.Code))
				}
				return b.RequestId == r
			}); ok {
				return kind, true
			}
			select {
			case <-c.closed:
				return "connection-closed", false
			default:
			}
			time.Sleep(2 * time.Millisecond)
		}
		return "nothing", false
	}
	submit := func(receipt string, hash, sig []byte) uint32 {
		r := rid()
		c.send(&hagallpb.ReceiptRequest{Type: hagallpb.MsgType_MSG_TYPE_RECEIPT_REQUEST, Timestamp: now(), RequestId: r, Receipt: receipt, Hash: hash, Signature: sig})
		return r
	}
	var v *verdict
	expect := func(what string, r uint32, want string) {
		if v != nil {
			return
		}
		if got, _ := answer(r); got != want {
			v = &verdict{"receipt-answer-lost", fmt.Sprintf("%s: expected the answer %s to request %d, the submitter got %s", what, want, r, got)}
		}
	}
	switch w.r.Intn(3) {
	case 0:
		expect("a receipt without a hash", submit("r", nil, []byte{1}), fmt.Sprintf("error-%d", int32(hagallpb.ErrorCode_ERROR_CODE_BAD_REQUEST)))
	case 1:
		expect("a receipt without a text", submit("", []byte{1}, []byte{1}), fmt.Sprintf("error-%d", int32(hagallpb.ErrorCode_ERROR_CODE_BAD_REQUEST)))
	default:
		expect("a receipt without a signature", submit("r", []byte{1}, nil), fmt.Sprintf("error-%d", int32(hagallpb.ErrorCode_ERROR_CODE_BAD_REQUEST)))
	}
	for i := 0; i < 128 && v == nil; i++ {
		expect("a well-formed receipt with room in the queue", submit(fmt.Sprintf("receipt-%d", i), []byte{1, 2}, []byte{3, 4}), "accepted")
	}
	for i := 0; i < 3 && v == nil; i++ {
		expect("a well-formed receipt with the queue full", submit("one too many", []byte{1, 2}, []byte{3, 4}), fmt.Sprintf("error-%d", int32(hagallpb.ErrorCode_ERROR_CODE_SERVER_TOO_BUSY)))
	}
	if v == nil && !c.ping(patience) {
		v = &verdict{"receipt-answer-lost", "the submitter's connection did not survive its refused receipts"}
	}
	for len(w.s.receipts) > 0 { // leave the queue as it was found
		<-w.s.receipts
	}
	return w.finish(v, 0, 8*time.Second)
}

// scenarioLatency: a signed latency measurement over a real socket, for clients that announce every kind of client id:
// it runs its rounds and ends with one response to the request
func scenarioLatency(seed int64, idle, frame time.Duration) *verdict {
	w := newWorld(seed, 5*time.Second, frame)
	ids := []string{"client-1", "", "caf\xe9", "caf\xc3\xa9", "\xff\xfex", strings.Repeat("k", 300), "spaced  out"}
	id := ids[w.r.Intn(len(ids))]
	c, refused := w.s.tryDialAs("measured", true, id)
	if refused {
		// a handshake the HTTP layer does not accept is no connection at all
		return w.finish(nil, 0, 8*time.Second)
	}
	w.all = append(w.all, c)
	c.join(w.sidA)
	rounds := 3 + w.r.Intn(3)
	req := rid()
	c.send(&hagallpb.SignedLatencyRequest{Type: hagallpb.MsgType_MSG_TYPE_SIGNED_LATENCY_REQUEST, Timestamp: now(), RequestId: req, IterationCount: uint32(rounds), WalletAddress: "0xabc"})
	var v *verdict
	seen := map[uint32]bool{}
	for i := 0; i < rounds && v == nil; i++ {
		m, ok := c.waitFor(hagallpb.MsgType_MSG_TYPE_PING_REQUEST, patience, func(m hwebsocket.Msg) bool {
			var p hagallpb.Request
			m.DataTo(&p)
			return !seen[p.RequestId]
		})
		if !ok {
			v = &verdict{"measurement-round-missing", fmt.Sprintf("client id %q: ping %d of %d was never issued", id, i+1, rounds)}
			break
		}
		var p hagallpb.Request
		m.DataTo(&p)
		seen[p.RequestId] = true
		c.send(&hagallpb.Response{Type: hagallpb.MsgType_MSG_TYPE_PING_RESPONSE, Timestamp: now(), RequestId: p.RequestId})
	}
	if v == nil {
		if _, ok := c.waitFor(hagallpb.MsgType_MSG_TYPE_SIGNED_LATENCY_RESPONSE, patience, func(m hwebsocket.Msg) bool {
			var r hagallpb.SignedLatencyResponse
			m.DataTo(&r)
			return r.RequestId == req
		}); !ok {
			v = &verdict{"measurement-never-reported", fmt.Sprintf("client id %q: %d rounds answered, the signed latency request %d got no response", id, rounds, req)}
		}
	}
	return w.finish(v, 0, 8*time.Second)
}

var scenarios = map[string]func(int64, time.Duration, time.Duration) *verdict{
	"latency":  scenarioLatency,
	"receipts": scenarioReceipts,
	"churn":    scenarioChurn, "types": scenarioTypes,
	"concurrent": scenarioConcurrent,
	"shared":     scenarioShared,
	"order":      scenarioOrder,
	"malformed":  scenarioMalformed, "fields": scenarioFields, "burst": scenarioBurst, "abrupt": scenarioAbrupt, "stall-pose": scenarioStallPose, "stall-switch": scenarioStallSwitch, "bigframe": scenarioBigFrame,
	"stall-chatty": scenarioStallChatty, "stall-silent": scenarioStallSilent, "idle": scenarioIdle,
}

func main() {
	name := flag.String("scenario", "malformed", "scenario name")
	seed := flag.Int64("seed", 1, "")
	n := flag.Int("n", 1, "repetitions (seed, seed+1, ...)")
	idle := flag.Duration("idle", 1500*time.Millisecond, "client idle timeout of the server")
	frame := flag.Duration("frame", 10*time.Millisecond, "session frame duration")
	flag.Parse()
	logs.SetLogger(func(logs.Entry) {})
	f, ok := scenarios[*name]
	if !ok {
		fmt.Fprintln(os.Stderr, "unknown scenario")
		os.Exit(2)
	}
	for i := 0; i < *n; i++ {
		v := f(*seed+int64(i), *idle, *frame)
		if v == nil {
			fmt.Printf("W %s seed=%d ok\n", *name, *seed+int64(i))
		} else {
			fmt.Printf("W %s seed=%d VIOLATION %s :: %s\n", *name, *seed+int64(i), v.cause, strings.ReplaceAll(v.detail, "\n", " "))
		}
	}
}

func protoMarshal(m *hagallpb.Msg) ([]byte, error) { return protoMarshalImpl(m) }
