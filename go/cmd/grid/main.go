// Command grid drives the real dagaz.RegularGrid with generated or replayed operation sequences, prints the
// grid state after every operation in a canonical bit-exact form (for the comparison with the Lean float32
// model) and evaluates the index-completeness monitors of C20 on the real state with exact arithmetic.
package main

import (
	"bufio"
	"flag"
	"fmt"
	"math"
	"math/rand"
	"os"
	"sort"
	"strconv"
	"strings"
	"time"

	"github.com/aukilabs/hagall-common/messages/dagazpb"
	"github.com/aukilabs/hagall/modules/dagaz"
)

var out = bufio.NewWriterSize(os.Stdout, 1<<20)
var watchdog = flag.Duration("watchdog", 5*time.Second, "per-operation time limit")

func bits(f float32) string { return strconv.FormatUint(uint64(math.Float32bits(f)), 16) }
func fromBits(s string) float32 {
	u, err := strconv.ParseUint(s, 16, 32)
	if err != nil {
		panic("bad float bits " + s)
	}
	return math.Float32frombits(uint32(u))
}

type v3 struct{ x, y, z float32 }

func xyz(v dagaz.Vector3f) v3 { x, y, z := dagaz.VerifXYZ(v); return v3{x, y, z} }
func (v v3) String() string   { return bits(v.x) + "," + bits(v.y) + "," + bits(v.z) }

// world is one grid with the identities of the planes stored in it.
type world struct {
	g      *dagaz.RegularGrid
	ids    map[*dagaz.Quad]int
	stored []*dagaz.Quad
	inDom  bool // every operation so far was inside the domain C20 quantifies over
}

var stat = map[string]int{}

func newWorld(cols, rows, res uint) *world {
	return &world{g: dagaz.NewRegularGrid(cols, rows, res), ids: map[*dagaz.Quad]int{}, inDom: true}
}

func (w *world) learn() {
	for _, row := range w.g.Grid {
		for _, cell := range row {
			for _, q := range cell {
				if _, ok := w.ids[q]; !ok {
					w.ids[q] = int(w.g.PlaneCount) - 1
					w.stored = append(w.stored, q)
				}
			}
		}
	}
}

func (w *world) id(q *dagaz.Quad) string {
	if q == nil {
		return "-"
	}
	if id, ok := w.ids[q]; ok {
		return strconv.Itoa(id)
	}
	return "?"
}

func (w *world) state() {
	g := w.g
	mn, mx := xyz(g.Min), xyz(g.Max)
	cols := 0
	if len(g.Grid) > 0 {
		cols = len(g.Grid[0])
	}
	fmt.Fprintf(out, "GS res=%d planes=%d merges=%d min=%s max=%s rows=%d cols=%d cells=", g.Resolution, g.PlaneCount, g.MergeCount, mn, mx, len(g.Grid), cols)
	first := true
	for y, row := range g.Grid {
		if len(row) != cols {
			fmt.Fprintf(out, "ragged-row-%d-%d ", y, len(row))
		}
		for x, cell := range row {
			if len(cell) == 0 {
				continue
			}
			if !first {
				out.WriteByte(';')
			}
			first = false
			fmt.Fprintf(out, "%d,%d:", x, y)
			for i, q := range cell {
				if i > 0 {
					out.WriteByte(',')
				}
				out.WriteString(w.id(q))
			}
		}
	}
	out.WriteString(" quads=")
	qs := append([]*dagaz.Quad(nil), w.stored...)
	sort.Slice(qs, func(i, j int) bool { return w.ids[qs[i]] < w.ids[qs[j]] })
	for i, q := range qs {
		if i > 0 {
			out.WriteByte(';')
		}
		fmt.Fprintf(out, "%d:%s,%s,%s,%d", w.ids[q], xyz(q.Center), xyz(q.Extents), xyz(q.Normal), q.MergeCount)
	}
	out.WriteByte('\n')
}

func point(x, y, z float32) *dagazpb.Point { return &dagazpb.Point{X: x, Y: y, Z: z} }

// guard runs f and reports a panic as a GP line; an operation that does not return within the watchdog
// period is reported as GW and ends the process (a spinning goroutine cannot be stopped)
func guard(f func()) (ok bool) {
	done := make(chan bool, 1)
	go func() {
		defer func() {
			if r := recover(); r != nil {
				msg := fmt.Sprint(r)
				if i := strings.IndexByte(msg, '\n'); i >= 0 {
					msg = msg[:i]
				}
				fmt.Fprintf(out, "GP %s\n", strings.ReplaceAll(msg, " ", "_"))
				stat["panic"]++
				done <- false
			}
		}()
		f()
		done <- true
	}()
	select {
	case ok = <-done:
		return ok
	case <-time.After(*watchdog):
		fmt.Fprintf(out, "GW operation-did-not-return-within-%s\n", *watchdog)
		out.Flush()
		os.Exit(3)
	}
	return false
}

func finite(fs ...float32) bool {
	for _, f := range fs {
		if math.IsNaN(float64(f)) || math.IsInf(float64(f), 0) {
			return false
		}
	}
	return true
}

func inDomainQuad(f []float32) bool {
	if !finite(f...) {
		return false
	}
	for _, c := range f[:3] {
		if math.Abs(float64(c)) > 64 {
			return false
		}
	}
	// horizontal planes with positive half extents whose footprint stays inside the 64 m bound
	if !(f[3] > 0 && f[5] > 0 && f[4] == 0) {
		return false
	}
	return math.Abs(float64(f[0]))+float64(f[3]) <= 64 && math.Abs(float64(f[2]))+float64(f[5]) <= 64
}

// apply runs one operation line; false means the history ended (panic)
func (w *world) apply(line string) bool {
	f := strings.Fields(line)
	fmt.Fprintln(out, line)
	switch f[0] {
	case "GI":
		var v [6]float32
		for i := range v {
			v[i] = fromBits(f[i+1])
		}
		mc, _ := strconv.Atoi(f[7])
		if !inDomainQuad(v[:]) {
			w.inDom = false
		}
		q := dagaz.NewQuadFromProtobuf(&dagazpb.Quad{Center: point(v[0], v[1], v[2]), Extents: point(v[3], v[4], v[5]), MergeCount: uint32(mc)})
		planes, merges, mn0, mx0 := w.g.PlaneCount, w.g.MergeCount, xyz(w.g.Min), xyz(w.g.Max)
		if !guard(func() { w.g.InsertQuad(q) }) {
			stat["insert-panic"]++
			return false
		}
		mn1, mx1 := xyz(w.g.Min), xyz(w.g.Max)
		stat["insert"]++
		if w.inDom {
			stat["insert-in-domain"]++
		}
		if w.g.PlaneCount > planes {
			stat["insert-appended"]++
		}
		switch d := w.g.MergeCount - merges; {
		case d == 0:
		case d <= 2:
			stat["insert-merged"]++
		default:
			stat["insert-cascade"]++
		}
		if mn1.x < mn0.x {
			stat["grow-left"]++
		}
		if mn1.z < mn0.z {
			stat["grow-up"]++
		}
		if mx1.x > mx0.x {
			stat["grow-right"]++
		}
		if mx1.z > mx0.z {
			stat["grow-down"]++
		}
		w.learn()
		w.state()
		w.monitors()
	case "GR":
		var v [6]float32
		for i := range v {
			v[i] = fromBits(f[i+1])
		}
		r := dagaz.NewRayFromProtobuf(&dagazpb.Ray{From: point(v[0], v[1], v[2]), To: point(v[3], v[4], v[5])})
		var hit *dagaz.Quad
		var t float32
		if !guard(func() { hit, t = w.g.IntersectQuad(r) }) {
			return false
		}
		if hit != nil {
			stat["ray-hit"]++
		} else {
			stat["ray-miss"]++
		}
		fmt.Fprintf(out, "GH %s %s\n", w.id(hit), bits(t))
	case "GQ":
		var v [4]float32
		for i := range v {
			v[i] = fromBits(f[i+1])
		}
		var qs []*dagaz.Quad
		if !guard(func() { qs = w.g.GetRegion(dagaz.NewVector3f(v[0], 0, v[1]), dagaz.NewVector3f(v[2], 0, v[3])) }) {
			return false
		}
		ids := make([]int, 0, len(qs))
		for _, q := range qs {
			ids = append(ids, w.ids[q])
		}
		sort.Ints(ids)
		if len(ids) > 0 {
			stat["region-nonempty"]++
		} else {
			stat["region-empty"]++
		}
		fmt.Fprintf(out, "GL %s\n", strings.Trim(strings.Join(strings.Fields(fmt.Sprint(ids)), ","), "[]"))
	default:
		panic("unknown op " + line)
	}
	return true
}

// ---------------------------------------------------------------- monitors (exact arithmetic in float64)

func (w *world) violation(what string, args ...any) {
	dom := "in-domain"
	if !w.inDom {
		dom = "out-of-domain"
	}
	fmt.Fprintf(out, "GM %s %s %s\n", dom, what, fmt.Sprintf(strings.ReplaceAll(fmt.Sprint(args...), " ", "_")))
}

func (w *world) monitors() {
	g := w.g
	res := float64(g.Resolution)
	mn, mx := xyz(g.Min), xyz(g.Max)
	rows := len(g.Grid)
	cols := len(g.Grid[0])
	// grid bounds describe the cell array
	if float64(mx.x)-float64(mn.x) != float64(cols)*res || float64(mx.z)-float64(mn.z) != float64(rows)*res {
		w.violation("bounds-vs-cells", fmt.Sprintf("cols=%d rows=%d", cols, rows))
	}
	present := map[*dagaz.Quad]int{}
	for _, row := range g.Grid {
		for _, cell := range row {
			for _, q := range cell {
				present[q]++
			}
		}
	}
	// plane count = number of distinct stored planes
	if int(g.PlaneCount) != len(present) || len(present) != len(w.stored) {
		w.violation("plane-count", fmt.Sprintf("count=%d distinct=%d stored=%d", g.PlaneCount, len(present), len(w.stored)))
	}
	for _, q := range w.stored {
		c, e := xyz(q.Center), xyz(q.Extents)
		x0, x1 := float64(c.x)-float64(e.x), float64(c.x)+float64(e.x)
		z0, z1 := float64(c.z)-float64(e.z), float64(c.z)+float64(e.z)
		// bounds contain the footprint
		// a cell counts as overlapped when the footprint reaches more than tol into it: the code places
		// corners with float32 arithmetic, and uses the same tolerance in its own range tests
		const tol = 1e-4
		if x0+tol < float64(mn.x) || z0+tol < float64(mn.z) || x1-tol > float64(mx.x) || z1-tol > float64(mx.z) {
			w.violation("footprint-outside-bounds", "plane=", w.ids[q])
			continue
		}
		// registered in every cell the open footprint overlaps
		cx0 := int(math.Floor((x0 + tol - float64(mn.x)) / res))
		cx1 := int(math.Ceil((x1-tol-float64(mn.x))/res)) - 1
		cz0 := int(math.Floor((z0 + tol - float64(mn.z)) / res))
		cz1 := int(math.Ceil((z1-tol-float64(mn.z))/res)) - 1
		if cx0 < 0 {
			cx0 = 0
		}
		if cz0 < 0 {
			cz0 = 0
		}
		missing := 0
		for y := cz0; y <= cz1 && y < rows; y++ {
			for x := cx0; x <= cx1 && x < cols; x++ {
				found := false
				for _, p := range g.Grid[y][x] {
					if p == q {
						found = true
					}
				}
				if !found {
					missing++
				}
			}
		}
		if missing > 0 {
			w.violation("not-registered", fmt.Sprintf("plane=%d cells=%d", w.ids[q], missing))
		}
		// a vertical ray through the centre hits a plane
		var hit *dagaz.Quad
		ok := guard(func() {
			hit, _ = g.IntersectQuad(dagaz.NewRayFromProtobuf(&dagazpb.Ray{From: point(c.x, c.y+1, c.z), To: point(c.x, c.y-1, c.z)}))
		})
		if ok && hit == nil {
			// a plane so thin that the square of its normal's length underflows float32 keeps an unnormalised,
			// denormal normal: known finding F19, kept apart from any other miss
			if n := e.x * e.z; n*n == 0 {
				w.violation("degenerate-plane-not-hit", fmt.Sprintf("plane=%d extents=%g,%g", w.ids[q], e.x, e.z))
			} else {
				w.violation("centre-ray-misses", "plane=", w.ids[q])
			}
		}
	}
	// a region query covering the grid returns every stored plane exactly once
	var qs []*dagaz.Quad
	if guard(func() { qs = g.GetRegion(g.Min, g.Max) }) {
		seen := map[*dagaz.Quad]int{}
		for _, q := range qs {
			seen[q]++
		}
		for _, q := range w.stored {
			if seen[q] != 1 {
				w.violation("region-cover", fmt.Sprintf("plane=%d times=%d", w.ids[q], seen[q]))
			}
		}
		if len(qs) != len(w.stored) {
			w.violation("region-cover-size", fmt.Sprintf("returned=%d stored=%d", len(qs), len(w.stored)))
		}
	}
}

// ---------------------------------------------------------------- primitives

func primitives(rng *rand.Rand, n int) {
	bad := 0
	tol := func(got float32, want float64, scale float64) bool {
		return math.Abs(float64(got)-want) <= 1e-5*(scale+1)
	}
	for i := 0; i < n; i++ {
		r := func() float32 { return float32(math.Round((rng.Float64()*128-64)*64) / 64) }
		a := dagaz.NewVector3f(r(), r(), r())
		b := dagaz.NewVector3f(r(), r(), r())
		av, bv := xyz(a), xyz(b)
		ax, ay, az, bx, by, bz := float64(av.x), float64(av.y), float64(av.z), float64(bv.x), float64(bv.y), float64(bv.z)
		scale := (math.Abs(ax) + math.Abs(ay) + math.Abs(az)) * (math.Abs(bx) + math.Abs(by) + math.Abs(bz))
		d := a.Dot(b)
		c := xyz(dagaz.Cross(a, b))
		okc := tol(d, ax*bx+ay*by+az*bz, scale) && tol(c.x, ay*bz-az*by, scale) && tol(c.y, az*bx-ax*bz, scale) && tol(c.z, ax*by-ay*bx, scale)
		// normal of a horizontal plane with positive extents is the unit vertical
		ex, ez := float32(rng.Float64()*8+0.01), float32(rng.Float64()*8+0.01)
		q := dagaz.NewQuadFromProtobuf(&dagazpb.Quad{Center: point(av.x, av.y, av.z), Extents: point(ex, 0, ez)})
		nv := xyz(q.Normal)
		okn := nv.x == 0 && nv.z == 0 && math.Abs(math.Abs(float64(nv.y))-1) < 1e-6
		// overlap against the exact test
		q2 := dagaz.NewQuadFromProtobuf(&dagazpb.Quad{Center: point(bv.x, bv.y, bv.z), Extents: point(float32(rng.Float64()*8+0.01), 0, float32(rng.Float64()*8+0.01))})
		c2, e2 := xyz(q2.Center), xyz(q2.Extents)
		exact := float64(av.x)-float64(ex) < float64(c2.x)+float64(e2.x) && float64(av.x)+float64(ex) > float64(c2.x)-float64(e2.x) &&
			float64(av.z)-float64(ez) < float64(c2.z)+float64(e2.z) && float64(av.z)+float64(ez) > float64(c2.z)-float64(e2.z)
		margin := math.Min(math.Min(math.Abs((float64(av.x)-float64(ex))-(float64(c2.x)+float64(e2.x))), math.Abs((float64(av.x)+float64(ex))-(float64(c2.x)-float64(e2.x)))),
			math.Min(math.Abs((float64(av.z)-float64(ez))-(float64(c2.z)+float64(e2.z))), math.Abs((float64(av.z)+float64(ez))-(float64(c2.z)-float64(e2.z)))))
		oko := dagaz.VerifOverlap(q, q2) == exact || margin < 1e-4
		oko = oko && dagaz.VerifOverlap(q, q2) == dagaz.VerifOverlap(q2, q)
		// vertical ray through a point of the plane hits it at the exact parameter
		px := float64(av.x) + (rng.Float64()*2-1)*float64(ex)*0.999
		pz := float64(av.z) + (rng.Float64()*2-1)*float64(ez)*0.999
		up := rng.Float64()*3 + 0.01
		down := rng.Float64()*3 + 0.01
		ray := dagaz.NewRayFromProtobuf(&dagazpb.Ray{From: point(float32(px), av.y+float32(up), float32(pz)), To: point(float32(px), av.y-float32(down), float32(pz))})
		hit, t := dagaz.IntersectQuad(ray, q)
		okr := hit && math.Abs(float64(t)-float64(float32(up))/(float64(float32(up))+float64(float32(down)))) < 1e-3
		// and misses a plane it does not reach
		ray2 := dagaz.NewRayFromProtobuf(&dagazpb.Ray{From: point(float32(px), av.y+float32(up)+1, float32(pz)), To: point(float32(px), av.y+float32(up)/2, float32(pz))})
		hit2, _ := dagaz.IntersectQuad(ray2, q)
		okr = okr && !hit2
		if !(okc && okn && oko && okr) {
			bad++
			fmt.Fprintf(out, "GM in-domain primitive dot/cross=%v normal=%v overlap=%v ray=%v a=%s b=%s\n", okc, okn, oko, okr, av, bv)
		}
	}
	fmt.Fprintf(out, "PRIM cases=%d bad=%d\n", n, bad)
}

// ---------------------------------------------------------------- generator

type gen struct {
	rng     *rand.Rand
	profile string
	centres []v3
	script  []string
}

func (g *gen) snap(f float64) float32 {
	switch g.rng.Intn(4) {
	case 0:
		return float32(math.Round(f)) // cell boundaries
	case 1:
		return float32(math.Round(f*4) / 4)
	default:
		return float32(f)
	}
}

// cascadeScript: two coplanar planes side by side, the first grown over the centre of the second by repeated
// samples, then samples where the second is registered ahead of the first - a merge into the second is
// followed by a merge of the second into the first (randomly placed, mirrored and transposed)
func (g *gen) cascadeScript() []string {
	r := g.rng
	bx, bz := 2*math.Round(r.Float64()*20-10), 2*math.Round(r.Float64()*20-10)
	y := []float64{0, 0.5, 1.25}[r.Intn(3)]
	sx := []float64{1, -1}[r.Intn(2)]
	swap := r.Intn(2) == 0
	mk := func(cx, cz, ex, ez float64) string {
		cx = cx * sx
		if swap {
			cx, cz, ex, ez = cz, cx, ez, ex
		}
		c := v3{float32(bx + cx), float32(y), float32(bz + cz)}
		g.centres = append(g.centres, c)
		return fmt.Sprintf("GI %s %s %s %s %s %s 0", bits(c.x), bits(c.y), bits(c.z), bits(float32(ex)), bits(0), bits(float32(ez)))
	}
	// A covers -2..3, B's centre 3.5 lies outside A but in a cell A is registered in first
	l := []string{mk(0.5, 0, 2.5, 2), mk(3.5, 0.3*r.Float64(), 2, 2)}
	for i := 0; i < 8+r.Intn(6); i++ {
		l = append(l, mk(1.5+r.Float64()*0.3, 0, 3.5+r.Float64(), 2)) // grows A over B's centre
	}
	for i := 0; i < 3; i++ {
		l = append(l, mk(4.3+r.Float64()*0.4, r.Float64()*0.5, 0.5, 0.5)) // where B is registered ahead of A
	}
	return l
}

func (g *gen) quad() string {
	r := g.rng
	if len(g.script) > 0 {
		l := g.script[0]
		g.script = g.script[1:]
		return l
	}
	if g.profile == "cascade" && r.Intn(10) == 0 {
		g.script = g.cascadeScript()
	}
	var cx, cy, cz, ex, ez float64
	levels := []float64{0, 0.25, 0.5, 1.0, 1.5, 2.5}
	switch g.profile {
	case "cluster":
		cx, cz = r.NormFloat64()*4, r.NormFloat64()*4
		cy = levels[r.Intn(len(levels))] + r.Float64()*0.2
		ex, ez = r.Float64()*3+0.05, r.Float64()*3+0.05
	case "spread":
		cx, cz = r.Float64()*110-55, r.Float64()*110-55
		cy = levels[r.Intn(3)]
		ex, ez = r.Float64()*6+0.05, r.Float64()*6+0.05
	case "march": // keeps growing the grid in one direction after another
		k := float64(len(g.centres))
		dir := [][2]float64{{-1, 0}, {0, -1}, {1, 0}, {0, 1}, {-1, -1}}[int(k/6)%5]
		cx, cz = dir[0]*math.Mod(k, 6)*7+r.Float64(), dir[1]*math.Mod(k, 6)*7+r.Float64()
		cy = levels[r.Intn(2)]
		ex, ez = r.Float64()*5+0.05, r.Float64()*5+0.05
	default: // stack: samples of the same few planes, again and again
		if len(g.centres) > 0 && r.Intn(4) > 0 {
			c := g.centres[r.Intn(len(g.centres))]
			cx, cy, cz = float64(c.x)+r.NormFloat64()*0.7, float64(c.y)+r.NormFloat64()*0.2, float64(c.z)+r.NormFloat64()*0.7
		} else {
			cx, cz = r.Float64()*40-20, r.Float64()*40-20
			cy = levels[r.Intn(len(levels))]
		}
		ex, ez = r.Float64()*4+0.05, r.Float64()*4+0.05
	}
	clamp := func(c, e float64) (float64, float64) {
		if c > 60 {
			c = 60
		}
		if c < -60 {
			c = -60
		}
		if math.Abs(c)+e > 63.5 {
			e = 63.5 - math.Abs(c)
		}
		return c, e
	}
	cx, ex = clamp(cx, ex)
	cz, ez = clamp(cz, ez)
	if r.Intn(2) == 0 {
		cy = levels[r.Intn(len(levels))] // exactly coplanar samples: the only way a merge cascades
	}
	c := v3{g.snap(cx), float32(cy), g.snap(cz)}
	e := v3{g.snap(ex), 0, g.snap(ez)}
	if e.x <= 0 {
		e.x = 0.25
	}
	if e.z <= 0 {
		e.z = 0.25
	}
	g.centres = append(g.centres, c)
	return fmt.Sprintf("GI %s %s %s %s %s %s %d", bits(c.x), bits(c.y), bits(c.z), bits(e.x), bits(e.y), bits(e.z), g.rng.Intn(3))
}

func (g *gen) wildFloat() float32 {
	switch g.rng.Intn(9) {
	case 0:
		return float32(math.NaN())
	case 1:
		return float32(math.Inf(1))
	case 2:
		return float32(math.Inf(-1))
	case 3:
		return 3e38
	case 4:
		return -1e30
	case 5:
		return 0
	case 6:
		return float32(math.Copysign(0, -1))
	case 7:
		return -float32(g.rng.Float64() * 5)
	default:
		return float32(g.rng.Float64()*20 - 10)
	}
}

// wildQuad: what the module lets through to the grid that is outside the domain of C20 - zero, negative and
// denormal extents, tilted planes, far-away centres (non-finite and absurd coordinates are refused earlier)
func (g *gen) wildQuad() string {
	var v [6]float32
	odd := []float32{0, float32(math.Copysign(0, -1)), -1.5, 1e-30, -1e-30, 300, -300, 64, 0.5}
	for i := range v {
		if g.rng.Intn(3) == 0 {
			v[i] = odd[g.rng.Intn(len(odd))]
		} else {
			v[i] = float32(g.rng.Float64()*10 - 2)
		}
	}
	return fmt.Sprintf("GI %s %s %s %s %s %s 0", bits(v[0]), bits(v[1]), bits(v[2]), bits(v[3]), bits(v[4]), bits(v[5]))
}

func (g *gen) ray(w *world, wild bool) string {
	r := g.rng
	var f, t v3
	if r.Intn(6) == 0 {
		// from a point on the grid's border (or one float32 step to either side of it), straight down or inwards
		mn, mx := xyz(w.g.Min), xyz(w.g.Max)
		near := func(v float32) float32 {
			switch r.Intn(3) {
			case 0:
				return math.Nextafter32(v, float32(math.Inf(1)))
			case 1:
				return math.Nextafter32(v, float32(math.Inf(-1)))
			}
			return v
		}
		inside := func(lo, hi float32) float32 { return lo + float32(r.Float64())*(hi-lo) }
		f = v3{inside(mn.x, mx.x), 3, inside(mn.z, mx.z)}
		switch r.Intn(4) {
		case 0:
			f.x = near(mx.x)
		case 1:
			f.x = near(mn.x)
		case 2:
			f.z = near(mx.z)
		default:
			f.z = near(mn.z)
		}
		if r.Intn(3) == 0 { // a corner
			f.x, f.z = near([]float32{mn.x, mx.x}[r.Intn(2)]), near([]float32{mn.z, mx.z}[r.Intn(2)])
		}
		t = v3{f.x, -3, f.z}
		if r.Intn(2) == 0 {
			t.x, t.z = inside(mn.x, mx.x), inside(mn.z, mx.z)
		}
	} else if len(g.centres) > 0 && r.Intn(2) == 0 {
		c := g.centres[r.Intn(len(g.centres))]
		f, t = v3{c.x, c.y + 2, c.z}, v3{c.x, c.y - 2, c.z}
		if r.Intn(3) == 0 {
			t.x += float32(r.NormFloat64() * 5)
			t.z += float32(r.NormFloat64() * 5)
		}
	} else {
		f = v3{float32(r.Float64()*140 - 70), float32(r.Float64()*6 - 1), float32(r.Float64()*140 - 70)}
		t = v3{float32(r.Float64()*140 - 70), float32(r.Float64()*6 - 3), float32(r.Float64()*140 - 70)}
		switch r.Intn(4) {
		case 0:
			t.x = f.x // parallel to z
		case 1:
			t.z = f.z
		}
	}
	if wild {
		switch r.Intn(3) {
		case 0:
			f.x = g.wildFloat()
		case 1:
			t.z = g.wildFloat()
		default:
			f.y = g.wildFloat()
		}
	}
	return fmt.Sprintf("GR %s %s %s %s %s %s", bits(f.x), bits(f.y), bits(f.z), bits(t.x), bits(t.y), bits(t.z))
}

// hug: a plane one of whose edges lies on, or one to three float32 steps to either side of, a border of the grid or of
// one of its cells (the subtraction `edge - Min` rounds such an edge onto the border, and rounds differently once the
// grid has grown), followed by samples of the same plane that merge into it: smaller ones, and ones that share the edge
func (g *gen) hug(w *world) string {
	r := g.rng
	mn, mx := xyz(w.g.Min), xyz(w.g.Max)
	res := float32(w.g.Resolution)
	nudge := func(v float32) float32 {
		k := r.Intn(7) - 3
		for ; k > 0; k-- {
			v = math.Nextafter32(v, float32(math.Inf(1)))
		}
		for ; k < 0; k++ {
			v = math.Nextafter32(v, float32(math.Inf(-1)))
		}
		return v
	}
	// a target coordinate on an axis: the far border, the near border, or a cell border inside
	target := func(lo, hi float32) float32 {
		switch r.Intn(3) {
		case 0:
			return nudge(hi)
		case 1:
			return nudge(lo)
		}
		cells := int((hi - lo) / res)
		if cells < 2 {
			return nudge(hi)
		}
		return nudge(lo + float32(1+r.Intn(cells-1))*res)
	}
	// centre and extent whose float32 sum (high edge) or difference (low edge) is exactly the target
	split := func(t float32, high bool) (float32, float32) {
		e := float32(0.25 + r.Float64()*3)
		for i := 0; i < 64; i++ {
			c := t - e
			if !high {
				c = t + e
			}
			if (high && c+e == t) || (!high && c-e == t) {
				return c, e
			}
			e = math.Nextafter32(e, 0)
		}
		if high {
			return t - 1, 1
		}
		return t + 1, 1
	}
	highX, highZ := r.Intn(2) == 0, r.Intn(2) == 0
	tx, tz := target(mn.x, mx.x), target(mn.z, mx.z)
	cx, ex := split(tx, highX)
	cz, ez := split(tz, highZ)
	switch r.Intn(3) {
	case 0: // only x hugs
		cz, ez = (mn.z+mx.z)/2, float32(0.25+r.Float64()*2)
	case 1: // only z
		cx, ex = (mn.x+mx.x)/2, float32(0.25+r.Float64()*2)
	}
	if !(ex > 0) || !(ez > 0) || math.Abs(float64(cx))+float64(ex) > 63.5 || math.Abs(float64(cz))+float64(ez) > 63.5 {
		return g.quad()
	}
	y := []float32{0, 0.5, 1.25}[r.Intn(3)]
	mk := func(cx, cz, ex, ez float32) string {
		return fmt.Sprintf("GI %s %s %s %s %s %s 0", bits(cx), bits(y), bits(cz), bits(ex), bits(0), bits(ez))
	}
	g.centres = append(g.centres, v3{cx, y, cz})
	for i := 0; i < 1+r.Intn(3); i++ {
		if r.Intn(2) == 0 { // a smaller sample of the same plane
			g.script = append(g.script, mk(cx, cz, ex*float32(0.3+r.Float64()*0.6), ez*float32(0.3+r.Float64()*0.6)))
			continue
		}
		// a sample that shares the hugging edge: larger or smaller, its centre over the plane
		cx2, ex2 := split(tx, highX)
		cz2, ez2 := split(tz, highZ)
		if math.Abs(float64(cx2-cx)) < float64(ex) && math.Abs(float64(cz2-cz)) < float64(ez) {
			g.script = append(g.script, mk(cx2, cz2, ex2, ez2))
		}
	}
	if r.Intn(3) == 0 { // then something far away on the low side: the grid's origin moves under the plane
		g.script = append(g.script, mk(cx-float32(8+r.Intn(20)), cz-float32(r.Intn(20)), 1, 1), mk(cx, cz, ex/2, ez/2))
	}
	return mk(cx, cz, ex, ez)
}

func (g *gen) region(w *world, wild bool) string {
	r := g.rng
	mn, mx := xyz(w.g.Min), xyz(w.g.Max)
	a := []float32{mn.x, mn.z, mx.x, mx.z}
	switch r.Intn(4) {
	case 0: // exactly the grid
	case 1: // generously around it
		a = []float32{mn.x - 10, mn.z - 10, mx.x + 10, mx.z + 10}
	case 2: // a box somewhere
		x, z := float32(r.Float64()*140-70), float32(r.Float64()*140-70)
		a = []float32{x, z, x + float32(r.Float64()*30), z + float32(r.Float64()*30)}
	default: // off to one side or inverted
		a = []float32{mx.x + 5, mn.z, mx.x + 9, mx.z}
		if r.Intn(2) == 0 {
			a = []float32{mx.x, mx.z, mn.x, mn.z}
		}
	}
	if wild {
		a[r.Intn(4)] = g.wildFloat()
	}
	return fmt.Sprintf("GQ %s %s %s %s", bits(a[0]), bits(a[1]), bits(a[2]), bits(a[3]))
}

func runGenerated(seed int64, histories, length int, profile string, wild bool) {
	profiles := []string{"stack", "cluster", "spread", "march", "cascade"}
	for h := 0; h < histories; h++ {
		rng := rand.New(rand.NewSource(seed*1000003 + int64(h)))
		g := &gen{rng: rng, profile: profile}
		if profile == "mixed" {
			g.profile = profiles[h%len(profiles)]
		}
		res := []uint{2, 2, 2, 1, 3, 4}[rng.Intn(6)]
		// the module creates its grid as NewRegularGrid(1, 1, 2); other initial sizes start with bounds
		// that do not describe the cell array and are not reachable through the server
		cols, rows := uint(1), uint(1)
		fmt.Fprintf(out, "GRID %d %d %d seed=%d history=%d profile=%s wild=%v\n", cols, rows, res, seed, h, g.profile, wild)
		w := newWorld(cols, rows, res)
		for i := 0; i < length; i++ {
			var line string
			k := rng.Intn(10)
			switch {
			case wild && rng.Intn(6) == 0:
				line = g.wildQuad()
			case k < 7 && len(g.script) == 0 && rng.Intn(12) == 0:
				line = g.hug(w)
			case k < 7:
				line = g.quad()
			case k < 9:
				line = g.ray(w, wild && rng.Intn(3) == 0)
			default:
				line = g.region(w, wild && rng.Intn(3) == 0)
			}
			if !w.apply(line) {
				break
			}
		}
		fmt.Fprintln(out, "GEND")
	}
}

func runReplay(path string) {
	f, err := os.Open(path)
	if err != nil {
		panic(err)
	}
	defer f.Close()
	sc := bufio.NewScanner(f)
	sc.Buffer(make([]byte, 1<<20), 1<<26)
	var w *world
	dead := false
	for sc.Scan() {
		line := strings.TrimSpace(sc.Text())
		switch {
		case strings.HasPrefix(line, "GRID "):
			f := strings.Fields(line)
			c, _ := strconv.Atoi(f[1])
			r, _ := strconv.Atoi(f[2])
			s, _ := strconv.Atoi(f[3])
			fmt.Fprintln(out, line)
			w = newWorld(uint(c), uint(r), uint(s))
			dead = false
		case strings.HasPrefix(line, "GI ") || strings.HasPrefix(line, "GR ") || strings.HasPrefix(line, "GQ "):
			if w != nil && !dead {
				dead = !w.apply(line)
			}
		case line == "GEND":
			fmt.Fprintln(out, line)
		}
	}
}

func printStat() {
	keys := make([]string, 0, len(stat))
	for k := range stat {
		keys = append(keys, k)
	}
	sort.Strings(keys)
	out.WriteString("GSTAT")
	for _, k := range keys {
		fmt.Fprintf(out, " %s=%d", k, stat[k])
	}
	out.WriteByte('\n')
}

func main() {
	defer out.Flush()
	defer printStat()
	mode := flag.String("mode", "gen", "gen | replay | prim")
	seed := flag.Int64("seed", 1, "")
	n := flag.Int("n", 10, "histories (gen) or cases (prim)")
	length := flag.Int("len", 60, "operations per history")
	profile := flag.String("profile", "mixed", "stack | cluster | spread | march | cascade | mixed")
	wild := flag.Bool("wild", false, "also feed non-finite, huge, zero and negative values")
	file := flag.String("file", "", "history to replay")
	flag.Parse()
	switch *mode {
	case "gen":
		runGenerated(*seed, *n, *length, *profile, *wild)
	case "replay":
		runReplay(*file)
	case "prim":
		primitives(rand.New(rand.NewSource(*seed)), *n)
	}
}
