// idstress: the id sources of the real code under real parallelism.  Many goroutines draw ids at the same time from one
// SequentialIDGenerator (and through the session's participant / entity id methods, the component store's type
// registration and odal's asset instance ids), some of them giving session-style ids back: no id may be in two hands.
// Output: one line `IDS ok ...` or `IDS <cause> :: detail`.
package main

import (
	"flag"
	"fmt"
	"sync"
	"time"

	"github.com/aukilabs/hagall/models"
	"github.com/aukilabs/hagall/modules/odal"
)

func main() {
	workers := flag.Int("workers", 16, "goroutines")
	dur := flag.Duration("for", 1500*time.Millisecond, "how long")
	flag.Parse()
	deadline := time.Now().Add(*dur)
	verdict, detail := "ok", ""
	fail := func(c, d string) {
		if verdict == "ok" {
			verdict, detail = c, d
		}
	}
	rounds := 0
	for time.Now().Before(deadline) && verdict == "ok" {
		rounds++
		// 1. a bare generator with releases: what is held is pairwise distinct at every moment
		var g models.SequentialIDGenerator
		var mu sync.Mutex
		held := map[uint32]int{}
		var wg sync.WaitGroup
		start := make(chan struct{})
		for w := 0; w < *workers; w++ {
			wg.Add(1)
			go func(w int) {
				defer wg.Done()
				<-start
				var mine []uint32
				for i := 0; i < 400; i++ {
					id := g.New()
					mu.Lock()
					if other, dup := held[id]; dup {
						fail("id-in-two-hands", fmt.Sprintf("SequentialIDGenerator.New handed id %d to worker %d while worker %d still held it (round %d)", id, w, other, rounds))
					}
					held[id] = w
					mu.Unlock()
					mine = append(mine, id)
					if i%3 == 2 { // give one back, the way ended sessions give their number back
						back := mine[0]
						mine = mine[1:]
						mu.Lock()
						delete(held, back)
						mu.Unlock()
						g.Reuse(back)
					}
				}
			}(w)
		}
		close(start)
		wg.Wait()
		// 2. participant and entity ids of one session, asset instance ids of one odal state: never released, all distinct
		s := models.NewSession(1, time.Hour)
		st := &odal.State{}
		var seenP, seenE, seenA sync.Map
		start2 := make(chan struct{})
		for w := 0; w < *workers; w++ {
			wg.Add(1)
			go func(w int) {
				defer wg.Done()
				<-start2
				for i := 0; i < 300; i++ {
					if _, dup := seenP.LoadOrStore(s.NewParticipantID(), w); dup {
						fail("participant-id-issued-twice", fmt.Sprintf("Session.NewParticipantID handed the same id to two concurrent callers (round %d)", rounds))
					}
					if _, dup := seenE.LoadOrStore(s.NewEntityID(), w); dup {
						fail("entity-id-issued-twice", fmt.Sprintf("Session.NewEntityID handed the same id to two concurrent callers (round %d)", rounds))
					}
					if _, dup := seenA.LoadOrStore(st.NewAssetInstanceID(), w); dup {
						fail("asset-id-issued-twice", fmt.Sprintf("odal State.NewAssetInstanceID handed the same id to two concurrent callers (round %d)", rounds))
					}
				}
			}(w)
		}
		close(start2)
		wg.Wait()
		s.Close()
		// 3. the same component type names registered from everywhere at once: one id per name, one name per id
		store := models.NewSession(2, time.Hour).GetEntityComponents()
		ids := make([]map[string]uint32, *workers)
		start3 := make(chan struct{})
		for w := 0; w < *workers; w++ {
			ids[w] = map[string]uint32{}
			wg.Add(1)
			go func(w int) {
				defer wg.Done()
				<-start3
				for i := 0; i < 40; i++ {
					name := fmt.Sprintf("type-%d", (i*7+w)%40)
					ids[w][name] = store.AddType(name)
				}
			}(w)
		}
		close(start3)
		wg.Wait()
		byName := map[string]uint32{}
		byID := map[uint32]string{}
		for w := range ids {
			for name, id := range ids[w] {
				if prev, ok := byName[name]; ok && prev != id {
					fail("type-name-two-ids", fmt.Sprintf("component type %q was registered under ids %d and %d by concurrent callers (round %d)", name, prev, id, rounds))
				}
				byName[name] = id
				if prev, ok := byID[id]; ok && prev != name {
					fail("type-id-two-names", fmt.Sprintf("component type id %d was given to %q and %q (round %d)", id, prev, name, rounds))
				}
				byID[id] = name
			}
		}
	}
	if verdict == "ok" {
		fmt.Printf("IDS ok rounds=%d workers=%d\n", rounds, *workers)
	} else {
		fmt.Printf("IDS %s :: %s\n", verdict, detail)
	}
}
