// auth: the C15 side harness. A real HTTP server mounts the repository's two auth wrappers
// (hagallhttp.VerifyAuthToken as the websocket handshake, hagallhttp.VerifyAuthTokenHandler in front of
// a handler standing in for the smoke test) over a real hdsclient.Client. Requests carry valid tokens and
// every single mutation of them on the three carriers and their combinations, with the server registered,
// unregistered and after a secret rotation. One line per request:
//
//	AUTH route=<ws|smoke> secret=<0|1> hdr=<->|<B|b><idx> query=<->|idx cookie=<->|idx T<idx>=<facts> .. | entered=<0|1> status=<n>
//
// where facts = wellFormed,alg,macOk,exp,iat,nbf,iss (offsets in seconds, '-' = absent; iss: H = "HDS", o = another) are computed by a
// reference written here (not by the code under test); the Lean driver evaluates Auth.admit on them.
package main

import (
	"context"
	"crypto/hmac"
	"crypto/sha256"
	"crypto/sha512"
	"encoding/base64"
	"encoding/json"
	"flag"
	"fmt"
	"hash"
	"math/rand"
	"net/http"
	"net/http/httptest"
	"os"
	"strings"
	"sync"
	"sync/atomic"
	"time"

	"github.com/aukilabs/go-tooling/pkg/logs"
	hds "github.com/aukilabs/hagall-common/hdsclient"
	hagallhttp "github.com/aukilabs/hagall/http"
	"golang.org/x/net/websocket"
)

var b64 = base64.RawURLEncoding

type tok struct {
	str  string
	kind string
	// reference facts
	wellFormed    bool
	alg           string
	macOk         bool
	exp, iat, nbf *int64
	iss           string // "" absent
}

func mac(alg, secret, input string) []byte {
	var h func() hash.Hash
	switch alg {
	case "HS256":
		h = sha256.New
	case "HS384":
		h = sha512.New384
	case "HS512":
		h = sha512.New
	default:
		return nil
	}
	m := hmac.New(h, []byte(secret))
	m.Write([]byte(input))
	return m.Sum(nil)
}

func enc(v any) string { b, _ := json.Marshal(v); return b64.EncodeToString(b) }

// build a token signed with signSecret; facts are relative to curSecret (what the server holds)
func build(kind, alg, signSecret, curSecret string, exp, iat, nbf *int64, now int64, iss string) tok {
	hdr := map[string]any{"alg": alg, "typ": "JWT"}
	cl := map[string]any{"app_key": "app"}
	if iss != "" {
		cl["iss"] = iss
	}
	if kind == "identity-shaped" { // what the server signs for the discovery service: its endpoint, nothing else
		cl = map[string]any{"endpoint": "http://localhost:1"}
	}
	if exp != nil {
		cl["exp"] = now + *exp
	}
	if iat != nil {
		cl["iat"] = now + *iat
	}
	if nbf != nil {
		cl["nbf"] = now + *nbf
	}
	input := enc(hdr) + "." + enc(cl)
	sig := mac(alg, signSecret, input)
	t := tok{kind: kind, str: input + "." + b64.EncodeToString(sig), wellFormed: true, alg: alg, exp: exp, iat: iat, nbf: nbf, iss: iss}
	if want := mac(alg, curSecret, input); want != nil && curSecret != "" && hmac.Equal(want, sig) {
		t.macOk = true
	}
	return t
}

func p64(v int64) *int64 { return &v }

func factTok(t tok) string {
	o := func(p *int64) string {
		if p == nil {
			return "-"
		}
		return fmt.Sprint(*p)
	}
	b := func(x bool) string {
		if x {
			return "1"
		}
		return "0"
	}
	alg := t.alg
	if alg == "" {
		alg = "?"
	}
	iss := "o"
	switch t.iss {
	case "":
		iss = "-"
	case "HDS":
		iss = "H"
	}
	return fmt.Sprintf("%s,%s,%s,%s,%s,%s,%s", b(t.wellFormed), alg, b(t.macOk), o(t.exp), o(t.iat), o(t.nbf), iss)
}

func main() {
	logs.SetLogger(func(logs.Entry) {})
	seed := flag.Int64("seed", 1, "seed")
	n := flag.Int("n", 400, "requests")
	flag.Parse()
	rnd := rand.New(rand.NewSource(*seed))

	client := hds.NewClient(hds.WithHagallEndpoint("http://localhost:1"), hds.WithHDSEndpoint("http://localhost:2"))
	var entered int32
	mux := http.NewServeMux()
	mux.Handle("/", websocket.Server{
		Handshake: hagallhttp.VerifyAuthToken(context.Background(), client),
		Handler: func(ws *websocket.Conn) {
			atomic.AddInt32(&entered, 1)
			ws.Close()
		},
	})
	mux.HandleFunc("/health", client.HandleHealthCheck)
	mux.HandleFunc("/smoke-test", hagallhttp.VerifyAuthTokenHandler(client, func(w http.ResponseWriter, r *http.Request) {
		atomic.AddInt32(&entered, 1)
		w.WriteHeader(204)
	}))
	srv := httptest.NewServer(mux)
	defer srv.Close()

	secrets := []string{"secret-one-0123456789", "secret-two-abcdefghij"}
	cur := ""
	for i := 0; i < *n; i++ {
		// server state: unregistered / registered / rotated
		switch rnd.Intn(6) {
		case 0:
			cur = ""
		case 1, 2:
			cur = secrets[0]
		case 3:
			cur = secrets[1]
		}
		client.SetServerData("srv", cur)
		now := time.Now().Unix()
		mk := func() tok {
			other := secrets[0]
			if cur == secrets[0] {
				other = secrets[1]
			}
			signWith := cur
			exp, iat, nbf := p64(3600), p64(-5), (*int64)(nil)
			alg := "HS256"
			kind := "valid"
			iss := "HDS"
			switch rnd.Intn(26) {
			case 13:
				kind, iss = "no-issuer", ""
			case 14:
				kind, iss = "another-issuer", "hagall"
			case 15:
				kind, iss, exp, iat = "identity-shaped", "", nil, nil
			case 16:
				kind, iss = "issuer-lowercase", "hds"
			case 0:
				kind, signWith = "wrong-secret", other
			case 1:
				kind, signWith = "empty-secret-signature", ""
			case 2:
				kind, exp = "expired", p64(-30)
			case 3:
				kind, exp = "expired-long-ago", p64(-86400)
			case 4:
				kind, exp = "no-exp", nil
			case 5:
				kind, iat = "issued-in-5s", p64(5)
			case 6:
				kind, iat = "issued-in-60s", p64(60)
			case 7:
				kind, nbf = "not-before-future", p64(60)
			case 8:
				kind, nbf = "not-before-past", p64(-60)
			case 9:
				kind, alg = "hs384", "HS384"
			case 10:
				kind, alg = "hs512", "HS512"
			case 11:
				kind, iat, nbf = "iat-and-nbf-future", p64(5), p64(60)
			case 12:
				kind, iat, exp = "iat-future-and-expired", p64(5), p64(-30)
			}
			t := build(kind, alg, signWith, cur, exp, iat, nbf, now, iss)
			if cur != "" && rnd.Intn(12) == 0 {
				// the real thing: ask the server for its health as the discovery service does and present what it hands out
				hreq, _ := http.NewRequest("GET", srv.URL+"/health", nil)
				hreq.Header.Set("User-Agent", "HDS v1")
				if hres, err := http.DefaultClient.Do(hreq); err == nil {
					hres.Body.Close()
					if id := strings.TrimPrefix(hres.Header.Get("Authorization"), "Bearer "); id != "" {
						return tok{kind: "identity-from-health", str: id, wellFormed: true, alg: "HS256", macOk: true}
					}
				}
			}
			parts := strings.Split(t.str, ".")
			switch rnd.Intn(16) {
			case 0: // alg none, no signature
				hdr := enc(map[string]any{"alg": "none", "typ": "JWT"})
				t = tok{kind: "alg-none", str: hdr + "." + parts[1] + ".", wellFormed: true, alg: "none", exp: exp, iat: iat, nbf: nbf, iss: iss}
			case 1: // asymmetric algorithm name with an HMAC signature
				hdr := enc(map[string]any{"alg": "RS256", "typ": "JWT"})
				in := hdr + "." + parts[1]
				t = tok{kind: "alg-rs256", str: in + "." + b64.EncodeToString(mac("HS256", cur, in)), wellFormed: true, alg: "RS256", exp: exp, iat: iat, nbf: nbf, iss: iss}
			case 2: // signature bit flip
				s, _ := b64.DecodeString(parts[2])
				if len(s) > 0 {
					s[rnd.Intn(len(s))] ^= 1 << uint(rnd.Intn(8))
					t.str, t.kind, t.macOk = parts[0]+"."+parts[1]+"."+b64.EncodeToString(s), "sig-bitflip", false
				}
			case 3: // payload changed after signing
				cl := enc(map[string]any{"iss": "HDS", "app_key": "other", "exp": now + 3600})
				t.str, t.kind, t.macOk = parts[0]+"."+cl+"."+parts[2], "payload-swapped", false
				t.exp, t.iat, t.nbf, t.iss = p64(3600), nil, nil, "HDS"
			case 4:
				t = tok{kind: "two-segments", str: parts[0] + "." + parts[1]}
			case 5:
				t = tok{kind: "four-segments", str: t.str + ".x"}
			case 6:
				t = tok{kind: "garbage", str: "not-a-token"}
			case 7:
				t = tok{kind: "payload-not-json", str: parts[0] + "." + b64.EncodeToString([]byte("{nope")) + "." + parts[2]}
			case 8:
				t.str, t.kind, t.macOk = parts[0]+"."+parts[1]+".", "signature-stripped", false
			case 9: // lower-case algorithm name
				hdr := enc(map[string]any{"alg": "hs256", "typ": "JWT"})
				in := hdr + "." + parts[1]
				t = tok{kind: "alg-lowercase", str: in + "." + b64.EncodeToString(mac("HS256", cur, in)), wellFormed: true, alg: "hs256", exp: exp, iat: iat, nbf: nbf, iss: iss}
			}
			return t
		}
		toks := []tok{mk(), mk(), mk()}
		// carriers
		hdr, query, cookie := "-", "-", "-"
		req, _ := http.NewRequest("GET", srv.URL, nil)
		route := "smoke"
		if rnd.Intn(2) == 0 {
			route = "ws"
		}
		useH, useQ, useC := rnd.Intn(3) == 0, rnd.Intn(3) == 0, rnd.Intn(3) == 0
		if !useH && !useQ && !useC && rnd.Intn(5) > 0 {
			switch rnd.Intn(3) {
			case 0:
				useH = true
			case 1:
				useQ = true
			default:
				useC = true
			}
		}
		header := http.Header{}
		if useH {
			switch rnd.Intn(6) {
			case 0:
				header.Set("Authorization", "bearer "+toks[0].str)
				hdr = "b0"
			case 1:
				header.Set("Authorization", "Basic "+toks[0].str)
				hdr = "b0"
			default:
				header.Set("Authorization", "Bearer "+toks[0].str)
				hdr = "B0"
			}
		}
		q := ""
		if useQ {
			q = "?access_token=" + toks[1].str
			query = "1"
		}
		if useC {
			c := &http.Cookie{Name: "access_token", Value: toks[2].str}
			header.Add("Cookie", c.String())
			cookie = "2"
		}
		before := atomic.LoadInt32(&entered)
		status := 0
		method := "GET"
		if route == "smoke" {
			// the gate is in front of the handler whatever the method (the smoke test itself ignores it)
			method = []string{"GET", "GET", "POST", "PUT", "DELETE", "OPTIONS", "HEAD", "PATCH"}[rnd.Intn(8)]
			req, _ = http.NewRequest(method, srv.URL+"/smoke-test"+q, nil)
			req.Header = header
			resp, err := http.DefaultClient.Do(req)
			if err == nil {
				status = resp.StatusCode
				resp.Body.Close()
			}
		} else {
			cfg, _ := websocket.NewConfig(strings.Replace(srv.URL, "http://", "ws://", 1)+"/"+q, "http://localhost")
			cfg.Header = header
			ws, err := websocket.DialConfig(cfg)
			if err == nil {
				status = 101
				buf := make([]byte, 1)
				ws.SetReadDeadline(time.Now().Add(200 * time.Millisecond))
				ws.Read(buf)
				ws.Close()
			} else {
				status = 403
			}
		}
		time.Sleep(2 * time.Millisecond)
		did := atomic.LoadInt32(&entered) - before
		sec := "0"
		if cur != "" {
			sec = "1"
		}
		fmt.Fprintf(os.Stdout, "AUTH route=%s secret=%s hdr=%s query=%s cookie=%s T0=%s T1=%s T2=%s | entered=%d status=%d kinds=%s/%s/%s method=%s\n",
			route, sec, hdr, query, cookie, factTok(toks[0]), factTok(toks[1]), factTok(toks[2]), did, status, toks[0].kind, toks[1].kind, toks[2].kind, method)
	}
	// while the server registers again its secret is dropped and set at any moment: a token signed with the empty key (or
	// with a key that is not the server's) must be refused at every one of these moments, by the handshake and by the
	// HTTP wrapper, called here from several goroutines while another one keeps changing the secret
	{
		now := time.Now().Unix()
		forged := []tok{build("empty-key", "HS256", "", "", p64(3600), p64(-5), nil, now, "HDS"),
			build("wrong-secret", "HS256", secrets[1], secrets[1], p64(3600), p64(-5), nil, now, "HDS")}
		hs := hagallhttp.VerifyAuthToken(context.Background(), client)
		// the phase starts from a known secret: the requests before it may have left the other one, under which the
		// "wrong-secret" token is a valid one until the first change
		client.SetServerData("srv", secrets[0])
		var inside int32
		wrapped := hagallhttp.VerifyAuthTokenHandler(client, func(w http.ResponseWriter, r *http.Request) { atomic.AddInt32(&inside, 1) })
		stop := make(chan struct{})
		var wg sync.WaitGroup
		wg.Add(1)
		go func() {
			defer wg.Done()
			for {
				select {
				case <-stop:
					return
				default:
				}
				client.SetServerData("srv", secrets[0])
				client.SetServerData("", "")
			}
		}()
		var attempts, admitted int64
		for g := 0; g < 6; g++ {
			wg.Add(1)
			go func(g int) {
				defer wg.Done()
				t := forged[g%2]
				for {
					select {
					case <-stop:
						return
					default:
					}
					req, _ := http.NewRequest("GET", "http://relay.invalid/", nil)
					req.Header.Set("Authorization", "Bearer "+t.str)
					atomic.AddInt64(&attempts, 1)
					if g < 3 {
						if hs(&websocket.Config{}, req) == nil {
							atomic.AddInt64(&admitted, 1)
						}
					} else {
						before := atomic.LoadInt32(&inside)
						wrapped(httptest.NewRecorder(), req)
						_ = before
					}
				}
			}(g)
		}
		time.Sleep(800 * time.Millisecond)
		close(stop)
		wg.Wait()
		fmt.Fprintf(os.Stdout, "AUTHROT attempts=%d admitted=%d\n", attempts, admitted+int64(atomic.LoadInt32(&inside)))
	}

	// a token presented while valid and presented again after it has expired (same secret, no rotation)
	cur = secrets[0]
	client.SetServerData("srv", cur)
	now := time.Now().Unix()
	short := build("short-lived", "HS256", cur, cur, p64(2), p64(-1), nil, now, "HDS")
	for phase := 0; phase < 2; phase++ {
		before := atomic.LoadInt32(&entered)
		req, _ := http.NewRequest("GET", srv.URL+"/smoke-test", nil)
		req.Header.Set("Authorization", "Bearer "+short.str)
		status := 0
		if resp, err := http.DefaultClient.Do(req); err == nil {
			status = resp.StatusCode
			resp.Body.Close()
		}
		did := atomic.LoadInt32(&entered) - before
		t := short
		t.exp = p64(now + 2 - time.Now().Unix())
		if *t.exp <= 0 {
			t.exp = p64(-1)
		}
		fmt.Fprintf(os.Stdout, "AUTH route=smoke secret=1 hdr=B0 query=- cookie=- T0=%s T1=%s T2=%s | entered=%d status=%d kinds=short-lived-phase%d/-/-\n",
			factTok(t), factTok(tok{}), factTok(tok{}), did, status, phase)
		if phase == 0 {
			time.Sleep(3200 * time.Millisecond)
		}
	}

}
