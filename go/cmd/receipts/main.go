// receipts: the C19 side harness. It runs the real receipt.ReceiptHandler.HandleReceipts loop against a
// local stand-in for the network credit service, submits valid receipts and every single-field corruption
// of them (through the real RealtimeHandler.HandleReceipt and its bounded channel), with the service
// reachable, slow or down and the queue empty or full, and reports what was answered and what was forwarded.
// Output: one line per scenario, `RCPT <verdict> ...`; exit status 0 always (the check script judges).
package main

import (
	"bytes"
	"context"
	"encoding/json"
	"flag"
	"fmt"
	"io"
	"math/big"
	"math/rand"
	"net/http"
	"net/http/httptest"
	"os"
	"runtime"
	"sort"
	"sync"
	"sync/atomic"
	"time"

	"github.com/aukilabs/go-tooling/pkg/logs"
	"github.com/aukilabs/hagall-common/messages/hagallpb"
	"github.com/aukilabs/hagall-common/ncsclient"
	hwebsocket "github.com/aukilabs/hagall-common/websocket"
	"github.com/aukilabs/hagall/receipt"
	hws "github.com/aukilabs/hagall/websocket"
	"github.com/ethereum/go-ethereum/crypto"
	"google.golang.org/protobuf/types/known/timestamppb"
)

type capture struct {
	mu   sync.Mutex
	msgs []hwebsocket.ProtoMsg
}

func (c *capture) Send(m hwebsocket.ProtoMsg) { c.mu.Lock(); c.msgs = append(c.msgs, m); c.mu.Unlock() }
func (c *capture) SendMsg(hwebsocket.Msg)     {}

type triple struct {
	kind      string
	receipt   string
	hash, sig []byte
	valid     bool // by the reference definition: hash = keccak256(receipt) and the signature is recoverable over hash
}

// reference validity, written against the property statement (not against receipt.VerifyPayload)
func referenceValid(t triple) bool {
	if !bytes.Equal(crypto.Keccak256([]byte(t.receipt)), t.hash) {
		return false
	}
	// a recoverable signature is r || s || v, 65 bytes, with a recovery id v of 0 to 3 from which a public key is
	// recovered; the range is stated here because the two implementations of Ecrecover (cgo, pure Go) differ on 4 to 7
	if len(t.sig) != 65 || t.sig[64] > 3 {
		return false
	}
	_, err := crypto.Ecrecover(t.hash, t.sig)
	return err == nil
}

func mkValid(rnd *rand.Rand, key string) triple {
	txt := make([]byte, 8+rnd.Intn(40))
	for i := range txt {
		txt[i] = byte('a' + rnd.Intn(26))
	}
	k, _ := crypto.HexToECDSA(key)
	h := crypto.Keccak256(txt)
	s, _ := crypto.Sign(h, k)
	if rnd.Intn(5) == 0 {
		// the other signature of the same key over the same hash: (r, N - s, v xor 1); recoverable, hence well formed
		n := crypto.S256().Params().N
		sv := new(big.Int).Sub(n, new(big.Int).SetBytes(s[32:64]))
		tw := append([]byte(nil), s...)
		sb := sv.Bytes()
		for i := 32; i < 64; i++ {
			tw[i] = 0
		}
		copy(tw[64-len(sb):64], sb)
		tw[64] ^= 1
		if _, err := crypto.Ecrecover(h, tw); err == nil {
			return triple{kind: "valid-high-s", receipt: string(txt), hash: h, sig: tw}
		}
	}
	return triple{kind: "valid", receipt: string(txt), hash: h, sig: s}
}

func corrupt(rnd *rand.Rand, v triple) triple {
	t := triple{receipt: v.receipt, hash: append([]byte(nil), v.hash...), sig: append([]byte(nil), v.sig...)}
	switch rnd.Intn(14) {
	case 13:
		// one bit of the recovery id: 0 / 1 become 4 / 5, which the compact signature format of Bitcoin reads as the
		// same id with the compressed-key flag - not a recovery id of a recoverable signature
		t.kind = "sig-recovery-id-flag-bit"
		t.sig[64] |= 4
	case 12:
		// the other convention for the recovery id (27 / 28): not what the server's verification accepts
		t.kind = "sig-recovery-id-plus-27"
		t.sig[64] += 27
	case 0:
		t.kind, t.receipt = "text-changed", v.receipt+"x"
	case 1:
		t.kind = "hash-bitflip"
		t.hash[rnd.Intn(len(t.hash))] ^= 1 << uint(rnd.Intn(8))
	case 2:
		t.kind, t.hash = "hash-truncated", t.hash[:31]
	case 3:
		t.kind, t.hash = "hash-leading-junk", append([]byte{1, 2, 3}, t.hash...)
	case 4:
		t.kind, t.hash = "hash-trailing-junk", append(t.hash, 9)
	case 5:
		t.kind = "sig-bitflip-r"
		t.sig[rnd.Intn(32)] ^= 1 << uint(rnd.Intn(8))
	case 6:
		t.kind, t.sig = "sig-truncated", t.sig[:64]
	case 7:
		t.kind = "sig-bad-recovery-id"
		t.sig[64] = 4 + byte(rnd.Intn(200))
	case 8:
		t.kind, t.sig = "sig-junk", []byte{1, 2, 3}
	case 9:
		t.kind = "sig-zero"
		for i := range t.sig {
			t.sig[i] = 0
		}
	case 10:
		t.kind, t.hash = "hash-of-other-text", crypto.Keccak256([]byte("other"))
	default:
		t.kind, t.sig = "sig-trailing-junk", append(t.sig, 1)
	}
	return t
}

func key3(t triple) string { return fmt.Sprintf("%q|%x|%x", t.receipt, t.hash, t.sig) }

func main() {
	logs.SetLogger(func(logs.Entry) {})
	seed := flag.Int64("seed", 1, "seed")
	rounds := flag.Int("rounds", 6, "scenarios")
	per := flag.Int("per", 60, "submissions per scenario")
	capFlag := flag.Int("cap", 128, "receipt channel capacity (cmd/main.go)")
	flag.Parse()
	rnd := rand.New(rand.NewSource(*seed))
	const key = "4c0883a69102937d6231471b5dbb6204fe5129617082792ae468d01a3f362318"

	for round := 0; round < *rounds; round++ {
		mode := []string{"up", "slow", "down", "up-smallqueue", "race-full", "flaky", "error"}[round%7]
		if mode == "race-full" {
			raceFull(rnd, key, round)
			continue
		}
		var mu sync.Mutex
		var got []string
		srv := httptest.NewServer(http.HandlerFunc(func(w http.ResponseWriter, r *http.Request) {
			if mode == "slow" {
				time.Sleep(20 * time.Millisecond)
			}
			b, _ := io.ReadAll(r.Body)
			var p ncsclient.ReceiptPayload
			if json.Unmarshal(b, &p) == nil {
				mu.Lock()
				got = append(got, fmt.Sprintf("%s %q|%x|%x", r.URL.Path, p.Receipt, p.Hash, p.Signature))
				mu.Unlock()
			}
			switch mode {
			case "flaky":
				// the credit service has the receipt and the connection breaks before it can say so
				if hj, ok := w.(http.Hijacker); ok {
					if c, _, err := hj.Hijack(); err == nil {
						c.Close()
						return
					}
				}
			case "error":
				w.WriteHeader(500)
				return
			}
			w.WriteHeader(200)
		}))
		endpoint := srv.URL
		if mode == "down" {
			srv.Close()
		}
		qcap := *capFlag
		if mode == "up-smallqueue" {
			qcap = 3
		}
		ch := make(chan ncsclient.ReceiptPayload, qcap)
		ctx, cancel := context.WithCancel(context.Background())
		rh := receipt.ReceiptHandler{NCSEndpoint: endpoint, ReceiptChan: ch}
		paused := mode == "up-smallqueue"
		if !paused {
			rh.HandleReceipts(ctx)
		}

		var subs []triple
		var accepted []triple
		answers := map[string]int{}
		blocked := 0
		var wg sync.WaitGroup
		var amu sync.Mutex
		nconn := 1 + rnd.Intn(4)
		handlers := make([]*hws.RealtimeHandler, nconn)
		for i := range handlers {
			handlers[i] = &hws.RealtimeHandler{ReceiptChan: ch}
		}
		for i := 0; i < *per; i++ {
			v := mkValid(rnd, key)
			t := v
			switch rnd.Intn(10) {
			case 0:
				t.kind, t.receipt = "empty-receipt", ""
			case 1:
				t.kind, t.hash = "empty-hash", nil
			case 2:
				t.kind, t.sig = "empty-signature", nil
			case 3, 4, 5, 6:
				t = corrupt(rnd, v)
			}
			t.valid = referenceValid(t)
			subs = append(subs, t)
			h := handlers[rnd.Intn(nconn)]
			wg.Add(1)
			rid := uint32(i + 1)
			do := func(t triple) {
				defer wg.Done()
				done := make(chan struct{})
				cap := &capture{}
				go func() {
					msg, _ := hwebsocket.MsgFromProto(&hagallpb.ReceiptRequest{Type: hagallpb.MsgType_MSG_TYPE_RECEIPT_REQUEST,
						Timestamp: timestamppb.Now(), RequestId: rid, Receipt: t.receipt, Hash: t.hash, Signature: t.sig})
					h.HandleReceipt(context.Background(), cap, msg)
					close(done)
				}()
				select {
				case <-done:
				case <-time.After(2 * time.Second):
					amu.Lock()
					blocked++
					amu.Unlock()
					return
				}
				amu.Lock()
				defer amu.Unlock()
				verdict := fmt.Sprintf("answers=%d", len(cap.msgs))
				if len(cap.msgs) == 1 {
					switch m := cap.msgs[0].(type) {
					case *hagallpb.ReceiptResponse:
						verdict = "accepted"
						if m.RequestId != rid {
							verdict = "accepted-wrong-rid"
						}
						accepted = append(accepted, t)
					case *hagallpb.ErrorResponse:
						verdict = fmt.Sprintf("error-%d", int32(m.Code))
						if m.RequestId != rid {
							verdict += "-wrong-rid"
						}
					}
				}
				empty := t.receipt == "" || len(t.hash) == 0 || len(t.sig) == 0
				answers[fmt.Sprintf("%v/%s", empty, verdict)]++
			}
			if rnd.Intn(3) == 0 {
				go do(t)
			} else {
				do(t)
			}
		}
		wg.Wait()
		queued := len(ch)
		if paused {
			rh.HandleReceipts(ctx)
		}
		// wait until the forwarder has drained the queue and the posts have settled
		deadline := time.Now().Add(5 * time.Second)
		for time.Now().Before(deadline) {
			mu.Lock()
			n := len(got)
			mu.Unlock()
			want := 0
			for _, a := range accepted {
				if a.valid {
					want++
				}
			}
			if len(ch) == 0 && (n >= want || mode == "down") {
				break
			}
			time.Sleep(10 * time.Millisecond)
		}
		time.Sleep(60 * time.Millisecond)
		if mode == "flaky" || mode == "error" {
			// a forwarder that tries again after a failed exchange does so a little later: it has the time to
			time.Sleep(900 * time.Millisecond)
		}
		left := len(ch) // receipts nobody took out of the queue although the forwarder had five seconds and a service that answers
		cancel()
		if mode != "down" {
			srv.Close()
		}
		mu.Lock()
		forwarded := append([]string(nil), got...)
		mu.Unlock()
		sort.Strings(forwarded)
		if mode == "up" || mode == "slow" || mode == "up-smallqueue" {
			// one line per distinct accepted triple: the four facts of Model/Receipt.lean (the two cryptographic ones
			// computed here, with the linked implementation), how often it was accepted, how often the service received it
			seenT := map[string]bool{}
			for _, a := range accepted {
				k := key3(a)
				if seenT[k] {
					continue
				}
				seenT[k] = true
				acc, fw := 0, 0
				for _, b := range accepted {
					if key3(b) == k {
						acc++
					}
				}
				for _, f := range forwarded {
					if f == "/receipt "+k {
						fw++
					}
				}
				recid := 0
				if len(a.sig) == 65 {
					recid = int(a.sig[64])
				}
				_, rerr := crypto.Ecrecover(a.hash, a.sig)
				b := func(x bool) int {
					if x {
						return 1
					}
					return 0
				}
				fmt.Fprintf(os.Stdout, "RTRIPLE hashOk=%d siglen=%d recid=%d recovers=%d accepted=%d forwarded=%d kind=%s mode=%s\n",
					b(bytes.Equal(crypto.Keccak256([]byte(a.receipt)), a.hash)), len(a.sig), recid, b(rerr == nil), acc, fw, a.kind, mode)
			}
		}
		var expect []string
		for _, a := range accepted {
			if a.valid {
				expect = append(expect, "/receipt "+key3(a))
			}
		}
		sort.Strings(expect)
		verdict := "ok"
		detail := ""
		// every answer must be: empty field -> 400; queue full -> 503; else accepted. exactly one answer.
		for k, n := range answers {
			switch k {
			case "true/error-400", "false/accepted", "false/error-503":
			default:
				verdict, detail = "bad-answer", fmt.Sprintf("%s x%d", k, n)
			}
		}
		if a503 := answers["false/error-503"]; a503 > 0 && qcap >= *per {
			verdict, detail = "too-busy-with-room", fmt.Sprintf("%d refusals, capacity %d, %d submissions", a503, qcap, *per)
		}
		if blocked > 0 {
			verdict, detail = "submission-blocked", fmt.Sprintf("%d submissions did not return within 2s", blocked)
		}
		if mode != "down" && verdict == "ok" && left > 0 {
			verdict, detail = "receipt-worker-stopped", fmt.Sprintf("%d receipts are still in the queue five seconds after the last submission: the forwarder no longer takes them out (every later receipt of any client will be refused once the queue is full)", left)
		}
		if mode != "down" && verdict == "ok" {
			if len(forwarded) != len(expect) {
				verdict = "forwarded-set-differs"
			} else {
				for i := range expect {
					if expect[i] != forwarded[i] {
						verdict = "forwarded-set-differs"
					}
				}
			}
			if verdict != "ok" {
				// name the first offending payload by its corruption kind
				exp := map[string]int{}
				for _, e := range expect {
					exp[e]++
				}
				for _, f := range forwarded {
					if exp[f] == 0 {
						for _, s := range subs {
							if "/receipt "+key3(s) == f {
								detail = "forwarded although invalid or not accepted: kind=" + s.kind
							}
						}
						if detail == "" {
							detail = "forwarded payload that was never submitted (modified?): " + f
						}
						break
					}
					exp[f]--
				}
				if detail == "" {
					detail = fmt.Sprintf("expected %d forwards, saw %d (a valid accepted receipt was not forwarded, or forwarded twice)", len(expect), len(forwarded))
				}
			}
		}
		kinds := map[string]int{}
		for _, s := range subs {
			kinds[s.kind]++
		}
		kb, _ := json.Marshal(kinds)
		fmt.Fprintf(os.Stdout, "RCPT %s mode=%s cap=%d conns=%d subs=%d accepted=%d queued=%d forwarded=%d expected=%d kinds=%s :: %s\n",
			verdict, mode, qcap, nconn, len(subs), len(accepted), queued, len(forwarded), len(expect), kb, detail)
	}
}

// raceFull: a queue with one free slot and no forwarder, 16 connections submitting at the same moment:
// exactly one may be accepted, the others must be told TOO_BUSY, and nobody may block.
func raceFull(rnd *rand.Rand, key string, round int) {
	verdict, detail := "ok", ""
	total, blockedTotal := 0, 0
	for rep := 0; rep < 1000 && verdict == "ok"; rep++ {
		qcap := 4
		ch := make(chan ncsclient.ReceiptPayload, qcap)
		for i := 0; i < qcap-1; i++ {
			v := mkValid(rnd, key)
			ch <- ncsclient.ReceiptPayload{Receipt: v.receipt, Hash: v.hash, Signature: v.sig}
		}
		const n = 16
		var ready, finished, spinning, gate int32
		start := make(chan struct{})
		var mu sync.Mutex
		acc, busy, blocked, other := 0, 0, 0, 0
		for i := 0; i < n; i++ {
			v := mkValid(rnd, key)
			h := &hws.RealtimeHandler{ReceiptChan: ch}
			cap := &capture{}
			msg, _ := hwebsocket.MsgFromProto(&hagallpb.ReceiptRequest{Type: hagallpb.MsgType_MSG_TYPE_RECEIPT_REQUEST,
				Timestamp: timestamppb.Now(), RequestId: uint32(i + 1), Receipt: v.receipt, Hash: v.hash, Signature: v.sig})
			go func() {
				atomic.AddInt32(&ready, 1)
				<-start
				// all of them are on a processor, spinning, when the gate opens: they enter the handler within nanoseconds
				// of each other (a closed channel alone wakes them one after the other)
				atomic.AddInt32(&spinning, 1)
				for atomic.LoadInt32(&gate) == 0 {
					runtime.Gosched()
				}
				h.HandleReceipt(context.Background(), cap, msg)
				mu.Lock()
				if len(cap.msgs) != 1 {
					other++
				} else {
					switch m := cap.msgs[0].(type) {
					case *hagallpb.ReceiptResponse:
						acc++
					case *hagallpb.ErrorResponse:
						if int32(m.Code) == 503 {
							busy++
						} else {
							other++
						}
					}
				}
				mu.Unlock()
				atomic.AddInt32(&finished, 1)
			}()
		}
		for atomic.LoadInt32(&ready) < n {
			time.Sleep(time.Millisecond)
		}
		close(start)
		for t0 := time.Now(); atomic.LoadInt32(&spinning) < n && time.Since(t0) < 2*time.Second; {
			runtime.Gosched()
		}
		atomic.StoreInt32(&gate, 1)
		// a submission that blocks blocks for good (nobody reads the queue): a generous deadline costs nothing on a
		// correct tree and does not mistake a loaded machine for a blocked handler
		deadline := time.Now().Add(5 * time.Second)
		for atomic.LoadInt32(&finished) < n && time.Now().Before(deadline) {
			time.Sleep(time.Millisecond)
		}
		mu.Lock()
		blocked = n - int(atomic.LoadInt32(&finished))
		mu.Unlock()
		total += n
		blockedTotal += blocked
		if blocked > 0 {
			verdict, detail = "submission-blocked", fmt.Sprintf("repetition %d: %d of %d concurrent submissions onto a queue with one free slot never returned", rep, blocked, n)
		} else if acc != 1 || busy != n-1 || other != 0 {
			verdict, detail = "bad-answer", fmt.Sprintf("repetition %d: accepted=%d too-busy=%d other=%d (expected 1 / %d / 0)", rep, acc, busy, other, n-1)
		}
	}
	fmt.Fprintf(os.Stdout, "RCPT %s mode=race-full cap=4 conns=16 subs=%d accepted=0 queued=0 forwarded=0 expected=0 kinds={} :: %s\n", verdict, total, detail)
}
