package main

// Concurrent blocks: the next queued message of two or three connections is handled at the same time, each by its own
// goroutine running the real handleMessage, under a scheduler that decides at every Lock / RLock of the model's
// mutexes (vsync) which request moves next.  The harness enumerates the interleavings with a bounded number of
// preemptions by re-running the history from scratch for every schedule.

import (
	"bufio"
	"fmt"
	"io"
	"runtime"
	"sort"
	"strings"
	"time"

	"github.com/aukilabs/hagall/vsync"
	hwebsocket "github.com/aukilabs/hagall-common/websocket"
)

type taskState int

const (
	tsNew taskState = iota
	tsWaiting        // suspended before an acquisition
	tsYield          // suspended right after a release: what follows it (relays computed under the lock, ...) may come later
	tsRunning
	tsDone
)

type task struct {
	id        int
	conn      int
	state     taskState
	want      *vsync.RWMutex
	write     bool
	announced bool
	hangup    bool
	resume    chan struct{}
	// result
	msg      hwebsocket.Msg
	handled  bool
	err      error
	panicked string
}

// sched implements vsync.Scheduler.
type sched struct {
	tasks   []*task
	cur     *task
	back    chan struct{} // the running task yields or finishes
	forced  []int         // choices to follow, then the default policy
	choices []int         // choices made (task ids)
	enabled [][]int       // enabled set at every decision
	held    map[*vsync.RWMutex][]int
	preempt int
}

func grantable(m *vsync.RWMutex, write bool) bool {
	if write {
		return !m.W && m.R == 0
	}
	return !m.W && m.PendingW == 0
}

func (s *sched) Acquire(m *vsync.RWMutex, write bool) {
	t := s.cur
	t.want, t.write, t.state = m, write, tsWaiting
	s.back <- struct{}{}
	<-t.resume // granted: the scheduler has updated the mutex
}

func (s *sched) Release(m *vsync.RWMutex, write bool) {
	if write {
		m.W = false
	} else {
		m.R--
	}
	if !yieldOnRelease {
		return
	}
	t := s.cur
	t.state = tsYield
	s.back <- struct{}{}
	<-t.resume
}

// yieldOnRelease makes every release a scheduling point too (what a handler does with what it read under a lock happens
// after the lock is gone)
var yieldOnRelease = true

func (t *task) enabledNow() bool {
	switch t.state {
	case tsNew:
		return true
	case tsWaiting:
		return grantable(t.want, t.write) || (t.write && !t.announced)
	case tsYield:
		return true
	}
	return false
}

// run executes the block; returns "" or "deadlock".
func (s *sched) run(body func(t *task)) string {
	s.back = make(chan struct{})
	vsync.Active = s
	defer func() { vsync.Active = nil }()
	var last *task
	for {
		var en []int
		done := 0
		for _, t := range s.tasks {
			if t.state == tsDone {
				done++
			} else if t.enabledNow() {
				en = append(en, t.id)
			}
		}
		if done == len(s.tasks) {
			return ""
		}
		if len(en) == 0 {
			return "deadlock"
		}
		// choice
		pick := -1
		step := len(s.choices)
		if step < len(s.forced) {
			for _, e := range en {
				if e == s.forced[step] {
					pick = e
				}
			}
		}
		if pick < 0 { // default: keep running the same request, else the lowest
			if last != nil {
				for _, e := range en {
					if e == last.id {
						pick = e
					}
				}
			}
			if pick < 0 {
				pick = en[0]
			}
		}
		s.choices = append(s.choices, pick)
		s.enabled = append(s.enabled, en)
		t := s.tasks[pick]
		last = t
		switch t.state {
		case tsNew:
			t.state = tsRunning
			s.cur = t
			go func() {
				body(t)
				t.state = tsDone
				s.back <- struct{}{}
			}()
			<-s.back
		case tsYield:
			t.state = tsRunning
			s.cur = t
			t.resume <- struct{}{}
			<-s.back
		case tsWaiting:
			if !grantable(t.want, t.write) {
				// a writer announces itself and keeps waiting: from now on new readers queue behind it
				t.announced = true
				t.want.PendingW++
				continue
			}
			if t.write {
				if t.announced {
					t.want.PendingW--
				}
				t.want.W = true
			} else {
				t.want.R++
			}
			t.want, t.announced, t.state = nil, false, tsRunning
			s.cur = t
			t.resume <- struct{}{}
			<-s.back
		}
	}
}

// Conc handles the next queued message of each of the given connections concurrently under the forced schedule.
// It prints one event; returns the scheduler (for the exploration) and whether the block deadlocked.
func (w *World) Conc(conns []int, forced []int) (*sched, bool) {
	s := &sched{forced: forced}
	for i, c := range conns {
		// a negative number: the connection goes away (HandleDisconnect) instead of handling a message
		if c < 0 {
			s.tasks = append(s.tasks, &task{id: i, conn: -c, hangup: true, resume: make(chan struct{})})
		} else {
			s.tasks = append(s.tasks, &task{id: i, conn: c, resume: make(chan struct{})})
		}
	}
	w.canon.LastSid, w.canon.LastPing = 0, 0
	dead := s.run(func(t *task) {
		cs := w.conns[t.conn]
		if cs == nil || !cs.alive {
			return
		}
		if t.hangup {
			cs.v.Disconnect(nil)
			return
		}
		t.msg, t.handled, t.err, t.panicked = cs.v.HandleNext()
	}) != ""
	// what each task consumed, its outcome
	var parts, outs []string
	for _, t := range s.tasks {
		req := "none"
		if t.hangup {
			req = "hangup"
			if cs := w.conns[t.conn]; cs != nil && cs.alive && t.state == tsDone {
				cs.alive = false
				w.know.dead(t.conn)
			}
		}
		if t.handled {
			if r := w.byNanos[t.msg.Time.Nanosecond()]; r != nil {
				req = r.Tokens()
			}
		}
		parts = append(parts, fmt.Sprintf("%d %s", t.conn, req))
		switch {
		case t.state != tsDone:
			outs = append(outs, "stuck")
		case t.panicked != "":
			outs = append(outs, "panic:"+panicSite(t.panicked))
			w.conns[t.conn].alive, w.conns[t.conn].ghost = false, true
			w.know.dead(t.conn)
		case t.err != nil:
			outs = append(outs, "connerr")
		default:
			outs = append(outs, "ok")
		}
	}
	sc := make([]string, len(s.choices))
	for i, c := range s.choices {
		sc[i] = fmt.Sprint(c)
	}
	w.logEvent(fmt.Sprintf("conc %d sched=%s | %s", len(conns), strings.Join(sc, ""), strings.Join(parts, " | ")))
	if dead {
		w.collect()
		w.state()
		w.emit("O deadlock %s", strings.Join(outs, ","))
		return s, true
	}
	// handler errors end their connections through the normal path, one after the other
	for _, t := range s.tasks {
		if t.state == tsDone && t.panicked == "" && t.err != nil {
			w.kill(t.conn, t.err)
		}
	}
	w.collect()
	w.quiescent()
	w.finishEvent("conc " + strings.Join(outs, ","))
	return s, false
}

// quiescent prints, at the quiescent moment after a concurrent block, what C07 speaks about: for every live connection
// the session its handler is in and whether that very session is what the registry resolves its id to, and for every
// registered session its number of participants.  `Q members c:sid:found ... | sessions sid:count ...`
func (w *World) quiescent() {
	ids := append([]int(nil), w.order...)
	sort.Ints(ids)
	var ms, ss []string
	for _, c := range ids {
		cs := w.conns[c]
		if cs == nil || (!cs.alive && !cs.ghost) {
			continue
		}
		cur := cs.rh.VerifCurrentSession()
		if cur == nil {
			continue
		}
		gid := w.store.GlobalSessionID(cur.ID)
		reg, ok := w.store.GetByGlobalID(gid)
		found := 0
		if ok && reg == cur {
			found = 1
		}
		n, _ := w.canon.SidOf(gid)
		ms = append(ms, fmt.Sprintf("%d:%d:%d", c, n, found))
	}
	gids := w.store.VerifSessionIDs()
	sort.Strings(gids)
	for _, g := range gids {
		if sess, ok := w.store.GetByGlobalID(g); ok {
			n, _ := w.canon.SidOf(g)
			ss = append(ss, fmt.Sprintf("%d:%d", n, sess.ParticipantCount()))
		}
	}
	w.emit("Q members %s | sessions %s", strings.Join(ms, " "), strings.Join(ss, " "))
}

// alternatives of a finished run: schedules that differ from it at one decision, within the preemption bound
func (s *sched) alternatives(bound int) [][]int {
	var out [][]int
	pre := 0
	for i := range s.choices {
		if i >= len(s.forced) {
			for _, e := range s.enabled[i] {
				if e == s.choices[i] {
					continue
				}
				cost := pre
				if i > 0 && contains(s.enabled[i], s.choices[i-1]) && e != s.choices[i-1] {
					cost++
				}
				if cost <= bound {
					alt := append(append([]int(nil), s.choices[:i]...), e)
					out = append(out, alt)
				}
			}
		}
		if i > 0 && contains(s.enabled[i], s.choices[i-1]) && s.choices[i] != s.choices[i-1] {
			pre++
		}
	}
	return out
}

func contains(l []int, x int) bool {
	for _, y := range l {
		if y == x {
			return true
		}
	}
	return false
}

// exploreConc re-runs `prefix` (replayable event lines) from scratch for every schedule of the concurrent block and
// writes one complete history per distinct outcome to out.  Returns (interleavings explored, distinct outcomes, deadlocks).
func exploreConc(cfg Config, header string, prefix []string, conns []int, post []string, bound, maxRuns int, out *bufio.Writer) (int, int, int) {
	type runRes struct {
		text string
	}
	seen := map[string]bool{}
	queue := [][]int{nil}
	tried := map[string]bool{}
	explored, deadlocks := 0, 0
	for len(queue) > 0 && explored < maxRuns {
		forced := queue[0]
		queue = queue[1:]
		key := fmt.Sprint(forced)
		if tried[key] {
			continue
		}
		tried[key] = true
		var buf strings.Builder
		bw := bufio.NewWriterSize(&buf, 1<<16)
		w := NewWorld(cfg, testKey, bw)
		for _, l := range prefix {
			execEvent(w, strings.Fields(l))
		}
		mark := len(w.Log)
		_ = mark
		bw.Flush()
		prefixText := buf.String()
		buf.Reset()
		s, dead := w.Conc(conns, forced)
		if !dead {
			for _, l := range post {
				execEvent(w, strings.Fields(l))
			}
		}
		bw.Flush()
		explored++
		if dead {
			deadlocks++
		}
		// outcome identity: what everybody received and the registry, not the schedule itself
		// (every connection's deliveries in the order it got them; which connection is served first does not matter)
		var sig []string
		inbox := map[string][]string{}
		for _, l := range strings.Split(buf.String(), "\n") {
			if strings.HasPrefix(l, "D ") {
				f := strings.SplitN(l, " ", 3)
				inbox[f[1]] = append(inbox[f[1]], l)
			} else if strings.HasPrefix(l, "S ") || strings.HasPrefix(l, "O ") || strings.HasPrefix(l, "Q ") || strings.HasPrefix(l, "X ") || strings.HasPrefix(l, "G ") {
				sig = append(sig, l)
			}
		}
		for c, ls := range inbox {
			sig = append(sig, c+" << "+strings.Join(ls, " ;; "))
		}
		sort.Strings(sig)
		k := strings.Join(sig, "\n")
		if !seen[k] {
			seen[k] = true
			fmt.Fprintf(out, "%s conc=%d\n", header, len(seen))
			io.WriteString(out, prefixText)
			io.WriteString(out, buf.String())
			fmt.Fprintln(out, "END")
		}
		for _, alt := range s.alternatives(bound) {
			queue = append(queue, alt)
		}
		w.Close()
		if dead {
			// the stuck goroutines are abandoned with their world
			runtime.Gosched()
			time.Sleep(time.Millisecond)
		}
	}
	return explored, len(seen), deadlocks
}
