package main

import (
	"reflect"
	"os"
	"bufio"
	"crypto/ecdsa"
	"fmt"
	"sort"
	"strings"
	"time"

	"github.com/aukilabs/hagall-common/messages/hagallpb"
	"github.com/aukilabs/hagall-common/messages/odalpb"
	"github.com/aukilabs/hagall-common/messages/vikjapb"
	"github.com/aukilabs/hagall-common/ncsclient"
	hwebsocket "github.com/aukilabs/hagall-common/websocket"
	"github.com/aukilabs/hagall/featureflag"
	"github.com/aukilabs/hagall/models"
	"github.com/aukilabs/hagall/modules"
	"github.com/aukilabs/hagall/modules/dagaz"
	"github.com/aukilabs/hagall/modules/odal"
	"github.com/aukilabs/hagall/modules/vikja"
	hws "github.com/aukilabs/hagall/websocket"
	"google.golang.org/protobuf/types/known/timestamppb"

	"verifharness/internal/wire"
)

type testDiscovery struct{}

func (testDiscovery) ServerID() string { return "ted" }

// Config of one history.
type Config struct {
	Flags      []string
	Mods       string // subset of "vod" in that order, '-' for absent, e.g. "v-d"
	ReceiptCap int
}

func (c Config) Header(idx int, seed int64) string {
	fl := "-"
	if len(c.Flags) > 0 {
		fl = strings.Join(c.Flags, ",")
	}
	return fmt.Sprintf("HIST %d seed=%d flags=%s mods=%s rcap=%d", idx, seed, fl, c.Mods, c.ReceiptCap)
}

type connState struct {
	v     *hws.VerifConn
	rh    *hws.RealtimeHandler
	alive bool // still driven by the harness
	ghost bool // panicked: never disconnected, still drained
}

// World is one server instance (one SessionStore) with its connections.
type World struct {
	cfg       Config
	store     *models.SessionStore
	rchan     chan ncsclient.ReceiptPayload
	key       *ecdsa.PrivateKey
	conns     map[int]*connState
	order     []int
	canon     *wire.Canon
	byNanos   map[int]*wire.Req
	nanos     int
	out       *bufio.Writer
	noGhost   bool
	gaugeBaseByKey map[string]float64
	gaugeBase float64
	// events as executed (for replay files); RLog is the replayable form (clock-derived ping ids as @k references)
	Log  []string
	RLog []string
	rnext string
	// knowledge for the generator, learned from deliveries only
	know *Knowledge
}

func sessionGauge() float64 { return models.VerifSessionGauge() }

func NewWorld(cfg Config, key *ecdsa.PrivateKey, out *bufio.Writer) *World {
	w := &World{cfg: cfg, key: key, out: out, conns: map[int]*connState{}, byNanos: map[int]*wire.Req{}}
	w.store = &models.SessionStore{DiscoveryService: testDiscovery{}}
	w.rchan = make(chan ncsclient.ReceiptPayload, cfg.ReceiptCap)
	rev := map[string]uint32{}
	for i := uint32(0); i < 4096; i++ {
		rev[w.store.GlobalSessionID(i)] = i
	}
	w.canon = wire.NewCanon(func(s string) (uint32, bool) { v, ok := rev[s]; return v, ok })
	w.gaugeBase = sessionGauge()
	w.gaugeBaseByKey = models.VerifSessionGaugeByKey()
	w.know = newKnowledge()
	return w
}

func (w *World) newHandler() *hws.RealtimeHandler {
	var mods []modules.Module
	if strings.Contains(w.cfg.Mods, "v") {
		mods = append(mods, &vikja.Module{})
	}
	if strings.Contains(w.cfg.Mods, "o") {
		mods = append(mods, &odal.Module{})
	}
	if strings.Contains(w.cfg.Mods, "d") {
		mods = append(mods, &dagaz.Module{})
	}
	return &hws.RealtimeHandler{
		ClientSyncClockInterval: time.Hour,
		ClientIdleTimeout:       time.Hour,
		FrameDuration:           time.Hour,
		Sessions:                w.store,
		Modules:                 mods,
		FeatureFlags:            featureflag.New(w.cfg.Flags),
		ReceiptChan:             w.rchan,
		PrivateKey:              w.key,
	}
}

// stuckAfter is how long one sequential event may take before the harness gives up on it: a handler that does not return
// (a lock that is never released, a channel nobody reads) is an outcome, not a hang of the check.
var stuckAfter = 10 * time.Second

// guard runs f; if it does not return in time, the event is logged as stuck and the process exits with status 3.
func (w *World) guard(event string, f func()) {
	done := make(chan struct{})
	go func() {
		select {
		case <-done:
		case <-time.After(stuckAfter):
			// the goroutine running f is blocked: nobody else writes to w.out
			if event != "" {
				w.logEvent(event)
			}
			w.emit("O stuck")
			w.emit("END")
			w.out.Flush()
			os.Exit(3)
		}
	}()
	f()
	close(done)
}

func (w *World) emit(format string, a ...any) {
	fmt.Fprintf(w.out, format+"\n", a...)
}

// collect drains every connection and prints the deliveries of the event just executed.
func (w *World) collect() {
	ids := append([]int(nil), w.order...)
	sort.Ints(ids)
	for _, c := range ids {
		cs := w.conns[c]
		if cs == nil {
			continue
		}
		for _, m := range cs.v.Drain() {
			tok := w.canon.OutTokens(m)
			// every message carries the server's time: without it the receive function of the common library (what the
			// clients are built on) refuses the message
			if m.Time.Unix() == 0 {
				w.canon.Extra = append(w.canon.Extra, fmt.Sprintf("notimestamp %d %s", c, strings.Fields(tok)[0]))
			}
			w.emit("D %d %s", c, tok)
			w.know.observe(c, tok)
		}
	}
}

func (w *World) state() {
	ids := w.store.VerifSessionIDs()
	nums := make([]int, 0, len(ids))
	for _, g := range ids {
		if n, ok := w.canon.SidOf(g); ok {
			nums = append(nums, int(n))
		} else {
			nums = append(nums, -1)
		}
	}
	sort.Ints(nums)
	strs := make([]string, len(nums))
	for i, n := range nums {
		strs[i] = fmt.Sprint(n)
	}
	// per application: the gauge of each app key counts the registered sessions created under it
	want := map[string]int{}
	for _, g := range ids {
		if sess, ok := w.store.GetByGlobalID(g); ok {
			want[sess.AppKey]++
		}
	}
	got := models.VerifSessionGaugeByKey()
	var off []string
	keys := map[string]bool{}
	for k := range want {
		keys[k] = true
	}
	for k := range got {
		keys[k] = true
	}
	for k := range keys {
		if have := int(got[k] - w.gaugeBaseByKey[k]); have != want[k] {
			off = append(off, fmt.Sprintf("%q:gauge=%d,sessions=%d", k, have, want[k]))
		}
	}
	if len(off) > 0 {
		sort.Strings(off)
		w.emit("X gaugekeys %s", strings.Join(off, ";"))
	}
	// every member of a session works on the session's module states: a connection whose module holds a state of its
	// own (two participants initialising the module of one session at the same time) lives in a session of its own
	for _, c := range w.order {
		cs := w.conns[c]
		if cs == nil || !cs.alive {
			continue
		}
		cur := cs.rh.VerifCurrentSession()
		if cur == nil {
			continue
		}
		for _, m := range cs.rh.Modules {
			f := reflect.ValueOf(m)
			if f.Kind() != reflect.Pointer || f.Elem().Kind() != reflect.Struct {
				continue
			}
			f = f.Elem().FieldByName("state")
			if !f.IsValid() || f.Kind() != reflect.Pointer || f.IsNil() {
				continue
			}
			st, ok := cur.ModuleState(m.Name())
			if !ok || reflect.ValueOf(st).Kind() != reflect.Pointer || reflect.ValueOf(st).Pointer() != f.Pointer() {
				w.emit("X splitstate %d %s", c, m.Name())
			}
		}
	}
	w.emit("S [%d %s g=%d", len(nums), strings.Join(strs, " "), int(sessionGauge()-w.gaugeBase))
	w.ghost(ids)
}

// ghost prints, for every registered session, the state the server holds: what a newcomer would be handed at this very
// moment (built the way HandleParticipantJoin and the modules build it) and what no message shows - id counters,
// component types, subscriptions.  `G <sid> <message tokens>` / `G <sid> reg pc ec tc ac subs types`
func (w *World) ghost(gids []string) {
	if w.noGhost {
		return
	}
	sorted := append([]string(nil), gids...)
	sort.Strings(sorted)
	for _, g := range sorted {
		sess, ok := w.store.GetByGlobalID(g)
		n, known := w.canon.SidOf(g)
		if !ok || !known {
			continue
		}
		put := func(pm hwebsocket.ProtoMsg) {
			if m, err := hwebsocket.MsgFromProto(pm); err == nil {
				w.emit("G %d %s", n, w.canon.OutTokens(m))
			}
		}
		put(&hagallpb.SessionState{Type: hagallpb.MsgType_MSG_TYPE_SESSION_STATE, Timestamp: timestamppb.Now(),
			Participants: models.ParticipantsToProtobuf(sess.GetParticipants()), Entities: models.EntitiesToProtobuf(sess.Entities()),
			EntityComponents: sess.GetEntityComponents().ListAll()})
		ac := uint32(0)
		if strings.Contains(w.cfg.Mods, "v") {
			var acts []*vikjapb.EntityAction
			if st, ok := sess.ModuleState("vikja"); ok {
				acts = st.(*vikja.State).EntityActions()
			}
			put(&vikjapb.State{Type: vikjapb.MsgType_MSG_TYPE_VIKJA_STATE, Timestamp: timestamppb.Now(), EntityActions: acts})
		}
		if strings.Contains(w.cfg.Mods, "o") {
			var as []*odalpb.AssetInstance
			if st, ok := sess.ModuleState("odal"); ok {
				as = st.(*odal.State).AssetInstances()
				ac = st.(*odal.State).VerifAssetCounter()
			}
			put(&odalpb.State{Type: odalpb.MsgType_MSG_TYPE_ODAL_STATE, Timestamp: timestamppb.Now(), AssetInstances: as})
		}
		pc, ec, tc := sess.VerifCounters()
		var subs, types []string
		for t, ps := range sess.GetEntityComponents().VerifSubscriptions() {
			for _, p := range ps {
				subs = append(subs, fmt.Sprintf("%d:%d", t, p))
			}
		}
		for t, name := range sess.GetEntityComponents().VerifTypes() {
			types = append(types, fmt.Sprintf("%d:x%x", t, name))
		}
		sort.Strings(subs)
		sort.Strings(types)
		join := func(l []string) string {
			if len(l) == 0 {
				return "-"
			}
			return strings.Join(l, ",")
		}
		w.emit("G %d reg %d %d %d %d %s %s", n, pc, ec, tc, ac, join(subs), join(types))
	}
}

func (w *World) finishEvent(outcome string) {
	w.collect()
	for _, x := range w.canon.Extra {
		w.emit("X %s", x)
	}
	w.canon.Extra = nil
	w.state()
	w.emit("O %s", outcome)
}

func (w *World) logEvent(line string) {
	w.Log = append(w.Log, line)
	if w.rnext != "" {
		w.RLog = append(w.RLog, w.rnext)
		w.rnext = ""
	} else {
		w.RLog = append(w.RLog, line)
	}
	w.emit("E %s", line)
}

func (w *World) Connect(c int) {
	w.logEvent(fmt.Sprintf("connect %d", c))
	if _, ok := w.conns[c]; !ok {
		rh := w.newHandler()
		// the clients come from different applications (the session gauge is kept per application)
		rh.VerifSetAppKey([]string{"", "app-a", "app-b"}[c%3])
		w.conns[c] = &connState{v: hws.NewVerifConn(rh, fmt.Sprintf("client-%d", c)), rh: rh, alive: true}
		w.order = append(w.order, c)
	}
	w.finishEvent("ok")
}

func (w *World) kill(c int, err error) {
	cs := w.conns[c]
	cs.v.Disconnect(err)
	cs.alive = false
	w.know.dead(c)
}

func (w *World) Recv(c int, r *wire.Req) {
	if r.Kind == "pingResp" && r.PingRef > 0 {
		// replayable form first, then the resolved literal id
		w.emit("Q recv %d pingResp @%d", c, r.PingRef)
		w.rnext = fmt.Sprintf("recv %d pingResp @%d", c, r.PingRef)
		if ps := w.know.pings[c]; r.PingRef <= len(ps) {
			r.Rid = ps[r.PingRef-1]
		} else {
			r.Rid = 4000000000 + uint32(r.PingRef) // never issued
		}
	}
	w.logEvent(fmt.Sprintf("recv %d %s", c, r.Tokens()))
	cs := w.conns[c]
	if cs == nil || !cs.alive {
		w.finishEvent("ok")
		return
	}
	w.nanos++
	ts := &timestamppb.Timestamp{Seconds: int64(r.Ots), Nanos: int32(w.nanos)}
	w.byNanos[w.nanos] = r
	pm, err := r.Proto(w.store.GlobalSessionID, ts)
	if err != nil {
		panic(err)
	}
	msg, err := hwebsocket.MsgFromProto(pm)
	if err != nil {
		panic(err)
	}
	if err := cs.v.Dispatch(msg); err != nil {
		w.kill(c, err)
		w.finishEvent("connerr")
		return
	}
	w.finishEvent("ok")
}

func panicSite(stack string) string {
	// first hagall frame below the panic
	lines := strings.Split(stack, "\n")
	for _, l := range lines {
		if strings.HasPrefix(l, "github.com/aukilabs/hagall/") && !strings.Contains(l, "VerifConn") {
			l = strings.TrimPrefix(l, "github.com/aukilabs/hagall/")
			if i := strings.LastIndex(l, "("); i > 0 {
				l = l[:i]
			}
			return strings.ReplaceAll(l, " ", "")
		}
	}
	return "unknown"
}

// Handle consumes one queued message on connection c.
func (w *World) Handle(c int) (handled bool) {
	cs := w.conns[c]
	if cs == nil || !cs.alive {
		w.logEvent(fmt.Sprintf("handle %d 0 none", c))
		w.finishEvent("ok")
		return false
	}
	w.canon.LastSid, w.canon.LastPing = 0, 0
	var msg hwebsocket.Msg
	var ok bool
	var err error
	var panicked string
	w.guard(fmt.Sprintf("handle %d 0 none", c), func() { msg, ok, err, panicked = cs.v.HandleNext() })
	if !ok {
		w.logEvent(fmt.Sprintf("handle %d 0 none", c))
		w.finishEvent("ok")
		return false
	}
	r := w.byNanos[msg.Time.Nanosecond()]
	if r == nil {
		panic("consumed a message the harness did not send")
	}
	outcome := "ok"
	switch {
	case panicked != "":
		outcome = "panic " + panicSite(panicked)
		cs.alive, cs.ghost = false, true
		w.know.dead(c)
	case err != nil:
		outcome = "connerr"
		w.guard(fmt.Sprintf("handle %d 0 none", c), func() { w.kill(c, err) })
	}
	// drain first so that the hint (session id created / ping id issued) is known
	var lines []string
	ids := append([]int(nil), w.order...)
	sort.Ints(ids)
	for _, k := range ids {
		for _, m := range w.conns[k].v.Drain() {
			tok := w.canon.OutTokens(m)
			if m.Time.Unix() == 0 {
				w.canon.Extra = append(w.canon.Extra, fmt.Sprintf("notimestamp %d %s", k, strings.Fields(tok)[0]))
			}
			lines = append(lines, fmt.Sprintf("D %d %s", k, tok))
			w.know.observe(k, tok)
		}
	}
	hint := uint32(0)
	if w.canon.LastSid != 0 {
		hint = w.canon.LastSid
	} else if w.canon.LastPing != 0 {
		hint = w.canon.LastPing
	}
	w.logEvent(fmt.Sprintf("handle %d %d %s", c, hint, r.Tokens()))
	for _, l := range lines {
		w.emit("%s", l)
	}
	w.finishEvent(outcome)
	return true
}

func (w *World) Tick(sid int) {
	w.logEvent(fmt.Sprintf("tick %d", sid))
	if s, ok := w.store.GetByGlobalID(w.store.GlobalSessionID(uint32(sid))); ok {
		w.guard("", func() { s.VerifTick() })
	}
	// the session only signals the frame; every connection's own frame goroutine hands its updates over
	ids := append([]int(nil), w.order...)
	sort.Ints(ids)
	for _, c := range ids {
		if cs := w.conns[c]; cs != nil {
			if cs.v.PumpFrame() {
				// which connections this session's frame reached: they must be its members, all of them
				w.canon.Extra = append(w.canon.Extra, fmt.Sprintf("pumped %d", c))
			}
		}
	}
	w.finishEvent("ok")
}

func (w *World) Disconnect(c int) {
	w.logEvent(fmt.Sprintf("disconnect %d", c))
	if cs := w.conns[c]; cs != nil && cs.alive {
		w.guard("", func() { w.kill(c, nil) })
	}
	w.finishEvent("ok")
}

func (w *World) DrainReceipts() {
	w.logEvent("drain")
	for {
		select {
		case p := <-w.rchan:
			w.emit("X receipt %x %x %x", p.Receipt, p.Hash, p.Signature)
			continue
		default:
		}
		break
	}
	w.finishEvent("ok")
}

// Close ends every connection so that sessions (and their frame workers) are released.
func (w *World) Close() {
	for _, c := range w.order {
		if cs := w.conns[c]; cs.alive {
			cs.v.Disconnect(nil)
			cs.alive = false
		}
	}
}
