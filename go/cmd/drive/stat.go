package main

import (
	"bufio"
	"crypto/ecdsa"
	"fmt"
	"math/rand"
	"strings"
	"time"

	"github.com/aukilabs/hagall-common/messages/hagallpb"
	hwebsocket "github.com/aukilabs/hagall-common/websocket"
	"github.com/aukilabs/hagall/models"
	"github.com/ethereum/go-ethereum/common/hexutil"
	"github.com/ethereum/go-ethereum/crypto"
	"google.golang.org/protobuf/proto"
)

type captureSender struct{ msgs []hwebsocket.ProtoMsg }

func (c *captureSender) Send(m hwebsocket.ProtoMsg) { c.msgs = append(c.msgs, m) }
func (c *captureSender) SendMsg(hwebsocket.Msg)     {}

// statCase runs one complete measurement on the real models.SignedLatency with chosen round latencies
// (microseconds) and prints `STAT n l_1 .. l_{n-1} L_final | min max mean p95 last sig`.
// statCaseWrap runs one short measurement across a wrap of the 32-bit nanosecond clock the ping ids are taken from (one
// every 4.29 s): the ids of the later rounds are then numerically smaller than those of the earlier ones.
func statCaseWrap(rnd *rand.Rand, key *ecdsa.PrivateKey, out *bufio.Writer) {
	// start within 25 ms before the wrap (a late wake-up on a loaded machine only costs one more turn of the clock, and
	// at most three are tried) and let the rounds take 10 ms each: at least 30 ms, so the measurement straddles the wrap
	for try := 0; try < 3; try++ {
		left := time.Duration(0xFFFFFFFF-uint32(time.Now().UnixNano())) * time.Nanosecond
		if left > 25*time.Millisecond {
			time.Sleep(left - 15*time.Millisecond)
		}
		if time.Duration(0xFFFFFFFF-uint32(time.Now().UnixNano()))*time.Nanosecond <= 25*time.Millisecond {
			break
		}
	}
	statCaseN(rnd, key, out, 3+rnd.Intn(3), 10*time.Millisecond)
}

func statCaseLong(rnd *rand.Rand, key *ecdsa.PrivateKey, out *bufio.Writer) {
	statCaseN(rnd, key, out, 3+rnd.Intn(2), 1500*time.Millisecond)
}

func statCase(rnd *rand.Rand, key *ecdsa.PrivateKey, out *bufio.Writer) {
	statCaseN(rnd, key, out, 3+rnd.Intn(48), 0)
}

func statCaseN(rnd *rand.Rand, key *ecdsa.PrivateKey, out *bufio.Writer, n int, pause time.Duration) {
	sl := &models.SignedLatency{}
	snd := &captureSender{}
	sl.Start(key, snd, 7, uint32(n), "uuid-1", "client-1", "0xabc")
	base := time.Unix(1_700_000_000, 0)
	// up to 16 s a round (a float32 holds the microseconds of one round exactly up to 2^24 = 16.7 s; the sum of a few
	// such rounds is past that)
	pool := []int64{0, 0, 1, 2, 5, 999, 1000, 1001, 12000, 250000, 1_000_000, 5_600_001, 8_000_003, 16_000_001, 16_000_001}
	var lats []int64
	var finalL int64
	for round := 0; round < n; round++ {
		if pause > 0 {
			time.Sleep(pause)
		}
		last := snd.msgs[len(snd.msgs)-1].(*hagallpb.Response)
		id := last.RequestId
		var L int64
		switch rnd.Intn(3) {
		case 0:
			L = pool[rnd.Intn(len(pool))]
		case 1:
			L = int64(rnd.Intn(3000))
		default:
			L = int64(rnd.Intn(500)) * 1000
		}
		if round < n-1 {
			if err := sl.OnPing(id); err != nil {
				fmt.Fprintf(out, "STATERR onping %v\n", err)
				return
			}
			sl.PingRequests[id] = models.LatencyMetricsData{Start: base, End: base.Add(time.Duration(L) * time.Microsecond)}
			lats = append(lats, L)
		} else {
			// the final round's end time is taken by OnPing itself: make it a multiple of 10 ms
			L = int64(1+rnd.Intn(40)) * 10000
			finalL = L
			sl.PingRequests[id] = models.LatencyMetricsData{Start: time.Now().Add(-time.Duration(L) * time.Microsecond)}
			if err := sl.OnPing(id); err != nil {
				fmt.Fprintf(out, "STATERR onping-final %v\n", err)
				return
			}
		}
	}
	resp, ok := snd.msgs[len(snd.msgs)-1].(*hagallpb.SignedLatencyResponse)
	if !ok {
		fmt.Fprintf(out, "STATERR no-response after %d rounds\n", n)
		return
	}
	var d hagallpb.LatencyData
	if err := proto.Unmarshal(resp.Data, &d); err != nil {
		fmt.Fprintf(out, "STATERR baddata\n")
		return
	}
	sig := "bad"
	if raw, err := hexutil.Decode(resp.Signature); err == nil {
		if pub, err := crypto.SigToPub(crypto.Keccak256Hash(resp.Data).Bytes(), raw); err == nil &&
			crypto.PubkeyToAddress(*pub) == crypto.PubkeyToAddress(key.PublicKey) {
			sig = "ok"
		}
	}
	var sb strings.Builder
	for _, l := range lats {
		fmt.Fprintf(&sb, " %d", l)
	}
	fmt.Fprintf(out, "STAT %d%s %d | %d %d %d %d %d %s count=%d ids=%d\n", n, sb.String(), finalL,
		int64(d.Min), int64(d.Max), int64(d.Mean), int64(d.P95), int64(d.Last), sig, d.IterationCount, len(d.PingRequestIds))
}
