// drive: the L1 synchronous harness. It runs the real RealtimeHandler, modules and scheduler for
// several connections over one SessionStore, either on generated histories (gen) or on the events
// of a recorded history (replay), and writes the trace (events, deliveries, outcomes) the Lean
// driver replays through the model.
package main

import (
	"crypto/ecdsa"
	"io"
	"bufio"
	"flag"
	"fmt"
	"math/rand"
	"os"
	"strconv"
	"strings"

	"github.com/aukilabs/go-tooling/pkg/logs"
	"github.com/ethereum/go-ethereum/crypto"

	"verifharness/internal/wire"
)

var allFlags = []string{
	"DISABLE_SESSION_STATE", "DISABLE_PARTICIPANT_JOIN_BROADCAST", "DISABLE_PARTICIPANT_LEAVE_BROADCAST",
	"DISABLE_ENTITY_ADD_BROADCAST", "DISABLE_ENTITY_DELETE_BROADCAST", "DISABLE_ENTITY_UPDATE_POSE_BROADCAST",
	"DISABLE_CUSTOM_MESSAGE_BROADCAST", "DISABLE_ENTITY_COMPONENT_ADD_BROADCAST",
	"DISABLE_ENTITY_COMPONENT_UPDATE_BROADCAST", "DISABLE_ENTITY_COMPONENT_DELETE_BROADCAST",
}

func randomFlags(rnd *rand.Rand) []string {
	var out []string
	switch rnd.Intn(3) {
	case 0:
		return nil
	case 1:
		for _, f := range allFlags {
			if rnd.Intn(6) == 0 {
				out = append(out, f)
			}
		}
	default:
		for _, f := range allFlags {
			if rnd.Intn(2) == 0 {
				out = append(out, f)
			}
		}
		if rnd.Intn(3) == 0 {
			out = append(out, "DISABLE_NOTHING_KNOWN")
		}
	}
	// names the server does not know - an empty one (a doubled or trailing separator in the configuration), a misspelt
	// one, another case - anywhere in the list: they must change nothing
	for _, junk := range []string{"", "DISABLE_NOTHING_KNOWN", "disable_session_state", "DISABLE_SESSION_STATE_"} {
		if rnd.Intn(5) == 0 {
			at := rnd.Intn(len(out) + 1)
			out = append(out[:at], append([]string{junk}, out[at:]...)...)
		}
	}
	return out
}

func randomMods(rnd *rand.Rand) string {
	if rnd.Intn(2) == 0 {
		return "vod"
	}
	m := []byte("vod")
	for i := range m {
		if rnd.Intn(3) == 0 {
			m[i] = '-'
		}
	}
	return string(m)
}

func main() {
	logs.SetLogger(func(logs.Entry) {})
	if len(os.Args) < 2 {
		fmt.Fprintln(os.Stderr, "usage: drive gen|replay [flags]")
		os.Exit(2)
	}
	key, err := crypto.HexToECDSA("4c0883a69102937d6231471b5dbb6204fe5129617082792ae468d01a3f362318")
	testKey = key
	if err != nil {
		panic(err)
	}
	switch os.Args[1] {
	case "gen":
		fs := flag.NewFlagSet("gen", flag.ExitOnError)
		seed := fs.Int64("seed", 1, "PRNG seed")
		n := fs.Int("n", 10, "number of histories")
		steps := fs.Int("steps", 80, "events per history (approx)")
		prof := fs.String("profile", "mixed", "generator profile (or 'rotate')")
		flagsOpt := fs.String("flags", "random", "'random', '-' or comma list")
		mods := fs.String("mods", "random", "'random' or subset of vod with - for absent")
		rcap := fs.Int("rcap", 128, "receipt channel capacity (cmd/main.go)")
		maxConn := fs.Int("conns", 6, "max connections")
		outPath := fs.String("out", "-", "trace output")
		fs.Parse(os.Args[2:])
		out := bufio.NewWriterSize(os.Stdout, 1<<20)
		if *outPath != "-" {
			f, err := os.Create(*outPath)
			if err != nil {
				panic(err)
			}
			defer f.Close()
			out = bufio.NewWriterSize(f, 1<<20)
		}
		defer out.Flush()
		profNames := []string{"mixed", "pose", "comp", "custom", "join", "module", "latency", "malformed"}
		for i := 0; i < *n; i++ {
			hseed := *seed*1_000_003 + int64(i)
			rnd := rand.New(rand.NewSource(hseed))
			cfg := Config{ReceiptCap: *rcap}
			switch *flagsOpt {
			case "random":
				cfg.Flags = randomFlags(rnd)
			case "-", "":
			default:
				cfg.Flags = strings.Split(*flagsOpt, ",")
			}
			if *mods == "random" {
				cfg.Mods = randomMods(rnd)
			} else {
				cfg.Mods = *mods
			}
			p := *prof
			if p == "rotate" {
				p = profNames[i%len(profNames)]
			}
			if p == "malformed" && rnd.Intn(2) == 0 {
				cfg.ReceiptCap = 2
			}
			w := NewWorld(cfg, key, out)
			fmt.Fprintln(out, cfg.Header(i, hseed)+" profile="+p)
			g := NewGen(rnd, w, p, 2+rnd.Intn(*maxConn-1))
			g.Run(*steps)
			fmt.Fprintln(out, "END")
			w.Close()
		}
	case "conc":
		// histories that end in a block of 2-3 requests handled concurrently, every interleaving at lock granularity
		// (bounded preemptions) explored by re-execution; one history is written per distinct outcome
		fs := flag.NewFlagSet("conc", flag.ExitOnError)
		seed := fs.Int64("seed", 1, "PRNG seed")
		n := fs.Int("n", 10, "number of base histories")
		steps := fs.Int("steps", 40, "events of the sequential prefix (approx)")
		prof := fs.String("profile", "rotate", "generator profile")
		bound := fs.Int("preemptions", 2, "preemption bound")
		maxRuns := fs.Int("max", 400, "interleavings per block at most")
		fs.Parse(os.Args[2:])
		out := bufio.NewWriterSize(os.Stdout, 1<<20)
		defer out.Flush()
		profNames := []string{"mixed", "join", "comp", "module", "pose"}
		totalExplored, totalDistinct, totalDead := 0, 0, 0
		for i := 0; i < *n; i++ {
			hseed := *seed*1_000_003 + int64(i)
			rnd := rand.New(rand.NewSource(hseed))
			cfg := Config{ReceiptCap: 128, Mods: "vod"}
			p := *prof
			if p == "rotate" {
				p = profNames[i%len(profNames)]
			}
			// pilot run: the sequential prefix and the concurrent requests
			pilot := NewWorld(cfg, key, bufio.NewWriter(io.Discard))
			g := NewGen(rnd, pilot, p, 3+rnd.Intn(3))
			g.RunPrefix(*steps)
			conns := g.pickConcurrent(2 + rnd.Intn(2))
			if len(conns) < 2 {
				pilot.Close()
				continue
			}
			prefix := append([]string(nil), pilot.RLog...)
			// static probe after the block: a fresh connection joins every session that may exist and lists components
			var post []string
			sids := sortedKeys(pilot.know.sids)
			extra := 0
			if len(sids) > 0 {
				extra = sids[len(sids)-1]
			}
			for k := 1; k <= 3; k++ {
				sids = append(sids, extra+k)
			}
			pc := 90
			// a frame of every session right after the block: it must reach exactly the members' connections
			for _, sid := range sortedKeys(pilot.know.sids) {
				post = append(post, fmt.Sprintf("tick %d", sid))
			}
			if len(pilot.know.sids) == 0 {
				post = append(post, "tick 1")
			}
			for _, c := range conns {
				if c > 0 {
					post = append(post, fmt.Sprintf("handle %d", c), fmt.Sprintf("handle %d", c))
				}
			}
			for _, sid := range sids {
				pc++
				post = append(post, fmt.Sprintf("connect %d", pc),
					fmt.Sprintf("recv %d join %d %d id %d", pc, 9000+pc, 9000+pc, sid), fmt.Sprintf("handle %d", pc))
				for t := 1; t <= 4; t++ {
					post = append(post, fmt.Sprintf("recv %d compList %d %d", pc, 9100+pc*10+t, t), fmt.Sprintf("handle %d", pc))
				}
				post = append(post, fmt.Sprintf("disconnect %d", pc))
			}
			pilot.Close()
			header := cfg.Header(i, hseed) + " profile=" + p
			e, d, dl := exploreConc(cfg, header, prefix, conns, post, *bound, *maxRuns, out)
			totalExplored += e
			totalDistinct += d
			totalDead += dl
		}
		fmt.Fprintf(out, "CSTAT explored=%d distinct=%d deadlocks=%d\n", totalExplored, totalDistinct, totalDead)
	case "stat":
		fs := flag.NewFlagSet("stat", flag.ExitOnError)
		seed := fs.Int64("seed", 1, "PRNG seed")
		n := fs.Int("n", 200, "number of measurements")
		fs.Parse(os.Args[2:])
		out := bufio.NewWriterSize(os.Stdout, 1<<20)
		defer out.Flush()
		rnd := rand.New(rand.NewSource(*seed))
		for i := 0; i < *n; i++ {
			statCase(rnd, key, out)
		}
		for i := 0; i < 1+*n/300; i++ {
			statCaseWrap(rnd, key, out)
		}
		for i := 0; i < 1+*n/3000; i++ {
			statCaseLong(rnd, key, out)
		}
	case "explore":
		// explore -in <history>: the history's `E conc` line (its schedule, if any, is ignored) is executed under every
		// lock-granularity interleaving within the preemption bound; one history is written per distinct outcome
		fs := flag.NewFlagSet("explore", flag.ExitOnError)
		in := fs.String("in", "", "history file (HIST header + E lines, one of them E conc ...)")
		bound := fs.Int("preemptions", 2, "preemption bound")
		maxRuns := fs.Int("max", 4000, "interleavings at most")
		fs.Parse(os.Args[2:])
		data, err := os.ReadFile(*in)
		if err != nil {
			panic(err)
		}
		out := bufio.NewWriterSize(os.Stdout, 1<<20)
		defer out.Flush()
		cfg := Config{ReceiptCap: 128, Mods: "vod"}
		header := ""
		var prefix, post []string
		var conns []int
		seenConc := false
		for _, line := range strings.Split(string(data), "\n") {
			fields := strings.Fields(strings.TrimSpace(line))
			if len(fields) == 0 {
				continue
			}
			switch fields[0] {
			case "HIST":
				header = strings.Join(fields, " ")
				for _, kv := range fields[2:] {
					k, v, _ := strings.Cut(kv, "=")
					switch k {
					case "flags":
						if v != "-" {
							cfg.Flags = strings.Split(v, ",")
						}
					case "mods":
						cfg.Mods = v
					case "rcap":
						cfg.ReceiptCap, _ = strconv.Atoi(v)
					}
				}
			case "E":
				ev := strings.Join(fields[1:], " ")
				switch {
				case fields[1] == "conc" && !seenConc:
					seenConc = true
					for i, part := range strings.Split(ev, " | ") {
						if i > 0 {
							pf := strings.Fields(part)
							c, _ := strconv.Atoi(pf[0])
							if len(pf) > 1 && pf[1] == "hangup" {
								c = -c
							}
							conns = append(conns, c)
						}
					}
				case seenConc:
					post = append(post, ev)
				default:
					prefix = append(prefix, ev)
				}
			}
		}
		if !seenConc {
			panic("no E conc line in " + *in)
		}
		e, d, dl := exploreConc(cfg, header, prefix, conns, post, *bound, *maxRuns, out)
		out.Flush()
		fmt.Printf("CSTAT explored=%d distinct=%d deadlocks=%d\n", e, d, dl)
	case "replay":
		fs := flag.NewFlagSet("replay", flag.ExitOnError)
		in := fs.String("in", "", "history file (HIST header + E lines; other lines ignored)")
		fs.Parse(os.Args[2:])
		f, err := os.Open(*in)
		if err != nil {
			panic(err)
		}
		defer f.Close()
		out := bufio.NewWriterSize(os.Stdout, 1<<20)
		defer out.Flush()
		var w *World
		sc := bufio.NewScanner(f)
		sc.Buffer(make([]byte, 1<<20), 1<<26)
		for sc.Scan() {
			line := strings.TrimSpace(sc.Text())
			fields := strings.Fields(line)
			if len(fields) == 0 {
				continue
			}
			switch fields[0] {
			case "HIST":
				if w != nil {
					fmt.Fprintln(out, "END")
					w.Close()
				}
				cfg := Config{ReceiptCap: 128, Mods: "vod"}
				for _, kv := range fields[2:] {
					k, v, _ := strings.Cut(kv, "=")
					switch k {
					case "flags":
						if v != "-" {
							cfg.Flags = strings.Split(v, ",")
						}
					case "mods":
						cfg.Mods = v
					case "rcap":
						cfg.ReceiptCap, _ = strconv.Atoi(v)
					}
				}
				w = NewWorld(cfg, key, out)
				fmt.Fprintln(out, line)
			case "E":
				if w == nil {
					panic("E line before HIST")
				}
				execEvent(w, fields[1:])
			}
		}
		if w != nil {
			fmt.Fprintln(out, "END")
			w.Close()
		}
	default:
		fmt.Fprintln(os.Stderr, "unknown mode", os.Args[1])
		os.Exit(2)
	}
}

var testKey *ecdsa.PrivateKey

func execEvent(w *World, f []string) {
	num := func(i int) int { n, _ := strconv.Atoi(f[i]); return n }
	switch f[0] {
	case "connect":
		w.Connect(num(1))
	case "recv":
		r, err := wire.ParseReq(f[2:])
		if err != nil {
			panic(fmt.Sprintf("bad request %v: %v", f, err))
		}
		w.Recv(num(1), r)
	case "handle":
		w.Handle(num(1))
	case "tick":
		w.Tick(num(1))
	case "disconnect":
		w.Disconnect(num(1))
	case "drain":
		w.DrainReceipts()
	case "conc":
		// conc <n> sched=<digits> | <conn> <request> | ...
		var conns []int
		var forced []int
		for i, part := range strings.Split(strings.Join(f[1:], " "), " | ") {
			pf := strings.Fields(part)
			if i == 0 {
				for _, ch := range strings.TrimPrefix(pf[1], "sched=") {
					forced = append(forced, int(ch-'0'))
				}
				continue
			}
			c, _ := strconv.Atoi(pf[0])
			if len(pf) > 1 && pf[1] == "hangup" {
				c = -c
			}
			conns = append(conns, c)
		}
		w.Conc(conns, forced)
	default:
		panic("unknown event " + f[0])
	}
}
