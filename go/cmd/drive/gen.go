package main

import (
	"math/rand"
	"strconv"
	"strings"

	"github.com/ethereum/go-ethereum/crypto"

	"verifharness/internal/wire"
)

// Knowledge is what the generator has learned from the messages the server sent: which connection
// is in which session under which participant id, and the largest ids seen per session.
type Knowledge struct {
	joined map[int][2]int // conn -> (sid, pid)
	maxEid map[int]int
	maxTid map[int]int
	maxPid map[int]int
	pings  map[int][]uint32 // conn -> ping ids the server issued
	sids   map[int]bool
	isDead map[int]bool
	owner  map[int]map[int]int // sid -> entity id -> connection that added it
}

func newKnowledge() *Knowledge {
	return &Knowledge{joined: map[int][2]int{}, maxEid: map[int]int{}, maxTid: map[int]int{}, maxPid: map[int]int{},
		pings: map[int][]uint32{}, sids: map[int]bool{}, isDead: map[int]bool{}, owner: map[int]map[int]int{}}
}

func atoi(s string) int { n, _ := strconv.Atoi(s); return n }

func (k *Knowledge) dead(c int) {
	delete(k.joined, c)
	k.isDead[c] = true
}

func (k *Knowledge) observe(c int, tok string) {
	f := strings.Fields(tok)
	switch f[0] {
	case "joinResp":
		if len(f) == 5 {
			sid, pid := atoi(f[2]), atoi(f[4])
			k.joined[c] = [2]int{sid, pid}
			k.sids[sid] = true
			if pid > k.maxPid[sid] {
				k.maxPid[sid] = pid
			}
		}
	case "error":
		// a refused join from a joined connection has left its session: forget (re-learned on success)
	case "entityAddResp":
		if j, ok := k.joined[c]; ok {
			if e := atoi(f[2]); e > k.maxEid[j[0]] {
				k.maxEid[j[0]] = e
			}
			if k.owner[j[0]] == nil {
				k.owner[j[0]] = map[int]int{}
			}
			k.owner[j[0]][atoi(f[2])] = c
		}
	case "typeAddResp":
		if j, ok := k.joined[c]; ok {
			if e := atoi(f[2]); e > k.maxTid[j[0]] {
				k.maxTid[j[0]] = e
			}
		}
	case "pingReq":
		k.pings[c] = append(k.pings[c], uint32(atoi(f[1])))
	}
}

// Profile: relative weights of request kinds; the generator multiplies the base weights.
type Profile map[string]float64

var baseWeights = map[string]float64{
	"ping": 1, "pingResp": 1.5, "signedLatency": 1, "join": 5, "entityAdd": 7, "entityDelete": 3, "updatePose": 7,
	"custom": 4, "typeAdd": 3, "typeGetName": 1, "typeGetId": 1, "compAdd": 4, "compDelete": 2, "compUpdate": 4,
	"compList": 1.5, "subscribe": 3, "unsubscribe": 1.5, "receipt": 0.7, "action": 4, "assetAdd": 3,
	"quadSample": 1, "groundPlane": 0.5, "region": 0.5, "debugInfo": 0.3, "unknown": 0.3,
}

var profiles = map[string]Profile{
	"mixed":  {},
	"pose":   {"updatePose": 4, "entityAdd": 2, "entityDelete": 2, "join": 1.5},
	"comp":   {"compAdd": 3, "compUpdate": 3, "compDelete": 3, "subscribe": 3, "unsubscribe": 3, "typeAdd": 2, "compList": 3, "entityDelete": 2},
	"custom": {"custom": 8},
	// subscriptions of every shape: senders that are subscribed themselves, all but one member subscribed, ...
	"subs": {"subscribe": 8, "unsubscribe": 2, "compUpdate": 8, "compAdd": 5, "compDelete": 2, "typeAdd": 2, "entityAdd": 2, "join": 1.5},
	// a session of more than 64 participants: addressed relays with repeated recipients, departures, arrivals
	"crowd": {"custom": 10, "join": 0.3, "entityAdd": 0.5},
	"join":   {"join": 5, "entityAdd": 1.5},
	// ownership: entities that carry something, and everybody trying to delete, move and furnish everybody's entities
	"owner":  {"entityAdd": 3, "assetAdd": 5, "action": 2, "entityDelete": 6, "updatePose": 3, "join": 2},
	"module": {"action": 4, "assetAdd": 4, "entityDelete": 2, "join": 2, "quadSample": 3, "groundPlane": 3, "region": 3, "debugInfo": 2},
	"latency": {"signedLatency": 8, "pingResp": 14, "ping": 3},
	"malformed": {"unknown": 5, "receipt": 4},
}

type Gen struct {
	lastAct *wire.Action
	crowd   bool
	latency bool
	noProbe bool
	rnd     *rand.Rand
	w       *World
	prof    Profile
	kinds   []string
	cum     []float64
	rid     uint32
	ots     uint32
	nconn   int
	nextCon int
	pending map[int]int // conn -> messages recv'd and not yet handled (upper bound)
}

func NewGen(rnd *rand.Rand, w *World, prof string, nconn int) *Gen {
	g := &Gen{rnd: rnd, w: w, prof: profiles[prof], nconn: nconn, pending: map[int]int{}, ots: 100}
	if prof == "crowd" {
		g.crowd = true
		g.nconn = 65 + rnd.Intn(6)
	}
	g.latency = prof == "latency"
	total := 0.0
	for k := range baseWeights {
		g.kinds = append(g.kinds, k)
	}
	// deterministic order
	sortStrings(g.kinds)
	for _, k := range g.kinds {
		wt := baseWeights[k]
		if m, ok := g.prof[k]; ok {
			wt *= m
		}
		total += wt
		g.cum = append(g.cum, total)
	}
	return g
}

func sortStrings(s []string) {
	for i := 1; i < len(s); i++ {
		for j := i; j > 0 && s[j] < s[j-1]; j-- {
			s[j], s[j-1] = s[j-1], s[j]
		}
	}
}

func (g *Gen) pickKind() string {
	x := g.rnd.Float64() * g.cum[len(g.cum)-1]
	for i, c := range g.cum {
		if x < c {
			return g.kinds[i]
		}
	}
	return g.kinds[len(g.kinds)-1]
}

func (g *Gen) small(max int) uint32 {
	// mostly valid ids (1..max), sometimes 0, max+1 or something far away
	switch x := g.rnd.Intn(20); {
	case x == 0:
		return 0
	case x == 1:
		return uint32(max + 1)
	case x == 2:
		return uint32(max + 1 + g.rnd.Intn(50))
	default:
		if max <= 0 {
			return uint32(g.rnd.Intn(3))
		}
		return uint32(1 + g.rnd.Intn(max))
	}
}

var poses = [][7]float32{
	{1, 2, 3, 0, 0, 0, 1}, {0.5, -0.25, 8, 0, 0.7071068, 0, 0.7071068}, {-3, 0, 1.5, 1, 0, 0, 0},
	{0, 0, 0, 0, 0, 0, 0}, {100.125, 7, -64, 0, 0, 1, 0},
}

func (g *Gen) pose(nilProb float64) *[7]float32 {
	if g.rnd.Float64() < nilProb {
		return nil
	}
	p := poses[g.rnd.Intn(len(poses))]
	p[0] += float32(g.rnd.Intn(64)) * 0.25
	return &p
}

func (g *Gen) bytes() []byte {
	var n int
	switch x := g.rnd.Intn(40); {
	case x == 0:
		n = 10239
	case x == 1:
		n = 10240
	case x == 2:
		n = 10241
	case x == 3:
		n = 20000
	case x < 8:
		n = 0
	default:
		n = 1 + g.rnd.Intn(12)
	}
	b := make([]byte, n)
	g.rnd.Read(b)
	return b
}

func (g *Gen) smallBytes() []byte {
	b := make([]byte, g.rnd.Intn(6))
	g.rnd.Read(b)
	return b
}

var names = []string{"", "a", "b", "pose", "health", "x", "colour", "a ", " a", "mesh v2", "mesh v2 "}

func (g *Gen) name() string { return names[g.rnd.Intn(len(names))] }

// few distinct seconds, so that timestamps of one entity action often differ only in their nanoseconds
// ... 9223371974719179008 is the first second that time.Unix wraps to the distant past (MaxInt64 - 62135596800 + 1)
var secsPool = []int64{0, 1, 5, 5, 5, 5, 5, 10, 10, 10, 10, 100, 1000, 253402300799, -1, -62135596800,
	9223371974719179007, 9223371974719179008, 9223372036854775807, -9223372036854775808, 1790000000, 1790000000}
var nanosPool = []int64{0, 0, 1, 500, 200000000, 800000000, 999999999, -1, 1500000000, 1000000000, -500000000, 2147483647, -2147483648}

func f32(x float64) string { return strconv.FormatFloat(x, 'g', -1, 32) }

func (g *Gen) quad() string {
	cx := float64(g.rnd.Intn(65)-32) * 0.25
	cz := float64(g.rnd.Intn(65)-32) * 0.25
	cy := float64(g.rnd.Intn(5)) * 0.25
	ex := float64(1+g.rnd.Intn(8)) * 0.25
	ez := float64(1+g.rnd.Intn(8)) * 0.25
	return strings.Join([]string{f32(cx), f32(cy), f32(cz), f32(ex), "0", f32(ez), "0"}, ",")
}

// oddFloat: values a grid of metres does not expect
func (g *Gen) oddFloat() string {
	return []string{"NaN", "NaN", "+Inf", "-Inf", "3e38", "-1e30", "1e9", "-5000", "0", "-0", "1e-40", "-2.5"}[g.rnd.Intn(12)]
}

func (g *Gen) validReceipt() (r, h, s []byte) {
	text := make([]byte, 1+g.rnd.Intn(10))
	for i := range text {
		text[i] = byte('a' + g.rnd.Intn(26))
	}
	hash := crypto.Keccak256(text)
	sig, err := crypto.Sign(hash, g.w.key)
	if err != nil {
		panic(err)
	}
	return text, hash, sig
}

// Request builds a random request for connection c.
func (g *Gen) Request(c int) *wire.Req { return g.RequestOf(c, "") }

// RequestOf builds a request of the given kind ("" = by the profile's weights) for connection c.
func (g *Gen) RequestOf(c int, forceKind string) *wire.Req {
	k := g.w.know
	sid := -1
	pid := 0
	if j, ok := k.joined[c]; ok {
		sid, pid = j[0], j[1]
	}
	_ = pid
	kind := forceKind
	if kind == "" {
		kind = g.pickKind()
	}
	if sid < 0 && g.rnd.Intn(8) > 0 && kind != "ping" && kind != "receipt" {
		kind = "join" // connections that are not in a session mostly try to join
	}
	g.rid++
	g.ots++
	r := &wire.Req{Kind: kind, Rid: g.rid, Ots: g.ots}
	if g.rnd.Intn(30) == 0 {
		r.Rid = 0
	}
	maxE, maxT, maxP := k.maxEid[sid], k.maxTid[sid], k.maxPid[sid]
	switch kind {
	case "ping":
	case "pingResp":
		ps := k.pings[c]
		if len(ps) > 0 && g.rnd.Intn(10) > 0 {
			if g.rnd.Intn(6) == 0 {
				r.PingRef = 1 + g.rnd.Intn(len(ps)) // possibly one answered before
			} else {
				r.PingRef = len(ps)
			}
		} else if g.rnd.Intn(3) == 0 {
			r.PingRef = len(ps) + 1 + g.rnd.Intn(3) // never issued
		}
	case "signedLatency":
		r.N1 = []uint32{0, 2, 3, 3, 4, 5, 6, 50, 51, 60, 4294967295}[g.rnd.Intn(11)]
		// what is signed must be what was sent, white space included
		r.Str = []string{"", "0xabc", "0xabc", "wallet", " 0xabc", "0xabc\n", "  ", "0x ab c"}[g.rnd.Intn(8)]
	case "join":
		var live []int
		for s := range k.sids {
			live = append(live, s)
		}
		sortInts(live)
		switch x := g.rnd.Intn(20); {
		case x < 6 || len(live) == 0 && x < 17:
			r.Target = "new"
		case x < 17:
			r.Target, r.TargetN = "id", uint32(live[g.rnd.Intn(len(live))])
		case x < 19:
			r.Target, r.TargetN = "id", uint32(len(live)+1+g.rnd.Intn(5))
		default:
			r.Target = "bogus"
			if len(live) > 0 && g.rnd.Intn(2) == 0 {
				r.Target, r.N1, r.TargetN = "near", uint32(g.rnd.Intn(5)), uint32(live[g.rnd.Intn(len(live))])
			}
		}
	case "entityAdd":
		r.Persist = g.rnd.Intn(5) < 2
		r.Flag = uint32(g.rnd.Intn(2))
		r.Pose = g.pose(0.15)
	case "entityDelete":
		r.N1 = g.small(maxE)
	case "updatePose":
		r.N1 = g.small(maxE)
		r.Pose = g.pose(0.04)
	case "custom":
		if g.rnd.Intn(2) == 0 {
			n := 1 + g.rnd.Intn(5)
			for i := 0; i < n; i++ {
				r.Pids = append(r.Pids, g.small(maxP))
			}
			if g.crowd { // some recipients named several times
				for i := 0; i < n; i++ {
					r.Pids = append(r.Pids, r.Pids[g.rnd.Intn(len(r.Pids))])
				}
			}
		}
		r.Data = g.bytes()
	case "typeAdd", "typeGetId":
		r.Str = g.name()
	case "typeGetName", "compList", "subscribe", "unsubscribe":
		r.N1 = g.small(maxT)
	case "compAdd", "compUpdate":
		r.N1, r.N2, r.Data = g.small(maxT), g.small(maxE), g.smallBytes()
	case "compDelete":
		r.N1, r.N2 = g.small(maxT), g.small(maxE)
	case "receipt":
		rc, h, s := g.validReceipt()
		switch g.rnd.Intn(8) {
		case 0:
			rc = nil
		case 1:
			h = nil
		case 2:
			s = nil
		case 3:
			h[0] ^= 1
		case 4:
			s = []byte{1, 2, 3}
		}
		r.Data, r.Hash, r.Sig = rc, h, s
	case "action":
		if g.rnd.Intn(25) > 0 {
			a := &wire.Action{Eid: g.small(maxE), Name: g.name(), Data: g.smallBytes()}
			if g.rnd.Intn(20) > 0 {
				a.Ts = &wire.Ts{Secs: secsPool[g.rnd.Intn(len(secsPool))], Nanos: nanosPool[g.rnd.Intn(len(nanosPool))]}
			}
			// now and then the very action sent last, again, with other data: same entity, same name, same timestamp
			if g.lastAct != nil && g.rnd.Intn(5) == 0 {
				a = &wire.Action{Eid: g.lastAct.Eid, Name: g.lastAct.Name, Ts: g.lastAct.Ts, Data: g.smallBytes()}
			} else if g.lastAct != nil && g.lastAct.Ts != nil && g.rnd.Intn(5) == 0 {
				// ... or within the same second, a little earlier or later
				a = &wire.Action{Eid: g.lastAct.Eid, Name: g.lastAct.Name, Data: g.smallBytes(),
					Ts: &wire.Ts{Secs: g.lastAct.Ts.Secs, Nanos: nanosPool[g.rnd.Intn(len(nanosPool))]}}
			}
			if g.lastAct != nil && g.lastAct.Ts != nil && g.rnd.Intn(6) == 0 && g.lastAct.Ts.Secs > -1000 && g.lastAct.Ts.Secs < 1<<40 {
				// ... or a timestamp that is not normalised: the next second minus one and a half (older than the last one,
				// whatever the order of the fields says), the previous second plus two (newer)
				ts := &wire.Ts{Secs: g.lastAct.Ts.Secs + 1, Nanos: -1500000000}
				if g.rnd.Intn(2) == 0 {
					ts = &wire.Ts{Secs: g.lastAct.Ts.Secs - 1, Nanos: 2000000000}
				}
				a = &wire.Action{Eid: g.lastAct.Eid, Name: g.lastAct.Name, Data: g.smallBytes(), Ts: ts}
			}
			g.lastAct = a
			r.Act = a
		}
	case "assetAdd":
		r.Str = []string{"", "asset-1", "asset-2", "tree"}[g.rnd.Intn(4)]
		r.N1 = g.small(maxE)
	case "quadSample":
		n := g.rnd.Intn(4)
		for i := 0; i < n; i++ {
			q := g.quad()
			if g.rnd.Intn(12) == 0 { // what a careless or hostile client leaves out or fills in
				switch g.rnd.Intn(5) {
				case 0:
					q = "!"
				case 1:
					q = "!c," + q
				case 2:
					q = "!e," + q
				default:
					f := strings.Split(q, ",")
					f[g.rnd.Intn(6)] = g.oddFloat()
					q = strings.Join(f, ",")
				}
			}
			r.Quads = append(r.Quads, q)
		}
	case "groundPlane":
		x := float64(g.rnd.Intn(65)-32) * 0.25
		z := float64(g.rnd.Intn(65)-32) * 0.25
		f := []string{f32(x), "5", f32(z), f32(x), "-5", f32(z)}
		switch g.rnd.Intn(10) {
		case 0: // slanted
			f[3], f[5] = f32(x+float64(g.rnd.Intn(41)-20)), f32(z+float64(g.rnd.Intn(41)-20))
		case 1:
			f[g.rnd.Intn(6)] = g.oddFloat()
		}
		r.Geo = strings.Join(f, ",")
		if g.rnd.Intn(25) == 0 {
			r.Geo = []string{"!", "!1," + r.Geo, "!2," + r.Geo, "!0," + r.Geo}[g.rnd.Intn(4)]
		}
	case "region":
		// mostly a box that covers the whole grid, so that the answer lists every stored plane
		x0 := -100 - float64(g.rnd.Intn(33))*0.5
		z0 := -100 - float64(g.rnd.Intn(33))*0.5
		x1 := 100 + float64(g.rnd.Intn(40))*0.5
		z1 := 100 + float64(g.rnd.Intn(40))*0.5
		f := []string{f32(x0), "0", f32(z0), f32(x1), "0", f32(z1)}
		switch g.rnd.Intn(10) {
		case 0: // a box somewhere, possibly beside the grid or inside out
			for _, i := range []int{0, 2, 3, 5} {
				f[i] = f32(float64(g.rnd.Intn(161) - 80))
			}
		case 1, 2:
			f[[]int{0, 2, 3, 5}[g.rnd.Intn(4)]] = g.oddFloat()
			if g.rnd.Intn(3) == 0 {
				f[[]int{0, 2, 3, 5}[g.rnd.Intn(4)]] = g.oddFloat()
			}
		}
		r.Geo = strings.Join(f, ",")
		if g.rnd.Intn(25) == 0 {
			r.Geo = []string{"!1," + r.Geo, "!2," + r.Geo, "!0," + r.Geo}[g.rnd.Intn(3)]
		}
	case "debugInfo":
	case "unknown":
		r.N1 = []uint32{6, 44, 99, 150, 250, 306, 400, 1000}[g.rnd.Intn(8)]
	}
	return r
}

func sortInts(s []int) {
	for i := 1; i < len(s); i++ {
		for j := i; j > 0 && s[j] < s[j-1]; j-- {
			s[j], s[j-1] = s[j-1], s[j]
		}
	}
}

func (g *Gen) liveConns() []int {
	var out []int
	for _, c := range g.w.order {
		if g.w.conns[c].alive {
			out = append(out, c)
		}
	}
	return out
}

// Run generates and executes one history of about `steps` events.
func (g *Gen) Run(steps int) {
	for i := 1; i <= g.nconn; i++ {
		g.w.Connect(i)
	}
	g.nextCon = g.nconn + 1
	if g.crowd {
		r := g.RequestOf(1, "join")
		r.Target, r.TargetN = "new", 0
		g.do(1, r)
		for c := 2; c <= g.nconn; c++ {
			r := g.RequestOf(c, "join")
			r.Target, r.TargetN = "id", 1
			g.do(c, r)
		}
	}
	for i := 0; i < steps; i++ {
		live := g.liveConns()
		if len(live) == 0 || (len(live) < g.nconn && g.rnd.Intn(4) == 0) {
			g.w.Connect(g.nextCon)
			g.nextCon++
			continue
		}
		c := live[g.rnd.Intn(len(live))]
		if _, joined := g.w.know.joined[c]; g.latency && joined && g.rnd.Intn(10) == 0 {
			g.measure(c)
			continue
		}
		switch x := g.rnd.Intn(100); {
		case x < 62:
			r := g.Request(c)
			g.w.Recv(c, r)
			g.pending[c]++
			// the main loop usually keeps up with the receiver
			if g.rnd.Intn(10) < 8 || g.pending[c] > 100 {
				for g.w.conns[c].alive && g.w.Handle(c) {
					if g.rnd.Intn(3) == 0 {
						break
					}
				}
				g.pending[c] = 0
			}
		case x < 76:
			g.w.Handle(c)
		case x < 92:
			var live []int
			for s := range g.w.know.sids {
				live = append(live, s)
			}
			sortInts(live)
			sid := 1 + g.rnd.Intn(4)
			if len(live) > 0 && g.rnd.Intn(8) > 0 {
				sid = live[g.rnd.Intn(len(live))]
			}
			g.w.Tick(sid)
		case x < 96:
			g.w.Disconnect(c)
		case x < 98:
			g.w.DrainReceipts()
		default:
			// burst: several messages queued before the main loop runs
			n := 2 + g.rnd.Intn(4)
			for j := 0; j < n; j++ {
				g.w.Recv(c, g.Request(c))
			}
		}
	}
	g.settle()
	if !g.noProbe {
		g.probe()
	}
}

// measure runs one signed latency measurement of a joined connection to its end: the request, then an answer to every
// ping the server issues - now and then preceded by an answer to a ping answered before or never issued.  The same
// connection is measured again later in the history, on the state the previous measurement left.
func (g *Gen) measure(c int) {
	r := g.RequestOf(c, "signedLatency")
	r.N1 = uint32(3 + g.rnd.Intn(3))
	r.Str = "0xabc"
	g.do(c, r)
	for round := 0; round < 8 && g.w.conns[c].alive; round++ {
		ps := g.w.know.pings[c]
		if len(ps) == 0 {
			return
		}
		if g.rnd.Intn(6) == 0 {
			stray := g.RequestOf(c, "pingResp")
			stray.PingRef = []int{1, len(ps) + 2}[g.rnd.Intn(2)]
			g.do(c, stray)
		}
		a := g.RequestOf(c, "pingResp")
		a.PingRef = len(ps)
		g.do(c, a)
		if len(g.w.know.pings[c]) == len(ps) { // no further ping was issued: the measurement is over (or was refused)
			return
		}
	}
}

// RunPrefix is Run without the final probe: the sequential part of a history that ends in a concurrent block.
func (g *Gen) RunPrefix(steps int) {
	g.noProbe = true
	g.Run(steps)
}

// pickConcurrent chooses k live connections and queues, for each, one request whose handling by several goroutines
// at once is interesting (membership, ids, relays, registries); a connection may instead be marked to disconnect.
// The requests are received (queued) here; handling them is the concurrent block.
func (g *Gen) pickConcurrent(k int) []int {
	live := g.liveConns()
	g.rnd.Shuffle(len(live), func(i, j int) { live[i], live[j] = live[j], live[i] })
	kinds := []string{"join", "join", "entityAdd", "entityAdd", "entityDelete", "custom", "typeAdd", "compAdd", "compDelete", "subscribe",
		"unsubscribe", "action", "assetAdd", "signedLatency", "compList"}
	shared := names[g.rnd.Intn(len(names))]
	// two blocks in three are built around one session: members that change it or relay in it, members that leave it
	// (by switching), outsiders that join it - the combinations the locks of a session have to survive
	bySession := map[int][]int{}
	var outsiders []int
	for _, c := range live {
		if j, ok := g.w.know.joined[c]; ok {
			bySession[j[0]] = append(bySession[j[0]], c)
		} else {
			outsiders = append(outsiders, c)
		}
	}
	target := -1
	for _, sid := range sortedKeys(g.w.know.sids) {
		if len(bySession[sid]) >= 2 || (len(bySession[sid]) >= 1 && len(live) > len(bySession[sid])) {
			target = sid
			break
		}
	}
	// one block in four is built around the registry: every member of a small session departs (by switching to a new
	// session or to another live one) while outsiders join it by id, or several connections create sessions at once -
	// the races C07 names: a join against the last departure, two last departures, two creations
	if g.rnd.Intn(4) == 0 {
		small := -1
		for _, sid := range sortedKeys(g.w.know.sids) {
			if n := len(bySession[sid]); n >= 1 && n <= k {
				small = sid
				if g.rnd.Intn(2) == 0 {
					break
				}
			}
		}
		var chosen []int
		plan := map[int]*wire.Req{}
		if small >= 0 {
			for _, c := range bySession[small] {
				if g.rnd.Intn(3) == 0 { // the connection just goes away
					chosen = append(chosen, -c)
					continue
				}
				r := g.RequestOf(c, "join")
				r.Target, r.TargetN = "new", 0
				if others := sortedKeys(g.w.know.sids); len(others) > 1 && g.rnd.Intn(3) == 0 {
					o := others[g.rnd.Intn(len(others))]
					if o != small {
						r.Target, r.TargetN = "id", uint32(o)
					}
				}
				plan[c] = r
				chosen = append(chosen, c)
			}
		}
		for _, c := range live {
			if len(chosen) >= k {
				break
			}
			if _, ok := plan[c]; ok || containsInt(chosen, -c) {
				continue
			}
			r := g.RequestOf(c, "join")
			if small >= 0 && g.rnd.Intn(4) > 0 {
				r.Target, r.TargetN = "id", uint32(small)
			} else {
				r.Target, r.TargetN = "new", 0
			}
			plan[c] = r
			chosen = append(chosen, c)
		}
		sortInts(chosen)
		for _, c := range chosen {
			if c > 0 {
				g.w.Recv(c, plan[c])
			}
		}
		return chosen
	}
	// one block in five sets what is attached to an entity against the entity's removal: its owner deletes it, leaves
	// or goes away while other members add or update a component of it, set an action on it, or a newcomer enters
	if g.rnd.Intn(5) == 0 {
		if chosen := g.attachAgainstRemoval(k, bySession, outsiders); chosen != nil {
			return chosen
		}
	}
	// one block in six (of those of three) is about an entity that is being created: one member adds an entity, another
	// sets an action on the id it is about to get, a third asks for the deletion of that id - refused whatever the
	// order, and it must not take with it what was attached in the meantime (F46)
	if k >= 3 && g.rnd.Intn(6) == 0 {
		if chosen := g.attachToFreshEntity(bySession); chosen != nil {
			return chosen
		}
	}
	// one block in six has two or three members write the same item at once: the same action of one entity with
	// timestamps around each other, the same component added, updated and deleted
	if g.rnd.Intn(6) == 0 {
		if chosen := g.sameItemWriters(k, bySession); chosen != nil {
			return chosen
		}
	}
	if target >= 0 && g.rnd.Intn(3) > 0 {
		members := bySession[target]
		var chosen []int
		plan := map[int]string{}
		relay := []string{"custom", "custom", "entityAdd", "entityDelete", "action", "assetAdd", "compAdd", "compDelete", "typeAdd", "subscribe",
			"compUpdate", "compUpdate", "updatePose", "unsubscribe"}
		framed := false
		for _, c := range live {
			if len(chosen) == k {
				break
			}
			isMember := false
			for _, m := range members {
				if m == c {
					isMember = true
				}
			}
			switch {
			case isMember && len(chosen) == 0:
				plan[c] = relay[g.rnd.Intn(len(relay))]
			case isMember:
				plan[c] = []string{"leave", "custom", "entityAdd", "leave", "compUpdate", "unsubscribe", "subscribe", "hangup"}[g.rnd.Intn(8)]
			default:
				plan[c] = "enter"
			}
			chosen = append(chosen, c)
		}
		sortInts(chosen)
		for i, c := range chosen {
			if plan[c] == "hangup" {
				chosen[i] = -c
				continue
			}
			var r *wire.Req
			switch plan[c] {
			case "leave": // switching to a new session leaves the target
				r = g.RequestOf(c, "join")
				r.Target, r.TargetN = "new", 0
			case "enter":
				r = g.RequestOf(c, "join")
				r.Target, r.TargetN = "id", uint32(target)
			case "custom":
				r = g.RequestOf(c, "custom")
				r.Pids = nil
				if g.rnd.Intn(2) == 0 { // to everybody (Broadcast), or addressed to each by id (BroadcastTo)
					for p := 1; p <= g.w.know.maxPid[target]; p++ {
						r.Pids = append(r.Pids, uint32(p))
					}
				}
			default:
				r = g.RequestOf(c, plan[c])
				if plan[c] == "typeAdd" {
					r.Str = shared
				}
				if plan[c] == "compUpdate" || plan[c] == "updatePose" {
					framed = true
				}
			}
			g.w.Recv(c, r)
		}
		if framed {
			// updates wait in the scheduler for the frame: let it pass, so that they are what the handlers consume
			g.w.Tick(target)
		}
		return chosen
	}
	if len(live) > k {
		live = live[:k]
	}
	sortInts(live)
	for _, c := range live {
		kind := kinds[g.rnd.Intn(len(kinds))]
		r := g.RequestOf(c, kind)
		if kind == "typeAdd" && g.rnd.Intn(2) == 0 {
			r.Str = shared // the same new name from several participants at once
		}
		g.w.Recv(c, r)
	}
	return live
}

// attachAgainstRemoval builds a block around one entity whose owner is a live member of a session with other members.
func (g *Gen) attachAgainstRemoval(k int, bySession map[int][]int, outsiders []int) []int {
	kn := g.w.know
	for _, sid := range sortedKeys(kn.sids) {
		members := bySession[sid]
		if len(members) < 2 {
			continue
		}
		var eids []int
		for e, o := range kn.owner[sid] {
			if j, ok := kn.joined[o]; ok && j[0] == sid && !kn.isDead[o] {
				eids = append(eids, e)
			}
		}
		if len(eids) == 0 {
			continue
		}
		sortInts(eids)
		eid := eids[g.rnd.Intn(len(eids))]
		own := kn.owner[sid][eid]
		if kn.maxTid[sid] == 0 { // a component needs a type
			g.do(own, &wire.Req{Kind: "typeAdd", Str: g.name()})
		}
		tid := uint32(1)
		if kn.maxTid[sid] > 1 {
			tid = uint32(1 + g.rnd.Intn(kn.maxTid[sid]))
		}
		plan := map[int]*wire.Req{}
		chosen := []int{own}
		switch g.rnd.Intn(4) {
		case 0:
			chosen[0] = -own // the connection just goes away
		case 1:
			r := g.RequestOf(own, "join")
			r.Target, r.TargetN = "new", 0
			plan[own] = r
		default:
			r := g.RequestOf(own, "entityDelete")
			r.N1 = uint32(eid)
			plan[own] = r
		}
		framed := false
		for _, c := range members {
			if len(chosen) >= k {
				break
			}
			if c == own {
				continue
			}
			var r *wire.Req
			switch g.rnd.Intn(6) {
			case 0, 1, 2:
				r = g.RequestOf(c, "compAdd")
				r.N1, r.N2 = tid, uint32(eid)
			case 3:
				r = g.RequestOf(c, "action")
				if r.Act == nil {
					r.Act = &wire.Action{Name: g.name(), Data: g.smallBytes(), Ts: &wire.Ts{Secs: secsPool[0]}}
				}
				r.Act.Eid = uint32(eid)
			case 4:
				r = g.RequestOf(c, "compUpdate")
				r.N1, r.N2 = tid, uint32(eid)
				framed = true
			default:
				r = g.RequestOf(c, "compDelete")
				r.N1, r.N2 = tid, uint32(eid)
			}
			plan[c] = r
			chosen = append(chosen, c)
		}
		if len(chosen) < k && len(outsiders) > 0 {
			c := outsiders[0]
			r := g.RequestOf(c, "join")
			r.Target, r.TargetN = "id", uint32(sid)
			plan[c] = r
			chosen = append(chosen, c)
		}
		sortInts(chosen)
		for _, c := range chosen {
			if c > 0 {
				g.w.Recv(c, plan[c])
			}
		}
		if framed {
			g.w.Tick(sid)
		}
		return chosen
	}
	return nil
}

// attachToFreshEntity builds a block of three around the entity id a session will issue next.
func (g *Gen) attachToFreshEntity(bySession map[int][]int) []int {
	kn := g.w.know
	for _, sid := range sortedKeys(kn.sids) {
		members := bySession[sid]
		if len(members) < 3 {
			continue
		}
		next := uint32(kn.maxEid[sid] + 1)
		m := append([]int(nil), members...)
		g.rnd.Shuffle(len(m), func(i, j int) { m[i], m[j] = m[j], m[i] })
		add := g.RequestOf(m[0], "entityAdd")
		act := g.RequestOf(m[1], "action")
		act.Act = &wire.Action{Eid: next, Name: g.name(), Data: g.smallBytes(), Ts: &wire.Ts{Secs: secsPool[g.rnd.Intn(len(secsPool))]}}
		del := g.RequestOf(m[2], "entityDelete")
		del.N1 = next
		chosen := []int{m[0], m[1], m[2]}
		plan := map[int]*wire.Req{m[0]: add, m[1]: act, m[2]: del}
		sortInts(chosen)
		for _, c := range chosen {
			g.w.Recv(c, plan[c])
		}
		return chosen
	}
	return nil
}

// sameItemWriters builds a block in which several members of one session write one item.
func (g *Gen) sameItemWriters(k int, bySession map[int][]int) []int {
	kn := g.w.know
	for _, sid := range sortedKeys(kn.sids) {
		members := bySession[sid]
		if len(members) < 2 || kn.maxEid[sid] == 0 {
			continue
		}
		eid := uint32(1 + g.rnd.Intn(kn.maxEid[sid]))
		if kn.maxTid[sid] == 0 {
			g.do(members[0], &wire.Req{Kind: "typeAdd", Str: g.name()})
		}
		tid := uint32(1)
		if kn.maxTid[sid] > 1 {
			tid = uint32(1 + g.rnd.Intn(kn.maxTid[sid]))
		}
		actions := g.rnd.Intn(2) == 0
		name := g.name()
		secs := secsPool[g.rnd.Intn(len(secsPool))]
		var chosen []int
		framed := false
		for _, c := range members {
			if len(chosen) >= k {
				break
			}
			var r *wire.Req
			if actions {
				r = g.RequestOf(c, "action")
				r.Act = &wire.Action{Eid: eid, Name: name, Data: g.smallBytes(),
					Ts: &wire.Ts{Secs: secs + int64(g.rnd.Intn(2)), Nanos: nanosPool[g.rnd.Intn(len(nanosPool))]}}
			} else {
				kind := []string{"compAdd", "compAdd", "compUpdate", "compUpdate", "compDelete"}[g.rnd.Intn(5)]
				r = g.RequestOf(c, kind)
				r.N1, r.N2 = tid, eid
				if kind == "compUpdate" {
					framed = true
				}
			}
			g.w.Recv(c, r)
			chosen = append(chosen, c)
		}
		sortInts(chosen)
		if framed {
			g.w.Tick(sid)
		}
		return chosen
	}
	return nil
}

// settle flushes every pending update and handles every queued message.
func (g *Gen) settle() {
	for round := 0; round < 2; round++ {
		for _, s := range sortedKeys(g.w.know.sids) {
			g.w.Tick(s)
		}
		for _, c := range g.liveConns() {
			for g.w.conns[c].alive && g.w.Handle(c) {
			}
		}
	}
}

func (g *Gen) do(c int, r *wire.Req) {
	g.rid++
	g.ots++
	r.Rid, r.Ots = g.rid, g.ots
	g.w.Recv(c, r)
	for g.w.conns[c].alive && g.w.Handle(c) {
	}
}

// probe: at the end of a history two fresh connections join every session that may still be alive and
// exercise it (snapshots, lists, a component of every type, an action, an asset, an update through a
// frame), so that state the random part left behind becomes observable.
func (g *Gen) probe() {
	everywhere := "-4096,-4096,-4096,4096,4096,4096"
	for _, sid := range sortedKeys(g.w.know.sids) {
		if strings.Contains(g.w.cfg.Mods, "d") {
			// the ground planes are the session's: every member is asked for all of them
			for _, c := range g.liveConns() {
				if j, ok := g.w.know.joined[c]; ok && j[0] == sid {
					g.do(c, &wire.Req{Kind: "region", Geo: everywhere})
					g.do(c, &wire.Req{Kind: "debugInfo"})
				}
			}
		}
		a, b := g.nextCon, g.nextCon+1
		g.nextCon += 2
		g.w.Connect(a)
		g.w.Connect(b)
		g.do(a, &wire.Req{Kind: "join", Target: "id", TargetN: uint32(sid)})
		if _, ok := g.w.know.joined[a]; !ok {
			g.w.Disconnect(a)
			g.w.Disconnect(b)
			continue
		}
		g.do(b, &wire.Req{Kind: "join", Target: "id", TargetN: uint32(sid)})
		if strings.Contains(g.w.cfg.Mods, "d") {
			g.do(a, &wire.Req{Kind: "region", Geo: everywhere})
		}
		maxT, maxE := g.w.know.maxTid[sid], g.w.know.maxEid[sid]
		for t := 1; t <= maxT && t <= 6; t++ {
			g.do(a, &wire.Req{Kind: "compList", N1: uint32(t)})
			g.do(a, &wire.Req{Kind: "typeGetName", N1: uint32(t)})
		}
		g.do(b, &wire.Req{Kind: "entityAdd", Persist: false, Pose: g.pose(0)})
		eb := g.w.know.maxEid[sid]
		for t := 1; t <= maxT && t <= 6; t++ {
			g.do(b, &wire.Req{Kind: "compAdd", N1: uint32(t), N2: uint32(eb), Data: []byte{byte(t)}})
			g.w.Recv(b, &wire.Req{Kind: "compUpdate", Ots: g.ots + 1000, N1: uint32(t), N2: uint32(eb), Data: []byte{byte(t), 1}})
		}
		for e := 1; e <= maxE && e <= 8; e++ {
			g.w.Recv(b, &wire.Req{Kind: "updatePose", Ots: g.ots + 2000 + uint32(e), N1: uint32(e), Pose: g.pose(0)})
		}
		g.w.Tick(sid)
		for g.w.conns[b].alive && g.w.Handle(b) {
		}
		g.do(b, &wire.Req{Kind: "action", Act: &wire.Action{Eid: uint32(eb), Name: "probe", Ts: &wire.Ts{Secs: 7}, Data: []byte{1}}})
		g.do(b, &wire.Req{Kind: "assetAdd", Str: "probe-asset", N1: uint32(eb)})
		g.do(b, &wire.Req{Kind: "custom", Data: []byte("probe")})
		g.w.Disconnect(b)
		g.w.Disconnect(a)
	}
}

func sortedKeys(m map[int]bool) []int {
	var out []int
	for k := range m {
		out = append(out, k)
	}
	sortInts(out)
	return out
}

func containsInt(l []int, x int) bool {
	for _, y := range l {
		if y == x {
			return true
		}
	}
	return false
}
