// extract: the facts translator. It parses the current working tree of the repository (go/parser,
// go/ast) and writes Lean *data* describing what differential testing cannot see: constants, which
// message constructions each feature flag wraps, the dispatch table, the order of shared-state
// operations inside each handler, and the lock discipline of the shared types.
// The output (lean/Hagall/Gen/Facts.lean) is regenerated on every run; theorems in Hagall/Props/*
// are obligations about this data.
package main

import (
	"flag"
	"fmt"
	"go/ast"
	"go/parser"
	"go/token"
	"os"
	"path/filepath"
	"sort"
	"strconv"
	"strings"
)

var fset = token.NewFileSet()

func parse(path string) *ast.File {
	f, err := parser.ParseFile(fset, path, nil, parser.ParseComments)
	if err != nil {
		fmt.Fprintln(os.Stderr, "extract:", err)
		os.Exit(1)
	}
	return f
}

func lstr(s string) string { return strconv.Quote(s) }

func llist(xs []string) string {
	q := make([]string, len(xs))
	for i, x := range xs {
		q[i] = lstr(x)
	}
	return "[" + strings.Join(q, ", ") + "]"
}

// exprString renders selector chains like a.b.c
func exprString(e ast.Expr) string {
	switch v := e.(type) {
	case *ast.Ident:
		return v.Name
	case *ast.SelectorExpr:
		return exprString(v.X) + "." + v.Sel.Name
	case *ast.CallExpr:
		return exprString(v.Fun) + "()"
	case *ast.StarExpr:
		return "*" + exprString(v.X)
	case *ast.UnaryExpr:
		return v.Op.String() + exprString(v.X)
	case *ast.BasicLit:
		return v.Value
	case *ast.IndexExpr:
		return exprString(v.X) + "[]"
	case *ast.ParenExpr:
		return exprString(v.X)
	case *ast.StructType:
		return "struct{}"
	case *ast.FuncLit:
		return "func"
	case *ast.ChanType:
		return "chan " + exprString(v.Value)
	}
	return "?"
}

// constants: name -> literal value of top-level `const` declarations with basic literals
func constants(f *ast.File) map[string]string {
	out := map[string]string{}
	for _, d := range f.Decls {
		gd, ok := d.(*ast.GenDecl)
		if !ok || gd.Tok != token.CONST {
			continue
		}
		for _, sp := range gd.Specs {
			vs := sp.(*ast.ValueSpec)
			for i, n := range vs.Names {
				if i < len(vs.Values) {
					if bl, ok := vs.Values[i].(*ast.BasicLit); ok {
						out[n.Name] = strings.Trim(bl.Value, "\"")
					}
				}
			}
		}
	}
	return out
}

// makeChanCaps: textual form of every make(chan T, N) in the file: "T" -> N
func makeChanCaps(f *ast.File) map[string]string {
	out := map[string]string{}
	ast.Inspect(f, func(n ast.Node) bool {
		ce, ok := n.(*ast.CallExpr)
		if !ok {
			return true
		}
		if id, ok := ce.Fun.(*ast.Ident); ok && id.Name == "make" && len(ce.Args) >= 1 {
			if ct, ok := ce.Args[0].(*ast.ChanType); ok {
				cap := "0"
				if len(ce.Args) >= 2 {
					cap = exprString(ce.Args[1])
				}
				out[exprString(ct.Value)] = cap
			}
		}
		return true
	})
	return out
}

// composite literal message types (pkg.Type) constructed inside a node
func msgTypesIn(n ast.Node) []string {
	seen := map[string]bool{}
	var out []string
	ast.Inspect(n, func(x ast.Node) bool {
		cl, ok := x.(*ast.CompositeLit)
		if !ok {
			return true
		}
		if se, ok := cl.Type.(*ast.SelectorExpr); ok {
			if id, ok := se.X.(*ast.Ident); ok && strings.HasSuffix(id.Name, "pb") {
				// only messages that carry a Type field are protocol messages
				for _, el := range cl.Elts {
					if kv, ok := el.(*ast.KeyValueExpr); ok {
						if k, ok := kv.Key.(*ast.Ident); ok && k.Name == "Type" {
							name := id.Name + "." + se.Sel.Name
							if !seen[name] {
								seen[name] = true
								out = append(out, name)
							}
						}
					}
				}
			}
		}
		return true
	})
	return out
}

// calls made inside a node, as selector strings, in source order
func callsIn(n ast.Node) []string {
	var out []string
	ast.Inspect(n, func(x ast.Node) bool {
		if ce, ok := x.(*ast.CallExpr); ok {
			out = append(out, exprString(ce.Fun))
		}
		return true
	})
	return out
}

type flagSite struct {
	fn, flag     string
	msgs, others []string
}

// the methods a flag-wrapped closure may call without changing state
var harmless = map[string]bool{
	"respond.Send": true, "session.Broadcast": true, "session.BroadcastTo": true,
	"session.GetEntityComponents": true, "session.GetEntityComponents().Notify": true,
	"timestamppb.Now": true, "models.ParticipantsToProtobuf": true, "models.EntitiesToProtobuf": true,
	"session.GetParticipants": true, "session.Entities": true, "session.GetEntityComponents().ListAll": true,
	"entity.ToProtobuf": true, "entity.Pose": true, "entity.Pose().ToProtobuf": true, "len": true,
}

func flagSites(f *ast.File) (sites []flagSite, ungated [][2]string) {
	for _, d := range f.Decls {
		fd, ok := d.(*ast.FuncDecl)
		if !ok || fd.Body == nil {
			continue
		}
		gatedRanges := [][2]token.Pos{}
		ast.Inspect(fd.Body, func(n ast.Node) bool {
			ce, ok := n.(*ast.CallExpr)
			if !ok {
				return true
			}
			name := exprString(ce.Fun)
			if strings.HasSuffix(name, "FeatureFlags.IfNotSet") && len(ce.Args) == 2 {
				fl := exprString(ce.Args[0])
				fl = strings.TrimPrefix(fl, "featureflag.")
				s := flagSite{fn: fd.Name.Name, flag: fl, msgs: msgTypesIn(ce.Args[1])}
				for _, c := range callsIn(ce.Args[1]) {
					if !harmless[c] {
						s.others = append(s.others, c)
					}
				}
				sites = append(sites, s)
				gatedRanges = append(gatedRanges, [2]token.Pos{ce.Pos(), ce.End()})
			}
			return true
		})
		// broadcasts outside any flag closure
		ast.Inspect(fd.Body, func(n ast.Node) bool {
			ce, ok := n.(*ast.CallExpr)
			if !ok {
				return true
			}
			name := exprString(ce.Fun)
			if name == "session.Broadcast" || name == "session.BroadcastTo" {
				in := false
				for _, r := range gatedRanges {
					if ce.Pos() >= r[0] && ce.End() <= r[1] {
						in = true
					}
				}
				if !in {
					ms := msgTypesIn(ce)
					ungated = append(ungated, [2]string{fd.Name.Name, strings.Join(ms, "+")})
				}
			}
			return true
		})
	}
	return
}

// dispatch table of handler.handleMessage: message type constant -> handler method
func dispatchTable(f *ast.File) [][2]string {
	var out [][2]string
	for _, d := range f.Decls {
		fd, ok := d.(*ast.FuncDecl)
		if !ok || fd.Name.Name != "handleMessage" {
			continue
		}
		ast.Inspect(fd.Body, func(n ast.Node) bool {
			cc, ok := n.(*ast.CaseClause)
			if !ok {
				return true
			}
			for _, e := range cc.List {
				key := strings.TrimPrefix(exprString(e), "hagallpb.MsgType_MSG_TYPE_")
				for _, st := range cc.Body {
					for _, c := range callsIn(st) {
						if strings.HasPrefix(c, "h.Handler.Handle") {
							out = append(out, [2]string{key, strings.TrimPrefix(c, "h.Handler.")})
						}
					}
				}
			}
			return true
		})
	}
	return out
}

// skeleton: for a function, the ordered list of "interesting" calls (shared-state operations and sends)
func interesting(c string) bool {
	for _, p := range []string{"session.", "h.Sessions.", "participant.", "respond.Send", "h.leaveSession", "m.state.", "m.currentSession.",
		"h.currentParticipant.SignedLatency", "entity.SetPose", "h.stopFrameHandling", "m.Init", "m.HandleDisconnect", "h.ReceiptChan",
		"h.disconnect", "h.handleDisconnect", "h.Handler.", "h.Conn.Close", "scheduler.Close", "cancel", "wg.", "h.dispatcher.", "h.sender", "h.receiver",
		"h.handleMessage", "idleTimer.", "hwebsocket.NewScheduler", "h.startSending", "h.startReceiving"} {
		if strings.HasPrefix(c, p) {
			return true
		}
	}
	return false
}

func skeletons(f *ast.File, recv string) [][2]string {
	var out [][2]string
	for _, d := range f.Decls {
		fd, ok := d.(*ast.FuncDecl)
		if !ok || fd.Body == nil || fd.Recv == nil {
			continue
		}
		var seq []string
		for _, c := range callsIn(fd.Body) {
			if interesting(c) {
				seq = append(seq, c)
			}
		}
		out = append(out, [2]string{recv + "." + fd.Name.Name, strings.Join(seq, " ; ")})
	}
	return out
}

func qualName(fd *ast.FuncDecl) string {
	if fd.Recv != nil && len(fd.Recv.List) > 0 {
		return strings.TrimPrefix(exprString(fd.Recv.List[0].Type), "*") + "." + fd.Name.Name
	}
	return fd.Name.Name
}

// deferred calls of a function, in source order (they run in reverse), with the calls made inside deferred closures
func defersOf(f *ast.File) [][2]string {
	var out [][2]string
	for _, d := range f.Decls {
		fd, ok := d.(*ast.FuncDecl)
		if !ok || fd.Body == nil {
			continue
		}
		var ds []string
		// top-level statements of the function body only (not nested closures)
		var visit func(stmts []ast.Stmt)
		visit = func(stmts []ast.Stmt) {
			for _, st := range stmts {
				switch v := st.(type) {
				case *ast.DeferStmt:
					if fl, ok := v.Call.Fun.(*ast.FuncLit); ok {
						ds = append(ds, "func{"+strings.Join(callsIn(fl.Body), ",")+"}")
					} else {
						ds = append(ds, exprString(v.Call.Fun))
					}
				case *ast.ExprStmt:
					if ce, ok := v.X.(*ast.CallExpr); ok {
						name := exprString(ce.Fun)
						if name == "wg.Wait" {
							ds = append(ds, "call:wg.Wait")
						}
					}
				}
			}
		}
		visit(fd.Body.List)
		out = append(out, [2]string{qualName(fd), strings.Join(ds, " ; ")})
	}
	return out
}

// channel sends of a function: "chan <- " statements and whether they sit in a select with a default
func chanSends(f *ast.File) [][2]string {
	var out [][2]string
	for _, d := range f.Decls {
		fd, ok := d.(*ast.FuncDecl)
		if !ok || fd.Body == nil {
			continue
		}
		var ops []string
		var visit func(n ast.Node, inSelectDefault bool)
		visit = func(n ast.Node, inSel bool) {
			ast.Inspect(n, func(x ast.Node) bool {
				switch v := x.(type) {
				case *ast.SelectStmt:
					hasDefault := false
					for _, c := range v.Body.List {
						if cc, ok := c.(*ast.CommClause); ok && cc.Comm == nil {
							hasDefault = true
						}
					}
					for _, c := range v.Body.List {
						cc := c.(*ast.CommClause)
						if cc.Comm != nil {
							visit(cc.Comm, hasDefault)
						}
						for _, st := range cc.Body {
							visit(st, false)
						}
					}
					return false
				case *ast.SendStmt:
					kind := "blocking"
					if inSel {
						kind = "nonblocking"
					}
					ops = append(ops, kind+" send "+exprString(v.Chan))
				}
				return true
			})
		}
		visit(fd.Body, false)
		if len(ops) > 0 {
			out = append(out, [2]string{qualName(fd), strings.Join(ops, " ; ")})
		}
	}
	return out
}

// lock facts: for every method of a struct type that has a mutex field, which mutex operations it
// performs in order (Lock/RLock/Unlock/RUnlock with defer marked), and which fields of the receiver it touches.
type lockFact struct {
	typ, method string
	ops         []string
	fields      []string
	calls       []string
	self        []string // methods called on the method's own receiver
	writes      []string // receiver fields the method assigns to, increments, or deletes from (directly or through an index / sub-field)
	goStmts     int
}

// rootField: for an expression rooted at `recv.f` (possibly indexed, dereferenced or selected further), the name f.
// A local variable that was bound to something rooted at `recv.f` (`m := s.f[k]`, `for _, m := range s.f`) stands for
// f when it is written through (`m[j] = v`, `delete(m, j)`, `m.x = v`) - not when the variable itself is reassigned.
func rootField(e ast.Expr, recv string, alias map[string]string) (string, bool) {
	through := false
	for {
		switch v := e.(type) {
		case *ast.ParenExpr:
			e = v.X
		case *ast.StarExpr:
			e, through = v.X, true
		case *ast.IndexExpr:
			e, through = v.X, true
		case *ast.SliceExpr:
			e, through = v.X, true
		case *ast.SelectorExpr:
			if id, ok := v.X.(*ast.Ident); ok && id.Name == recv && recv != "" {
				return v.Sel.Name, true
			}
			e, through = v.X, true
		case *ast.Ident:
			if f, ok := alias[v.Name]; ok && through {
				return f, true
			}
			return "", false
		default:
			return "", false
		}
	}
}

// rootFieldOrAlias: an expression that is, or leads through, a local standing for a receiver field
func rootFieldOrAlias(e ast.Expr, alias map[string]string) (string, bool) {
	for {
		switch v := e.(type) {
		case *ast.ParenExpr:
			e = v.X
		case *ast.StarExpr:
			e = v.X
		case *ast.IndexExpr:
			e = v.X
		case *ast.SelectorExpr:
			e = v.X
		case *ast.Ident:
			f, ok := alias[v.Name]
			return f, ok
		default:
			return "", false
		}
	}
}

// the first argument of delete: the map itself is what is written
func rootFieldOrAliasDirect(e ast.Expr, recv string, alias map[string]string) (string, bool) {
	if f, ok := rootField(e, recv, alias); ok {
		return f, true
	}
	if id, ok := e.(*ast.Ident); ok {
		f, ok := alias[id.Name]
		return f, ok
	}
	return "", false
}

func lockFacts(f *ast.File) []lockFact {
	var out []lockFact
	for _, d := range f.Decls {
		fd, ok := d.(*ast.FuncDecl)
		if !ok || fd.Body == nil || fd.Recv == nil || len(fd.Recv.List) == 0 {
			continue
		}
		recvName := ""
		if len(fd.Recv.List[0].Names) > 0 {
			recvName = fd.Recv.List[0].Names[0].Name
		}
		typ := strings.TrimPrefix(exprString(fd.Recv.List[0].Type), "*")
		if pkg := f.Name.Name; pkg != "models" && pkg != "websocket" {
			typ = pkg + "." + typ
		}
		lf := lockFact{typ: typ, method: fd.Name.Name}
		fieldSeen := map[string]bool{}
		writeSeen := map[string]bool{}
		alias := map[string]string{}
		var visit func(n ast.Node, deferred bool)
		visit = func(n ast.Node, deferred bool) {
			ast.Inspect(n, func(x ast.Node) bool {
				switch v := x.(type) {
				case *ast.DeferStmt:
					visit(v.Call, true)
					return false
				case *ast.GoStmt:
					lf.goStmts++
				case *ast.FuncLit:
					// closures returned or passed along run later: record them separately
					lf.ops = append(lf.ops, "closure{")
					visit(v.Body, false)
					lf.ops = append(lf.ops, "}")
					return false
				case *ast.CallExpr:
					name := exprString(v.Fun)
					if name == "delete" && len(v.Args) > 0 {
						if f, ok := rootFieldOrAliasDirect(v.Args[0], recvName, alias); ok && !writeSeen[f] {
							writeSeen[f] = true
							lf.writes = append(lf.writes, f)
						}
					}
					for _, op := range []string{".Lock", ".RLock", ".Unlock", ".RUnlock"} {
						if strings.HasSuffix(name, op) {
							pre := ""
							if deferred {
								pre = "defer "
							}
							lf.ops = append(lf.ops, pre+strings.TrimPrefix(name, recvName+"."))
						}
					}
					if !strings.HasSuffix(name, "Lock") && !strings.HasSuffix(name, "Unlock") {
						lf.calls = append(lf.calls, name)
						if recvName != "" && strings.HasPrefix(name, recvName+".") && !strings.Contains(name[len(recvName)+1:], ".") {
							lf.self = append(lf.self, name[len(recvName)+1:])
						}
					}
				case *ast.AssignStmt:
					for _, l := range v.Lhs {
						if f, ok := rootField(l, recvName, alias); ok && !writeSeen[f] {
							writeSeen[f] = true
							lf.writes = append(lf.writes, f)
						}
					}
					// a local bound to (part of) a receiver field stands for that field from here on
					for i, l := range v.Lhs {
						id, ok := l.(*ast.Ident)
						if !ok || id.Name == "_" {
							continue
						}
						var rhs ast.Expr
						if len(v.Rhs) == len(v.Lhs) {
							rhs = v.Rhs[i]
						} else if i == 0 && len(v.Rhs) == 1 {
							rhs = v.Rhs[0]
						}
						if rhs == nil {
							continue
						}
						if f, ok := rootField(rhs, recvName, map[string]string{}); ok {
							alias[id.Name] = f
						} else if f, ok := rootFieldOrAlias(rhs, alias); ok {
							alias[id.Name] = f
						} else {
							delete(alias, id.Name)
						}
					}
				case *ast.RangeStmt:
					if f, ok := rootField(v.X, recvName, map[string]string{}); ok {
						if id, ok := v.Value.(*ast.Ident); ok && id.Name != "_" {
							alias[id.Name] = f
						}
					} else if f, ok := rootFieldOrAlias(v.X, alias); ok {
						if id, ok := v.Value.(*ast.Ident); ok && id.Name != "_" {
							alias[id.Name] = f
						}
					}
				case *ast.IncDecStmt:
					if f, ok := rootField(v.X, recvName, alias); ok && !writeSeen[f] {
						writeSeen[f] = true
						lf.writes = append(lf.writes, f)
					}
				case *ast.SelectorExpr:
					if id, ok := v.X.(*ast.Ident); ok && id.Name == recvName && recvName != "" {
						if !fieldSeen[v.Sel.Name] {
							fieldSeen[v.Sel.Name] = true
							lf.fields = append(lf.fields, v.Sel.Name)
						}
					}
				}
				return true
			})
		}
		visit(fd.Body, false)
		sort.Strings(lf.fields)
		sort.Strings(lf.writes)
		out = append(out, lf)
	}
	return out
}

func main() {
	repo := flag.String("repo", "/repo", "repository root")
	outPath := flag.String("out", "", "Lean file to write")
	ns := flag.String("ns", "Hagall.Gen", "Lean namespace (Hagall.Expected for the committed reference copy)")
	flag.Parse()
	p := func(rel string) *ast.File { return parse(filepath.Join(*repo, rel)) }

	realtime := p("websocket/realtime.go")
	handler := p("websocket/handler.go")
	flagsF := p("featureflag/flags.go")
	mainF := p("cmd/main.go")
	session := p("models/session.go")
	entity := p("models/entity.go")
	idF := p("models/id.go")
	latency := p("models/signed_latency.go")
	vikjaM := p("modules/vikja/vikja.go")
	vikjaS := p("modules/vikja/state.go")
	odalM := p("modules/odal/odal.go")
	odalS := p("modules/odal/state.go")
	dagazM := p("modules/dagaz/dagaz.go")
	dagazG := p("modules/dagaz/grid_spatial_partition.go")
	logsF := p("websocket/logs.go")
	participant := p("models/participant.go")
	receiptF := p("receipt/handler.go")
	authF := p("http/auth.go")
	dagazMath := p("modules/dagaz/math.go")

	var b strings.Builder
	w := func(format string, a ...any) { fmt.Fprintf(&b, format+"\n", a...) }
	w("/- GENERATED by go/cmd/extract from the working tree of the repository. Do not edit. -/")
	w("namespace %s", *ns)
	w("")

	// F1 constants
	rc := constants(realtime)
	hc := constants(handler)
	num := func(m map[string]string, k string) string {
		if v, ok := m[k]; ok {
			return v
		}
		return "0 /- missing -/"
	}
	w("def customMessageMaxSize : Nat := %s", num(rc, "customMessageMaxSize"))
	w("def sendChanSize : Nat := %s", num(hc, "sendChanSize"))
	hcaps := makeChanCaps(handler)
	w("def disconnectChanCap : Nat := %s", func() string {
		if v, ok := hcaps["error"]; ok {
			return v
		}
		return "0"
	}())
	mcaps := makeChanCaps(mainF)
	w("def receiptChanCap : Nat := %s", func() string {
		if v, ok := mcaps["ncsclient.ReceiptPayload"]; ok {
			return v
		}
		return "0"
	}())
	gcaps := makeChanCaps(session)
	w("def closeFrameChanCap : Nat := %s", func() string {
		if v, ok := gcaps["struct{}"]; ok {
			return v
		}
		return "0"
	}())
	// the iteration bounds of HandleSignedLatency: numeric literals compared with req.IterationCount
	var bounds []string
	ast.Inspect(realtime, func(n ast.Node) bool {
		be, ok := n.(*ast.BinaryExpr)
		if !ok {
			return true
		}
		if exprString(be.X) == "req.IterationCount" {
			bounds = append(bounds, be.Op.String()+" "+exprString(be.Y))
		}
		return true
	})
	w("def latencyIterationGuards : List String := %s", llist(bounds))
	// the size guard of HandleCustomMessage
	var guards []string
	ast.Inspect(realtime, func(n ast.Node) bool {
		be, ok := n.(*ast.BinaryExpr)
		if !ok {
			return true
		}
		if exprString(be.Y) == "customMessageMaxSize" || exprString(be.X) == "customMessageMaxSize" {
			guards = append(guards, exprString(be.X)+" "+be.Op.String()+" "+exprString(be.Y))
		}
		return true
	})
	w("def customSizeGuards : List String := %s", llist(guards))

	fc := constants(flagsF)
	var fnames []string
	for k := range fc {
		fnames = append(fnames, k)
	}
	sort.Strings(fnames)
	w("def flagNames : List (String × String) := [")
	for i, k := range fnames {
		sep := ","
		if i == len(fnames)-1 {
			sep = ""
		}
		w("  (%s, %s)%s", lstr(k), lstr(fc[k]), sep)
	}
	w("]")

	// F2 flag sites
	sites, ungated := flagSites(realtime)
	w("/-- (function, flag constant, message types constructed inside the closure, calls inside the closure that are not plain sends) -/")
	w("def flagSites : List (String × String × List String × List String) := [")
	for i, s := range sites {
		sep := ","
		if i == len(sites)-1 {
			sep = ""
		}
		w("  (%s, %s, %s, %s)%s", lstr(s.fn), lstr(s.flag), llist(s.msgs), llist(s.others), sep)
	}
	w("]")
	w("/-- broadcasts of websocket/realtime.go that are under no flag: (function, message types) -/")
	w("def ungatedBroadcasts : List (String × String) := [")
	for i, u := range ungated {
		sep := ","
		if i == len(ungated)-1 {
			sep = ""
		}
		w("  (%s, %s)%s", lstr(u[0]), lstr(u[1]), sep)
	}
	w("]")
	// flags in modules: none expected
	modFlagUses := 0
	for _, f := range []*ast.File{vikjaM, odalM, dagazM} {
		ast.Inspect(f, func(n ast.Node) bool {
			if se, ok := n.(*ast.SelectorExpr); ok && (se.Sel.Name == "IfNotSet" || se.Sel.Name == "IfSet") {
				modFlagUses++
			}
			return true
		})
	}
	w("def moduleFlagUses : Nat := %d", modFlagUses)

	// F5 dispatch
	w("def dispatch : List (String × String) := [")
	dt := dispatchTable(handler)
	for i, d := range dt {
		sep := ","
		if i == len(dt)-1 {
			sep = ""
		}
		w("  (%s, %s)%s", lstr(d[0]), lstr(d[1]), sep)
	}
	w("]")

	// F3 skeletons
	w("/-- ordered shared-state operations and sends of every handler -/")
	w("def skeletons : List (String × String) := [")
	var sk [][2]string
	sk = append(sk, skeletons(realtime, "RealtimeHandler")...)
	sk = append(sk, skeletons(vikjaM, "vikja")...)
	sk = append(sk, skeletons(odalM, "odal")...)
	sk = append(sk, skeletons(dagazM, "dagaz")...)
	sk = append(sk, skeletons(handler, "handler")...)
	for i, s := range sk {
		sep := ","
		if i == len(sk)-1 {
			sep = ""
		}
		w("  (%s, %s)%s", lstr(s[0]), lstr(s[1]), sep)
	}
	w("]")

	w("/-- deferred calls per function of websocket/handler.go (source order) and where wg.Wait is called -/")
	w("def handlerDefers : List (String × String) := [")
	dfs := defersOf(handler)
	for i, d := range dfs {
		sep := ","
		if i == len(dfs)-1 {
			sep = ""
		}
		w("  (%s, %s)%s", lstr(d[0]), lstr(d[1]), sep)
	}
	w("]")
	w("/-- channel sends per function: blocking, or inside a select with default -/")
	w("def chanSends : List (String × String) := [")
	var cs [][2]string
	for _, f := range []*ast.File{handler, realtime, session} {
		cs = append(cs, chanSends(f)...)
	}
	for i, d := range cs {
		sep := ","
		if i == len(cs)-1 {
			sep = ""
		}
		w("  (%s, %s)%s", lstr(d[0]), lstr(d[1]), sep)
	}
	w("]")

	// F4 lock facts
	w("/-- (type, method, mutex operations in order, receiver fields touched, other calls, number of go statements) -/")
	w("def lockFacts : List (String × String × List String × List String × List String × Nat) := [")
	var lfs []lockFact
	for _, f := range []*ast.File{session, entity, idF, participant, latency, vikjaS, odalS, dagazG, logsF, handler, receiptF, vikjaM, odalM, dagazM} {
		lfs = append(lfs, lockFacts(f)...)
	}
	_ = dagazMath
	for i, l := range lfs {
		sep := ","
		if i == len(lfs)-1 {
			sep = ""
		}
		w("  (%s, %s, %s, %s, %s, %d)%s", lstr(l.typ), lstr(l.method), llist(l.ops), llist(l.fields), llist(l.calls), l.goStmts, sep)
	}
	w("]")
	w("")
	// the same lock operations, tokenised for the nesting analysis: (mutex, code) with
	// 1 = acquire (Lock / RLock), 2 = release (Unlock / RUnlock), 3 = deferred release, 4 = a closure opens, 5 = it closes
	w("/-- (type, method, tokenised mutex operations, does it reach the dagaz spatial partition) -/")
	w("def lockOps : List (String × String × List (String × Nat) × Bool) := [")
	for i, l := range lfs {
		var toks []string
		for _, op := range l.ops {
			code, name := 0, op
			switch {
			case op == "closure{":
				code, name = 4, ""
			case op == "}":
				code, name = 5, ""
			case strings.HasPrefix(op, "defer "):
				code = 3
				name = strings.TrimPrefix(op, "defer ")
				name = name[:strings.LastIndex(name, ".")]
			case strings.HasSuffix(op, ".Lock") || strings.HasSuffix(op, ".RLock"):
				code = 1
				name = op[:strings.LastIndex(op, ".")]
			default:
				code = 2
				name = op[:strings.LastIndex(op, ".")]
			}
			toks = append(toks, fmt.Sprintf("(%s, %d)", lstr(name), code))
		}
		grid := false
		for _, c := range l.calls {
			if strings.HasPrefix(c, "m.state.SpatialPartition") {
				grid = true
			}
		}
		if l.typ == "dagaz.Module" && l.method == "Init" {
			grid = true
		}
		sep := ","
		if i == len(lfs)-1 {
			sep = ""
		}
		w("  (%s, %s, [%s], %v)%s", lstr(l.typ), lstr(l.method), strings.Join(toks, ", "), grid, sep)
	}
	w("]")
	w("")
	w("/-- (type, method, receiver fields it writes: assigned, incremented, deleted from - directly, through an index or a sub-field) -/")
	w("def writeFacts : List (String × String × List String) := [")
	for i, l := range lfs {
		sep := ","
		if i == len(lfs)-1 {
			sep = ""
		}
		w("  (%s, %s, %s)%s", lstr(l.typ), lstr(l.method), llist(l.writes), sep)
	}
	w("]")
	w("")
	w("/-- (type, method, methods it calls on its own receiver) -/")
	w("def selfCalls : List (String × String × List String) := [")
	for i, l := range lfs {
		sep := ","
		if i == len(lfs)-1 {
			sep = ""
		}
		w("  (%s, %s, %s)%s", lstr(l.typ), lstr(l.method), llist(l.self), sep)
	}
	w("]")
	w("")
	// every call of SequentialIDGenerator.Reuse: "Type.method:receiver expression"
	var reuse []string
	for _, l := range lfs {
		for _, c := range l.calls {
			if strings.HasSuffix(c, ".Reuse") {
				reuse = append(reuse, l.typ+"."+l.method+":"+c)
			}
		}
	}
	for _, s2 := range sk {
		if strings.Contains(s2[1], ".Reuse") {
			reuse = append(reuse, s2[0]+":skeleton")
		}
	}
	w("def reuseSites : List String := %s", llist(reuse))

	// http/auth.go: the calls of each function, in order (closures included)
	w("def authCalls : List (String × String) := [")
	var ac [][2]string
	for _, d := range authF.Decls {
		if fd, ok := d.(*ast.FuncDecl); ok && fd.Body != nil {
			ac = append(ac, [2]string{fd.Name.Name, strings.Join(callsIn(fd.Body), " ; ")})
		}
	}
	for i, a := range ac {
		sep := ","
		if i == len(ac)-1 {
			sep = ""
		}
		w("  (%s, %s)%s", lstr(a[0]), lstr(a[1]), sep)
	}
	w("]")
	// cmd/main.go: which routes are wrapped by the auth functions
	var mounts []string
	ast.Inspect(mainF, func(n ast.Node) bool {
		ce, ok := n.(*ast.CallExpr)
		if !ok {
			return true
		}
		name := exprString(ce.Fun)
		if (name == "service.Handle" || name == "service.HandleFunc") && len(ce.Args) == 2 {
			route := exprString(ce.Args[0])
			var wraps []string
			ast.Inspect(ce.Args[1], func(x ast.Node) bool {
				if c2, ok := x.(*ast.CallExpr); ok {
					nm := exprString(c2.Fun)
					if strings.HasPrefix(nm, "hagallhttp.Verify") {
						wraps = append(wraps, nm)
					}
				}
				if kv, ok := x.(*ast.KeyValueExpr); ok {
					if k, ok := kv.Key.(*ast.Ident); ok && k.Name == "Handshake" {
						wraps = append(wraps, "Handshake="+exprString(kv.Value))
					}
				}
				return true
			})
			mounts = append(mounts, route+" <- "+strings.Join(wraps, ","))
		}
		return true
	})
	w("def routeMounts : List String := %s", llist(mounts))

	// one definition per function, so that an obligation can name exactly the functions a property rests on
	ident := func(s string) string {
		return strings.NewReplacer(".", "_", "*", "", "(", "", ")", "").Replace(s)
	}
	w("")
	for _, s := range sk {
		w("def skel_%s : String := %s", ident(s[0]), lstr(s[1]))
		// the same as a list, for the theorems that compute on the order of the calls
		var calls []string
		if s[1] != "" {
			calls = strings.Split(s[1], " ; ")
		}
		w("def calls_in_%s : List String := %s", ident(s[0]), llist(calls))
	}
	for _, d := range dfs {
		w("def defers_%s : String := %s", ident(d[0]), lstr(d[1]))
	}
	for _, d := range cs {
		w("def sends_%s : String := %s", ident(d[0]), lstr(d[1]))
	}
	seenLF := map[string]bool{}
	for _, l := range lfs {
		name := ident(l.typ + "_" + l.method)
		if seenLF[name] {
			continue
		}
		seenLF[name] = true
		w("def locks_%s : List String := %s", name, llist(l.ops))
		w("def fields_%s : List String := %s", name, llist(l.fields))
		w("def writes_%s : List String := %s", name, llist(l.writes))
		w("def calls_%s : List String := %s", name, llist(l.calls))
	}
	w("")
	w("end %s", *ns)

	if *outPath == "" {
		fmt.Print(b.String())
		return
	}
	if err := os.WriteFile(*outPath, []byte(b.String()), 0o644); err != nil {
		fmt.Fprintln(os.Stderr, err)
		os.Exit(1)
	}
}
