// Package vsync stands in for package sync in the files of the repository that declare mutexes when the L1 harness is
// built (bin/build-go rewrites their import at build time, in a copy: nothing in the repository changes).  Outside a
// controlled block (Active == nil) every operation is the real one.  Inside, the harness's scheduler decides, at
// every Lock / RLock, which of the concurrently running requests moves next.
package vsync

import "sync"

// Scheduler is implemented by the harness.
type Scheduler interface {
	// Acquire is called by the running task before it takes m; it returns when the scheduler has granted the lock.
	Acquire(m *RWMutex, write bool)
	// Release is called when the running task releases m.
	Release(m *RWMutex, write bool)
}

// Active is set by the harness for the duration of a controlled block; only one task runs at a time then.
var Active Scheduler

type (
	Once      = sync.Once
	WaitGroup = sync.WaitGroup
)

// RWMutex mirrors sync.RWMutex; W, R and PendingW are its state under the controlled scheduler.
type RWMutex struct {
	real     sync.RWMutex
	W        bool
	R        int
	PendingW int
}

func (m *RWMutex) Lock() {
	if a := Active; a != nil {
		a.Acquire(m, true)
		return
	}
	m.real.Lock()
}

func (m *RWMutex) Unlock() {
	if a := Active; a != nil {
		a.Release(m, true)
		return
	}
	m.real.Unlock()
}

func (m *RWMutex) RLock() {
	if a := Active; a != nil {
		a.Acquire(m, false)
		return
	}
	m.real.RLock()
}

func (m *RWMutex) RUnlock() {
	if a := Active; a != nil {
		a.Release(m, false)
		return
	}
	m.real.RUnlock()
}

// Mutex mirrors sync.Mutex.
type Mutex struct{ rw RWMutex }

func (m *Mutex) Lock()   { m.rw.Lock() }
func (m *Mutex) Unlock() { m.rw.Unlock() }

// Raw exposes the underlying RWMutex (for the scheduler's bookkeeping).
func (m *Mutex) Raw() *RWMutex { return &m.rw }
