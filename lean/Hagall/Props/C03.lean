/-
  C03 - sessions are isolated.

  * `C03_handle_within`: whatever a joined connection sends, everything delivered goes to that connection
    or to participants of its own session, and the outcome is computed from that session alone
    (`Session.handle` does not see the rest of the server: `C03_local`).
  * `C03_not_joined`: a connection that is in no session changes nothing and reaches nobody but itself,
    except by joining.
  * `C03_event_frame`: for every event of every reachable server state, a session that the acting
    connection is not in before the event and has not asked to join stays in the registry exactly as it was
    - same participants, entities, components, module state, counters - and none of its participants
    receives anything.  Ids that coincide across sessions do not matter: every lookup starts from the
    actor's own session record.
  * `C03_history_frame`: hence over any history, a session all of whose events come from outsiders that
    never name it is unchanged and silent.

  Frame plus locality are the unwinding conditions of noninterference.  The end-to-end form ("the members'
  message streams are the same with all other sessions' traffic removed") is additionally measured on the real
  server by re-running histories with the outsiders' events removed (bin/extras.py, noninterference).
-/
import Hagall.Proofs.DataInv
import Hagall.Proofs.Invariant
import Hagall.Props.C06
namespace Hagall

/-- every delivery of `ds` is addressed to a connection in `L` -/
def Tgt (L : List Nat) (ds : List Delivery) : Prop := ∀ d ∈ ds, d.1 ∈ L

theorem Tgt.nil {L : List Nat} : Tgt L [] := by intro d h; cases h
theorem Tgt.cons {L : List Nat} {c : Nat} {m : Out} {ds : List Delivery} (hc : c ∈ L) (h : Tgt L ds) : Tgt L ((c, m) :: ds) := by
  intro d hd
  rcases List.mem_cons.mp hd with rfl | hd
  · exact hc
  · exact h d hd
theorem Tgt.append {L : List Nat} {a b : List Delivery} (ha : Tgt L a) (hb : Tgt L b) : Tgt L (a ++ b) := by
  intro d hd
  rcases List.mem_append.mp hd with h | h
  · exact ha d h
  · exact hb d h
theorem Tgt.gate {L : List Nat} {cfg : Cfg} {f : String} {ds : List Delivery} (h : Tgt L ds) : Tgt L (gate cfg f ds) := by
  unfold Hagall.gate; split
  · exact Tgt.nil
  · exact h
theorem Tgt.bcast {c : Nat} {parts : List Part} {t : Session} (ht : t.parts = parts) (a : Nat) (m : Out) :
    Tgt (c :: parts.map (·.conn)) (t.bcast a m) := by
  intro d hd
  obtain ⟨_, q, hq, _, hdq⟩ := Session.mem_bcast hd
  exact List.mem_cons_of_mem _ (List.mem_map.mpr ⟨q, ht ▸ hq, hdq.symm⟩)
theorem Tgt.bcastTo {c : Nat} {parts : List Part} {t : Session} (ht : t.parts = parts) (a : Nat) (m : Out) (pids : List Nat) :
    Tgt (c :: parts.map (·.conn)) (t.bcastTo a m pids) := by
  intro d hd
  obtain ⟨_, q, hq, _, _, hdq⟩ := Session.mem_bcastTo hd
  exact List.mem_cons_of_mem _ (List.mem_map.mpr ⟨q, ht ▸ hq, hdq.symm⟩)
theorem Tgt.mono {L L' : List Nat} {ds : List Delivery} (h : Tgt L ds) (hs : ∀ x ∈ L, x ∈ L') : Tgt L' ds :=
  fun d hd => hs _ (h d hd)

theorem Tgt.abandoned {L : List Nat} (s : Session) (p : Part) (hc : p.conn ∈ L) : Tgt L (s.abandoned p) := by
  unfold Session.abandoned
  split
  · exact Tgt.cons hc Tgt.nil
  · exact Tgt.nil

/-- close a goal `Tgt (c :: parts.map conn) ds` where `ds` is built from answers to `c`, gates, broadcasts -/
macro "tgt" : tactic =>
  `(tactic| repeat (first
      | exact Tgt.nil
      | exact Tgt.abandoned _ _ (List.mem_cons_self ..)
      | exact Tgt.bcast rfl _ _
      | exact Tgt.bcastTo rfl _ _ _
      | apply Tgt.cons (List.mem_cons_self ..)
      | apply Tgt.append
      | apply Tgt.gate
      | split))

theorem core_tgt (cfg : Cfg) (s : Session) (p : Part) (r : Req) (hint : Nat) :
    Tgt (p.conn :: s.parts.map (·.conn)) (s.core cfg p r hint).2.1 := by
  unfold Session.core
  cases r <;> simp only [] <;> (try unfold_core) <;> (try simp only [Lat.sendPing]) <;> tgt

theorem vikja_tgt (s : Session) (p : Part) (r : Req) : Tgt (p.conn :: s.parts.map (·.conn)) (s.vikja p r).2.1 := by
  unfold Session.vikja
  cases r <;> simp only [] <;> tgt
  all_goals first
    | exact Tgt.bcast (Session.setAction_parts ..) _ _
    | (dsimp only; tgt)

theorem odal_tgt (s : Session) (p : Part) (r : Req) : Tgt (p.conn :: s.parts.map (·.conn)) (s.odal p r).2.1 := by
  unfold Session.odal
  cases r <;> simp only [] <;> tgt
  all_goals first
    | exact Tgt.bcast (by rw [Session.setAsset_parts]) _ _
    | (dsimp only; tgt)

theorem dagaz_tgt (s : Session) (p : Part) (r : Req) : Tgt (p.conn :: s.parts.map (·.conn)) (s.dagaz p r).2.1 := by
  unfold Session.dagaz
  cases r <;> simp only [] <;> tgt
  all_goals (dsimp only; tgt)

/-- a handler result that keeps the member list `P` and addresses only `c` and the members -/
def Res.Inside (c : Nat) (P : List Part) (r : Res) : Prop := r.1.parts = P ∧ Tgt (c :: P.map (·.conn)) r.2.1

theorem Res.andThen_inside {c : Nat} {P : List Part} {r : Res} {f : Session → Res}
    (hr : r.Inside c P) (hf : ∀ t : Session, t.parts = P → (f t).Inside c P) : (Res.andThen r f).Inside c P := by
  obtain ⟨t, ds, o⟩ := r
  cases o
  · rw [Res.andThen_ok]
    have := hf t hr.1
    exact ⟨this.1, Tgt.append hr.2 this.2⟩
  · exact hr
  · exact hr

/-- **C03, inside the session.** Whatever a participant sends, the session keeps its member list and everything
    delivered is addressed to the sender or to a member of the sender's session. -/
theorem C03_handle_within (cfg : Cfg) (s : Session) (p : Part) (r : Req) (hint : Nat) :
    (s.handle cfg p r hint).1.parts = s.parts ∧ Tgt (p.conn :: s.parts.map (·.conn)) (s.handle cfg p r hint).2.1 := by
  have inside : ∀ (g : Session → Res), (∀ t : Session, (g t).1.parts = t.parts ∧ Tgt (p.conn :: t.parts.map (·.conn)) (g t).2.1) →
      ∀ t : Session, t.parts = s.parts → (g t).Inside p.conn s.parts := by
    intro g hg t ht
    have := hg t
    rw [ht] at this
    exact this
  unfold Session.handle Session.modules
  apply Res.andThen_inside (P := s.parts)
  · exact ⟨(Session.core_sameMembers cfg p r hint s).2.2.2, core_tgt cfg s p r hint⟩
  · intro t ht
    apply Res.andThen_inside
    · apply Res.andThen_inside
      · apply Res.andThen_inside
        · exact ⟨ht, Tgt.nil⟩
        · intro u hu; split
          · exact inside (fun x => x.vikja p r) (fun x => ⟨(Session.vikja_sameMembers p r x).2.2.2, vikja_tgt x p r⟩) u hu
          · exact ⟨hu, Tgt.nil⟩
      · intro u hu; split
        · exact inside (fun x => x.odal p r) (fun x => ⟨(Session.odal_sameMembers p r x).2.2.2, odal_tgt x p r⟩) u hu
        · exact ⟨hu, Tgt.nil⟩
    · intro u hu; split
      · exact inside (fun x => x.dagaz p r) (fun x => ⟨(Session.dagaz_sameMembers p r x).2.2.2, dagaz_tgt x p r⟩) u hu
      · exact ⟨hu, Tgt.nil⟩

/-- a departure addresses only the members of the session that is left -/
theorem leave_tgt (cfg : Cfg) (s : Session) (pid : Nat) : Tgt (s.parts.map (·.conn)) (s.leave cfg pid).2 := by
  rw [Props.C06.leave_deliveries]
  apply Tgt.append
  · intro d hd
    obtain ⟨eid, _, hd⟩ := List.mem_flatMap.mp hd
    have : Tgt (0 :: s.parts.map (·.conn)) (gate cfg fEntityDelete (s.bcast pid (.entityDeleteBcast none eid))) :=
      Tgt.gate (Tgt.bcast rfl _ _)
    unfold Hagall.gate at hd
    split at hd
    · cases hd
    · obtain ⟨_, q, hq, _, hdq⟩ := Session.mem_bcast hd
      exact List.mem_map.mpr ⟨q, hq, hdq.symm⟩
  · apply Tgt.gate
    intro d hd
    obtain ⟨q, hq, rfl⟩ := List.mem_map.mp hd
    exact List.mem_map.mpr ⟨q, (List.mem_filter.mp hq).1, rfl⟩

/-! ### the server: other sessions are out of reach -/

/-- `x` is left exactly as it is and none of its participants is addressed -/
def Untouched (x : Session) (srv' : Server) (ds : List Delivery) : Prop :=
  x ∈ srv'.sessions ∧ ∀ d ∈ ds, d.1 ∉ x.parts.map (·.conn)

theorem setSession_other {srv : Server} {s' x : Session} (hx : x ∈ srv.sessions) (hne : x.id ≠ s'.id) :
    x ∈ (srv.setSession s').sessions := by
  simp only [Server.setSession, List.mem_map]
  refine ⟨x, hx, ?_⟩
  have : (x.id == s'.id) = false := by simpa using hne
  simp [this]

/-- participants of different registered sessions have different connections -/
theorem disjoint_conns {srv : Server} (h : srv.WF) {x y : Session} (hx : x ∈ srv.sessions) (hy : y ∈ srv.sessions)
    (hne : x.id ≠ y.id) : ∀ q ∈ y.parts, q.conn ∉ x.parts.map (·.conn) := by
  intro q hq hmem
  obtain ⟨q', hq', hc⟩ := List.mem_map.mp hmem
  exact hne (h.conn_unique x hx y hy q' hq' q hq hc)

theorem not_member_of_located {srv : Server} (h : srv.WF) {c : Nat} {s : Session} {p : Part}
    (hl : srv.locate c = some (s, p)) {x : Session} (hx : x ∈ srv.sessions) (hne : x.id ≠ s.id) :
    c ∉ x.parts.map (·.conn) := by
  obtain ⟨hs, hp, hpc⟩ := Server.locate_some hl
  have := disjoint_conns h hx hs hne p hp
  rwa [hpc] at this

theorem not_member_of_unlocated {srv : Server} {c : Nat} (hl : srv.locate c = none) {x : Session} (hx : x ∈ srv.sessions) :
    c ∉ x.parts.map (·.conn) := by
  intro hmem
  obtain ⟨q, hq, hc⟩ := List.mem_map.mp hmem
  exact Server.locate_none hl x hx q hq hc

theorem untouched_of_tgt {x : Session} {srv' : Server} {ds : List Delivery} {L : List Nat}
    (hx : x ∈ srv'.sessions) (ht : Tgt L ds) (hL : ∀ a ∈ L, a ∉ x.parts.map (·.conn)) : Untouched x srv' ds :=
  ⟨hx, fun d hd => hL _ (ht d hd)⟩

/-- a departure leaves every other session alone -/
theorem leave_frame_other (cfg : Cfg) {srv : Server} (h : srv.WF) {s : Session} {p : Part} (hs : s ∈ srv.sessions)
    {x : Session} (hx : x ∈ srv.sessions) (hne : x.id ≠ s.id) :
    Untouched x (srv.leave cfg s p).1 (srv.leave cfg s p).2 := by
  have hds : Tgt (s.parts.map (·.conn)) (srv.leave cfg s p).2 := by
    unfold Server.leave; simp only []; split <;> exact leave_tgt cfg s p.pid
  refine untouched_of_tgt ?_ hds ?_
  · unfold Server.leave
    simp only []
    split
    · simp only [List.mem_filter]; exact ⟨hx, by simpa using hne⟩
    · exact setSession_other hx (by rw [(Session.leave_frame cfg s p.pid).1]; exact hne)
  · intro a ha
    obtain ⟨q, hq, rfl⟩ := List.mem_map.mp ha
    exact disjoint_conns h hx hs hne q hq

theorem joinDeliveries_tgt (cfg : Cfg) (s : Session) (p : Part) (rid ots : Nat) :
    Tgt (p.conn :: s.parts.map (·.conn)) (joinDeliveries cfg s p rid ots) := by
  unfold joinDeliveries
  tgt

/-- joining (after any previous session was left) concerns only the session that is named -/
theorem joinFresh_frame_other (cfg : Cfg) {srv : Server} (h : srv.WF) (c rid ots : Nat) (t : JoinTarget) (hint : Nat)
    {x : Session} (hx : x ∈ srv.sessions) (hnamed : t ≠ .id x.id) (hc : c ∉ x.parts.map (·.conn)) :
    Untouched x (srv.joinFresh cfg c rid ots t hint).1 (srv.joinFresh cfg c rid ots t hint).2.1 := by
  unfold Server.joinFresh
  cases t with
  | bogus => exact untouched_of_tgt hx (L := [c]) (Tgt.cons (List.mem_cons_self ..) Tgt.nil) (by simpa using hc)
  | id n =>
    simp only []
    cases hf : srv.findSession n with
    | none => exact untouched_of_tgt hx (L := [c]) (Tgt.cons (List.mem_cons_self ..) Tgt.nil) (by simpa using hc)
    | some s =>
      obtain ⟨hs, hid⟩ := Server.findSession_some hf
      have hne : x.id ≠ s.id := by intro he; apply hnamed; rw [he, hid]
      simp only [Session.addPart]
      refine untouched_of_tgt (setSession_other hx (by simpa using hne)) (joinDeliveries_tgt cfg _ _ rid ots) ?_
      intro a ha
      simp only [List.map_append, List.map_cons, List.map_nil, List.mem_cons, List.mem_append, List.mem_singleton,
        List.not_mem_nil, or_false] at ha
      rcases ha with rfl | ha | rfl
      · exact hc
      · obtain ⟨q, hq, rfl⟩ := List.mem_map.mp ha
        exact disjoint_conns h hx hs hne q hq
      · exact hc
  | new =>
    simp only [Session.addPart]
    refine untouched_of_tgt (by simp [hx]) (joinDeliveries_tgt cfg _ _ rid ots) ?_
    intro a ha
    simp at ha
    rcases ha with rfl | rfl <;> exact hc

theorem located_frame (cfg : Cfg) {srv : Server} (h : srv.WF) (hint : Nat) {c : Nat} {s : Session} {p : Part}
    (hl : srv.locate c = some (s, p)) {x : Session} (hx : x ∈ srv.sessions) (hne : x.id ≠ s.id)
    (hcx : c ∉ x.parts.map (·.conn)) (r : Req) :
    Untouched x (srv.setSession (s.handle cfg p r hint).1) (s.handle cfg p r hint).2.1 := by
  obtain ⟨hs, hp, hpc⟩ := Server.locate_some hl
  have hw := C03_handle_within cfg s p r hint
  have hid := (Session.handle_sameMembers cfg s p r hint).1
  refine untouched_of_tgt (setSession_other hx (by rw [hid]; exact hne)) hw.2 ?_
  intro a ha
  rcases List.mem_cons.mp ha with rfl | ha
  · rw [hpc]; exact hcx
  · obtain ⟨q, hq, rfl⟩ := List.mem_map.mp ha
    exact disjoint_conns h hx hs hne q hq

/-- does the request of connection `c` concern the session with id `sid`?  Only if `c` is in it, or asks to
    join it by its id. -/
def concerns (srv : Server) (c : Nat) (r : Req) (sid : Nat) : Prop :=
  (∃ s p, srv.locate c = some (s, p) ∧ s.id = sid) ∨ (∃ rid ots, r = .join rid ots (.id sid))

/-- **C03, frame of one request.** -/
theorem C03_request_frame (cfg : Cfg) {srv : Server} (h : srv.WF) (c : Nat) (r : Req) (hint : Nat)
    {x : Session} (hx : x ∈ srv.sessions) (hn : ¬ concerns srv c r x.id) :
    Untouched x (srv.handleReq cfg c r hint).1 (srv.handleReq cfg c r hint).2.1 := by
  have hcx : c ∉ x.parts.map (·.conn) := by
    cases hl : srv.locate c with
    | none => exact not_member_of_unlocated hl hx
    | some sp =>
      obtain ⟨s, p⟩ := sp
      exact not_member_of_located h hl hx (fun he => hn (Or.inl ⟨s, p, hl, he.symm⟩))
  have self_only : ∀ m : Out, Untouched x srv [(c, m)] :=
    fun m => untouched_of_tgt hx (L := [c]) (Tgt.cons (List.mem_cons_self ..) Tgt.nil) (by simpa using hcx)
  have hjoin : ∀ rid ots t, r = .join rid ots t → Untouched x (srv.join cfg c rid ots t hint).1 (srv.join cfg c rid ots t hint).2.1 := by
    intro rid ots t hr
    have hnamed : t ≠ .id x.id := fun ht => hn (Or.inr ⟨rid, ots, by rw [hr, ht]⟩)
    unfold Server.join
    cases hl : srv.locate c with
    | none => exact joinFresh_frame_other cfg h c rid ots t hint hx hnamed hcx
    | some sp =>
      obtain ⟨s, p⟩ := sp
      obtain ⟨hs, hp, hpc⟩ := Server.locate_some hl
      have hne : x.id ≠ s.id := fun he => hn (Or.inl ⟨s, p, hl, he.symm⟩)
      have toC : ∀ ds : List Delivery, Tgt [c] ds → Untouched x srv ds :=
        fun ds hds => untouched_of_tgt hx hds (by simpa using hcx)
      simp only []
      split
      · apply toC
        apply Tgt.cons (List.mem_cons_self ..)
        apply Tgt.append <;> (split <;> first | exact Tgt.nil | exact Tgt.cons (List.mem_cons_self ..) Tgt.nil)
      · split
        · apply toC
          apply Tgt.cons (List.mem_cons_self ..)
          apply Tgt.append <;> (split <;> first | exact Tgt.nil | exact Tgt.cons (List.mem_cons_self ..) Tgt.nil)
        · -- leave, then join
          have h1 := leave_frame_other cfg h hs hx hne (p := p)
          have hw1 := Server.leave_WF cfg h hs (p := p)
          have hc1 : c ∉ x.parts.map (·.conn) := hcx
          have h2 := joinFresh_frame_other cfg hw1 c rid ots t hint h1.1 hnamed hc1
          simp only []
          refine ⟨h2.1, ?_⟩
          intro d hd
          rcases List.mem_append.mp hd with hd | hd
          · rcases List.mem_append.mp hd with hd | hd
            · -- the answer to a measurement given up goes to the requester, who is not in `x`
              have hto : d.1 = c := by
                have := Tgt.abandoned (L := [p.conn]) s p (List.mem_cons_self ..) d hd
                simpa [hpc] using this
              exact (toC [d] (by intro d' hd'; simp at hd'; subst hd'; simp [hto])).2 d (List.mem_cons_self ..)
            · exact h1.2 d hd
          · exact h2.2 d hd
  cases r <;> try (simp only [Server.handleReq])
  case join rid ots t => exact hjoin rid ots t rfl
  case ping rid => exact self_only _
  case receipt rid a b d =>
    unfold Server.handleReceipt
    split
    · exact self_only _
    · split
      · exact ⟨hx, (self_only (.receiptResp rid)).2⟩
      · exact self_only _
  all_goals
    cases hl : srv.locate c with
    | none =>
      simp only []
      refine untouched_of_tgt hx (L := [c]) ?_ (by simpa using hcx)
      simp only [notJoined]
      tgt
    | some sp =>
      obtain ⟨s, p⟩ := sp
      obtain ⟨hs, hp, hpc⟩ := Server.locate_some hl
      have hne : x.id ≠ s.id := fun he => hn (Or.inl ⟨s, p, hl, he.symm⟩)
      simp only []
      exact located_frame cfg h hint hl hx hne hcx _

/-! ### events and histories -/

theorem not_concerns_of_outsider {srv : Server} (h : srv.WF) {c : Nat} {r : Req} {x : Session} (hx : x ∈ srv.sessions)
    (hcx : c ∉ x.parts.map (·.conn)) (hr : ∀ rid ots, r ≠ .join rid ots (.id x.id)) : ¬ concerns srv c r x.id := by
  rintro (⟨s, p, hl, hid⟩ | ⟨rid, ots, rfl⟩)
  · obtain ⟨hs, hp, hpc⟩ := Server.locate_some hl
    have : s = x := id_inj h.ids_nodup hs hx hid
    subst this
    exact hcx (List.mem_map.mpr ⟨p, hp, hpc⟩)
  · exact hr rid ots rfl

theorem disconnect_frame (cfg : Cfg) {srv : Server} (h : srv.WF) (c : Nat) {x : Session} (hx : x ∈ srv.sessions)
    (hcx : c ∉ x.parts.map (·.conn)) : Untouched x (srv.disconnect cfg c).1 (srv.disconnect cfg c).2 := by
  unfold Server.disconnect
  cases hl : srv.locate c with
  | none => exact ⟨hx, fun d hd => by cases hd⟩
  | some sp =>
    obtain ⟨s, p⟩ := sp
    obtain ⟨hs, hp, hpc⟩ := Server.locate_some hl
    have hne : x.id ≠ s.id := by
      intro he
      have : x = s := id_inj h.ids_nodup hx hs he
      subst this
      exact hcx (List.mem_map.mpr ⟨p, hp, hpc⟩)
    exact leave_frame_other cfg h hs hx hne

/-- **C03, frame of one event.**  In a well-formed server (every reachable one is, `run_WF`), an event of a
    connection that is not a participant of session `x`, and that does not consume a request to join `x` by its
    id, leaves `x` registered exactly as it was and delivers nothing to any participant of `x`.  Events without
    an acting connection (frame ticks, the receipt consumer, a new connection) never do. -/
theorem C03_event_frame (cfg : Cfg) {srv : Server} (h : srv.WF) (ev : Event) {x : Session} (hx : x ∈ srv.sessions)
    (hout : ∀ c, (ev = .disconnect c ∨ (∃ r, ev = .recv c r) ∨ (∃ pick hint, ev = .handle c pick hint)) →
              c ∉ x.parts.map (·.conn))
    (hjoin : ∀ c pick hint k r k', ev = .handle c pick hint → srv.findConn c = some k → k.pop pick = some (r, k') →
              ∀ rid ots, r ≠ .join rid ots (.id x.id)) :
    Untouched x (step cfg srv ev).1 (step cfg srv ev).2.1 := by
  have quiet : Untouched x srv [] := ⟨hx, fun d hd => by cases hd⟩
  cases ev with
  | connect c => simp only [step]; split <;> exact ⟨by simpa using hx, fun d hd => by cases hd⟩
  | drain => exact ⟨hx, fun d hd => by cases hd⟩
  | tick sid => simp only [step]; split <;> exact ⟨by simpa using hx, fun d hd => by cases hd⟩
  | disconnect c =>
    simp only [step]
    exact disconnect_frame cfg h c hx (hout c (Or.inl rfl))
  | recv c r =>
    have hcx := hout c (Or.inr (Or.inl ⟨r, rfl⟩))
    simp only [step]
    split
    · exact quiet
    · rename_i k _
      have hb : (srv.beforeDispatch k r).1.WF := Server.beforeDispatch_WF h k r
      have hx' : x ∈ (srv.beforeDispatch k r).1.sessions := by simpa using hx
      split
      · exact ⟨by simpa [Server.setConn] using hx, fun d hd => by cases hd⟩
      · exact disconnect_frame cfg hb c hx' hcx
  | handle c pick hint =>
    have hcx := hout c (Or.inr (Or.inr ⟨pick, hint, rfl⟩))
    simp only [step]
    cases hf : srv.findConn c with
    | none => exact quiet
    | some k =>
      simp only []
      cases hp : k.pop pick with
      | none => exact quiet
      | some rk =>
        obtain ⟨r, k'⟩ := rk
        simp only []
        have hw1 : (srv.setConn k').WF := Server.WF_of_sessions_eq h rfl rfl rfl rfl
        have hx1 : x ∈ (srv.setConn k').sessions := hx
        have hnc := not_concerns_of_outsider hw1 hx1 hcx (hjoin c pick hint k r k' rfl hf hp)
        have hreq := C03_request_frame cfg hw1 c r hint hx1 hnc
        have hw2 := Server.handleReq_WF cfg hw1 c r hint
        rcases hh : (srv.setConn k').handleReq cfg c r hint with ⟨srv', ds, o⟩
        rw [hh] at hreq hw2
        simp only [] at hreq hw2 ⊢
        cases o with
        | ok => exact hreq
        | connError =>
          simp only []
          have hd := disconnect_frame cfg hw2 c hreq.1 hcx
          refine ⟨hd.1, ?_⟩
          intro d hdm
          rcases List.mem_append.mp hdm with hdm | hdm
          · exact hreq.2 d hdm
          · exact hd.2 d hdm
        | panic site => exact ⟨by simpa using hreq.1, hreq.2⟩

/-- **C03, over a history.**  If every event of a history, at the moment it happens, comes from outside `x`
    and is not a request to join `x` (`outside` says so for the state the event meets), then at the end `x` is
    registered exactly as it was and nothing was ever delivered to one of its participants. -/
theorem C03_history_frame (cfg : Cfg) (x : Session) : ∀ (es : List Event) (srv : Server), srv.WF → x ∈ srv.sessions →
    (∀ (pre : List Event) (ev : Event) (post : List Event), es = pre ++ ev :: post →
        let cur := (run cfg srv pre).1
        (∀ c, (ev = .disconnect c ∨ (∃ r, ev = .recv c r) ∨ (∃ pick hint, ev = .handle c pick hint)) → c ∉ x.parts.map (·.conn)) ∧
        (∀ c pick hint k r k', ev = .handle c pick hint → cur.findConn c = some k → k.pop pick = some (r, k') →
            ∀ rid ots, r ≠ .join rid ots (.id x.id))) →
    Untouched x (run cfg srv es).1 (run cfg srv es).2 := by
  intro es
  induction es with
  | nil => intro srv _ hx _; exact ⟨hx, fun d hd => by cases hd⟩
  | cons e es ih =>
    intro srv hw hx hall
    have h0 := hall [] e es rfl
    simp only [run] at h0
    have hstep := C03_event_frame cfg hw e hx h0.1 h0.2
    have hw' := step_WF cfg hw e
    simp only [run]
    rcases hs : step cfg srv e with ⟨srv', ds, o⟩
    rw [hs] at hstep hw'
    simp only [] at hstep hw'
    have hrest := ih srv' hw' hstep.1 (by
      intro pre ev post hsplit
      have := hall (e :: pre) ev post (by rw [hsplit]; rfl)
      simp only [run, hs] at this
      rcases hr : run cfg srv' pre with ⟨a, b⟩
      rw [hr] at this
      simpa [hr] using this)
    rcases hr : run cfg srv' es with ⟨srv'', ds'⟩
    rw [hr] at hrest
    refine ⟨hrest.1, ?_⟩
    intro d hd
    rcases List.mem_append.mp hd with hd | hd
    · exact hstep.2 d hd
    · exact hrest.2 d hd

/-- **C03, locality.**  What a participant's request does is a function of its own session record alone: two
    servers that hold the same session for the connection produce the same deliveries and the same new session,
    whatever other sessions either of them holds. -/
theorem C03_local (cfg : Cfg) (srv1 srv2 : Server) (c : Nat) (s : Session) (p : Part) (r : Req) (hint : Nat)
    (h1 : srv1.locate c = some (s, p)) (h2 : srv2.locate c = some (s, p))
    (hr : ∀ rid ots t, r ≠ .join rid ots t) (hrc : ∀ rid a b d, r ≠ .receipt rid a b d) (hp : ∀ rid, r ≠ .ping rid) :
    (srv1.handleReq cfg c r hint).2 = (srv2.handleReq cfg c r hint).2 ∧
    (srv1.handleReq cfg c r hint).2 = (s.handle cfg p r hint).2 ∧
    (srv1.handleReq cfg c r hint).1.sessions = (srv1.setSession (s.handle cfg p r hint).1).sessions ∧
    (srv2.handleReq cfg c r hint).1.sessions = (srv2.setSession (s.handle cfg p r hint).1).sessions := by
  cases r
  case join rid ots t => exact absurd rfl (hr rid ots t)
  case receipt rid a b d => exact absurd rfl (hrc rid a b d)
  case ping rid => exact absurd rfl (hp rid)
  all_goals simp [Server.handleReq, h1, h2]

/-- **C03, outsiders.**  A connection that is in no session reaches nobody but itself and changes no session,
    unless it joins. -/
theorem C03_not_joined (cfg : Cfg) (srv : Server) (c : Nat) (r : Req) (hint : Nat) (hl : srv.locate c = none)
    (hr : ∀ rid ots t, r ≠ .join rid ots t) :
    (srv.handleReq cfg c r hint).1.sessions = srv.sessions ∧ Tgt [c] (srv.handleReq cfg c r hint).2.1 := by
  have one : ∀ m : Out, Tgt [c] [(c, m)] := fun m => Tgt.cons (List.mem_cons_self ..) Tgt.nil
  cases r
  case join rid ots t => exact absurd rfl (hr rid ots t)
  case ping rid => exact ⟨rfl, one _⟩
  case receipt rid a b d =>
    simp only [Server.handleReq]
    unfold Server.handleReceipt
    split
    · exact ⟨rfl, one _⟩
    · split
      · exact ⟨rfl, one _⟩
      · exact ⟨rfl, one _⟩
  all_goals
    simp only [Server.handleReq, hl]
    refine ⟨trivial, ?_⟩
    simp only [notJoined]
    tgt

end Hagall
