/-
  C18 - a signed latency report is bound to its request and self-consistent.
  (i) when a measurement starts; (ii) the round protocol; (iii) the statistics.
  The signature itself (ECDSA over Keccak-256 of the marshalled data) is outside the model: the harness
  verifies it on the implementation with the server's public key.
-/
import Hagall.Model.Latency
import Hagall.Proofs.Frame
namespace Hagall.Props.C18
open Hagall Hagall.Latency

/-! ### statistics -/

theorem minL_le (ls : List Nat) (x : Nat) (hx : x ∈ ls) : minL ls ≤ x := by
  induction ls with
  | nil => cases hx
  | cons y ys ih =>
    cases ys with
    | nil => simp only [List.mem_singleton] at hx; subst hx; simp [minL]
    | cons z zs =>
      simp only [minL]
      rcases List.mem_cons.mp hx with rfl | h
      · exact Nat.min_le_left _ _
      · exact Nat.le_trans (Nat.min_le_right _ _) (ih h)

theorem minL_mem (ls : List Nat) (h : ls ≠ []) : minL ls ∈ ls := by
  induction ls with
  | nil => exact absurd rfl h
  | cons y ys ih =>
    cases ys with
    | nil => simp [minL]
    | cons z zs =>
      simp only [minL]
      have := ih (by simp)
      by_cases hle : y ≤ minL (z :: zs)
      · rw [Nat.min_eq_left hle]; exact List.mem_cons_self ..
      · rw [Nat.min_eq_right (by omega)]; exact List.mem_cons_of_mem _ this

theorem le_maxL (ls : List Nat) (x : Nat) (hx : x ∈ ls) : x ≤ maxL ls := by
  induction ls with
  | nil => cases hx
  | cons y ys ih =>
    simp only [maxL]
    rcases List.mem_cons.mp hx with rfl | h
    · exact Nat.le_max_left _ _
    · exact Nat.le_trans (ih h) (Nat.le_max_right _ _)

theorem sum_ge (ls : List Nat) (m : Nat) (h : ∀ x ∈ ls, m ≤ x) : m * ls.length ≤ sumL ls := by
  induction ls with
  | nil => simp [sumL]
  | cons y ys ih =>
    simp only [sumL, List.length_cons]
    have h1 := h y (List.mem_cons_self ..)
    have h2 := ih (fun x hx => h x (List.mem_cons_of_mem _ hx))
    rw [Nat.mul_succ]; omega

theorem sum_le (ls : List Nat) (m : Nat) (h : ∀ x ∈ ls, x ≤ m) : sumL ls ≤ m * ls.length := by
  induction ls with
  | nil => simp [sumL]
  | cons y ys ih =>
    simp only [sumL, List.length_cons]
    have h1 := h y (List.mem_cons_self ..)
    have h2 := ih (fun x hx => h x (List.mem_cons_of_mem _ hx))
    rw [Nat.mul_succ]; omega

theorem mem_insertSorted (x y : Nat) (l : List Nat) : y ∈ insertSorted x l ↔ y = x ∨ y ∈ l := by
  induction l with
  | nil => simp [insertSorted]
  | cons z zs ih =>
    simp only [insertSorted]
    split
    · simp
    · simp only [List.mem_cons, ih]
      constructor
      · rintro (h | h | h)
        · exact Or.inr (Or.inl h)
        · exact Or.inl h
        · exact Or.inr (Or.inr h)
      · rintro (h | h | h)
        · exact Or.inr (Or.inl h)
        · exact Or.inl h
        · exact Or.inr (Or.inr h)

theorem mem_sortL (y : Nat) (l : List Nat) : y ∈ sortL l ↔ y ∈ l := by
  induction l with
  | nil => simp [sortL]
  | cons z zs ih => simp [sortL, mem_insertSorted, ih]

theorem length_insertSorted (x : Nat) (l : List Nat) : (insertSorted x l).length = l.length + 1 := by
  induction l with
  | nil => rfl
  | cons z zs ih => simp only [insertSorted]; split <;> simp [ih]

theorem length_sortL (l : List Nat) : (sortL l).length = l.length := by
  induction l with
  | nil => rfl
  | cons z zs ih => simp [sortL, length_insertSorted, ih]

/-- **The statistics of a completed measurement are self-consistent**: for every non-empty list of round
    latencies containing the final round's latency, `0 ≤ min ≤ mean ≤ max`, and (for the 3 to 50 rounds a
    measurement can have) `p95` and `last` lie within `[min, max]`. -/
theorem C18_stats_consistent (ls : List Nat) (last : Nat) (hne : ls ≠ []) (hlast : last ∈ ls)
    (hn : 3 ≤ ls.length ∧ ls.length ≤ 50) :
    let st := stats ls last
    st.min ≤ st.mean ∧ st.mean ≤ st.max ∧ st.min ≤ st.p95 ∧ st.p95 ≤ st.max ∧ st.min ≤ st.last ∧ st.last ≤ st.max ∧
    st.last = last := by
  simp only [stats]
  have hlen : 0 < ls.length := by cases ls with | nil => exact absurd rfl hne | cons _ _ => simp
  have hlo := sum_ge ls (minL ls) (fun x hx => minL_le ls x hx)
  have hhi := sum_le ls (maxL ls) (fun x hx => le_maxL ls x hx)
  refine ⟨?_, ?_, ?_, ?_, minL_le ls last hlast, le_maxL ls last hlast, trivial⟩
  · -- min ≤ round(sum/n)
    unfold roundDiv
    rw [Nat.le_div_iff_mul_le (by omega)]
    have : minL ls * (2 * ls.length) = 2 * (minL ls * ls.length) := by
      rw [Nat.mul_comm 2, ← Nat.mul_assoc]; exact Nat.mul_comm _ _
    omega
  · -- round(sum/n) ≤ max
    unfold roundDiv
    have h2 : 2 * sumL ls + ls.length < (maxL ls + 1) * (2 * ls.length) := by
      have : (maxL ls + 1) * (2 * ls.length) = 2 * (maxL ls * ls.length) + 2 * ls.length := by
        rw [Nat.add_mul, Nat.one_mul, Nat.mul_comm 2 ls.length, ← Nat.mul_assoc, Nat.mul_comm _ 2]
      omega
    have := (Nat.div_lt_iff_lt_mul (by omega : 0 < 2 * ls.length)).mpr h2
    omega
  all_goals (
    unfold Latency.p95
    simp only []
    have hidx : ls.length * 95 / 100 < ls.length ∧ ls.length * 95 / 100 > 0 := by omega
    rw [if_pos hidx]
    have hin : (sortL ls).getD (ls.length * 95 / 100 - 1) 0 ∈ ls := by
      rw [← mem_sortL]
      rw [List.getD_eq_getElem?_getD, List.getElem?_eq_getElem (by rw [length_sortL]; omega)]
      simp)
  · exact minL_le ls _ hin
  · exact le_maxL ls _ hin

/-- non-vacuity, including a zero-microsecond round (the case the original `min == 0` sentinel got wrong) -/
example : stats [0, 5, 7] 7 = ⟨0, 7, 4, 5, 7⟩ := by decide

/-! ### when a measurement starts -/

theorem latOf_setLat (s : Session) (pid : Nat) (l : Lat) : (s.setLat pid l).latOf pid = l := by
  unfold Session.latOf Session.setLat
  simp only [List.find?_append]
  have : (s.lats.filter (·.1 != pid)).find? (·.1 == pid) = none := by
    rw [List.find?_eq_none]
    intro x hx
    have := (List.mem_filter.mp hx).2
    simpa using this
  simp [this]

/-- A measurement starts exactly for a joined participant asking for 3 to 50 rounds with a wallet
    address; otherwise the request is refused with BAD_REQUEST and nothing changes
    (a connection that is in no session is refused with UNAUTHORIZED, `notJoined`). -/
theorem C18_start (cfg : Cfg) (s : Session) (p : Part) (rid iter hint : Nat) (wallet : String) :
    (3 ≤ iter ∧ iter ≤ 50 ∧ wallet ≠ "" →
      (s.core cfg p (.signedLatency rid iter wallet) hint).2.1 = s.abandoned p ++ [(p.conn, .pingReq hint)] ∧
      (s.core cfg p (.signedLatency rid iter wallet) hint).1.latOf p.pid =
        { started := true, rid, iter, open_ := [hint], done := [], uuid := s.uuid, wallet }) ∧
    (¬(3 ≤ iter ∧ iter ≤ 50 ∧ wallet ≠ "") →
      s.core cfg p (.signedLatency rid iter wallet) hint = (s, [(p.conn, .error rid ecBadRequest)], .ok)) := by
  constructor
  · rintro ⟨h1, h2, h3⟩
    have hr : (decide (iter < latencyMinIter) || decide (iter > latencyMaxIter)) = false := by
      have a1 : decide (iter < latencyMinIter) = false := decide_eq_false (by unfold latencyMinIter; omega)
      have a2 : decide (iter > latencyMaxIter) = false := decide_eq_false (by unfold latencyMaxIter; omega)
      rw [a1, a2]; rfl
    have hw : (wallet == "") = false := by simpa using h3
    simp only [Session.core, hr, hw, Bool.false_eq_true, if_false, Session.latencyStart, Lat.sendPing,
      List.contains_nil, List.nil_append, true_and, List.filter_nil]
    exact latOf_setLat s p.pid _
  · intro h
    simp only [Session.core]
    by_cases hr : (decide (iter < latencyMinIter) || decide (iter > latencyMaxIter)) = true
    · simp [hr]
    · have hw : (wallet == "") = true := by
        have b1 : ¬ iter < 3 := by
          intro hlt; apply hr; simp [latencyMinIter, hlt]
        have b2 : ¬ iter > 50 := by
          intro hgt; apply hr; simp [latencyMaxIter, hgt]
        by_cases hw : wallet = ""
        · simpa using hw
        · exact absurd ⟨by omega, by omega, hw⟩ h
      simp [hr, hw]

/-- **A measurement that is given up is answered.**  Starting a measurement while another one of the same participant
    is still running answers the request of the one given up with CONFLICT (exactly once: the new measurement takes its
    place); when none is running nothing but the first ping is sent. -/
theorem C18_restart_answers_abandoned (s : Session) (p : Part) :
    ((s.latOf p.pid).started = true ∧ 0 < (s.latOf p.pid).iter → s.abandoned p = [(p.conn, .error (s.latOf p.pid).rid ecConflict)]) ∧
    (¬((s.latOf p.pid).started = true ∧ 0 < (s.latOf p.pid).iter) → s.abandoned p = []) := by
  unfold Session.abandoned
  constructor
  · rintro ⟨h1, h2⟩; simp [h1, h2]
  · intro h
    by_cases h1 : (s.latOf p.pid).started = true
    · have : ¬ 0 < (s.latOf p.pid).iter := fun h2 => h ⟨h1, h2⟩
      simp [h1, this]
    · simp [h1]

end Hagall.Props.C18


namespace Hagall.Props.C18
open Hagall

/-! ### the round protocol -/

/-- the invariant of a measurement of `n` rounds: the ids of all pings issued are pairwise distinct; rounds
    answered plus rounds remaining is `n`; while rounds remain exactly one ping is outstanding, afterwards none -/
structure LatInv (n : Nat) (l : Lat) : Prop where
  ids_nodup : (l.open_ ++ l.done).Nodup
  total : l.iter + l.done.length = n
  outstanding : l.open_.length = if l.iter = 0 then 0 else 1

/-- A started measurement satisfies the invariant for the requested number of rounds, with exactly one
    ping issued. -/
theorem C18_start_inv (s : Session) (p : Part) (rid iter hint : Nat) (wallet : String) (h : 0 < iter) :
    LatInv iter ((s.latencyStart p rid iter wallet hint).1.latOf p.pid) := by
  simp only [Session.latencyStart, Lat.sendPing, List.contains_nil, List.nil_append, List.filter_nil, Bool.false_eq_true, if_false]
  rw [latOf_setLat]
  refine ⟨by simp, by simp, ?_⟩
  have : iter ≠ 0 := by omega
  simp [this]

/-- A ping response whose id is unknown or was already answered is refused with an error and changes
    nothing: it does not advance the measurement. -/
theorem C18_refuse (s : Session) (p : Part) (rid hint : Nat) (h : rid ∉ (s.latOf p.pid).open_) :
    s.onPing p rid hint = (s, [(p.conn, .error rid ecInternal)], .ok) := by
  have : (s.latOf p.pid).open_.contains rid = false := by simpa using h
  simp only [Session.onPing, this, Bool.not_false, if_true]

/-- in particular an id that was answered before is refused -/
theorem C18_refuse_answered (n : Nat) (s : Session) (p : Part) (rid hint : Nat) (hinv : LatInv n (s.latOf p.pid))
    (h : rid ∈ (s.latOf p.pid).done) : s.onPing p rid hint = (s, [(p.conn, .error rid ecInternal)], .ok) := by
  apply C18_refuse
  intro hopen
  have := hinv.ids_nodup
  rw [List.nodup_append] at this
  exact this.2.2 rid hopen rid h rfl

/-- **One round.** Answering the outstanding ping of a measurement that satisfies the invariant either
    issues exactly one new ping (rounds remain) and keeps the invariant, or - when it was the last round -
    ends the measurement with one report that carries the request's id, the session UUID and the wallet,
    `n` as the iteration count, and exactly the `n` distinct ping ids the server issued, each answered once. -/
theorem C18_round (n : Nat) (s : Session) (p : Part) (rid hint : Nat) (hinv : LatInv n (s.latOf p.pid))
    (hopen : rid ∈ (s.latOf p.pid).open_)
    (hfresh : hint ∉ (s.latOf p.pid).open_ ++ (s.latOf p.pid).done) :
    let l := s.latOf p.pid
    let r := s.onPing p rid hint
    (1 < l.iter → r.2.1 = [(p.conn, .pingReq hint)] ∧ LatInv n (r.1.latOf p.pid)) ∧
    (l.iter = 1 → ∃ ids, r.2.1 = [(p.conn, .latencyResp l.rid n ids l.uuid l.wallet)] ∧ ids.Nodup ∧ ids.length = n ∧
        ids = l.done ++ [rid] ∧ (r.1.latOf p.pid).open_ = [] ∧ (r.1.latOf p.pid).iter = 0) := by
  have hc : (s.latOf p.pid).open_.contains rid = true := by simpa using hopen
  have hne : (s.latOf p.pid).iter ≠ 0 := by
    intro h0
    have := hinv.outstanding
    rw [if_pos h0] at this
    have : (s.latOf p.pid).open_ = [] := List.eq_nil_of_length_eq_zero this
    rw [this] at hopen; cases hopen
  have hlen : (s.latOf p.pid).open_.length = 1 := by have := hinv.outstanding; rw [if_neg hne] at this; exact this
  have hopen_eq : (s.latOf p.pid).open_ = [rid] := by
    match hl : (s.latOf p.pid).open_, hlen, hopen with
    | [x], _, hm => simp only [List.mem_singleton] at hm; rw [hm]
  have hfilter : (s.latOf p.pid).open_.filter (· != rid) = [] := by rw [hopen_eq]; simp
  have hnd := hinv.ids_nodup
  rw [hopen_eq] at hnd
  have hrid_done : rid ∉ (s.latOf p.pid).done := by
    intro h; rw [List.nodup_append] at hnd; exact hnd.2.2 rid (by simp) rid h rfl
  have hdone_nd : ((s.latOf p.pid).done ++ [rid]).Nodup := by
    rw [List.nodup_append] at hnd ⊢
    refine ⟨hnd.2.1, by simp, ?_⟩
    intro a ha b hb
    simp only [List.mem_singleton] at hb
    subst hb; intro hab; subst hab; exact hrid_done ha
  have hwrap : wrapDec (s.latOf p.pid).iter = (s.latOf p.pid).iter - 1 := by simp [wrapDec, hne]
  constructor
  · intro hgt
    have hpos : ¬ ((s.latOf p.pid).iter - 1 = 0) := by omega
    have hgt' : (s.latOf p.pid).iter - 1 > 0 := by omega
    simp only [Session.onPing, hc, Bool.not_true, Bool.false_eq_true, if_false, hwrap, hgt', if_true, hfilter, Lat.sendPing,
      List.contains_nil, List.nil_append]
    refine ⟨trivial, ?_⟩
    rw [latOf_setLat]
    have hh : hint ∉ (s.latOf p.pid).done ++ [rid] := by
      intro hm
      apply hfresh
      rw [hopen_eq]
      rcases List.mem_append.mp hm with h | h
      · exact List.mem_append_right _ h
      · exact List.mem_append_left _ h
    have hfd : ((s.latOf p.pid).done ++ [rid]).filter (· != hint) = (s.latOf p.pid).done ++ [rid] := by
      rw [List.filter_eq_self]
      intro a ha
      have : a ≠ hint := fun h => hh (h ▸ ha)
      simpa using this
    refine ⟨?_, ?_, ?_⟩
    · simp only [hfd]
      rw [List.nodup_append]
      refine ⟨by simp, hdone_nd, ?_⟩
      intro a ha b hb
      simp only [List.mem_singleton] at ha
      subst ha; intro hab; subst hab; exact hh hb
    · simp only [hfd, List.length_append, List.length_cons, List.length_nil]
      have := hinv.total; omega
    · simp only [hpos, if_false, List.length_cons, List.length_nil]
  · intro h1
    have hz : ¬ ((s.latOf p.pid).iter - 1 > 0) := by omega
    simp only [Session.onPing, hc, Bool.not_true, Bool.false_eq_true, if_false, hwrap, hz, hfilter, List.nil_append]
    refine ⟨(s.latOf p.pid).done ++ [rid], ?_, hdone_nd, ?_, rfl, ?_, ?_⟩
    · have : ((s.latOf p.pid).done ++ [rid]).length = n := by
        simp only [List.length_append, List.length_cons, List.length_nil]; have := hinv.total; omega
      rw [this]
    · simp only [List.length_append, List.length_cons, List.length_nil]; have := hinv.total; omega
    · rw [latOf_setLat]
    · rw [latOf_setLat]; simp only []; omega

end Hagall.Props.C18
