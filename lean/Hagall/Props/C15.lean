/-
  C15 - only holders of a valid discovery-service token reach the relay or the smoke test.
  Partial: HMAC-SHA-2 is an oracle (`Tok.macOk`); unforgeability is a cryptographic assumption.
-/
import Hagall.Model.Auth
namespace Hagall.Props.C15
open Hagall.Auth

/-- The protected handler runs exactly when the request is admitted; a rejected request leaves the
    protected state untouched. -/
theorem C15_gate {σ : Type} (secretSet : Bool) (c : Carriers Tok) (inner : σ → σ) (st : σ) :
    ((guarded secretSet c inner st).2 = true ↔ admitted secretSet c = true) ∧
    (admitted secretSet c = false → (guarded secretSet c inner st).1 = st) := by
  unfold guarded
  cases h : admitted secretSet c <;> simp

/-- Admission implies: the server holds a secret, a token was presented on some carrier, it is well formed,
    signed with an HMAC algorithm, its MAC verifies against the *current* secret, it is not expired and not
    used before its not-before time (issued-at may lie at most ten seconds ahead). -/
theorem C15_sound (secretSet : Bool) (c : Carriers Tok) (h : admitted secretSet c = true) :
    secretSet = true ∧ ∃ t, extract c = some t ∧ t.wellFormed = true ∧ t.alg ∈ hmacFamily ∧ t.macOk = true ∧
      (∀ d, t.exp = some d → 0 < d) ∧ (∀ d, t.nbf = some d → d ≤ 0) ∧ (∀ d, t.iat = some d → d < 10) ∧
      t.issHDS = true ∧ t.exp.isSome = true := by
  unfold admitted at h
  simp only [Bool.and_eq_true] at h
  obtain ⟨hs, hv⟩ := h
  refine ⟨hs, ?_⟩
  cases he : extract c with
  | none => simp [he] at hv
  | some t =>
    simp only [he] at hv
    unfold verify at hv
    simp only [Bool.and_eq_true] at hv
    obtain ⟨⟨⟨⟨hw, ha⟩, hm⟩, hc⟩, hu⟩ := hv
    unfold userToken at hu
    simp only [Bool.and_eq_true] at hu
    refine ⟨t, rfl, hw, by simpa using ha, hm, ?_, ?_, ?_, hu.1, hu.2⟩
    all_goals (
      intro d hd
      unfold claimsOk at hc
      simp only [hd] at hc
      cases hi : t.iat <;> cases hn : t.nbf <;> cases hx : t.exp <;> simp_all <;> omega)

/-- No token at all, a token while the server holds no secret, an unsigned (`alg: none`) or asymmetric
    algorithm, a wrong MAC, an expired token: each is rejected. -/
theorem C15_rejects (secretSet : Bool) (c : Carriers Tok) :
    (extract c = none → admitted secretSet c = false) ∧
    (secretSet = false → admitted secretSet c = false) ∧
    (∀ t, extract c = some t → t.alg ∉ hmacFamily → admitted secretSet c = false) ∧
    (∀ t, extract c = some t → t.macOk = false → admitted secretSet c = false) ∧
    (∀ t d, extract c = some t → t.exp = some d → d ≤ 0 → admitted secretSet c = false) ∧
    (∀ t, extract c = some t → t.wellFormed = false → admitted secretSet c = false) := by
  refine ⟨?_, ?_, ?_, ?_, ?_, ?_⟩
  · intro h; simp [admitted, h]
  · intro h; simp [admitted, h]
  · intro t h ha
    simp only [admitted, h, verify]
    have : hmacFamily.contains t.alg = false := by simpa using ha
    rw [this]; simp
  · intro t h hm; simp [admitted, h, verify, hm]
  · intro t d h hx hd
    have : claimsOk t = false := by
      unfold claimsOk
      have : decide (d ≤ 0) = true := by simpa using hd
      simp [hx, this]
    simp [admitted, h, verify, this]
  · intro t h hw; simp [admitted, h, verify, hw]

/-- **The server's own identity token is not an access token (F41).**  A token that does not name the discovery service
    as its issuer, or that never expires, is rejected whatever its signature: the identity the server signs with the
    same secret and returns to a health request carries an endpoint and nothing else. -/
theorem C15_identity_token_rejected (secretSet : Bool) (c : Carriers Tok) :
    (∀ t, extract c = some t → t.issHDS = false → admitted secretSet c = false) ∧
    (∀ t, extract c = some t → t.exp = none → admitted secretSet c = false) := by
  refine ⟨?_, ?_⟩
  · intro t h hi; simp [admitted, h, verify, userToken, hi]
  · intro t h hx; simp [admitted, h, verify, userToken, hx]

-- such a token with everything else in order: well formed, HS256, the MAC of the current secret, no time claim at all
example : admitted true ⟨some (true, { wellFormed := true, alg := "HS256", macOk := true, exp := none, iat := none, nbf := none, issHDS := false }), none, none⟩ = false := by
  decide
-- and a user token is admitted
example : admitted true ⟨some (true, { wellFormed := true, alg := "HS256", macOk := true, exp := some 3600, iat := some (-5), nbf := none, issHDS := true }), none, none⟩ = true := by
  decide

/-- Carrier precedence: an Authorization header with the exact prefix `Bearer ` wins over the query
    parameter, which wins over the cookie; a header without that prefix is ignored. -/
theorem C15_precedence {α : Type} (h : Option (Bool × α)) (q k : Option α) :
    (∀ t, h = some (true, t) → extract ⟨h, q, k⟩ = some t) ∧
    ((∀ t, h ≠ some (true, t)) → ∀ t, q = some t → extract ⟨h, q, k⟩ = some t) ∧
    ((∀ t, h ≠ some (true, t)) → q = none → extract ⟨h, q, k⟩ = k) := by
  refine ⟨?_, ?_, ?_⟩
  · intro t ht; simp [extract, ht]
  · intro hn t hq
    unfold extract
    cases h with
    | none => simp [hq]
    | some v =>
      obtain ⟨b, x⟩ := v
      cases b
      · simp [hq]
      · exact absurd rfl (hn x)
  · intro hn hq
    unfold extract
    cases h with
    | none => simp [hq]
    | some v =>
      obtain ⟨b, x⟩ := v
      cases b
      · simp [hq]
      · exact absurd rfl (hn x)

/-- non-vacuity: a valid token in the cookie is admitted; the same request is rejected when the header
    carries a stale token, because the header wins -/
example :
    let good : Tok := ⟨true, "HS256", true, some 3600, some (-5), none, true⟩
    let stale : Tok := ⟨true, "HS256", false, some 3600, some (-5), none, true⟩
    admitted true ⟨none, none, some good⟩ = true ∧ admitted true ⟨some (true, stale), none, some good⟩ = false ∧
    admitted false ⟨none, none, some good⟩ = false := by decide

end Hagall.Props.C15
