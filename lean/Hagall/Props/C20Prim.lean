/-
  C20 - the geometric primitives, over exact arithmetic.

  `Model/Vec.lean` defines dot, cross, the plane normal and the overlap test once, for any scalar type.  At
  `Float32` they are the executable model that is compared bit for bit with `modules/dagaz/math.go`; at
  `Int` (exact arithmetic: every float32 is an integer multiple of 2^-149) they satisfy the laws below for
  all vectors.  How far the float32 results are from the exact ones is measured by the Go harness
  (`grid -mode prim`), not proved.
-/
import Hagall.Model.Vec
namespace Hagall.Grid

abbrev VZ := Vec3 Int

theorem C20_dot_comm (a b : VZ) : a.dot b = b.dot a := by
  simp only [Vec3.dot]; grind

theorem C20_cross_perp_left (a b : VZ) : (a.cross b).dot a = 0 := by
  simp only [Vec3.dot, Vec3.cross]; grind

theorem C20_cross_perp_right (a b : VZ) : (a.cross b).dot b = 0 := by
  simp only [Vec3.dot, Vec3.cross]; grind

theorem C20_cross_anticomm (a b : VZ) : a.cross b = (b.cross a).mul (-1) := by
  simp only [Vec3.cross, Vec3.mul, Vec3.mk.injEq]; grind

/-- the normal of a plane depends on its extents only, and for a horizontal plane (no vertical extent) it is
    vertical, pointing up exactly when both half extents have the same sign -/
theorem C20_normal (c e : VZ) : rawNormal c e = ⟨-(e.z * e.y), e.z * e.x, -(e.y * e.x)⟩ := by
  simp only [rawNormal, Vec3.cross, Vec3.add, Vec3.sub, Vec3.mk.injEq]; grind

theorem C20_normal_horizontal (c e : VZ) (h : e.y = 0) : rawNormal c e = ⟨0, e.z * e.x, 0⟩ := by
  rw [C20_normal, h]; simp

/-- the overlap test is exactly "the open footprints intersect" -/
theorem C20_overlap_iff (ca ea cb eb : VZ) :
    overlapXZ ca ea cb eb = true ↔
      (ca.x - ea.x < cb.x + eb.x ∧ cb.x - eb.x < ca.x + ea.x) ∧ (ca.z - ea.z < cb.z + eb.z ∧ cb.z - eb.z < ca.z + ea.z) := by
  obtain ⟨ax, ay, az⟩ := ca; obtain ⟨bx, b_y, bz⟩ := ea; obtain ⟨cx, cy, cz⟩ := cb; obtain ⟨dx, dy, dz⟩ := eb
  by_cases h1 : cx + dx ≤ ax - bx <;> by_cases h2 : ax + bx ≤ cx - dx <;> by_cases h3 : cz + dz ≤ az - bz <;>
    by_cases h4 : az + bz ≤ cz - dz <;> simp [overlapXZ, Vec3.sub, Vec3.add, h1, h2, h3, h4] <;> omega

theorem C20_overlap_symm (ca ea cb eb : VZ) : overlapXZ ca ea cb eb = overlapXZ cb eb ca ea := by
  rw [Bool.eq_iff_iff, C20_overlap_iff, C20_overlap_iff]
  constructor <;> (rintro ⟨⟨h1, h2⟩, h3, h4⟩; exact ⟨⟨h2, h1⟩, h4, h3⟩)

/-- a plane with positive extents overlaps itself, and planes far apart do not overlap -/
theorem C20_overlap_self (c e : VZ) (hx : 0 < e.x) (hz : 0 < e.z) : overlapXZ c e c e = true := by
  rw [C20_overlap_iff]; omega

theorem C20_overlap_apart (ca ea cb eb : VZ) (h : ca.x + ea.x ≤ cb.x - eb.x) : overlapXZ ca ea cb eb = false := by
  rw [Bool.eq_false_iff, Ne, C20_overlap_iff]; omega

end Hagall.Grid
