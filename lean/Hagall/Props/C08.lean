/-
  C08 - the part of "no client behaviour can wedge a handler or leave a ghost" that is logic: the life cycle
  of one connection handler (`Model/Life.lean`).  For every schedule of client behaviour (frames arriving or not,
  reads and writes failing or not, broadcasts from others) and of the handler's goroutines:

  * `C08_once`: `handleDisconnect` runs at most once, and has run exactly once when `websocket.Handle` returns;
  * `C08_never_stuck`: the main loop never blocks on reporting a disconnection cause, and a pending cause can
    always be taken (`C08_cause_taken`); `C08_old_code_wedges` is the kernel-checked witness that with the blocking
    report of the original code (finding F6) nine failing requests wedge the handler for good;
  * `C08_send_progress`: whenever the main loop waits for room in the send queue, the sender goroutine can make room
    (it keeps dropping after a failed write instead of exiting);
  * `C08_shutdown_progress` + `C08_shutdown_decreases`: once a cause has been taken, some goroutine of the handler
    can always move without the client's help until `Handle` has returned, and every such move strictly decreases
    a measure - so every run of the shutdown ends, and it ends with `Handle` returned and both goroutines gone.

  The model is tied to the code by the regenerated facts (channel capacities, `disconnect` is a non-blocking send,
  defers and skeleton of `Handle` / `startSending` / `startReceiving`) and by the wire-level scenarios of
  go/cmd/wire, which observe the same end state on the real server (every handler returned, nothing left).
  What is not modelled: the OS (that a blocked write really fails when its deadline passes), net/http, memory.
-/
import Hagall.Model.Life
namespace Hagall.Life

def good : Caps := {}

structure Inv (c : Caps) (s : H) : Prop where
  dq_le : s.dq ≤ c.dq
  sq_le : s.sendq ≤ c.sq
  mq_le : s.mq ≤ c.mq
  once : s.handled ≤ 1
  cancel_iff : s.cancelled = true ↔ s.handled = 1
  closed_eq : s.closed = s.cancelled
  main_live : (s.main = .loop ∨ s.main = .stuck) ↔ s.cancelled = false
  sender_gone : s.sender = false → s.cancelled = true
  returned_clean : s.main = .returned → s.sender = false ∧ s.recv = .dead ∧ (c.frameUnderLock = true ∨ s.pump = .dead)
  held_old : s.frameHeld = true → c.frameUnderLock = true ∧ s.cancelled = false
  pump_gone : s.pump = .dead → s.cancelled = true

theorem Inv_init (c : Caps) : Inv c {} := by
  constructor <;> simp

theorem Inv_step {c : Caps} {s s' : H} (h : Inv c s) (e : Ev) (hs : step c s e = some s') : Inv c s' := by
  obtain ⟨i1, i2, i3, i4, i5, i6, i7, i8, i9, i10, i11⟩ := h
  cases e <;> simp only [step, report] at hs <;> (repeat' (split at hs)) <;>
    first
    | (cases hs; done)
    | (simp only [Option.some.injEq] at hs; subst hs; constructor <;> simp_all <;> omega)

theorem Inv_run {c : Caps} : ∀ (es : List Ev) (s : H), Inv c s → Inv c (run c s es) := by
  intro es
  induction es with
  | nil => intro s h; exact h
  | cons e es ih =>
    intro s h
    simp only [run]
    cases hs : step c s e with
    | none => simpa [hs] using ih s h
    | some s' => simpa [hs] using ih s' (Inv_step h e hs)

/-- **C08, exactly once.** Whatever the client and the scheduler do, `handleDisconnect` runs at most once; it has
    run exactly once, and both goroutines are gone, when `websocket.Handle` has returned. -/
theorem C08_once (c : Caps) (es : List Ev) :
    (run c {} es).handled ≤ 1 ∧
    ((run c {} es).main = .returned → (run c {} es).handled = 1 ∧ (run c {} es).sender = false ∧ (run c {} es).recv = .dead ∧
      (c.frameUnderLock = true ∨ (run c {} es).pump = .dead)) := by
  have h := Inv_run es {} (Inv_init c)
  refine ⟨h.once, fun hr => ?_⟩
  have hc : (run c {} es).cancelled = true := by
    cases hcc : (run c {} es).cancelled with
    | true => rfl
    | false =>
      have := h.main_live.mpr hcc
      rcases this with h1 | h1 <;> rw [hr] at h1 <;> cases h1
  exact ⟨h.cancel_iff.mp hc, (h.returned_clean hr).1, (h.returned_clean hr).2.1, (h.returned_clean hr).2.2⟩

/-- **C08, reporting never blocks.** With the non-blocking report no schedule ever leaves the main loop blocked
    on its own cause channel. -/
theorem C08_never_stuck (es : List Ev) : (run good {} es).main ≠ .stuck ∧ (run good {} es).frameHeld = false := by
  have one : ∀ (s s' : H) (e : Ev), s.main ≠ .stuck ∧ s.frameHeld = false → step good s e = some s' →
      s'.main ≠ .stuck ∧ s'.frameHeld = false := by
    intro s s' e h hs
    have hb : good.blockingReport = false := rfl
    have hf : good.frameUnderLock = false := rfl
    obtain ⟨h1, h2⟩ := h
    generalize good = c at hs hb hf
    cases e <;> simp only [step, report, hb, hf, h2, Bool.false_eq_true, false_and, if_false] at hs <;> (repeat' (split at hs)) <;>
      first
      | (cases hs; done)
      | (simp only [Option.some.injEq] at hs; subst hs; first | exact ⟨h1, h2⟩ | exact ⟨fun hh => by cases hh, h2⟩ | simp_all)
  have key : ∀ (es : List Ev) (s : H), s.main ≠ .stuck ∧ s.frameHeld = false →
      (run good s es).main ≠ .stuck ∧ (run good s es).frameHeld = false := by
    intro es
    induction es with
    | nil => intro s h; exact h
    | cons e es ih =>
      intro s h
      simp only [run]
      cases hs : step good s e with
      | none => simpa [hs] using ih s h
      | some s' => simpa [hs] using ih s' (one s s' e h hs)
  exact key es {} (by simp)

/-- a pending cause can always be taken by the main loop -/
theorem C08_cause_taken (c : Caps) (s : H) (hm : s.main = .loop) (hd : 0 < s.dq) : (step c s .takeCause).isSome = true := by
  simp only [step, hm, hd, and_self, if_true]; split <;> rfl

/-- ... and taking it runs `handleDisconnect` to its end: leaving the session never waits for the session's frame worker,
    because that worker never waits for this connection (finding F15 was the opposite) -/
theorem C08_cause_handled (es : List Ev) (hm : (run good {} es).main = .loop) (hd : 0 < (run good {} es).dq) :
    ∃ s', step good (run good {} es) .takeCause = some s' ∧ s'.handled = (run good {} es).handled + 1 ∧ s'.main = .winding := by
  have hf := (C08_never_stuck es).2
  simp [step, hm, hd, hf]

/-- **The original code wedges (finding F6).** With a blocking report, nine failing requests taken in a row leave the
    main loop blocked on its own full channel, and from there nothing any goroutine or the client does moves it:
    `handleDisconnect` never runs, `Handle` never returns. -/
theorem C08_old_code_wedges :
    let old : Caps := { blockingReport := true }
    let burst := (List.replicate 9 [Ev.arrive, Ev.dispatch]).flatten ++ List.replicate 9 Ev.handleErr
    (run old {} burst).main = .stuck ∧ (run old {} burst).handled = 0 ∧
    ∀ (es : List Ev), (run old (run old {} burst) es).main = .stuck ∧ (run old (run old {} burst) es).handled = 0 := by
  intro old burst
  have h0 : (run old {} burst).main = .stuck ∧ (run old {} burst).handled = 0 := by decide +kernel
  refine ⟨h0.1, h0.2, ?_⟩
  have key : ∀ (es : List Ev) (s : H), s.main = .stuck ∧ s.handled = 0 → (run old s es).main = .stuck ∧ (run old s es).handled = 0 := by
    intro es
    induction es with
    | nil => intro s h; exact h
    | cons e es ih =>
      intro s h
      simp only [run]
      cases hs : step old s e with
      | none => simpa [hs] using ih s h
      | some s' =>
        simp only [hs, Option.getD_some]
        apply ih
        obtain ⟨h1, h2⟩ := h
        cases e <;> simp only [step, report] at hs <;> (repeat' (split at hs)) <;>
          first
          | (cases hs; done)
          | (simp only [Option.some.injEq] at hs; subst hs; simp_all)
  exact fun es => key es _ h0

/-- **The code before the repair of F15 wedges a whole session.** A client that is not being served fast enough fills its
    scheduler queue (256 messages); at the next frame the session's frame worker, holding the session's frame lock, blocks
    handing that connection its pending update; the client goes away; `handleDisconnect` then needs the frame lock to
    leave the session: the main loop and the session's frame worker wait for each other for ever, whatever happens next -
    `handleDisconnect` never completes, `Handle` never returns, and the frame worker (hence every member's pose relay)
    never moves again. -/
theorem C08_old_frame_lock_wedges :
    let old : Caps := { frameUnderLock := true }
    let flood := (List.replicate 256 [Ev.arrive, Ev.dispatch]).flatten ++ [Ev.frame, Ev.readFails, Ev.takeCause]
    ∀ (es : List Ev), (run old (run old {} flood) es).main = .stuck ∧ (run old (run old {} flood) es).handled = 0 ∧
      (run old (run old {} flood) es).frameHeld = true := by
  intro old flood
  have h0 : (run old {} flood).main = .stuck ∧ (run old {} flood).handled = 0 ∧ (run old {} flood).frameHeld = true ∧
      (run old {} flood).mq = old.mq := by decide +kernel
  have key : ∀ (es : List Ev) (s : H), (s.main = .stuck ∧ s.handled = 0 ∧ s.frameHeld = true ∧ s.mq = old.mq) →
      (run old s es).main = .stuck ∧ (run old s es).handled = 0 ∧ (run old s es).frameHeld = true ∧ (run old s es).mq = old.mq := by
    intro es
    induction es with
    | nil => intro s h; exact h
    | cons e es ih =>
      intro s h
      simp only [run]
      cases hs : step old s e with
      | none => simpa [hs] using ih s h
      | some s' =>
        simp only [hs, Option.getD_some]
        apply ih
        obtain ⟨h1, h2, h3, h4⟩ := h
        have hu : old.frameUnderLock = true := rfl
        cases e <;> simp only [step, report, hu, h3, h4] at hs <;> (repeat' (split at hs)) <;>
          first
          | (cases hs; done)
          | (simp only [Option.some.injEq] at hs; subst hs; simp_all)
  intro es
  have := key es _ h0
  exact ⟨this.1, this.2.1, this.2.2.1⟩

/-- **C08, the send queue moves.** Whenever the connection is live, a full send queue can be relieved by the sender
    goroutine: it writes, or fails, or - after a failed write - drops; it never just goes away. -/
theorem C08_send_progress (c : Caps) (s : H) (hI : Inv c s) (hlive : s.cancelled = false) (hq : 0 < s.sendq) :
    (step c s .writeDone).isSome = true ∨ (step c s .sendDrop).isSome = true := by
  have hs : s.sender = true := by
    cases h : s.sender with
    | true => rfl
    | false => have := hI.sender_gone h; rw [hlive] at this; cases this
  cases hf : s.sendFailed with
  | false => left; simp [step, hs, hf, hq]
  | true => right; simp [step, hs, hf, hq]

/-- **C08, shutdown cannot deadlock.** Once a cause has been taken and until `Handle` has returned, some goroutine of the
    handler can move without any help from the client. -/
theorem C08_shutdown_progress (c : Caps) (hcap : 0 < c.mq) (s : H) (hI : Inv c s) (hc : s.cancelled = true) (hm : s.main ≠ .returned) :
    ∃ e, e.internal = true ∧ (step c s e).isSome = true := by
  have hw : s.main = .winding := by
    cases hmm : s.main with
    | winding => rfl
    | returned => exact absurd hmm hm
    | loop => have := hI.main_live.mp (Or.inl hmm); rw [hc] at this; cases this
    | stuck => have := hI.main_live.mp (Or.inr hmm); rw [hc] at this; cases this
  cases hs : s.sender with
  | true => exact ⟨.sendExit, rfl, by simp [step, hs, hc]⟩
  | false =>
    cases hr : s.recv with
    | reading => exact ⟨.recvExit, rfl, by simp [step, hr, hc]⟩
    | dead =>
      by_cases hu : c.frameUnderLock = true
      · exact ⟨.finish, rfl, by simp [step, hw, hs, hr, hu]⟩
      · have hu' : c.frameUnderLock = false := by simpa using hu
        cases hp : s.pump with
        | dead => exact ⟨.finish, rfl, by simp [step, hw, hs, hr, hp]⟩
        | waiting => exact ⟨.pumpExit, rfl, by simp [step, hu', hp, hc]⟩
        | pushing =>
          by_cases hq : s.mq < c.mq
          · exact ⟨.pumpPush, rfl, by simp [step, hu', hp, hq]⟩
          · have : 0 < s.mq := by have := hI.mq_le; omega
            exact ⟨.drain, rfl, by simp [step, hw, this]⟩
    | holding =>
      by_cases hq : s.mq < c.mq
      · exact ⟨.dispatch, rfl, by simp [step, hr, hq]⟩
      · have : 0 < s.mq := by have := hI.mq_le; omega
        exact ⟨.drain, rfl, by simp [step, hw, this]⟩

/-- what is left to do in a shutdown -/
def rank (s : H) : Nat :=
  (if s.main = .returned then 0 else 1) + (if s.sender then 1 else 0) +
  (match s.recv with | .holding => 3 | .reading => 1 | .dead => 0) +
  (match s.pump with | .pushing => 3 | .waiting => 1 | .dead => 0) + s.mq + s.sendq

/-- **C08, shutdown ends.** After a cause has been taken every enabled event - of the handler or of the client -
    strictly decreases `rank`: no run of the shutdown is infinite.  With `C08_shutdown_progress` every maximal run
    therefore ends in the state where `Handle` has returned. -/
theorem C08_shutdown_decreases (c : Caps) (s s' : H) (hI : Inv c s) (hc : s.cancelled = true) (e : Ev)
    (hs : step c s e = some s') : rank s' < rank s ∧ s'.cancelled = true := by
  have hcl : s.closed = true := by rw [hI.closed_eq, hc]
  have hmain : s.main ≠ .loop := by
    intro h; have := hI.main_live.mp (Or.inl h); rw [hc] at this; cases this
  have hheld : s.frameHeld = false := by
    cases hh : s.frameHeld with
    | false => rfl
    | true => have := (hI.held_old hh).2; rw [hc] at this; cases this
  cases e <;> simp only [step, report, hheld] at hs <;> (repeat' (split at hs)) <;>
    first
    | (cases hs; done)
    | (simp only [Option.some.injEq] at hs; subst hs; simp_all [rank] <;> (try (repeat' split)) <;> omega)
    | (simp only [Option.some.injEq] at hs; subst hs; simp_all [rank])

end Hagall.Life
