/-
  C13 - component notifications follow component-type subscriptions.
-/
import Hagall.Spec.Relay
import Hagall.Proofs.Frame
namespace Hagall.Props.C13
open Hagall

variable (cfg : Cfg) (s : Session) (p : Part)

/-- who is subscribed to a type -/
theorem mem_subscribers (tid pid : Nat) : pid ∈ s.subscribers tid ↔ (tid, pid) ∈ s.subs := by
  unfold Session.subscribers
  simp only [List.mem_map, List.mem_filter, beq_iff_eq]
  constructor
  · rintro ⟨x, ⟨hx, h1⟩, h2⟩
    have : x = (tid, pid) := by cases x; simp_all
    rw [← this]; exact hx
  · intro h; exact ⟨(tid, pid), ⟨h, rfl⟩, rfl⟩

/-- An accepted component add by `p` is relayed exactly once to every other member when the type has a
    subscriber, and to nobody while nobody is subscribed; `p` itself only gets its response. -/
theorem C13_add_notify (rid ots tid eid : Nat) (data : Bytes) (e : Entity)
    (he : s.findEnt eid = some e) (ht : (s.typeName tid).isNone = false) (hfree : (s.findComp tid e.id).isSome = false)
    (hc : (s.parts.map (·.conn)).Nodup) (hf : cfg.flags.contains fCompAdd = false) :
    let r := s.compAdd cfg p rid ots tid eid data
    let m := Out.compAddBcast ots ⟨tid, e.id, data⟩
    (s.subscribers tid ≠ [] → RelayedOnce s p.pid m r.2.1 ∧ OnlyRelay m r.2.1) ∧
    (s.subscribers tid = [] → r.2.1 = [(p.conn, .compAddResp rid)]) := by
  simp only [Session.compAdd, he, ht, hfree, Bool.false_eq_true, if_false, gate, hf]
  constructor
  · intro hne
    have : (s.subscribers tid).isEmpty = false := by
      cases h : s.subscribers tid <;> simp_all
    simp only [this, Bool.false_eq_true, if_false]
    exact ⟨relayedOnce_resp_bcast _ hc _ _ _ (by simp), onlyRelay_resp_bcast _ _ _ _ rfl⟩
  · intro hnil
    simp [hnil]

/-- An accepted component delete: same rule. -/
theorem C13_delete_notify (rid ots tid eid : Nat) (e : Entity)
    (he : s.findEnt eid = some e) (hpres : (s.findComp tid e.id).isNone = false)
    (hc : (s.parts.map (·.conn)).Nodup) (hf : cfg.flags.contains fCompDelete = false) :
    let r := s.compDelete cfg p rid ots tid eid
    let m := Out.compDeleteBcast ots tid e.id
    (s.subscribers tid ≠ [] → RelayedOnce s p.pid m r.2.1) ∧
    (s.subscribers tid = [] → r.2.1 = [(p.conn, .compDeleteResp rid)]) := by
  simp only [Session.compDelete, he, hpres, Bool.false_eq_true, if_false, gate, hf]
  constructor
  · intro hne
    have : (s.subscribers tid).isEmpty = false := by
      cases h : s.subscribers tid <;> simp_all
    simp only [this, Bool.false_eq_true, if_false]
    exact relayedOnce_bcast_resp _ hc _ _ _ (by simp)
  · intro hnil
    simp [hnil]

/-- An update of an existing component is delivered exactly once to each subscriber of its type other
    than the author, and to nobody else (in particular to no non-subscriber, and never to the author). -/
theorem C13_update_notify (ots tid eid : Nat) (data : Bytes) (e : Entity)
    (he : s.findEnt eid = some e) (hpres : (s.findComp tid e.id).isNone = false)
    (hc : (s.parts.map (·.conn)).Nodup) (hp : (s.parts.map (·.pid)).Nodup)
    (hf : cfg.flags.contains fCompUpdate = false) :
    let r := s.compUpdate cfg p ots tid eid data
    let m := Out.compUpdateBcast ots ⟨tid, e.id, data⟩
    (∀ q ∈ s.parts, countTo q.conn m r.2.1 = if (tid, q.pid) ∈ s.subs ∧ q.pid ≠ p.pid then 1 else 0) ∧
    (∀ d ∈ r.2.1, d.2 = m ∧ ∃ q ∈ s.parts, q.pid ≠ p.pid ∧ (tid, q.pid) ∈ s.subs ∧ d.1 = q.conn) := by
  simp only [Session.compUpdate, he, hpres, Bool.false_eq_true, if_false, gate, hf]
  by_cases hnil : s.subscribers tid = []
  · simp only [hnil, List.isEmpty_nil, if_true]
    refine ⟨fun q _ => ?_, fun d hd => by simp at hd⟩
    have : ¬ (tid, q.pid) ∈ s.subs := by
      intro h; have := (mem_subscribers s tid q.pid).mpr h; rw [hnil] at this; simp at this
    simp [this]
  · have : (s.subscribers tid).isEmpty = false := by
      cases h : s.subscribers tid <;> simp_all
    simp only [this, Bool.false_eq_true, if_false]
    constructor
    · intro q hq
      have := Session.count_bcastTo s hc hp p.pid (Out.compUpdateBcast ots ⟨tid, e.id, data⟩) (s.subscribers tid) q hq
      rw [this]
      simp only [mem_subscribers]
    · intro d hd
      obtain ⟨h1, q, hq, hne, hin, hd1⟩ := Session.mem_bcastTo hd
      exact ⟨h1, q, hq, hne, (mem_subscribers s tid q.pid).mp hin, hd1⟩

/-- Subscribing to a registered type adds the requester to that type's subscribers and to no other set;
    subscribing to an unregistered type is refused with NOT_FOUND and changes nothing. -/
theorem C13_subscribe (rid tid : Nat) :
    ((s.typeName tid).isNone = true → s.subscribe p rid tid = (s, [(p.conn, .error rid ecNotFound)], .ok)) ∧
    ((s.typeName tid).isNone = false →
      (s.subscribe p rid tid).2 = ([(p.conn, .subscribeResp rid)], .ok) ∧
      ∀ t q, (t, q) ∈ (s.subscribe p rid tid).1.subs ↔ (t, q) ∈ s.subs ∨ (t = tid ∧ q = p.pid)) := by
  constructor
  · intro h; simp [Session.subscribe, h]
  · intro h
    simp only [Session.subscribe, h, Bool.false_eq_true, if_false, true_and]
    intro t q
    split
    · rename_i hc
      have hc' : (tid, p.pid) ∈ s.subs := by simpa using hc
      constructor
      · exact Or.inl
      · rintro (h1 | ⟨rfl, rfl⟩)
        · exact h1
        · exact hc'
    · simp only [List.mem_append, List.mem_singleton, Prod.mk.injEq]

/-- Unsubscribing removes the requester from that type's subscribers and changes no other subscription. -/
theorem C13_unsubscribe (rid tid : Nat) :
    (s.unsubscribe p rid tid).2 = ([(p.conn, .unsubscribeResp rid)], .ok) ∧
    ∀ t q, (t, q) ∈ (s.unsubscribe p rid tid).1.subs ↔ (t, q) ∈ s.subs ∧ ¬(t = tid ∧ q = p.pid) := by
  simp only [Session.unsubscribe, true_and]
  intro t q
  simp only [List.mem_filter, bne_iff_ne, ne_eq, Prod.mk.injEq]

/-- A departure ends every subscription of the leaver and no other. -/
theorem C13_leave_unsubscribes (pid : Nat) :
    ∀ t q, (t, q) ∈ (s.leave cfg pid).1.subs ↔ (t, q) ∈ s.subs ∧ q ≠ pid := by
  intro t q
  simp [Session.leave, List.mem_filter]

end Hagall.Props.C13
