import Hagall.Model.Receipt
/-
  C19, the "if and only if": of the receipts accepted into the queue, exactly the well-formed ones are forwarded, each as
  often as it was accepted and unchanged; one whose hash is not the Keccak-256 of its text, whose signature is not 65 bytes
  or carries a recovery id above 3 (F42: whatever the linked `Ecrecover` makes of it), or from which no key is recovered,
  never.  Keccak-256 and the curve arithmetic are oracles (`Triple.hashOk`, `Triple.recovers`); the tie to
  `receipt/handler.go` is the receipts harness, built with and without cgo: per accepted triple it prints the four facts
  and how often the stand-in credit service received it, and the driver evaluates `wellFormed`.
-/
namespace Hagall.Props.C19Valid
open Hagall.Receipt

/-- forwarded iff accepted and well formed -/
theorem C19_forwarded_iff (q : List Triple) (t : Triple) : t ∈ forwards q ↔ t ∈ q ∧ wellFormed t = true := by
  simp [forwards, List.mem_filter]

/-- as often as it was accepted (never twice for one acceptance), and what is forwarded is what was accepted -/
theorem C19_forwarded_count (q : List Triple) (t : Triple) :
    (forwards q).count t = if wellFormed t then q.count t else 0 := by
  unfold forwards
  by_cases h : wellFormed t = true
  · simp [h, List.count_filter]
  · simp only [h]
    simp only [Bool.false_eq_true, if_false]
    apply List.count_eq_zero.2
    intro hm
    exact h (List.mem_filter.1 hm).2

/-- the forwarder keeps the order of the queue -/
theorem C19_forwards_sublist (q : List Triple) : (forwards q).Sublist q := List.filter_sublist

/-- each of the four ways of being invalid is enough; for the recovery id whatever the oracle says (F42) -/
theorem C19_invalid_never_forwarded (q : List Triple) (t : Triple) :
    (t.hashOk = false → t ∉ forwards q) ∧ (t.sigLen ≠ 65 → t ∉ forwards q) ∧
    (3 < t.recId → t ∉ forwards q) ∧ (t.recovers = false → t ∉ forwards q) := by
  refine ⟨?_, ?_, ?_, ?_⟩
  · intro h hm
    have := ((C19_forwarded_iff q t).1 hm).2
    simp [wellFormed, h] at this
  · intro h hm
    have := ((C19_forwarded_iff q t).1 hm).2
    simp [wellFormed] at this
    exact h this.1.1.2
  · intro h hm
    have := ((C19_forwarded_iff q t).1 hm).2
    simp [wellFormed] at this
    omega
  · intro h hm
    have := ((C19_forwarded_iff q t).1 hm).2
    simp [wellFormed, h] at this

-- a valid triple accepted twice is forwarded twice; the same with recovery id 4, which the pure Go Ecrecover recovers, never
example : (forwards [⟨true, 65, 1, true⟩, ⟨true, 65, 4, true⟩, ⟨true, 65, 1, true⟩, ⟨false, 65, 0, true⟩]).count ⟨true, 65, 1, true⟩ = 2 ∧
          (forwards [⟨true, 65, 1, true⟩, ⟨true, 65, 4, true⟩]) = [⟨true, 65, 1, true⟩] := by decide

end Hagall.Props.C19Valid
