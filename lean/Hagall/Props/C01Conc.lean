/-
  C01 / C16 under concurrency, the clause "actions can only be attached to entities that exist, and every newcomer is
  handed the current set": for every interleaving of an entity's removal with any number of participants setting actions
  on it (`Model/Attach.lean`, one transition per critical section), once everybody is between requests the module state
  holds no action of an entity that is gone.  `C01_old_order_keeps_a_stale_action` is the kernel-checked interleaving of
  the code before the repair F21.
-/
import Hagall.Model.Attach
import Hagall.Model.Handover
import Hagall.Model.Writers
namespace Hagall.Props.C01Conc
open Hagall.Attach

/-- an action of an entity that is gone is always about to be released by somebody -/
def Inv (s : St) : Prop :=
  s.action = true → s.there = false → (s.owner = 1 ∨ ∃ c, s.setter c = .stored)

theorem Inv_init : Inv {} := by intro h; cases h

theorem Inv_step (d : Bool) (s : St) (h : Inv s) (m : Move) : Inv (step false d s m) := by
  cases m with
  | owner =>
    simp only [step, Bool.false_eq_true, if_false]
    split
    · intro _ _; exact Or.inl rfl
    · intro ha; cases ha
    · exact h
  | setter c =>
    simp only [step, Bool.false_eq_true, if_false]
    cases hc : s.setter c with
    | idle =>
      simp only
      split
      · intro ha ht
        rcases h ha ht with h1 | ⟨c', h2⟩
        · exact Or.inl h1
        · refine Or.inr ⟨c', ?_⟩
          have : c' ≠ c := fun e => by rw [e, hc] at h2; cases h2
          simp [St.set, this, h2]
      · exact h
    | checked =>
      simp only
      split
      · intro ha ht
        rcases h ha ht with h1 | ⟨c', h2⟩
        · exact Or.inl h1
        · refine Or.inr ⟨c', ?_⟩
          have : c' ≠ c := fun e => by rw [e, hc] at h2; cases h2
          simp [St.set, this, h2]
      · intro _ _
        exact Or.inr ⟨c, by simp [St.set]⟩
    | stored =>
      simp only
      split
      · next ht => intro _ ht'; simp [St.set] at ht'; rw [ht] at ht'; cases ht'
      · intro ha; simp [St.set] at ha

theorem Inv_run (d : Bool) (ms : List Move) (s : St) (h : Inv s) : Inv (run false d s ms) := by
  induction ms generalizing s with
  | nil => exact h
  | cons m ms ih => exact ih _ (Inv_step d s h m)

/-- the statement for either kind of attachment (`d`: the store refuses what is already there) -/
theorem nothing_outlives_entity (d : Bool) (ms : List Move)
    (hown : (run false d {} ms).owner = 2) (hq : ∀ c, (run false d {} ms).setter c = .idle)
    (hgone : (run false d {} ms).there = false) : (run false d {} ms).action = false := by
  have h := Inv_run d ms {} Inv_init
  cases ha : (run false d {} ms).action with
  | false => rfl
  | true =>
    rcases h ha hgone with h1 | ⟨c, h2⟩
    · rw [hown] at h1; cases h1
    · rw [hq c] at h2; cases h2

/-- **No action outlives its entity.** After any interleaving of the entity's removal (with the module clean-up that
    follows it) and any number of action requests by any number of participants, whenever the owner's handler is done and
    no setter is inside a request, an entity that is gone has no action in the module state - so no newcomer is handed
    one. -/
theorem C01_conc_action_never_outlives_entity (ms : List Move)
    (hown : (run false false {} ms).owner = 2) (hq : ∀ c, (run false false {} ms).setter c = .idle)
    (hgone : (run false false {} ms).there = false) : (run false false {} ms).action = false :=
  nothing_outlives_entity false ms hown hq hgone

/-- the premises are satisfiable: the owner leaves while a participant's action is in flight -/
example : let s := run false false {} [.setter 5, .owner, .setter 5, .owner, .setter 5]
    s.owner = 2 ∧ s.setter 5 = .idle ∧ s.there = false ∧ s.action = false := by decide

/-- **Before the repair (F21).** The module clean-up runs, a participant finds the entity and stores an action, the entity
    is removed: the action stays although everybody is done. -/
theorem C01_old_order_keeps_a_stale_action :
    let s := run true false {} [.owner, .setter 5, .setter 5, .owner]
    s.owner = 2 ∧ s.setter 5 = .idle ∧ s.there = false ∧ s.action = true := by decide

/-! ### a newcomer against an owner's departure (F23) -/

open Hagall.Handover in
/-- the list above is every merge of the two sequences: 10 = 5! / (3! 2!) lists, each a permutation of the five steps that
    keeps O1 before O2 and N1 before N2 before N3 -/
theorem interleavings_complete :
    interleavings.length = 10 ∧ interleavings.Nodup ∧
    ∀ l ∈ interleavings, l.length = 5 ∧ l.filter (fun x => x == .O1 || x == .O2) = [.O1, .O2] ∧
      l.filter (fun x => x == .N1 || x == .N2 || x == .N3) = [.N1, .N2, .N3] := by decide

open Hagall.Handover in
/-- **What a newcomer holds is consistent, whatever the interleaving with the owner's departure**: in the end the entity
    is gone from the session, the module holds no action of it, and the newcomer's view has neither the entity nor an
    action of it. -/
theorem C01_conc_newcomer_consistent :
    ∀ l ∈ interleavings, (run true l).there = false ∧ (run true l).action = false ∧
      (run true l).hasEnt = false ∧ (run true l).hasAct = false := by decide

open Hagall.Handover in
/-- **Before the repair (F23)**: the entity is removed, the participant joins and is handed the module's state before the
    module has released the action: its view keeps an action of an entity that does not exist, and nothing will tell it. -/
theorem C01_old_handover_leaves_a_stale_action :
    (run false [.O1, .N1, .N2, .N3, .O2]).hasAct = true ∧ (run false [.O1, .N1, .N2, .N3, .O2]).hasEnt = false ∧
    (run false [.O1, .N1, .N2, .N3, .O2]).action = false := by decide

/-! ### several writers of one item against a listener (F26, recorded) -/

open Hagall.Writers in
/-- **If a write were applied and relayed in one critical section**, the listener's view would equal the server's state
    after every step of every interleaving of any number of writers. -/
theorem C01_conc_atomic_writes_converge (ms : List Writers.Move) (hms : ∀ m ∈ ms, m.atomic = true) :
    (Writers.run {} ms).view = (Writers.run {} ms).srv := by
  have : ∀ (ms : List Writers.Move) (s : Writers.St), s.view = s.srv → (∀ m ∈ ms, m.atomic = true) →
      (Writers.run s ms).view = (Writers.run s ms).srv := by
    intro ms
    induction ms with
    | nil => intro s h _; exact h
    | cons m ms ih =>
      intro s h hc
      refine ih (Writers.step s m) ?_ (fun m' hm' => hc m' (List.mem_cons_of_mem _ hm'))
      have hm := hc m (List.mem_cons_self ..)
      cases m with
      | apply w v => cases hm
      | relay w => cases hm
      | write w v => simp [Writers.step]
  exact this ms {} rfl hms

open Hagall.Writers in
/-- **As the code is (F26).**  Two writers: both writes are applied, then relayed in the other order; everybody is done,
    the server holds the second write, the listener the first. -/
theorem C01_concurrent_writers_diverge :
    let s := run {} [.apply 1 11, .apply 2 22, .relay 2, .relay 1]
    s.pending = [] ∧ s.srv = some 22 ∧ s.view = some 11 := by decide

open Hagall.Writers in
/-- one writer alone is followed faithfully: the split matters only between writers -/
example : let s := run {} [.apply 1 11, .relay 1, .apply 1 12, .relay 1]
    s.pending = [] ∧ s.srv = some 12 ∧ s.view = some 12 := by decide

end Hagall.Props.C01Conc
