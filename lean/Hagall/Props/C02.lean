/-
  C02 - each accepted change is relayed exactly once to every other session member, never to its
  author; a refused request is relayed to no one.  Session-level (per step) theorems; the lift to every
  reachable state is in `Hagall.Props.Reach` (the hypotheses `conns nodup` are invariants).
-/
import Hagall.Spec.Relay
import Hagall.Proofs.Frame
namespace Hagall.Props.C02
open Hagall

variable (cfg : Cfg) (s : Session) (p : Part)

/-- entity add: the requester is answered, every other member gets exactly one add broadcast carrying
    the new entity, nothing else is relayed -/
theorem C02_entityAdd (rid ots : Nat) (persist : Bool) (flag : Nat) (pose : Option Nat)
    (hc : (s.parts.map (·.conn)).Nodup) (hf : cfg.flags.contains fEntityAdd = false) :
    let r := s.entityAdd cfg p rid ots persist flag pose
    let m := Out.entityAddBcast ots ⟨s.eidCur + 1, p.pid, flag, pose.getD 0⟩
    RelayedOnce s p.pid m r.2.1 ∧ OnlyRelay m r.2.1 ∧ countTo p.conn (.entityAddResp rid (s.eidCur + 1)) r.2.1 = 1 := by
  simp only [Session.entityAdd, gate, hf, Bool.false_eq_true, if_false]
  refine ⟨?_, ?_, ?_⟩
  · exact RelayedOnce.of_parts_eq rfl (relayedOnce_resp_bcast _ hc _ _ _ (by simp [Entity.view]))
  · exact onlyRelay_resp_bcast _ _ _ _ rfl
  · rw [countTo_cons, Session.count_bcast_ne _ _ _ _ _ (by simp)]
    simp [Entity.view]

/-- entity delete by the owner: exactly one delete broadcast to every other member -/
theorem C02_entityDelete (rid ots eid : Nat) (e : Entity) (he : s.findEnt eid = some e) (ho : e.owner = p.pid)
    (hc : (s.parts.map (·.conn)).Nodup) (hf : cfg.flags.contains fEntityDelete = false) :
    let r := s.entityDelete cfg p rid ots eid
    let m := Out.entityDeleteBcast (some ots) e.id
    RelayedOnce s p.pid m r.2.1 ∧ OnlyRelay m r.2.1 := by
  simp only [Session.entityDelete, he, ho, bne_self_eq_false, Bool.false_eq_true, if_false, gate, hf]
  exact ⟨RelayedOnce.of_parts_eq rfl (relayedOnce_resp_bcast _ hc _ _ _ (by simp)), onlyRelay_resp_bcast _ _ _ _ rfl⟩

/-- a refused entity delete (unknown entity, or not the owner) is relayed to no one and changes nothing -/
theorem C02_entityDelete_refused (rid ots eid : Nat)
    (h : s.findEnt eid = none ∨ ∃ e, s.findEnt eid = some e ∧ e.owner ≠ p.pid) :
    let r := s.entityDelete cfg p rid ots eid
    r.1 = s ∧ NoRelay r.2.1 := by
  rcases h with h | ⟨e, he, hne⟩
  · simp [Session.entityDelete, h, NoRelay, Out.isRelay]
  · have : (e.owner != p.pid) = true := by simpa using hne
    simp [Session.entityDelete, he, this, NoRelay, Out.isRelay]

/-- a processed pose update of an own entity: exactly one pose broadcast, carrying the pose sent -/
theorem C02_updatePose (ots eid v : Nat) (e : Entity) (he : s.findEnt eid = some e) (ho : e.owner = p.pid)
    (hc : (s.parts.map (·.conn)).Nodup) (hf : cfg.flags.contains fPose = false) :
    let r := s.updatePose cfg p ots eid (some v)
    let m := Out.poseBcast ots e.id v
    RelayedOnce s p.pid m r.2.1 ∧ OnlyRelay m r.2.1 := by
  simp only [Session.updatePose, he, ho, bne_self_eq_false, Bool.false_eq_true, if_false, gate, hf]
  refine ⟨RelayedOnce.of_parts_eq rfl (relayedOnce_bcast _ hc _ _), ?_⟩
  intro d hd _; exact (Session.mem_bcast hd).1

/-- a pose update that is dropped (unknown or foreign entity, no pose) relays nothing and changes nothing -/
theorem C02_updatePose_dropped (ots eid : Nat) (pose : Option Nat)
    (h : s.findEnt eid = none ∨ (∃ e, s.findEnt eid = some e ∧ e.owner ≠ p.pid) ∨ pose = none) :
    s.updatePose cfg p ots eid pose = (s, [], .ok) := by
  rcases h with h | ⟨e, he, hne⟩ | h
  · simp [Session.updatePose, h]
  · have : (e.owner != p.pid) = true := by simpa using hne
    simp [Session.updatePose, he, this]
  · subst h
    unfold Session.updatePose
    split
    · rfl
    · split <;> rfl

/-- an untargeted custom message within the limit: exactly once to every other member -/
theorem C02_custom (ots : Nat) (body : Bytes) (hlen : body.length ≤ 10240)
    (hc : (s.parts.map (·.conn)).Nodup) (hf : cfg.flags.contains fCustom = false) :
    let r := s.custom cfg p ots [] body
    RelayedOnce s p.pid (.customBcast ots p.pid body) r.2.1 ∧ OnlyRelay (.customBcast ots p.pid body) r.2.1 := by
  have hle : ¬ body.length > customMessageMaxSize := by simp [customMessageMaxSize]; omega
  simp only [Session.custom, hle, if_false, gate, hf, List.length_nil, bne_self_eq_false, Bool.false_eq_true]
  refine ⟨relayedOnce_bcast _ hc _ _, ?_⟩
  intro d hd _; exact (Session.mem_bcast hd).1

/-- an accepted entity action (vikja): exactly one action broadcast to every other member -/
theorem C02_action (rid ots : Nat) (a : Action) (hc : (s.parts.map (·.conn)).Nodup) (hacc : s.actionOk a = true) :
    let r := s.vikja p (.action rid ots (some a))
    RelayedOnce s p.pid (.actionBcast ots a) r.2.1 ∧ OnlyRelay (.actionBcast ots a) r.2.1 := by
  simp only [Session.vikja, hacc, if_true]
  exact ⟨RelayedOnce.of_parts_eq (s.setAction_parts a)
          (relayedOnce_resp_bcast _ (by rw [s.setAction_parts a]; exact hc) _ _ _ (by simp)),
         onlyRelay_resp_bcast _ _ _ _ rfl⟩

/-- a refused entity action is relayed to no one and changes nothing -/
theorem C02_action_refused (rid ots : Nat) (act : Option Action) (h : ∀ a, act = some a → s.actionOk a = false) :
    s.vikja p (.action rid ots act) = (s, [(p.conn, .error rid ecBadRequest)], .ok) := by
  cases act with
  | none => rfl
  | some a => simp [Session.vikja, h a rfl]

/-- an accepted asset-instance add (odal): exactly one broadcast to every other member -/
theorem C02_assetAdd (rid ots : Nat) (assetId : String) (eid : Nat) (e : Entity)
    (hid : assetId ≠ "") (he : s.findEnt eid = some e) (ho : e.owner = p.pid) (hc : (s.parts.map (·.conn)).Nodup) :
    let r := s.odal p (.assetAdd rid ots assetId eid)
    let a : Asset := ⟨s.assetCur + 1, assetId, p.pid, e.id⟩
    RelayedOnce s p.pid (.assetAddBcast ots a) r.2.1 ∧ OnlyRelay (.assetAddBcast ots a) r.2.1 := by
  have hid' : (assetId == "") = false := by simpa using hid
  simp only [Session.odal, hid', he, ho, bne_self_eq_false, Bool.false_eq_true, if_false]
  have hparts := Session.setAsset_parts { s with assetCur := s.assetCur + 1 } ⟨s.assetCur + 1, assetId, p.pid, e.id⟩
  generalize Session.setAsset _ _ = s' at hparts ⊢
  have hp' : s'.parts = s.parts := hparts
  exact ⟨RelayedOnce.of_parts_eq hp' (relayedOnce_resp_bcast s' (by rw [hp']; exact hc) p.pid _ (p.conn, _) (by simp)),
         onlyRelay_resp_bcast s' _ _ _ rfl⟩

end Hagall.Props.C02
