import Hagall.Model.Handover
/-
  C06 / C12 under concurrency, the clause "everything attached to a removed entity goes with it, and later joiners are
  handed what survives": the components of an entity follow the protocol of `Model/Handover` - the entity leaves the
  session (O1: Session.RemoveEntity and the delete broadcast), then its components are removed (O2:
  EntityComponentStore.DeleteByEntityID); a newcomer takes its place (N1), is handed the entities (N2) and the components
  (N3).  Since the repair F47 the components handed are those of the entities handed (`filtered = true`); before it the
  session state carried every component of the store (`filtered = false`), also of an entity that had just left the
  session.  `action` reads "the store holds a component of the entity", `hasAct` "the newcomer's view holds it".
  That the join handler hands only the components of the entities it hands is the correspondence's to check
  (`corpus/conc/F47-*.hist`, the view monitor on every explored schedule).
-/
namespace Hagall.Props.C06Conc
open Hagall.Handover

/-- **A newcomer is handed no component of an entity that is leaving the session**, whatever the interleaving of its
    join with the removal: in the end its view has neither the entity nor a component of it. -/
theorem C06_conc_newcomer_holds_no_component_of_a_removed_entity :
    ∀ l ∈ interleavings, (run true l).hasEnt = false ∧ (run true l).hasAct = false ∧
      (run true l).there = false ∧ (run true l).action = false := by decide

/-- **Before the repair (F47)**: the entity has left the session, the newcomer takes its place and is handed the session
    state before the components are removed: a component of an entity that is not in that state, which no broadcast will
    ever take back (the entity's deletion was relayed before the newcomer was a member). -/
theorem C06_old_unfiltered_state_keeps_a_component :
    (run false [.O1, .N1, .N2, .N3, .O2]).hasAct = true ∧ (run false [.O1, .N1, .N2, .N3, .O2]).hasEnt = false ∧
    (run false [.O1, .N1, .N2, .N3, .O2]).gone = false := by decide

end Hagall.Props.C06Conc
