import Hagall.Model.Newcomer
/-
  C01 under concurrency, the clause "a newcomer joining at that moment is handed exactly that state", with the others
  writing while it joins (F32): whatever the interleaving of any number of writers (apply, then relay) with the
  newcomer's two critical sections (take the place; read and be sent the state under the participants write lock), once
  everybody is done the newcomer's view holds exactly the changes the session holds.  Before the repair the state was
  read in one critical section and sent in another: `C01_old_split_state_loses_a_change` is the interleaving.
  That the state is read and sent inside `Session.Exclusive`, and that a relay holds the participants read lock to the
  end, is `Gen/AbsOrder.newcomer_state_is_one_critical_section` on the regenerated facts.
-/
namespace Hagall.Props.C01New
open Hagall.Newcomer

theorem view_append (l : List Item) (it : Item) : view (l ++ [it]) = apply (view l) it := by
  simp [view, List.foldl_append]

theorem mem_apply_relay (v : List Nat) (c x : Nat) : x ∈ apply v (.relay c) ↔ x ∈ v ∨ x = c := by
  unfold apply
  by_cases h : v.contains c = true
  · simp only [h, if_true]
    constructor
    · exact Or.inl
    · rintro (h' | rfl)
      · exact h'
      · simpa using h
  · simp only [h]
    simp only [Bool.false_eq_true, if_false, List.mem_cons]
    constructor
    · rintro (rfl | h') <;> simp_all
    · rintro (h' | rfl) <;> simp_all

/-- the session holds exactly the changes of the writers past W1; once the newcomer has been handed the state, its view
    holds nothing else, and every change it lacks is about to be relayed -/
structure Inv (s : St) : Prop where
  applied : ∀ x, x ∈ s.applied ↔ 1 ≤ s.w x
  stage : s.n ≤ 3 ∧ s.n ≠ 2
  sound : s.n = 3 → ∀ x, x ∈ view s.inbox → x ∈ s.applied
  complete : s.n = 3 → ∀ x, x ∈ s.applied → x ∈ view s.inbox ∨ s.w x = 1

theorem Inv_init : Inv {} := by
  constructor <;> simp

theorem Inv_step (s : St) (m : Move) (h : Inv s) : Inv (step false s m) := by
  obtain ⟨ha, hst, hs, hc⟩ := h
  cases m with
  | writer c =>
    simp only [step]
    split
    · -- W1
      rename_i h0
      refine ⟨?_, hst, ?_, ?_⟩
      · intro x
        simp only [St.setW, List.mem_cons]
        by_cases hx : x = c
        · subst hx; simp
        · simp [hx, ha x]
      · intro hn x hx
        simp only [St.setW, List.mem_cons] at hx ⊢
        exact Or.inr (hs hn x hx)
      · intro hn x hx
        simp only [St.setW, List.mem_cons] at hx ⊢
        by_cases hxc : x = c
        · subst hxc; simp
        · simp only [hxc, if_false]
          rcases hx with hx | hx
          · exact absurd hx hxc
          · exact hc hn x hx
    · -- W2
      rename_i h1
      refine ⟨?_, hst, ?_, ?_⟩
      · intro x
        simp only [St.setW]
        by_cases hx : x = c
        · subst hx; simp [ha x, h1]
        · simp [hx, ha x]
      · intro hn x hx
        simp only [St.setW] at hn hx ⊢
        have hn1 : s.n ≥ 1 := by omega
        simp only [hn1, if_true, view_append, mem_apply_relay] at hx
        rcases hx with hx | rfl
        · exact hs hn x hx
        · exact (ha x).2 (by omega)
      · intro hn x hx
        simp only [St.setW] at hn hx ⊢
        have hn1 : s.n ≥ 1 := by omega
        simp only [hn1, if_true, view_append, mem_apply_relay]
        by_cases hxc : x = c
        · exact Or.inl (Or.inr hxc)
        · simp only [hxc, if_false]
          rcases hc hn x hx with h' | h'
          · exact Or.inl (Or.inl h')
          · exact Or.inr h'
    · exact ⟨ha, hst, hs, hc⟩
  | newcomer =>
    simp only [step]
    split
    · rename_i h0
      exact ⟨ha, by simp, by simp, by simp⟩
    · rename_i h1
      simp only [Bool.false_eq_true, if_false]
      refine ⟨ha, by simp, ?_, ?_⟩
      · intro _ x hx
        simpa [view_append, apply] using hx
      · intro _ x hx
        left
        simpa [view_append, apply] using hx
    · rename_i h2
      exact absurd h2 hst.2
    · exact ⟨ha, hst, hs, hc⟩

theorem Inv_run (s : St) (ms : List Move) (h : Inv s) : Inv (run false s ms) := by
  induction ms generalizing s with
  | nil => exact h
  | cons m ms ih => exact ih _ (Inv_step s m h)

/-- **A newcomer ends up with exactly the session's state, whatever the others wrote while it joined.**  For every
    interleaving: once the newcomer has been handed the state and no writer is between applying and relaying, its view
    holds exactly the changes applied. -/
theorem C01_conc_newcomer_gets_state_then_relays (ms : List Move)
    (hn : (run false {} ms).n = 3) (hw : ∀ c, (run false {} ms).w c ≠ 1) :
    ∀ x, x ∈ view (run false {} ms).inbox ↔ x ∈ (run false {} ms).applied := by
  have h := Inv_run {} ms Inv_init
  intro x
  constructor
  · exact h.sound hn x
  · intro hx
    rcases h.complete hn x hx with h' | h'
    · exact h'
    · exact absurd h' (hw x)

-- the premises are met: a change before the newcomer, one applied before and relayed after its state, one after
example : let s := run false {} [.writer 1, .writer 1, .writer 2, .newcomer, .newcomer, .writer 2, .writer 3, .writer 3]
    s.n = 3 ∧ s.w 1 = 2 ∧ s.w 2 = 2 ∧ s.w 3 = 2 ∧ s.applied = [3, 2, 1] ∧ view s.inbox = [3, 2, 1] := by decide

/-- **Before the repair (F32).**  The newcomer is a member and its state has been read; a writer applies a change and
    relays it - the newcomer is sent the relay -; then the state read earlier is sent and replaces the view: everybody is
    done and the newcomer lacks the change. -/
theorem C01_old_split_state_loses_a_change :
    let s := run true {} [.newcomer, .newcomer, .writer 7, .writer 7, .newcomer]
    s.n = 3 ∧ s.w 7 = 2 ∧ s.applied = [7] ∧ view s.inbox = [] := by decide

end Hagall.Props.C01New
