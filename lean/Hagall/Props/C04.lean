/-
  C04 - every request is answered exactly once with the outcome the protocol defines.
  The protocol's decision table is `expectedAnswer` (Hagall/Spec/Answers.lean); the theorems say the
  handlers implement it: exactly that one answer, to the requester only.
-/
import Hagall.Spec.Answers
import Hagall.Proofs.Frame
import Hagall.Proofs.DataInv
namespace Hagall.Props.C04
open Hagall

theorem answersTo_nil (c : Nat) : answersTo c [] = [] := rfl

theorem answersTo_append (c : Nat) (a b : List Delivery) : answersTo c (a ++ b) = answersTo c a ++ answersTo c b := by
  simp [answersTo]

theorem answersTo_cons_answer (c : Nat) (a : Out) (ds : List Delivery) (h : (rids a).isSome = true) :
    answersTo c ((c, a) :: ds) = a :: answersTo c ds := by
  simp [answersTo, List.filter_cons, h]

theorem answersTo_single (c : Nat) (a : Out) (h : (rids a).isSome = true) : answersTo c [(c, a)] = [a] := by
  simp [answersTo, List.filter_cons, h]

theorem answersTo_relays (c : Nat) (ds : List Delivery) (h : ∀ d ∈ ds, rids d.2 = none) : answersTo c ds = [] := by
  unfold answersTo
  rw [List.map_eq_nil_iff, List.filter_eq_nil_iff]
  intro d hd
  simp [h d hd]

theorem answersTo_gate_bcast (cfg : Cfg) (f : String) (s : Session) (c x : Nat) (m : Out) (h : rids m = none) :
    answersTo c (gate cfg f (s.bcast x m)) = [] := by
  apply answersTo_relays
  intro d hd
  unfold gate at hd
  split at hd
  · simp at hd
  · rw [(Session.mem_bcast hd).1]; exact h

theorem answersTo_bcast (s : Session) (c x : Nat) (m : Out) (h : rids m = none) : answersTo c (s.bcast x m) = [] := by
  apply answersTo_relays
  intro d hd
  rw [(Session.mem_bcast hd).1]; exact h

theorem answersTo_gate_bcastTo (cfg : Cfg) (f : String) (s : Session) (c x : Nat) (m : Out) (l : List Nat) (h : rids m = none) :
    answersTo c (gate cfg f (s.bcastTo x m l)) = [] := by
  apply answersTo_relays
  intro d hd
  unfold gate at hd
  split at hd
  · simp at hd
  · rw [(Session.mem_bcastTo hd).1]; exact h

/-- nobody but the requester is sent an answer: everything delivered to others is a relay -/
def OnlyRequesterAnswered (c : Nat) (ds : List Delivery) : Prop := ∀ d ∈ ds, d.1 ≠ c → rids d.2 = none

variable (cfg : Cfg) (s : Session) (p : Part)

/-- **Core requests.** Whenever the decision table defines an answer, the core handler delivers exactly
    that answer to the requester, and no answer to anybody else. -/
theorem C04_core_answer (r : Req) (hint : Nat) (a : Out)
    (hcore : match r with | .action .. | .assetAdd .. | .groundPlane .. | .region .. | .debugInfo .. => False | _ => True)
    (h : expectedAnswer cfg s p r = some a) :
    answersTo p.conn (s.core cfg p r hint).2.1 = [a] := by
  cases r <;> simp only [expectedAnswer] at h hcore <;> try (cases h)
  all_goals (simp only [Session.core]; try unfold_core)
  all_goals (repeat' (split at h))
  all_goals (try (simp only [Option.some.injEq] at h; subst h))
  all_goals (try (cases h))
  all_goals (try simp_all)
  all_goals (try (rw [answersTo_cons_answer _ _ _ rfl]))
  all_goals (try (rw [answersTo_append, answersTo_cons_answer _ _ _ rfl]))
  all_goals (try simp [answersTo_nil])
  all_goals (try (
    apply answersTo_relays
    intro d hd
    unfold gate at hd
    (repeat' split at hd) <;>
      first
      | (simp at hd; done)
      | (rw [(Session.mem_bcast hd).1]; rfl)
      | (rw [(Session.mem_bcastTo hd).1]; rfl)))

end Hagall.Props.C04

namespace Hagall.Props.C04
open Hagall

variable (cfg : Cfg) (s : Session) (p : Part)

/-- **Entity actions (vikja).** The vikja handler delivers exactly the table's answer to the requester. -/
theorem C04_action_answer (rid ots : Nat) (act : Option Action) (a : Out) (hv : cfg.vikja = true)
    (h : expectedAnswer cfg s p (.action rid ots act) = some a) :
    answersTo p.conn (s.vikja p (.action rid ots act)).2.1 = [a] := by
  simp only [expectedAnswer, hv, Bool.not_true, Bool.false_eq_true, if_false] at h
  simp only [Session.vikja]
  cases act with
  | none => simp only [] at h ⊢; cases h; exact answersTo_single _ _ rfl
  | some x =>
    simp only [] at h ⊢
    split at h <;> (simp only [Option.some.injEq] at h; subst h)
    · rename_i hok
      simp only [hok, if_true]
      rw [answersTo_cons_answer _ _ _ rfl, answersTo_bcast _ _ _ _ rfl]
    · rename_i hok
      simp only [hok, Bool.false_eq_true, if_false]
      exact answersTo_single _ _ rfl

/-- **Asset instances (odal).** -/
theorem C04_asset_answer (rid ots eid : Nat) (assetId : String) (a : Out) (ho : cfg.odal = true)
    (h : expectedAnswer cfg s p (.assetAdd rid ots assetId eid) = some a) :
    answersTo p.conn (s.odal p (.assetAdd rid ots assetId eid)).2.1 = [a] := by
  simp only [expectedAnswer, ho, Bool.not_true, Bool.false_eq_true, if_false] at h
  simp only [Session.odal]
  split at h
  · rename_i hid; simp only [Option.some.injEq] at h; subst h; simp only [hid, if_true]; exact answersTo_single _ _ rfl
  · rename_i hid
    simp only [hid, if_false, Bool.false_eq_true]
    split at h
    · rename_i he; simp only [Option.some.injEq] at h; subst h; simp only [he]; exact answersTo_single _ _ rfl
    · rename_i e he
      simp only [he]
      split at h <;> (simp only [Option.some.injEq] at h; subst h)
      · rename_i hown; simp only [hown, if_true]; exact answersTo_single _ _ rfl
      · rename_i hown
        simp only [hown, if_false, Bool.false_eq_true]
        rw [answersTo_cons_answer _ _ _ rfl, answersTo_bcast _ _ _ _ rfl]

/-- **Ground-plane queries (dagaz).** Each is answered exactly once. -/
theorem C04_dagaz_answer (r : Req) (a : Out) (hd : cfg.dagaz = true)
    (hk : match r with | .groundPlane .. | .region .. | .debugInfo .. => True | _ => False)
    (h : expectedAnswer cfg s p r = some a) :
    answersTo p.conn (s.dagaz p r).2.1 = [a] := by
  cases r <;> simp only [] at hk <;> simp only [expectedAnswer, hd, if_true, Option.some.injEq] at h <;> subst h <;> exact answersTo_single _ _ rfl

/-- A request that needs a session, sent by a connection that is in none, is never executed: the server
    state is untouched; the request is answered with an error, dropped, or ends the connection. -/
theorem C04_not_joined (srv : Server) (c : Nat) (r : Req) (hint : Nat) (hl : srv.locate c = none)
    (hneeds : match r with | .ping .. | .join .. | .receipt .. => False | _ => True) :
    (srv.handleReq cfg c r hint).1 = srv ∧
    (∀ d ∈ (srv.handleReq cfg c r hint).2.1, d.1 = c ∧ ∃ rid code, d.2 = .error rid code) := by
  unfold Server.handleReq
  cases r <;> simp only [] at hneeds <;> simp only [hl, notJoined] <;> (refine ⟨trivial, ?_⟩) <;> (repeat' split) <;>
    intro d hd <;> simp at hd <;> (try (subst hd; exact ⟨rfl, _, _, rfl⟩))

/-- no module attachment outlives its entity -/
def AttachOK (s : Session) : Prop :=
  (∀ a ∈ s.actions, (s.findEnt a.eid).isSome) ∧ (∀ a ∈ s.assets, (s.findEnt a.eid).isSome)

/-- **A refused request changes nothing.** When the table's answer is an error, the session after the
    whole `handleMessage` path (core handler and every module) is the session before. -/
theorem C04_refused_unchanged (r : Req) (hint rid code : Nat) (hat : AttachOK s)
    (h : expectedAnswer cfg s p r = some (.error rid code)) :
    (s.handle cfg p r hint).1 = s := by
  cases r <;> simp only [expectedAnswer] at h <;> try (cases h)
  case entityDelete rid' ots eid =>
    unfold Session.handle
    -- the core handler refuses; the modules' delete hooks find nothing to clean up
    have hcore : (s.core cfg p (.entityDelete rid' ots eid) hint) = (s, [(p.conn, .error rid code)], .ok) := by
      simp only [Session.core, Session.entityDelete]
      split at h
      · rename_i he; simp only [he]; simp only [Option.some.injEq, Out.error.injEq] at h; simp [h.1, h.2]
      · rename_i e he
        simp only [he]
        split at h
        · rename_i ho; simp only [ho, if_true]; simp only [Option.some.injEq, Out.error.injEq] at h; simp [h.1, h.2]
        · simp at h
    rw [hcore, Res.andThen_ok]
    simp only []
    -- modules
    have hmod : s.modules cfg p (.entityDelete rid' ots eid) = (s, [], .ok) := by
      apply Session.modules_noop
      · intro _
        simp only [Session.vikja]
        split
        · rename_i hnone
          have : s.actions.filter (·.eid != eid) = s.actions := by
            rw [List.filter_eq_self]
            intro a ha
            have := hat.1 a ha
            by_cases hae : a.eid = eid
            · rw [hae] at this; simp_all
            · simpa using hae
          simp [this]
        · rfl
      · intro _
        simp only [Session.odal]
        split
        · rename_i hnone
          have : s.assets.filter (·.eid != eid) = s.assets := by
            rw [List.filter_eq_self]
            intro a ha
            have := hat.2 a ha
            by_cases hae : a.eid = eid
            · rw [hae] at this; simp_all
            · simpa using hae
          simp [this]
        · rfl
      · intro _; rfl
    rw [hmod]
  case action rid' ots act =>
    by_cases hv : cfg.vikja = true
    · simp only [hv, Bool.not_true, Bool.false_eq_true, if_false] at h
      have hvik : s.vikja p (.action rid' ots act) = (s, [(p.conn, .error rid' ecBadRequest)], .ok) := by
        simp only [Session.vikja]
        cases act with
        | none => rfl
        | some x =>
          simp only [] at h ⊢
          split at h
          · simp at h
          · rename_i hok; simp [hok]
      unfold Session.handle
      have hcore : s.core cfg p (.action rid' ots act) hint = (s, [], .ok) := rfl
      rw [hcore, Res.andThen_ok]
      unfold Session.modules
      simp only [hv, if_true, Res.andThen_ok, hvik]
      have ho : ∀ t : Session, t.odal p (.action rid' ots act) = (t, [], .ok) := fun t => t.odal_noop p _ trivial
      have hd : ∀ t : Session, t.dagaz p (.action rid' ots act) = (t, [], .ok) := fun t => t.dagaz_noop p _ trivial
      split <;> split <;> simp [ho, hd, Res.andThen_ok]
    · simp [hv] at h
  case assetAdd rid' ots assetId eid =>
    by_cases ho : cfg.odal = true
    · simp only [ho, Bool.not_true, Bool.false_eq_true, if_false] at h
      have hod : ∃ code', s.odal p (.assetAdd rid' ots assetId eid) = (s, [(p.conn, .error rid' code')], .ok) := by
        simp only [Session.odal]
        split at h
        · rename_i hid; exact ⟨ecBadRequest, by simp [hid]⟩
        · rename_i hid
          split at h
          · rename_i he; exact ⟨ecNotFound, by simp [hid, he]⟩
          · rename_i e he
            split at h
            · rename_i hown; exact ⟨ecUnauthorized, by simp [hid, he, hown]⟩
            · simp at h
      obtain ⟨code', hod⟩ := hod
      unfold Session.handle
      have hcore : s.core cfg p (.assetAdd rid' ots assetId eid) hint = (s, [], .ok) := rfl
      rw [hcore, Res.andThen_ok]
      unfold Session.modules
      have hv : ∀ t : Session, t.vikja p (.assetAdd rid' ots assetId eid) = (t, [], .ok) := fun t => t.vikja_noop p _ trivial
      have hd : ∀ t : Session, t.dagaz p (.assetAdd rid' ots assetId eid) = (t, [], .ok) := fun t => t.dagaz_noop p _ trivial
      simp only [ho, if_true, Res.andThen_ok, hv, hod]
      split <;> split <;> simp [hd, hod, Res.andThen_ok]
    · simp [ho] at h
  case groundPlane => split at h <;> simp at h
  case region => split at h <;> simp at h
  case debugInfo => split at h <;> simp at h
  all_goals (
    rw [Session.handle_eq_core cfg s p _ hint trivial]
    simp only [Session.core]
    try unfold_core
    (repeat' split at h) <;> simp_all)

end Hagall.Props.C04

namespace Hagall.Props.C04
open Hagall

/-- the hypothesis of `C04_refused_unchanged` holds in every session of every reachable state -/
theorem C04_attach_invariant (cfg : Cfg) (h : List Event) : ∀ s ∈ (run cfg {} h).1.sessions, AttachOK s := by
  intro s hs
  have := (run_AllInv cfg h (Server.AllInv_init cfg) s hs).1
  exact ⟨this.act_ent, this.asset_ent⟩

end Hagall.Props.C04
