/-
  C09 - the statically checkable part of "shared state is only ever accessed under consistent synchronisation and
  requests never block one another for ever".

  The theorems are about the facts regenerated from the current source on every run (`Gen/Facts.lean`):

  * `C09_lockset`: every method of a shared structure that touches a guarded field takes the mutex that guards it
    (the guard map and the three exemptions are spelled out in `Model/Locks.lean`);
  * `C09_grid_locked`: every dagaz handler that reaches the session's grid holds the state's mutex;
  * `C09_writes_hold_the_write_lock`: every method that writes a guarded field (assigns, increments, deletes from it,
    directly or through an index, a sub-field or a local bound to it) holds the guarding mutex in write mode;
    `C09_grid_readers_write_nothing`: the grid methods reached from the dagaz handlers that hold the state's mutex
    in read mode write no field of the grid, themselves or through the grid methods they call;
  * `C09_lock_order`: the nesting of lock acquisitions inside the methods has no cycle - the only nesting is
    `subscriptionMutex` then `mutex` in the component store (`C09_nesting`); `C09_no_reentrant`: no method takes a
    mutex and then calls, on the same receiver, a method that takes it again (a read-lock re-entrancy deadlocks as
    soon as a writer queues up in between).

  These are properties of the program text, decided by evaluation in the kernel; they say nothing about schedules by
  themselves.  What they leave open - sends made while a lock is held (`Session.Broadcast`, `Notify`), accesses that
  do not go through these methods, the scheduler in hagall-common - is exercised by real-thread executions of the
  real server under the race detector with a completion watchdog (go/cmd/wire, scenario `concurrent`, built -race).
  The exhaustive lock-granularity interleavings the property also asks for are not built.
-/
import Hagall.Model.Locks
import Hagall.Gen.Facts
namespace Hagall.Locks

theorem C09_lockset : unguarded Hagall.Gen.lockFacts Hagall.Gen.lockOps = [] := by decide
theorem C09_grid_locked : gridUnguarded Hagall.Gen.lockOps = [] := by decide
/-- every method that writes a guarded field holds its mutex in write mode -/
theorem C09_writes_hold_the_write_lock : writesWithoutWriteLock Hagall.Gen.lockFacts Hagall.Gen.writeFacts = [] := by decide
/-- the grid methods reached from handlers that hold the state's mutex in read mode write nothing of the grid -/
theorem C09_grid_readers_write_nothing :
    gridWritersUnderReadLock Hagall.Gen.lockFacts Hagall.Gen.writeFacts Hagall.Gen.selfCalls = [] := by decide
/-- the premise is not empty: the sample handler, which holds the write lock, does reach a method that writes the grid -/
example : gridWrites Hagall.Gen.writeFacts Hagall.Gen.selfCalls "InsertQuad" ≠ [] := by decide
theorem C09_nesting : allEdges Hagall.Gen.lockOps =
    [("EntityComponentStore.subscriptionMutex", "EntityComponentStore.mutex")] := by decide
theorem C09_lock_order : cycles Hagall.Gen.lockOps = [] := by decide
/-- no method takes a mutex and then calls, on the same receiver, a method that takes it again -/
theorem C09_no_reentrant : reentrant Hagall.Gen.lockOps Hagall.Gen.selfCalls = [] := by decide

end Hagall.Locks
