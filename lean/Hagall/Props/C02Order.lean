import Hagall.Model.Server
/-
  C02, last clause - "pose and component updates, which wait for the next frame, keep their order per entity only" - is
  FALSE of the code (known finding F40): the scheduler of a connection (hagall-common `websocket.NewScheduler`, modelled by
  `Conn.dispatch` / `Conn.flush` / `Conn.pop`) keeps the waiting pose updates and the waiting component updates in two
  maps and releases all poses before all component updates.  The witness below is kernel-checked on the model;
  `corpus/F40-component-update-then-pose-in-one-frame.hist` is the same history on the real handlers, and the monitor
  cause `deferred-updates-of-an-entity-reordered` reports it wherever it occurs.
-/
namespace Hagall.Props.C02Order
open Hagall

/-- a connection is sent a component update of entity 1, then a pose update of entity 1; at the next frame the pose
    update is released first: every recipient is relayed the later update before the earlier one -/
theorem C02_deferred_updates_of_one_entity_reordered :
    let k0 : Conn := { id := 1 }
    let k1 := (k0.dispatch (.compUpdate 7 1 1 [2])).1
    let k2 := (k1.dispatch (.updatePose 8 1 (some 9))).1
    (k2.flush 1).queue.map (·.req) = [.updatePose 8 1 (some 9), .compUpdate 7 1 1 [2]] ∧
    -- and no choice of the consumer puts them back in order: the head group holds the pose update alone
    (headGroup (k2.flush 1).queue).map (·.req) = [.updatePose 8 1 (some 9)] := by decide

/-- updates of one kind keep their order of first arrival, and a later update of the same entity takes the place of the
    waiting one (coalescing): two pose updates of entities 1 and 2, then another of entity 1 -/
example :
    let k0 : Conn := { id := 1 }
    let k1 := (k0.dispatch (.updatePose 1 1 (some 5))).1
    let k2 := (k1.dispatch (.updatePose 2 2 (some 6))).1
    let k3 := (k2.dispatch (.updatePose 3 1 (some 7))).1
    (k3.flush 1).queue.map (·.req) = [.updatePose 3 1 (some 7), .updatePose 2 2 (some 6)] := by decide

end Hagall.Props.C02Order
