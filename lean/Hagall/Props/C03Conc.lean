/-
  C03 under concurrency, the clause "not after it has left": for every interleaving of relays in a session with the
  departures of its participants (`Model/Relay.lean`, one transition per critical section), a connection is sent nothing
  of the session once it has been answered its join elsewhere.  `C03_old_relay_reaches_a_departed_member` is the
  kernel-checked interleaving of `BroadcastTo` before the repair F22.
-/
import Hagall.Model.Relay
namespace Hagall.Props.C03Conc
open Hagall.Relay

/-- nothing of the session after the answer from elsewhere -/
def Clean : List Item → Prop
  | [] => True
  | .relayed :: rest => Clean rest
  | .movedOn :: rest => .relayed ∉ rest ∧ Clean rest

theorem Clean_append_relayed {l : List Item} (h : Clean l) (hn : Item.movedOn ∉ l) : Clean (l ++ [.relayed]) := by
  induction l with
  | nil => simp [Clean]
  | cons x xs ih =>
    cases x with
    | relayed => simp only [List.cons_append, Clean]; exact ih h (fun m => hn (List.mem_cons_of_mem _ m))
    | movedOn => exact absurd (List.mem_cons_self ..) hn

theorem Clean_append_movedOn {l : List Item} (h : Clean l) : Clean (l ++ [.movedOn]) := by
  induction l with
  | nil => simp [Clean]
  | cons x xs ih =>
    cases x with
    | relayed => simp only [List.cons_append, Clean]; exact ih h
    | movedOn =>
      simp only [List.cons_append, Clean] at h ⊢
      exact ⟨by simp [h.1], ih h.2⟩

structure Inv (s : St) : Prop where
  gone : ∀ c, s.stage c ≠ 0 → c ∉ s.members
  unanswered : ∀ c, s.stage c ≠ 2 → Item.movedOn ∉ s.inbox c
  clean : ∀ c, Clean (s.inbox c)

theorem Inv_step (s : St) (h : Inv s) (m : Move) (hm : m.current = true) : Inv (step s m) := by
  cases m with
  | lookup => cases hm
  | handOver => cases hm
  | relay =>
    simp only [step, serve]
    refine ⟨h.gone, ?_, ?_⟩
    · intro c hc
      simp only []
      split
      · simp; exact h.unanswered c hc
      · exact h.unanswered c hc
    · intro c
      simp only []
      split
      · next hin =>
        have hmem : c ∈ s.members := by simpa using hin
        have h0 : s.stage c = 0 := by
          cases hs : s.stage c with
          | zero => rfl
          | succ n => exact absurd hmem (h.gone c (by rw [hs]; simp))
        exact Clean_append_relayed (h.clean c) (h.unanswered c (by rw [h0]; simp))
      · exact h.clean c
  | remove c =>
    simp only [step]
    split
    · refine ⟨?_, ?_, h.clean⟩
      · intro x hx hm
        have hm' := List.mem_filter.mp hm
        by_cases e : x = c
        · subst e; simp at hm'
        · simp only [e, if_false] at hx; exact h.gone x hx hm'.1
      · intro x hx
        by_cases e : x = c
        · subst e; next h0 => exact h.unanswered x (by rw [h0]; simp)
        · simp only [e, if_false] at hx; exact h.unanswered x hx
    · exact h
  | answer c =>
    simp only [step]
    split
    · next h1 =>
      refine ⟨?_, ?_, ?_⟩
      · intro x hx
        by_cases e : x = c
        · subst e; exact h.gone x (by rw [h1]; simp)
        · simp only [e, if_false] at hx; exact h.gone x hx
      · intro x hx
        by_cases e : x = c
        · subst e; simp at hx
        · simp only [e, if_false] at hx ⊢; exact h.unanswered x hx
      · intro x
        by_cases e : x = c
        · subst e; simp only [if_true]; exact Clean_append_movedOn (h.clean x)
        · simp only [e, if_false]; exact h.clean x
    · exact h

/-- **Nothing from a session already left.**  Whatever the interleaving of relays, departures and answers, and however
    many participants the session starts with, no connection is sent a message of the session after the answer to its
    join elsewhere. -/
theorem C03_conc_no_relay_after_leaving (members : List Nat) (ms : List Move) (hms : ∀ m ∈ ms, m.current = true) (c : Nat) :
    Clean ((run { members } ms).inbox c) := by
  have : ∀ (ms : List Move) (s : St), Inv s → (∀ m ∈ ms, m.current = true) → Inv (run s ms) := by
    intro ms
    induction ms with
    | nil => intro s h _; exact h
    | cons m ms ih =>
      intro s h hc
      exact ih _ (Inv_step s h m (hc m (List.mem_cons_self ..))) (fun m' hm' => hc m' (List.mem_cons_of_mem _ hm'))
  exact (this ms { members } ⟨by intro c hc; exact absurd rfl hc, by intro c _; simp, by intro c; simp [Clean]⟩ hms).clean c

/-- the premises are met by a run in which a member leaves between two relays: it gets the first, not the second -/
example : let s := run { members := [1, 2] } [.relay, .remove 2, .answer 2, .relay]
    s.inbox 2 = [.relayed, .movedOn] ∧ s.inbox 1 = [.relayed, .relayed] := by decide

/-- **Before the repair (F22).**  The recipients are looked up, one of them leaves and is answered elsewhere, then the
    message is handed over: it arrives after the answer. -/
theorem C03_old_relay_reaches_a_departed_member :
    let s := run { members := [1, 2] } [.lookup, .remove 2, .answer 2, .handOver]
    s.inbox 2 = [.movedOn, .relayed] ∧ ¬ Clean (s.inbox 2) := by
  intro s
  have h : s.inbox 2 = [.movedOn, .relayed] := by decide
  exact ⟨h, by rw [h]; simp [Clean]⟩

end Hagall.Props.C03Conc
