/-
  C16 under concurrency, the clause "the server keeps the action with the latest client timestamp": the comparison with
  the stored action and the storing are one critical section (`vikja.State.SetEntityActionIfLatest`), so whatever the
  order in which the critical sections of any number of concurrent requests for one entity and name run, the action kept
  is one with the latest timestamp, and that timestamp does not depend on the order.
  `C16_old_split_keeps_the_older_action` is the kernel-checked interleaving of the code before the repair F25, where the
  comparison (under the read lock) and the storing (under the write lock) were two critical sections.
-/
import Hagall.Model.Types
namespace Hagall.Props.C16Conc
open Hagall

/-- an action request for one entity and name: its client timestamp and who sent it -/
structure Act where
  ts : Ts
  who : Nat
deriving DecidableEq, Repr

/-- `SetEntityActionIfLatest`: refused when older than the stored one, else stored -/
def put (cur : Option Act) (a : Act) : Option Act :=
  match cur with
  | some c => if a.ts.before c.ts then some c else some a
  | none => some a

theorem before_iff (a b : Ts) :
    a.before b = true ↔ a.instant.1 < b.instant.1 ∨ (a.instant.1 = b.instant.1 ∧ a.instant.2 < b.instant.2) := by
  simp [Ts.before]

theorem not_before_trans (a b c : Ts) (h1 : a.before b = false) (h2 : b.before c = false) : a.before c = false := by
  cases h : a.before c with
  | false => rfl
  | true =>
    have h1' : ¬ (a.instant.1 < b.instant.1 ∨ (a.instant.1 = b.instant.1 ∧ a.instant.2 < b.instant.2)) := by rw [← before_iff]; simp [h1]
    have h2' : ¬ (b.instant.1 < c.instant.1 ∨ (b.instant.1 = c.instant.1 ∧ b.instant.2 < c.instant.2)) := by rw [← before_iff]; simp [h2]
    rw [before_iff] at h
    omega

/-- neither before the other: the same instant (the same timestamp when both are normalised) -/
theorem not_before_antisymm (a b : Ts) (h1 : a.before b = false) (h2 : b.before a = false) : a.instant = b.instant := by
  have h1' : ¬ (a.instant.1 < b.instant.1 ∨ (a.instant.1 = b.instant.1 ∧ a.instant.2 < b.instant.2)) := by rw [← before_iff]; simp [h1]
  have h2' : ¬ (b.instant.1 < a.instant.1 ∨ (b.instant.1 = a.instant.1 ∧ b.instant.2 < a.instant.2)) := by rw [← before_iff]; simp [h2]
  apply Prod.ext <;> omega

/-- the action kept after the critical sections ran in the order of `l`: one of those sent (or the one stored
    before), and none of them is later than it -/
theorem kept_is_latest (l : List Act) (cur : Option Act) (hne : cur.isSome = true ∨ l ≠ []) :
    ∃ k, l.foldl put cur = some k ∧ k ∈ cur.toList ++ l ∧ ∀ a ∈ cur.toList ++ l, k.ts.before a.ts = false := by
  induction l generalizing cur with
  | nil =>
    cases cur with
    | none => simp at hne
    | some c => exact ⟨c, rfl, by simp, by intro a ha; simp at ha; subst ha; simp [Ts.before]⟩
  | cons x xs ih =>
    obtain ⟨k, hk, hmem, hmax⟩ := ih (put cur x) (Or.inl (by cases cur <;> simp [put]; split <;> rfl))
    refine ⟨k, hk, ?_, ?_⟩
    · cases cur with
      | none => simpa [put] using hmem
      | some c =>
        simp only [put] at hmem
        split at hmem
        · simp at hmem ⊢; rcases hmem with h | h
          · exact Or.inl h
          · exact Or.inr (Or.inr h)
        · simp at hmem ⊢; rcases hmem with h | h
          · exact Or.inr (Or.inl h)
          · exact Or.inr (Or.inr h)
    · intro a ha
      cases cur with
      | none => exact hmax a (by simpa [put] using ha)
      | some c =>
        simp only [put] at hmax
        split at hmax
        · next hb =>
          -- x is older than c and was refused: c stays
          simp only [Option.toList_some, List.singleton_append, List.mem_cons] at ha hmax
          rcases ha with h | h | h
          · exact hmax a (Or.inl h)
          · subst h
            have hc := hmax c (Or.inl rfl)
            cases hx : k.ts.before a.ts with
            | false => rfl
            | true =>
              have := before_iff k.ts a.ts |>.mp hx
              have h2 := before_iff a.ts c.ts |>.mp hb
              have h3 : ¬ (k.ts.instant.1 < c.ts.instant.1 ∨ (k.ts.instant.1 = c.ts.instant.1 ∧ k.ts.instant.2 < c.ts.instant.2)) := by
                rw [← before_iff]; simp [hc]
              omega
          · exact hmax a (Or.inr h)
        · next hb =>
          -- x is not older than c: it replaces c
          have hb' : x.ts.before c.ts = false := by simpa using hb
          simp only [Option.toList_some, List.singleton_append, List.mem_cons] at ha hmax
          rcases ha with h | h | h
          · subst h
            exact not_before_trans k.ts x.ts a.ts (hmax x (Or.inl rfl)) hb'
          · exact hmax a (Or.inl h)
          · exact hmax a (Or.inr h)

/-- **The latest is kept.**  Whatever the order in which the critical sections of concurrent action requests for one
    entity and name run, the server keeps one of the actions sent, and none of them has a later timestamp. -/
theorem C16_conc_keeps_latest (l : List Act) (hne : l ≠ []) :
    ∃ k, l.foldl put none = some k ∧ k ∈ l ∧ ∀ a ∈ l, k.ts.before a.ts = false := by
  obtain ⟨k, hk, hmem, hmax⟩ := kept_is_latest l none (Or.inr hne)
  exact ⟨k, hk, by simpa using hmem, by simpa using hmax⟩

/-- **The instant of the timestamp kept does not depend on the interleaving.** -/
theorem C16_conc_kept_timestamp_order_independent (l1 l2 : List Act) (hp : l1.Perm l2) :
    (l1.foldl put none).map (·.ts.instant) = (l2.foldl put none).map (·.ts.instant) := by
  cases l1 with
  | nil => have := hp.symm.eq_nil; subst this; rfl
  | cons x xs =>
    have hne2 : l2 ≠ [] := fun e => by subst e; exact absurd hp.eq_nil (by simp)
    obtain ⟨k1, hk1, hm1, hx1⟩ := C16_conc_keeps_latest (x :: xs) (by simp)
    obtain ⟨k2, hk2, hm2, hx2⟩ := C16_conc_keeps_latest l2 hne2
    rw [hk1, hk2]
    simp only [Option.map_some, Option.some.injEq]
    exact not_before_antisymm k1.ts k2.ts (hx1 k2 (hp.symm.subset hm2)) (hx2 k1 (hp.subset hm1))

/-- the premises are met: three requests, the latest in the middle -/
example : [⟨⟨1000, 0⟩, 1⟩, ⟨⟨2000, 5⟩, 2⟩, ⟨⟨2000, 4⟩, 3⟩].foldl put none = some (⟨⟨2000, 5⟩, 2⟩ : Act) := by decide

/-! ### before the repair (F25): compare under the read lock, store under the write lock -/

inductive Move where
  | check (a : Act)    -- `State.EntityAction` and the comparison: the request goes on if it is not older than what is stored now
  | store (a : Act)    -- `State.SetEntityAction`, unconditionally
deriving Repr, DecidableEq

structure Old where
  cur : Option Act := none
  passed : List Act := []      -- requests that passed the comparison and have not stored yet
deriving Repr, DecidableEq

def stepOld (s : Old) : Move → Old
  | .check a => match s.cur with
    | some c => if a.ts.before c.ts then s else { s with passed := a :: s.passed }
    | none => { s with passed := a :: s.passed }
  | .store a => if s.passed.contains a then { cur := some a, passed := s.passed.erase a } else s

/-- **Before the repair (F25).**  Two participants set the same action at the same time: both pass the comparison against
    the empty state, the newer is stored, then the older: the server keeps the older one although it accepted a newer. -/
theorem C16_old_split_keeps_the_older_action :
    let a1 : Act := ⟨⟨1000, 0⟩, 1⟩
    let a2 : Act := ⟨⟨2000, 0⟩, 2⟩
    let s := [Move.check a1, .check a2, .store a2, .store a1].foldl stepOld {}
    s.cur = some a1 ∧ s.passed = [] ∧ a1.ts.before a2.ts = true := by decide

end Hagall.Props.C16Conc
