/-
  C07 - a session is joinable exactly while it has members; no join is ever orphaned (sequential part).
  The registry invariant is `Server.WF` (Hagall/Proofs/Invariant.lean), proved for every reachable state.
-/
import Hagall.Proofs.Invariant
namespace Hagall.Props.C07
open Hagall

/-- For every history, at every moment: the registered sessions are exactly non-empty ones, no two share
    an id or a UUID, no registered id is waiting in the pool of released ids, and the session gauge equals
    the number of registered sessions. -/
theorem C07_registry_invariant (cfg : Cfg) (h : List Event) :
    let srv := (run cfg {} h).1
    (srv.sessions.map (·.id)).Nodup ∧ (srv.sessions.map (·.uuid)).Nodup ∧
    (∀ s ∈ srv.sessions, s.parts ≠ []) ∧ (∀ s ∈ srv.sessions, s.id ∉ srv.ids.pool) ∧
    srv.gauge = srv.sessions.length := by
  have hw := run_WF cfg h Server.WF_init
  exact ⟨hw.ids_nodup, hw.uuid_nodup, fun s hs => (hw.members s hs).nonempty,
         fun s hs => (hw.id_range s hs).2.2, hw.gauge_eq⟩

theorem find_id_of_mem {l : List Session} (hn : (l.map (·.id)).Nodup) {s : Session} (hs : s ∈ l) :
    l.find? (·.id == s.id) = some s := by
  induction l with
  | nil => simp at hs
  | cons x xs ih =>
    simp only [List.map_cons, List.nodup_cons, List.mem_map, not_exists, not_and] at hn
    rcases List.mem_cons.mp hs with rfl | hs'
    · simp
    · have : x.id ≠ s.id := fun h => hn.1 s hs' h.symm
      simp [List.find?_cons, this, ih hn.2 hs']

theorem findSession_of_mem {srv : Server} (hn : (srv.sessions.map (·.id)).Nodup) {s : Session} (hs : s ∈ srv.sessions) :
    srv.findSession s.id = some s := find_id_of_mem hn hs

/-- does the join target resolve? (`new` always does) -/
def Resolves (srv : Server) : JoinTarget → Prop
  | .new => True
  | .id n => (srv.findSession n).isSome
  | .bogus => False

/-- A join whose target does not resolve is refused with NOT_FOUND and leaves the registry untouched. -/
theorem C07_join_refused (cfg : Cfg) (srv : Server) (c rid ots hint : Nat) (target : JoinTarget)
    (h : ¬ Resolves srv target) :
    srv.joinFresh cfg c rid ots target hint = (srv, [(c, .error rid ecNotFound)], .ok) := by
  unfold Server.joinFresh
  cases target with
  | bogus => rfl
  | new => exact absurd trivial h
  | id n =>
    simp only [Resolves] at h
    cases hf : srv.findSession n with
    | none => simp [hf]
    | some s => simp [hf] at h

/-- A join whose target resolves is answered first with a join response naming a session id, UUID and
    participant id such that, afterwards, that id resolves to a registered session with that UUID in which
    the requester is the participant with that id: a successful join is never orphaned. -/
theorem C07_join_live (cfg : Cfg) (srv : Server) (hw : srv.WF) (c rid ots hint : Nat) (target : JoinTarget)
    (hfresh : ∀ x ∈ srv.sessions, ∀ q ∈ x.parts, q.conn ≠ c) (h : Resolves srv target) :
    ∃ s pid rest, (srv.joinFresh cfg c rid ots target hint).2.1 = (c, Out.joinResp rid s.id s.uuid pid) :: rest ∧
      (srv.joinFresh cfg c rid ots target hint).1.findSession s.id = some s ∧ ⟨pid, c⟩ ∈ s.parts := by
  have hw' := Server.joinFresh_WF cfg hw c rid ots target hint hfresh
  unfold Server.joinFresh at hw' ⊢
  cases target with
  | bogus => exact absurd h (by simp [Resolves])
  | id n =>
    simp only [Resolves] at h
    cases hf : srv.findSession n with
    | none => simp [hf] at h
    | some s =>
      simp only [hf] at hw' ⊢
      obtain ⟨hs, hid⟩ := Server.findSession_some hf
      refine ⟨(s.addPart c).1, (s.addPart c).2.pid, _, by simp only [joinDeliveries, Session.addPart, List.cons_append]; rfl, ?_, by simp [Session.addPart]⟩
      apply findSession_of_mem hw'.ids_nodup
      simp only [Server.setSession, List.mem_map]
      exact ⟨s, hs, by simp [Session.addPart]⟩
  | new =>
    rcases hnew : srv.ids.new hint with ⟨id, g⟩
    simp only [hnew] at hw' ⊢
    refine ⟨(({ id, uuid := srv.uuidCur + 1 } : Session).addPart c).1, 1, _,
      by simp only [joinDeliveries, Session.addPart, List.cons_append]; rfl, ?_, by simp [Session.addPart]⟩
    apply findSession_of_mem hw'.ids_nodup
    simp

/-- When the last participant leaves, the session ends: its id no longer resolves, is released for
    reuse, and the gauge drops by one. -/
theorem C07_last_departure (cfg : Cfg) (srv : Server) (hw : srv.WF) (s : Session) (p : Part) (hs : s ∈ srv.sessions)
    (hlast : s.parts = [p]) :
    let srv' := (srv.leave cfg s p).1
    srv'.findSession s.id = none ∧ s.id ∈ srv'.ids.pool ∧ srv'.gauge = srv.gauge - 1 := by
  have hparts : (s.leave cfg p.pid).1.parts = [] := by
    rw [(Session.leave_frame cfg s p.pid).2.2.2, hlast]; simp
  unfold Server.leave
  rcases hl : s.leave cfg p.pid with ⟨s', ds⟩
  rw [hl] at hparts
  simp only [] at hparts
  simp only [hparts, List.isEmpty_nil, if_true]
  refine ⟨?_, ?_, trivial⟩
  · unfold Server.findSession
    rw [List.find?_eq_none]
    intro x hx
    have := (List.mem_filter.mp hx).2
    simpa using this
  · simp [IdGen.mem_reuse_pool]

/-- While other participants remain, a departure leaves the session registered under the same id and UUID. -/
theorem C07_departure_keeps (cfg : Cfg) (srv : Server) (hw : srv.WF) (s : Session) (p : Part) (hs : s ∈ srv.sessions)
    (hmore : (s.parts.filter (·.pid != p.pid)) ≠ []) :
    ∃ s', (srv.leave cfg s p).1.findSession s.id = some s' ∧ s'.uuid = s.uuid ∧
      s'.parts = s.parts.filter (·.pid != p.pid) := by
  have hw' := Server.leave_WF cfg hw (p := p) hs
  obtain ⟨f1, f2, _, f4⟩ := Session.leave_frame cfg s p.pid
  unfold Server.leave at hw' ⊢
  rcases hl : s.leave cfg p.pid with ⟨s', ds⟩
  rw [hl] at f1 f2 f4 hw'
  simp only [] at f1 f2 f4 hw' ⊢
  have hne : s'.parts.isEmpty = false := by
    rw [f4]; cases h : List.filter (fun x => x.pid != p.pid) s.parts <;> simp_all
  simp only [hne, Bool.false_eq_true, if_false] at hw' ⊢
  refine ⟨s', ?_, f2, f4⟩
  rw [← f1]
  apply findSession_of_mem hw'.ids_nodup
  simp only [Server.setSession, List.mem_map]
  exact ⟨s, hs, by simp [f1]⟩

/-- A session created under a (possibly reused) id starts empty - no entities, components, types,
    subscriptions, actions, assets, samples - with the creator as participant 1 and a UUID no earlier
    session had. -/
theorem C07_fresh_session (cfg : Cfg) (srv : Server) (hw : srv.WF) (c rid ots hint : Nat) :
    let srv' := (srv.joinFresh cfg c rid ots .new hint).1
    ∃ s ∈ srv'.sessions, s.parts = [⟨1, c⟩] ∧ s.ents = [] ∧ s.comps = [] ∧ s.types = [] ∧ s.subs = [] ∧
      s.actions = [] ∧ s.assets = [] ∧ s.quads = [] ∧ s.uuid = srv.uuidCur + 1 ∧ (∀ t ∈ srv.sessions, t.uuid ≠ s.uuid) := by
  simp only [Server.joinFresh, Session.addPart]
  refine ⟨_, List.mem_append_right _ (List.mem_singleton.mpr rfl), by simp, rfl, rfl, rfl, rfl, rfl, rfl, rfl, rfl, ?_⟩
  intro t ht
  have := (hw.uuid_range t ht).2
  simp only []
  omega

end Hagall.Props.C07
