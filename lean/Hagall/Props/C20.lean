/-
  C20 - the ground-plane index is complete.

  The theorems are about the cell bookkeeping the Go code performs (`Model/GridIndex.lean`, the very
  functions the float32 model `Model/Grid.lean` executes and that is compared bit for bit with
  `modules/dagaz` on every run), for all grids, planes and spans:

  * appending a plane registers it in every cell of its span and touches no other plane (`register_*`);
  * the four edge loops of `mergeQuads` leave the moved plane registered in every cell of its new span,
    whatever the old and the new span are, and touch no other plane (`reRegister_*`);
  * growing the grid in any direction moves every registration with its cell and invents none (`grow_*`);
  * a region query over a box of cells returns each plane registered in the box exactly once (`region_*`);
  * hence, for every sequence of appends, moves and growths, every plane is registered in every cell of its
    span (`index_complete`), and the full-grid query returns every stored plane exactly once.

  The spans themselves come out of float32 arithmetic.  What the theorems assume about it is stated in
  `IStep.ok`: a growth shifts every span by the number of cells added on the left / on top, and a move starts
  from the span the plane was registered with.  The replay of every explored history checks exactly that
  (`GX span-ok` lines of the grid driver) - it is the measured part of C20, together with the comparison
  against exact arithmetic in the Go harness.
-/
import Hagall.Proofs.GridIndex
namespace Hagall.Grid

theorem minmax_facts (a b : Nat) : Nat.min a b ≤ a ∧ Nat.min a b ≤ b ∧ (Nat.min a b = a ∨ Nat.min a b = b) ∧
    a ≤ Nat.max a b ∧ b ≤ Nat.max a b ∧ (Nat.max a b = a ∨ Nat.max a b = b) := by
  refine ⟨Nat.min_le_left .., Nat.min_le_right .., ?_, Nat.le_max_left .., Nat.le_max_right .., ?_⟩
  · rcases Nat.le_total a b with h | h
    · exact Or.inl (Nat.min_eq_left h)
    · exact Or.inr (Nat.min_eq_right h)
  · rcases Nat.le_total a b with h | h
    · exact Or.inr (Nat.max_eq_right h)
    · exact Or.inl (Nat.max_eq_left h)

/-! ### append -/

theorem C20_register_complete {c c' : Cells} {id : Nat} {s : Span} (h : register c id s = some c') :
    ∀ x y, s.has x y → Reg c' id x y := by
  intro x y ⟨h1, h2, h3, h4⟩
  unfold register at h
  have hm : (x, y) ∈ grid2 (rangeIncl s.minY s.maxY) (rangeIncl s.minX s.maxX) :=
    mem_grid2.mpr ⟨mem_rangeIncl.mpr ⟨h3, h4⟩, mem_rangeIncl.mpr ⟨h1, h2⟩⟩
  have h' : c.forCells (grid2 (rangeIncl s.minY s.maxY) (rangeIncl s.minX s.maxX)) (edgeOp id true) = some c' := by
    have : edgeOp id true = (· ++ [id]) := by funext l; simp [edgeOp]
    rw [this]; exact h
  exact (edge_pass h' x y).2.1 rfl hm

theorem C20_register_frame {c c' : Cells} {id a : Nat} {s : Span} (h : register c id s = some c') (hne : a ≠ id) :
    ∀ x y, Reg c' a x y ↔ Reg c a x y := by
  intro x y
  unfold register at h
  exact forCells_frame h (fun l => by simp [hne]) x y

theorem C20_register_mono {c c' : Cells} {id a : Nat} {s : Span} (h : register c id s = some c') :
    ∀ x y, Reg c a x y → Reg c' a x y := by
  intro x y hr
  by_cases hne : a = id
  · subst hne
    unfold register at h
    have h' : c.forCells (grid2 (rangeIncl s.minY s.maxY) (rangeIncl s.minX s.maxX)) (edgeOp a true) = some c' := by
      have : edgeOp a true = (· ++ [a]) := by funext l; simp [edgeOp]
      rw [this]; exact h
    exact (edge_pass h' x y).2.2 rfl hr
  · exact (C20_register_frame h hne x y).mpr hr

/-! ### move (the four edge loops of `mergeQuads`) -/

theorem C20_reRegister_frame {c c' : Cells} {eid a : Nat} {s0 s1 : Span} (h : reRegister c eid s0 s1 = some c')
    (hne : a ≠ eid) : ∀ x y, Reg c' a x y ↔ Reg c a x y := by
  intro x y
  unfold reRegister at h
  simp only [] at h
  cases h1 : c.forCells (grid2 (rangeIncl (Nat.min s0.minY s1.minY) (Nat.max s0.maxY s1.maxY)) (rangeExcl (Nat.min s0.minX s1.minX) (Nat.max s0.minX s1.minX))) (edgeOp eid (decide (s1.minX < s0.minX))) with
  | none => simp [h1] at h
  | some c1 =>
    simp only [h1, Option.bind_some] at h
    cases h2 : c1.forCells (grid2 (rangeIncl (Nat.min s0.minY s1.minY) (Nat.max s0.maxY s1.maxY)) (rangeDown (Nat.max s0.maxX s1.maxX) (Nat.min s0.maxX s1.maxX))) (edgeOp eid (!decide (s1.maxX < s0.maxX))) with
    | none => simp [h2] at h
    | some c2 =>
      simp only [h2, Option.bind_some] at h
      cases h3 : c2.forCells (grid2 (rangeExcl (Nat.min s0.minY s1.minY) (Nat.max s0.minY s1.minY)) (rangeIncl (Nat.max s0.minX s1.minX) (Nat.min s0.maxX s1.maxX))) (edgeOp eid (decide (s1.minY < s0.minY))) with
      | none => simp [h3] at h
      | some c3 =>
        simp only [h3, Option.bind_some] at h
        rw [forCells_frame h (edgeOp_frame _ hne), forCells_frame h3 (edgeOp_frame _ hne),
          forCells_frame h2 (edgeOp_frame _ hne), forCells_frame h1 (edgeOp_frame _ hne)]

/-- The moved plane ends up registered in every cell of its new span. -/
theorem C20_reRegister_complete {c c' : Cells} {eid : Nat} {s0 s1 : Span} (h : reRegister c eid s0 s1 = some c')
    (h0 : ∀ x y, s0.has x y → Reg c eid x y) : ∀ x y, s1.has x y → Reg c' eid x y := by
  intro x y ⟨hx0, hx1, hy0, hy1⟩
  unfold reRegister at h
  simp only [] at h
  cases h1 : c.forCells (grid2 (rangeIncl (Nat.min s0.minY s1.minY) (Nat.max s0.maxY s1.maxY)) (rangeExcl (Nat.min s0.minX s1.minX) (Nat.max s0.minX s1.minX))) (edgeOp eid (decide (s1.minX < s0.minX))) with
  | none => simp [h1] at h
  | some c1 =>
    simp only [h1, Option.bind_some] at h
    cases h2 : c1.forCells (grid2 (rangeIncl (Nat.min s0.minY s1.minY) (Nat.max s0.maxY s1.maxY)) (rangeDown (Nat.max s0.maxX s1.maxX) (Nat.min s0.maxX s1.maxX))) (edgeOp eid (!decide (s1.maxX < s0.maxX))) with
    | none => simp [h2] at h
    | some c2 =>
      simp only [h2, Option.bind_some] at h
      cases h3 : c2.forCells (grid2 (rangeExcl (Nat.min s0.minY s1.minY) (Nat.max s0.minY s1.minY)) (rangeIncl (Nat.max s0.minX s1.minX) (Nat.min s0.maxX s1.maxX))) (edgeOp eid (decide (s1.minY < s0.minY))) with
      | none => simp [h3] at h
      | some c3 =>
        simp only [h3, Option.bind_some] at h
        have p1 := edge_pass h1 x y
        have p2 := edge_pass h2 x y
        have p3 := edge_pass h3 x y
        have p4 := edge_pass h x y
        simp only [mem_grid2, mem_rangeIncl, mem_rangeExcl, mem_rangeDown, decide_eq_true_eq, Bool.not_eq_true',
          decide_eq_false_iff_not, Nat.not_lt] at p1 p2 p3 p4
        have hs0 := h0 x y
        unfold Span.has at hs0
        have fx0 := minmax_facts s0.minX s1.minX
        have fx1 := minmax_facts s0.maxX s1.maxX
        have fy0 := minmax_facts s0.minY s1.minY
        have fy1 := minmax_facts s0.maxY s1.maxY
        -- a strip that contains a cell of the new span is an expanding strip
        have e1 : (Nat.min s0.minY s1.minY ≤ y ∧ y ≤ Nat.max s0.maxY s1.maxY) ∧ Nat.min s0.minX s1.minX ≤ x ∧ x < Nat.max s0.minX s1.minX → s1.minX < s0.minX := by
          intro hh; omega
        have e2 : (Nat.min s0.minY s1.minY ≤ y ∧ y ≤ Nat.max s0.maxY s1.maxY) ∧ Nat.min s0.maxX s1.maxX < x ∧ x ≤ Nat.max s0.maxX s1.maxX → s0.maxX ≤ s1.maxX := by
          intro hh; omega
        have e3 : (Nat.min s0.minY s1.minY ≤ y ∧ y < Nat.max s0.minY s1.minY) ∧ Nat.max s0.minX s1.minX ≤ x ∧ x ≤ Nat.min s0.maxX s1.maxX → s1.minY < s0.minY := by
          intro hh; omega
        have e4 : (Nat.min s0.maxY s1.maxY < y ∧ y ≤ Nat.max s0.maxY s1.maxY) ∧ Nat.max s0.minX s1.minX ≤ x ∧ x ≤ Nat.min s0.maxX s1.maxX → s0.maxY ≤ s1.maxY := by
          intro hh; omega
        -- so registration only ever grows on the cells of the new span
        have m1 : Reg c eid x y → Reg c1 eid x y := fun hr => by
          by_cases hm : (Nat.min s0.minY s1.minY ≤ y ∧ y ≤ Nat.max s0.maxY s1.maxY) ∧ Nat.min s0.minX s1.minX ≤ x ∧ x < Nat.max s0.minX s1.minX
          · exact p1.2.2 (e1 hm) hr
          · exact (p1.1 hm).mpr hr
        have m2 : Reg c1 eid x y → Reg c2 eid x y := fun hr => by
          by_cases hm : (Nat.min s0.minY s1.minY ≤ y ∧ y ≤ Nat.max s0.maxY s1.maxY) ∧ Nat.min s0.maxX s1.maxX < x ∧ x ≤ Nat.max s0.maxX s1.maxX
          · exact p2.2.2 (e2 hm) hr
          · exact (p2.1 hm).mpr hr
        have m3 : Reg c2 eid x y → Reg c3 eid x y := fun hr => by
          by_cases hm : (Nat.min s0.minY s1.minY ≤ y ∧ y < Nat.max s0.minY s1.minY) ∧ Nat.max s0.minX s1.minX ≤ x ∧ x ≤ Nat.min s0.maxX s1.maxX
          · exact p3.2.2 (e3 hm) hr
          · exact (p3.1 hm).mpr hr
        have m4 : Reg c3 eid x y → Reg c' eid x y := fun hr => by
          by_cases hm : (Nat.min s0.maxY s1.maxY < y ∧ y ≤ Nat.max s0.maxY s1.maxY) ∧ Nat.max s0.minX s1.minX ≤ x ∧ x ≤ Nat.min s0.maxX s1.maxX
          · exact p4.2.2 (e4 hm) hr
          · exact (p4.1 hm).mpr hr
        -- and every cell of the new span was in the old span or lies in one of the four strips
        by_cases c1x : x < s0.minX
        · have hm : (Nat.min s0.minY s1.minY ≤ y ∧ y ≤ Nat.max s0.maxY s1.maxY) ∧ Nat.min s0.minX s1.minX ≤ x ∧ x < Nat.max s0.minX s1.minX := by
            omega
          exact m4 (m3 (m2 (p1.2.1 (e1 hm) hm)))
        · by_cases c2x : s0.maxX < x
          · have hm : (Nat.min s0.minY s1.minY ≤ y ∧ y ≤ Nat.max s0.maxY s1.maxY) ∧ Nat.min s0.maxX s1.maxX < x ∧ x ≤ Nat.max s0.maxX s1.maxX := by
              omega
            exact m4 (m3 (p2.2.1 (e2 hm) hm))
          · by_cases c1y : y < s0.minY
            · have hm : (Nat.min s0.minY s1.minY ≤ y ∧ y < Nat.max s0.minY s1.minY) ∧ Nat.max s0.minX s1.minX ≤ x ∧ x ≤ Nat.min s0.maxX s1.maxX := by
                omega
              exact m4 (p3.2.1 (e3 hm) hm)
            · by_cases c2y : s0.maxY < y
              · have hm : (Nat.min s0.maxY s1.maxY < y ∧ y ≤ Nat.max s0.maxY s1.maxY) ∧ Nat.max s0.minX s1.minX ≤ x ∧ x ≤ Nat.min s0.maxX s1.maxX := by
                  omega
                exact p4.2.1 (e4 hm) hm
              · exact m4 (m3 (m2 (m1 (hs0 ⟨by omega, by omega, by omega, by omega⟩))))

/-! ### growth -/

theorem C20_grow_keeps (c : Cells) (xc yc : Nat) (left top : Bool) {a x y : Nat} (h : Reg c a x y) :
    Reg (grow c xc yc left top) a (x + if left then xc else 0) (y + if top then yc else 0) := by
  obtain ⟨l, hl, ha⟩ := h
  exact ⟨l, grow_get_shift c xc yc left top hl, ha⟩

theorem C20_grow_invents_nothing (c : Cells) (xc yc : Nat) (left top : Bool) {a x y : Nat}
    (h : Reg (grow c xc yc left top) a x y) :
    ∃ x0 y0, x = x0 + (if left then xc else 0) ∧ y = y0 + (if top then yc else 0) ∧ Reg c a x0 y0 :=
  grow_no_phantom c xc yc left top h

/-! ### region queries -/

/-- `GetRegion` returns each plane registered somewhere in the box of cells exactly once, and nothing else. -/
theorem C20_region_exactly_once {c : Cells} {minX minY maxX maxY : Nat} {ids : List Nat}
    (h : regionIds c minX minY maxX maxY = some ids) :
    ids.Nodup ∧ ∀ a, a ∈ ids ↔ ∃ x y, (minX ≤ x ∧ x < maxX) ∧ (minY ≤ y ∧ y < maxY) ∧ Reg c a x y := by
  unfold regionIds at h
  cases hm : (grid2 (rangeExcl minY maxY) (rangeExcl minX maxX)).mapM (fun xy => c.get xy.1 xy.2) with
  | none => simp [hm] at h
  | some ls =>
    simp only [hm, Option.map_some, Option.some.injEq] at h
    subst h
    refine ⟨nodup_eraseDups _, ?_⟩
    intro a
    rw [List.mem_eraseDups, List.mem_flatten]
    have hmem := mapM_option_mem (fun (xy : Nat × Nat) => c.get xy.1 xy.2) _ ls hm
    constructor
    · rintro ⟨l, hl, ha⟩
      obtain ⟨⟨x, y⟩, hxy, hget⟩ := (hmem l).mp hl
      rw [mem_grid2, mem_rangeExcl, mem_rangeExcl] at hxy
      exact ⟨x, y, hxy.2, hxy.1, l, hget, ha⟩
    · rintro ⟨x, y, hx, hy, l, hget, ha⟩
      refine ⟨l, (hmem l).mpr ⟨(x, y), ?_, hget⟩, ha⟩
      rw [mem_grid2, mem_rangeExcl, mem_rangeExcl]
      exact ⟨hy, hx⟩

theorem C20_region_count {c : Cells} {minX minY maxX maxY : Nat} {ids : List Nat}
    (h : regionIds c minX minY maxX maxY = some ids) {a x y : Nat}
    (hx : minX ≤ x ∧ x < maxX) (hy : minY ≤ y ∧ y < maxY) (hr : Reg c a x y) : ids.count a = 1 := by
  obtain ⟨hnd, hmem⟩ := C20_region_exactly_once h
  have h1 : ids.count a ≤ 1 := List.nodup_iff_count.mp hnd a
  have h2 : 0 < ids.count a := List.count_pos_iff.mpr ((hmem a).mpr ⟨x, y, hx, hy, hr⟩)
  omega

/-! ### every history of the index -/

/-- what the grid code does to its index: it appends a plane with a span, moves a plane from the span it
    is registered with to a new one (the edge loops), or grows -/
inductive IOp
  | append (s : Span)
  | move (i : Nat) (s1 : Span)
  | grow (xc yc : Nat) (left top : Bool)

structure Index where
  cells : Cells
  spans : List Span      -- spans[i]: where plane i is to be found

def Span.shift (s : Span) (dx dy : Nat) : Span := ⟨s.minX + dx, s.minY + dy, s.maxX + dx, s.maxY + dy⟩

def Index.step (ix : Index) : IOp → Option Index
  | .append s => (register ix.cells ix.spans.length s).map fun c => ⟨c, ix.spans ++ [s]⟩
  | .move i s1 =>
    match ix.spans[i]? with
    | some s0 => (reRegister ix.cells i s0 s1).map fun c => ⟨c, ix.spans.set i s1⟩
    | none => none
  | .grow xc yc left top =>
    some ⟨grow ix.cells xc yc left top, ix.spans.map (·.shift (if left then xc else 0) (if top then yc else 0))⟩

def Index.run (ix : Index) : List IOp → Option Index
  | [] => some ix
  | op :: ops => (ix.step op).bind (·.run ops)

/-- `NewRegularGrid(1, 1, ·)`: one empty cell, no planes -/
def Index.init : Index := ⟨[[[]]], []⟩

/-- every plane is registered in every cell of its span -/
def Index.Complete (ix : Index) : Prop := ∀ i s, ix.spans[i]? = some s → ∀ x y, s.has x y → Reg ix.cells i x y
/-- and only planes that exist are registered anywhere -/
def Index.NoStray (ix : Index) : Prop := ∀ a x y, Reg ix.cells a x y → a < ix.spans.length

theorem Span.has_shift {s : Span} {dx dy x y : Nat} (h : (s.shift dx dy).has x y) :
    ∃ x0 y0, x = x0 + dx ∧ y = y0 + dy ∧ s.has x0 y0 := by
  unfold Span.shift Span.has at *
  simp only [] at h
  exact ⟨x - dx, y - dy, by omega, by omega, by omega, by omega, by omega, by omega⟩

theorem C20_step_complete {ix ix' : Index} {op : IOp} (hc : ix.Complete) (h : ix.step op = some ix') : ix'.Complete := by
  cases op with
  | append s =>
    simp only [Index.step, Option.map_eq_some_iff] at h
    obtain ⟨c, hreg, rfl⟩ := h
    intro i s' hs x y hxy
    simp only [] at hs ⊢
    rw [List.getElem?_append] at hs
    split at hs
    · exact C20_register_mono hreg x y (hc i s' hs x y hxy)
    · rename_i hge
      have hi : i = ix.spans.length := by
        rcases Nat.lt_or_ge (i - ix.spans.length) 1 with h1 | h1
        · omega
        · rw [List.getElem?_eq_none (by simpa using h1)] at hs; cases hs
      subst hi
      simp at hs; subst hs
      exact C20_register_complete hreg x y hxy
  | move j s1 =>
    simp only [Index.step] at h
    cases hj : ix.spans[j]? with
    | none => simp [hj] at h
    | some s0 =>
      simp only [hj, Option.map_eq_some_iff] at h
      obtain ⟨c, hre, rfl⟩ := h
      intro i s' hs x y hxy
      simp only [] at hs ⊢
      by_cases hij : i = j
      · subst hij
        have hlt : i < ix.spans.length := by
          rcases Nat.lt_or_ge i ix.spans.length with h1 | h1
          · exact h1
          · rw [List.getElem?_eq_none h1] at hj; cases hj
        rw [List.getElem?_set_self hlt] at hs
        injection hs with hs; subst hs
        exact C20_reRegister_complete hre (hc i s0 hj) x y hxy
      · rw [List.getElem?_set_ne (Ne.symm hij)] at hs
        exact (C20_reRegister_frame hre hij x y).mpr (hc i s' hs x y hxy)
  | grow xc yc left top =>
    simp only [Index.step, Option.some.injEq] at h
    subst h
    intro i s' hs x y hxy
    simp only [List.getElem?_map, Option.map_eq_some_iff] at hs
    obtain ⟨s0, hs0, rfl⟩ := hs
    obtain ⟨x0, y0, rfl, rfl, h0⟩ := Span.has_shift hxy
    exact C20_grow_keeps ix.cells xc yc left top (hc i s0 hs0 x0 y0 h0)

theorem C20_step_no_stray {ix ix' : Index} {op : IOp} (hc : ix.NoStray) (h : ix.step op = some ix') : ix'.NoStray := by
  cases op with
  | append s =>
    simp only [Index.step, Option.map_eq_some_iff] at h
    obtain ⟨c, hreg, rfl⟩ := h
    intro a x y hr
    simp only [List.length_append, List.length_cons, List.length_nil] at hr ⊢
    by_cases ha : a = ix.spans.length
    · omega
    · have := hc a x y ((C20_register_frame hreg ha x y).mp hr); omega
  | move j s1 =>
    simp only [Index.step] at h
    cases hj : ix.spans[j]? with
    | none => simp [hj] at h
    | some s0 =>
      simp only [hj, Option.map_eq_some_iff] at h
      obtain ⟨c, hre, rfl⟩ := h
      intro a x y hr
      simp only [List.length_set] at hr ⊢
      by_cases ha : a = j
      · subst ha
        rcases Nat.lt_or_ge a ix.spans.length with h1 | h1
        · exact h1
        · rw [List.getElem?_eq_none h1] at hj; cases hj
      · exact hc a x y ((C20_reRegister_frame hre ha x y).mp hr)
  | grow xc yc left top =>
    simp only [Index.step, Option.some.injEq] at h
    subst h
    intro a x y hr
    obtain ⟨x0, y0, _, _, h0⟩ := C20_grow_invents_nothing ix.cells xc yc left top hr
    simpa using hc a x0 y0 h0

theorem C20_init : Index.init.Complete ∧ Index.init.NoStray := by
  refine ⟨?_, ?_⟩
  · intro i s hs; simp [Index.init] at hs
  · intro a x y ⟨l, hl, ha⟩
    unfold Index.init Cells.get at hl
    simp only [] at hl
    cases y with
    | zero =>
      cases x with
      | zero => simp at hl; subst hl; simp at ha
      | succ x => simp at hl
    | succ y => simp at hl

/-- **C20, index completeness.** After any sequence of appends, moves and growths of the grid that the code
    carries out without panicking, every plane is registered in every cell of its span, and nothing that is
    not a plane is registered anywhere. -/
theorem C20_index_complete : ∀ (ops : List IOp) (ix ix' : Index), ix.Complete → ix.NoStray → ix.run ops = some ix' →
    ix'.Complete ∧ ix'.NoStray := by
  intro ops
  induction ops with
  | nil => intro ix ix' hc hn h; simp [Index.run] at h; subst h; exact ⟨hc, hn⟩
  | cons op ops ih =>
    intro ix ix' hc hn h
    simp only [Index.run] at h
    cases hs : ix.step op with
    | none => simp [hs] at h
    | some ix1 =>
      simp only [hs, Option.bind_some] at h
      exact ih ix1 ix' (C20_step_complete hc hs) (C20_step_no_stray hn hs) h

theorem C20_reachable_complete (ops : List IOp) (ix : Index) (h : Index.init.run ops = some ix) :
    ix.Complete ∧ ix.NoStray :=
  C20_index_complete ops _ _ C20_init.1 C20_init.2 h

/-- **C20, region over the grid.** In every reachable index a region query that covers the cells of a
    plane's (non-empty) span returns that plane exactly once, and returns only planes that exist. -/
theorem C20_region_returns_each_once (ops : List IOp) (ix : Index) (h : Index.init.run ops = some ix)
    {minX minY maxX maxY : Nat} {ids : List Nat} (hq : regionIds ix.cells minX minY maxX maxY = some ids) :
    (∀ i s, ix.spans[i]? = some s → s.minX ≤ s.maxX → s.minY ≤ s.maxY →
        minX ≤ s.minX → s.minX < maxX → minY ≤ s.minY → s.minY < maxY → ids.count i = 1) ∧
    (∀ a ∈ ids, a < ix.spans.length) := by
  obtain ⟨hc, hn⟩ := C20_reachable_complete ops ix h
  refine ⟨?_, ?_⟩
  · intro i s hs hx hy h1 h2 h3 h4
    exact C20_region_count hq ⟨h1, h2⟩ ⟨h3, h4⟩ (hc i s hs s.minX s.minY ⟨Nat.le_refl _, hx, Nat.le_refl _, hy⟩)
  · intro a ha
    obtain ⟨x, y, _, _, hr⟩ := ((C20_region_exactly_once hq).2 a).mp ha
    exact hn a x y hr

/-! ### the premises are satisfiable: a plane appended to a grown grid, moved one cell right and down -/

/-- (the plane keeps a stale registration in cell (2, 0), outside its new span: the edge loops over-register,
    which completeness allows) -/
example : (Index.init.run [.grow 2 1 true false, .append ⟨0, 0, 1, 1⟩, .move 0 ⟨1, 1, 2, 1⟩]).map (fun ix => (ix.cells, ix.spans))
    = some ([[[], [], [0]], [[], [0], [0]]], [⟨1, 1, 2, 1⟩]) := by decide

end Hagall.Grid
