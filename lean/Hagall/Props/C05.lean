/-
  C05 - only the creator of an entity can delete it, move it or attach an asset to it; ownership is
  fixed at creation.  Session-level theorems (the whole `handleMessage` path: core handler + modules).
-/
import Hagall.Proofs.Frame
namespace Hagall.Props.C05
open Hagall

variable (cfg : Cfg) (s : Session) (p : Part)

/-- A delete request for an entity owned by somebody else is refused with UNAUTHORIZED and changes
    nothing - through the core handler and every module. -/
theorem C05_delete_guard (rid ots eid hint : Nat) (e : Entity) (he : s.findEnt eid = some e) (hne : e.owner ≠ p.pid) :
    s.handle cfg p (.entityDelete rid ots eid) hint = (s, [(p.conn, .error rid ecUnauthorized)], .ok) := by
  have hb : (e.owner != p.pid) = true := by simpa using hne
  apply Session.handle_core_only
  · simp [Session.core, Session.entityDelete, he, hb]
  · apply Session.modules_noop
    · intro _; exact s.vikja_delete_present p rid ots eid e he
    · intro _; exact s.odal_delete_present p rid ots eid e he
    · intro _; exact s.dagaz_noop p _ trivial

/-- A delete request for an entity that does not exist is refused with NOT_FOUND; entities, components,
    types, subscriptions and participants are untouched. -/
theorem C05_delete_unknown (rid ots eid hint : Nat) (he : s.findEnt eid = none) :
    let r := s.handle cfg p (.entityDelete rid ots eid) hint
    r.2.1 = [(p.conn, .error rid ecNotFound)] ∧ r.2.2 = .ok ∧ s.sameCore r.1 := by
  have hc : s.core cfg p (.entityDelete rid ots eid) hint = (s, [(p.conn, .error rid ecNotFound)], .ok) := by
    simp [Session.core, Session.entityDelete, he]
  simp only [Session.handle, hc, Res.andThen_ok]
  have hm := Session.modules_sameCore cfg p (.entityDelete rid ots eid) s
  have hq := Session.modules_entityDelete_quiet cfg p rid ots eid s
  rcases hmod : s.modules cfg p (.entityDelete rid ots eid) with ⟨a, b, c⟩
  rw [hmod] at hm hq
  simp only [Prod.mk.injEq] at hq
  simp [hq.1, hq.2, hm]

/-- A pose update of a foreign or unknown entity is dropped silently: no state change, no delivery. -/
theorem C05_pose_guard (ots eid hint : Nat) (pose : Option Nat)
    (h : s.findEnt eid = none ∨ ∃ e, s.findEnt eid = some e ∧ e.owner ≠ p.pid) :
    s.handle cfg p (.updatePose ots eid pose) hint = (s, [], .ok) := by
  rw [Session.handle_eq_core cfg s p _ hint trivial]
  rcases h with h | ⟨e, he, hne⟩
  · simp [Session.core, Session.updatePose, h]
  · have : (e.owner != p.pid) = true := by simpa using hne
    simp [Session.core, Session.updatePose, he, this]

/-- An asset-instance add for a foreign entity is refused with UNAUTHORIZED (NOT_FOUND for an unknown
    one) and changes nothing. -/
theorem C05_asset_guard (rid ots eid : Nat) (assetId : String) (hid : assetId ≠ "")
    (h : s.findEnt eid = none ∨ ∃ e, s.findEnt eid = some e ∧ e.owner ≠ p.pid) :
    ∃ code, (code = ecNotFound ∨ code = ecUnauthorized) ∧
      s.odal p (.assetAdd rid ots assetId eid) = (s, [(p.conn, .error rid code)], .ok) := by
  have hid' : (assetId == "") = false := by simpa using hid
  rcases h with h | ⟨e, he, hne⟩
  · exact ⟨ecNotFound, Or.inl rfl, by simp [Session.odal, hid', h]⟩
  · have : (e.owner != p.pid) = true := by simpa using hne
    exact ⟨ecUnauthorized, Or.inr rfl, by simp [Session.odal, hid', he, this]⟩

/-- what may happen to the entity table in one step: every entity present afterwards either existed
    before with the same owner, persistence and flag, or is the one the requester just created under
    the next fresh id -/
def EntsEvolve (pid : Nat) (s s' : Session) : Prop :=
  ∀ e ∈ s'.ents,
    (∃ e0 ∈ s.ents, e0.id = e.id ∧ e0.owner = e.owner ∧ e0.persist = e.persist ∧ e0.flag = e.flag) ∨
    (e.id = s.eidCur + 1 ∧ e.owner = pid ∧ s'.eidCur = s.eidCur + 1)

/-- Ownership is fixed at creation: the core handler adds (owned by the requester, fresh id), removes or
    re-poses entities, never re-assigns them. -/
theorem C05_owner_immutable_core (r : Req) (hint : Nat) : EntsEvolve p.pid s (s.core cfg p r hint).1 := by
  unfold Session.core EntsEvolve
  cases r <;> simp only [] <;> (try unfold_core) <;> (repeat' split) <;> intro e he <;>
    (try (exact Or.inl ⟨e, he, rfl, rfl, rfl, rfl⟩))
  all_goals (try (simp only [Session.setLat, Lat.sendPing] at he; exact Or.inl ⟨e, he, rfl, rfl, rfl, rfl⟩))
  · -- entityAdd
    simp only [List.mem_append, List.mem_singleton] at he
    rcases he with he | rfl
    · exact Or.inl ⟨e, he, rfl, rfl, rfl, rfl⟩
    · exact Or.inr (by simp)
  · -- entityDelete
    simp only [Session.removeEntity, List.mem_filter] at he
    exact Or.inl ⟨e, he.1, rfl, rfl, rfl, rfl⟩
  · -- updatePose
    simp only [List.mem_map] at he
    obtain ⟨x, hx, rfl⟩ := he
    refine Or.inl ⟨x, hx, ?_⟩
    split <;> simp

/-- ... and no module touches the entity table at all, so the same holds for the whole request. -/
theorem C05_owner_immutable (r : Req) (hint : Nat) : EntsEvolve p.pid s (s.handle cfg p r hint).1 := by
  have hcore := C05_owner_immutable_core cfg s p r hint
  unfold Session.handle
  rcases hc : s.core cfg p r hint with ⟨s', ds, o⟩
  rw [hc] at hcore
  cases o
  · rw [Res.andThen_ok]
    have hm := Session.modules_sameCore cfg p r s'
    intro e he
    rw [hm.1] at he
    rcases hcore e he with h | ⟨h1, h2, h3⟩
    · exact Or.inl h
    · exact Or.inr ⟨h1, h2, by rw [hm.2.1]; exact h3⟩
  · exact hcore
  · exact hcore

end Hagall.Props.C05
