import Hagall.Model.Premature
/-
  C05 / C16 under concurrency: a refused request changes nothing - also when it names an entity id that is about to be
  issued.  Whatever the interleaving of the owner's two steps (create the entity, attach to it) with the clean-up of any
  number of refused delete requests for that id, the attachment is there once the owner is done.  Before the repair F46
  the look-up and the removal of the clean-up were two steps: `C05_old_split_cleanup_removes_a_fresh_attachment`.
  That the look-up is made inside the removal's critical section is `Gen/AbsOrder.cleanup_looks_up_under_the_state_lock`.
-/
namespace Hagall.Props.C05Premature
open Hagall.Premature

/-- the entity is there from the owner's first step on; once the owner is done the attachment is there -/
def Inv (s : St) : Prop := (1 ≤ s.owner → s.there = true) ∧ (s.owner = 2 → s.attached = true) ∧ s.owner ≤ 2

theorem Inv_step (s : St) (m : Move) (h : Inv s) : Inv (step false s m) := by
  obtain ⟨h1, h2, h3⟩ := h
  cases m with
  | owner =>
    simp only [step]
    split
    · refine ⟨fun _ => rfl, ?_, ?_⟩ <;> simp
    · refine ⟨fun _ => by simpa using h1 (by omega), fun _ => rfl, ?_⟩; simp
    · exact ⟨h1, h2, h3⟩
  | stranger c =>
    by_cases ht : s.there = true
    · have : step false s (.stranger c) = s := by simp [step, ht]
      rw [this]; exact ⟨h1, h2, h3⟩
    · have hf : s.there = false := by simpa using ht
      have ho : s.owner = 0 := by
        cases hs : s.owner with
        | zero => rfl
        | succ n => exact absurd (h1 (by omega)) ht
      refine ⟨?_, ?_, ?_⟩
      · intro hge; simp [step, hf] at hge; omega
      · intro h2'; simp [step, hf] at h2'; omega
      · simp [step, hf]; omega

theorem Inv_run (s : St) (ms : List Move) (h : Inv s) : Inv (run false s ms) := by
  induction ms generalizing s with
  | nil => exact h
  | cons m ms ih => exact ih _ (Inv_step s m h)

/-- **A refused delete request for an id not yet issued removes nothing.**  For every interleaving of the owner's steps
    with the clean-ups of any number of such requests: once the owner is done, the entity and its attachment are there. -/
theorem C05_conc_refused_delete_keeps_a_fresh_attachment (ms : List Move) (hd : (run false {} ms).owner = 2) :
    (run false {} ms).there = true ∧ (run false {} ms).attached = true := by
  have h := Inv_run {} ms (by simp [Inv])
  exact ⟨h.1 (by omega), h.2.1 hd⟩

-- the premises are met: clean-ups before, between and after the owner's steps
example : let s := run false {} [.stranger 1, .owner, .stranger 2, .owner, .stranger 1]
    s.owner = 2 ∧ s.there = true ∧ s.attached = true := by decide

/-- **Before the repair (F46).**  A stranger's clean-up looks the entity up and does not find it; the owner creates the
    entity and attaches to it; the clean-up removes the attachment: the entity is there, every delete request was
    refused, and the attachment is gone. -/
theorem C05_old_split_cleanup_removes_a_fresh_attachment :
    let s := run true {} [.stranger 1, .owner, .owner, .stranger 1]
    s.owner = 2 ∧ s.there = true ∧ s.attached = false := by decide

end Hagall.Props.C05Premature
