/-
  C16 - entity actions keep the latest timestamp; an entity has at most one asset instance.
-/
import Hagall.Spec.Relay
import Hagall.Proofs.Frame
import Hagall.Proofs.DataInv
namespace Hagall.Props.C16
open Hagall

variable (s : Session) (p : Part)

/-- the action currently stored for an entity and a name -/
def stored (s : Session) (eid : Nat) (name : String) : Option Action :=
  s.actions.find? fun x => x.eid == eid && x.name == name

/-- timestamps in the order of the instants they name -/
theorem before_iff (a b : Ts) :
    a.before b = true ↔ a.instant.1 < b.instant.1 ∨ (a.instant.1 = b.instant.1 ∧ a.instant.2 < b.instant.2) := by
  simp [Ts.before]

/-- a normalised timestamp names the instant its fields say -/
theorem instant_of_normalised (t : Ts) (h0 : 0 ≤ t.nanos) (h1 : t.nanos < 1000000000) : t.instant = (t.secs, t.nanos) := by
  have hq : t.nanos / 1000000000 = 0 := by omega
  have hm : t.nanos % 1000000000 = t.nanos := by omega
  simp [Ts.instant, hq, hm]

/-- **The key the code compares is the instant.**  `instant` in modules/vikja/state.go returns periods of four seconds and
    nanoseconds into the period; comparing those pairs is comparing the instants, for all timestamps: no overflow, no
    saturation (the corrections F43b, F43c of the repair F43). -/
theorem key_order (a b : Ts) :
    (a.key.1 < b.key.1 ∨ (a.key.1 = b.key.1 ∧ a.key.2 < b.key.2)) ↔
    (a.instant.1 < b.instant.1 ∨ (a.instant.1 = b.instant.1 ∧ a.instant.2 < b.instant.2)) := by
  simp only [Ts.key, Ts.instant]
  omega

/-- ... and the numbers the code handles stay inside int64 whatever the fields hold -/
theorem key_in_range (t : Ts) (hs : -9223372036854775808 ≤ t.secs ∧ t.secs ≤ 9223372036854775807)
    (hn : -2147483648 ≤ t.nanos ∧ t.nanos ≤ 2147483647) :
    -2305843009213693953 ≤ t.key.1 ∧ t.key.1 ≤ 2305843009213693952 ∧ 0 ≤ t.key.2 ∧ t.key.2 < 4000000000 := by
  simp only [Ts.key]
  omega

-- one second and two thousand million nanoseconds less: the instant 999 s, older than 1000 s (the order of the fields says
-- the opposite: F43b); the top of the int64 range is the latest instant, not the oldest (F43); and past the top the order
-- goes on (F43c: {MaxInt64 s, 1e9 ns} is later than {MaxInt64 s, 5 ns})
example : (⟨1001, -2000000000⟩ : Ts).before ⟨1000, 0⟩ = true ∧ (⟨999, 2000000000⟩ : Ts).before ⟨1000, 0⟩ = false ∧
          (⟨1790000000, 0⟩ : Ts).before ⟨9223372036854775807, 0⟩ = true ∧
          (⟨9223372036854775807, 5⟩ : Ts).before ⟨9223372036854775807, 1000000000⟩ = true ∧
          (⟨-9223372036854775808, -500000000⟩ : Ts).before ⟨-9223372036854775808, 0⟩ = true := by decide

/-- `before` is a strict order: irreflexive and transitive, and its negation is total -/
theorem before_irrefl (a : Ts) : a.before a = false := by
  simp [Ts.before]

theorem before_trans (a b c : Ts) (h1 : a.before b = true) (h2 : b.before c = true) : a.before c = true := by
  rw [before_iff] at *
  omega

theorem not_before_total (a b : Ts) : a.before b = false ∨ b.before a = false := by
  by_cases h : a.before b = true
  · right
    cases hb : b.before a
    · rfl
    · rw [before_iff] at h hb; omega
  · left; simpa using h

/-- An action is accepted exactly when it names an existing entity, has a name and a timestamp, and is
    not older than the action stored under the same entity and name. -/
theorem C16_accept_iff (a : Action) :
    s.actionOk a = true ↔
      a.name ≠ "" ∧ (∃ t, a.ts = some t ∧
        ∀ old t0, stored s a.eid a.name = some old → old.ts = some t0 → t.before t0 = false) ∧
      (s.findEnt a.eid).isSome = true := by
  unfold Session.actionOk Session.actionOlder stored
  cases hts : a.ts with
  | none => simp
  | some t =>
    cases hf : List.find? (fun x => x.eid == a.eid && x.name == a.name) s.actions with
    | none =>
      simp only [Option.isNone_some, Bool.or_false, Bool.not_eq_true', beq_eq_false_iff_ne, ne_eq, Bool.not_false,
        Bool.and_true, Bool.and_eq_true, Option.some.injEq, exists_eq_left']
      constructor
      · rintro ⟨h1, h2⟩; exact ⟨h1, ⟨(fun old t0 h => by cases h), h2⟩⟩
      · rintro ⟨h1, _, h2⟩; exact ⟨h1, h2⟩
    | some old =>
      cases hot : old.ts with
      | none =>
        simp only [hot, Option.isNone_some, Bool.or_false, Bool.not_eq_true', beq_eq_false_iff_ne, ne_eq, Bool.not_false,
          Bool.and_true, Bool.and_eq_true, Option.some.injEq, exists_eq_left']
        constructor
        · rintro ⟨h1, h2⟩
          refine ⟨h1, ⟨?_, h2⟩⟩
          intro o t0 ho ht0; cases ho; rw [hot] at ht0; cases ht0
        · rintro ⟨h1, _, h2⟩; exact ⟨h1, h2⟩
      | some t0 =>
        simp only [hot, Option.isNone_some, Bool.or_false, Bool.not_eq_true', beq_eq_false_iff_ne, ne_eq,
          Bool.and_eq_true, Option.some.injEq, exists_eq_left']
        constructor
        · rintro ⟨⟨h1, h2⟩, h3⟩
          refine ⟨h1, ⟨?_, h2⟩⟩
          intro o t1 ho ht1; cases ho; rw [hot] at ht1; cases ht1; simpa using h3
        · rintro ⟨h1, h2, h3⟩
          exact ⟨⟨h1, h3⟩, by simpa using h2 old t0 rfl hot⟩

/-- An action older than the stored one is refused with BAD_REQUEST; nothing changes, nothing is relayed. -/
theorem C16_older_refused (rid ots : Nat) (a : Action) (old : Action) (t t0 : Ts)
    (hst : stored s a.eid a.name = some old) (h0 : old.ts = some t0) (ht : a.ts = some t) (hb : t.before t0 = true) :
    s.vikja p (.action rid ots (some a)) = (s, [(p.conn, .error rid ecBadRequest)], .ok) := by
  have : s.actionOk a = false := by
    unfold stored at hst
    simp [Session.actionOk, Session.actionOlder, hst, ht, h0, hb]
  simp [Session.vikja, this]

/-- An accepted action becomes the stored one for its entity and name (equal timestamps included: the
    later request wins), every other stored action is untouched, and it is relayed once to the others. -/
theorem C16_accepted_replaces (rid ots : Nat) (a : Action) (hok : s.actionOk a = true) :
    let s' := (s.vikja p (.action rid ots (some a))).1
    a ∈ s'.actions ∧
    (∀ x ∈ s'.actions, x.eid = a.eid ∧ x.name = a.name → x = a) ∧
    (∀ x, ¬(x.eid = a.eid ∧ x.name = a.name) → (x ∈ s'.actions ↔ x ∈ s.actions)) := by
  simp only [Session.vikja, hok, if_true, Session.setAction]
  split
  · rename_i hany
    simp only [List.any_eq_true, Bool.and_eq_true, beq_iff_eq] at hany
    obtain ⟨y, hy, hy1, hy2⟩ := hany
    refine ⟨?_, ?_, ?_⟩
    · simp only [List.mem_map]
      exact ⟨y, hy, by simp [hy1, hy2]⟩
    · intro x hx hk
      simp only [List.mem_map] at hx
      obtain ⟨z, _, rfl⟩ := hx
      by_cases hz : (z.eid == a.eid && z.name == a.name) = true
      · rw [if_pos hz]
      · rw [if_neg hz] at hk ⊢
        exfalso; apply hz; simp [hk.1, hk.2]
    · intro x hk
      simp only [List.mem_map]
      constructor
      · rintro ⟨z, hz, rfl⟩
        by_cases hzk : (z.eid == a.eid && z.name == a.name) = true
        · rw [if_pos hzk] at hk; exact absurd ⟨rfl, rfl⟩ hk
        · rw [if_neg hzk]; exact hz
      · intro hx
        refine ⟨x, hx, ?_⟩
        have : ¬ ((x.eid == a.eid && x.name == a.name) = true) := by
          simp only [Bool.and_eq_true, beq_iff_eq]; exact hk
        rw [if_neg this]
  · rename_i hany
    refine ⟨by simp, ?_, ?_⟩
    · intro x hx hk
      simp only [List.mem_append, List.mem_singleton] at hx
      rcases hx with hx | rfl
      · exfalso; apply hany
        simp only [List.any_eq_true, Bool.and_eq_true, beq_iff_eq]
        exact ⟨x, hx, hk.1, hk.2⟩
      · rfl
    · intro x hk
      simp only [List.mem_append, List.mem_singleton]
      constructor
      · rintro (h | rfl)
        · exact h
        · exact absurd ⟨rfl, rfl⟩ hk
      · exact Or.inl

/-- Latest-timestamp-wins as an invariant step: whenever an action is accepted over a stored one, its
    timestamp is not before the stored timestamp - so along any history the stored timestamp of an
    (entity, name) pair never decreases. -/
theorem C16_monotone (a old : Action) (t t0 : Ts) (hok : s.actionOk a = true)
    (hst : stored s a.eid a.name = some old) (h0 : old.ts = some t0) (ht : a.ts = some t) :
    t.before t0 = false := by
  obtain ⟨_, ⟨t', ht', hall⟩, _⟩ := (C16_accept_iff s a).mp hok
  rw [ht] at ht'; cases ht'
  exact hall old t0 hst h0

/-- Actions can only be attached to entities that exist. -/
theorem C16_action_needs_entity (rid ots : Nat) (a : Action) (h : s.findEnt a.eid = none) :
    s.vikja p (.action rid ots (some a)) = (s, [(p.conn, .error rid ecBadRequest)], .ok) := by
  have : s.actionOk a = false := by simp [Session.actionOk, h]
  simp [Session.vikja, this]

/-- An accepted asset add leaves the entity with exactly one asset instance - the new one, under the
    next fresh instance id - and every other entity's asset untouched. -/
theorem C16_asset_single (rid ots eid : Nat) (assetId : String) (e : Entity)
    (hid : assetId ≠ "") (he : s.findEnt eid = some e) (ho : e.owner = p.pid) :
    let s' := (s.odal p (.assetAdd rid ots assetId eid)).1
    let a : Asset := ⟨s.assetCur + 1, assetId, p.pid, e.id⟩
    a ∈ s'.assets ∧ (∀ x ∈ s'.assets, x.eid = e.id → x = a) ∧
    (∀ x, x.eid ≠ e.id → (x ∈ s'.assets ↔ x ∈ s.assets)) ∧ s'.assetCur = s.assetCur + 1 := by
  have hid' : (assetId == "") = false := by simpa using hid
  simp only [Session.odal, hid', he, ho, bne_self_eq_false, Bool.false_eq_true, if_false, Session.setAsset]
  split
  · rename_i hany
    simp only [List.any_eq_true, beq_iff_eq] at hany
    obtain ⟨y, hy, hy1⟩ := hany
    refine ⟨?_, ?_, ?_, rfl⟩
    · simp only [List.mem_map]; exact ⟨y, hy, by simp [hy1]⟩
    · intro x hx hk
      simp only [List.mem_map] at hx
      obtain ⟨z, _, rfl⟩ := hx
      by_cases hz : (z.eid == e.id) = true
      · rw [if_pos hz]
      · rw [if_neg hz] at hk ⊢
        exfalso; apply hz; simp [hk]
    · intro x hk
      simp only [List.mem_map]
      constructor
      · rintro ⟨z, hz, rfl⟩
        by_cases hzk : (z.eid == e.id) = true
        · rw [if_pos hzk] at hk; exact absurd rfl hk
        · rw [if_neg hzk]; exact hz
      · intro hx
        refine ⟨x, hx, ?_⟩
        have : ¬ ((x.eid == e.id) = true) := by simpa using hk
        rw [if_neg this]
  · rename_i hany
    refine ⟨by simp, ?_, ?_, rfl⟩
    · intro x hx hk
      simp only [List.mem_append, List.mem_singleton] at hx
      rcases hx with hx | rfl
      · exfalso; apply hany
        simp only [List.any_eq_true, beq_iff_eq]
        exact ⟨x, hx, hk⟩
      · rfl
    · intro x hk
      simp only [List.mem_append, List.mem_singleton]
      constructor
      · rintro (h | rfl)
        · exact h
        · exact absurd rfl hk
      · exact Or.inl

/-- Assets can only be attached to entities that exist. -/
theorem C16_asset_needs_entity (rid ots eid : Nat) (assetId : String) (hid : assetId ≠ "") (h : s.findEnt eid = none) :
    s.odal p (.assetAdd rid ots assetId eid) = (s, [(p.conn, .error rid ecNotFound)], .ok) := by
  have hid' : (assetId == "") = false := by simpa using hid
  simp [Session.odal, hid', h]

/-- Every newcomer is handed the current set of actions and asset instances. -/
theorem C16_newcomer (cfg : Cfg) (s : Session) (p : Part) (rid ots : Nat) :
    (cfg.vikja = true → (p.conn, Out.vikjaState s.actions) ∈ joinDeliveries cfg s p rid ots) ∧
    (cfg.odal = true → (p.conn, Out.odalState s.assets) ∈ joinDeliveries cfg s p rid ots) := by
  constructor <;> intro h <;> simp [joinDeliveries, h]

end Hagall.Props.C16

namespace Hagall.Props.C16
open Hagall

/-- Along every history: at most one stored action per (entity, name), at most one asset instance per
    entity, asset instance ids pairwise distinct, and every action and asset attached to a live entity. -/
theorem C16_invariant (cfg : Cfg) (h : List Event) :
    ∀ s ∈ (run cfg {} h).1.sessions,
      (s.actions.map fun a => (a.eid, a.name)).Nodup ∧ (s.assets.map (·.eid)).Nodup ∧ (s.assets.map (·.id)).Nodup ∧
      (∀ a ∈ s.actions, (s.findEnt a.eid).isSome) ∧ (∀ a ∈ s.assets, (s.findEnt a.eid).isSome) := by
  intro s hs
  have := (run_AllInv cfg h (Server.AllInv_init cfg) s hs).1
  exact ⟨this.act_keys, this.asset_eids, this.asset_ids, this.act_ent, this.asset_ent⟩

end Hagall.Props.C16
