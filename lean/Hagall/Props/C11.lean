/-
  C11 - pose updates are relayed in order, coalesced per frame; the latest one arrives.

  The scheduler of a connection (hagall-common `scheduler`: a map of pending pose updates keyed by entity,
  flushed into the FIFO queue on every frame tick, from which the main loop consumes - items flushed by one
  tick in arbitrary order) is `Conn.dispatch / flush / pop` of the model.  For *every* interleaving of
  receives, frame ticks and consumptions on a connection, whatever arrives and whichever flushed item the
  main loop happens to take:

  * `C11_order`: the pose updates of an entity that have been consumed, followed by those still in flight
    (queued, then pending), are a subsequence of the ones received, in the order received - nothing is
    reordered, nothing repeated - and the most recent one received is always the last of them: it is never
    the one that is skipped;
  * `C11_latest_arrives`: hence, once nothing for the entity is in flight any more, the last update consumed
    is the last one received.

  What the handler does with a consumed update is `Session.updatePose`: `C11_applied` (owner, entity present,
  pose present: the pose is stored and it is the stored pose that is relayed and that newcomers are handed),
  `C11_dropped` (unknown or foreign entity, or no pose: nothing changes, nothing is sent), `C11_after_delete`
  (once an entity is deleted no update of it is ever applied again: its id is not reissued).
  Frame timing itself (how many wall-clock frames "a few" is) is outside the model.
-/
import Hagall.Proofs.DataInv
import Hagall.Props.C02
import Hagall.Props.C05
import Hagall.Props.C10
namespace Hagall

/-! ### the scheduler of one connection -/

def Req.poseOf (e : Nat) : Req → Bool
  | .updatePose _ e' (some _) => e' == e
  | _ => false

def posesFor (e : Nat) (l : List Req) : List Req := l.filter (Req.poseOf e)

/-- what is still on its way for entity `e`: queued (oldest first), then pending -/
def Conn.inflight (k : Conn) (e : Nat) : List Req :=
  posesFor e (k.queue.map (·.req)) ++ posesFor e (k.pendPose.map (·.2))

/-- the operations on a connection's scheduler -/
inductive COp
  | recv (r : Req)          -- receiver goroutine: Dispatch
  | tick (n : Nat)          -- frame worker: HandleFrame, during tick number n
  | handle (pick : Nat)     -- main loop: take one message of the head group
deriving Repr

/-- state of the argument: the connection, what was received and what was consumed so far, the last tick -/
structure CState where
  k : Conn
  sent : List Req := []
  handled : List Req := []
  lastTick : Nat := 0

def CState.step (st : CState) : COp → CState
  | .recv r => { st with k := (st.k.dispatch r).1, sent := st.sent ++ [r] }
  | .tick n => if st.lastTick < n then { st with k := st.k.flush n, lastTick := n } else st
  | .handle pick =>
    match st.k.pop pick with
    | some (r, k') => { st with k := k', handled := st.handled ++ [r] }
    | none => st

def CState.run (st : CState) (ops : List COp) : CState := ops.foldl CState.step st

/-- consumed, then queued, then pending -/
def CState.flow (st : CState) (e : Nat) : List Req := posesFor e st.handled ++ st.k.inflight e

/-- scheduler invariant (the part that speaks about the connection only; `t` is the last tick) -/
structure QInv (k : Conn) (t : Nat) : Prop where
  /-- pending updates are keyed by their own entity, one per entity -/
  pendKeys : ∀ q ∈ k.pendPose, q.2.poseOf q.1 = true
  pendNodup : (k.pendPose.map (·.1)).Nodup
  pendComp : ∀ q ∈ k.pendComp, q.2.isPose = false
  /-- a queued pose update was flushed by a tick, not later than the last one -/
  grpPos : ∀ it ∈ k.queue, it.req.isPose = true → 0 < it.grp ∧ it.grp ≤ t
  /-- one tick flushes at most one update per entity: per entity the ticks of queued updates are distinct -/
  grpDistinct : ∀ e, ((k.queue.filter fun it => it.req.poseOf e).map (·.grp)).Nodup

theorem poseOf_isPose {e : Nat} {r : Req} (h : r.poseOf e = true) : r.isPose = true := by
  cases r <;> simp [Req.poseOf, Req.isPose] at h ⊢
  case updatePose ots eid p => cases p <;> simp at h ⊢

theorem not_poseOf_of_not_isPose {e : Nat} {r : Req} (h : r.isPose = false) : r.poseOf e = false := by
  cases r <;> simp [Req.poseOf, Req.isPose] at h ⊢
  case updatePose ots eid p => cases p <;> simp at h ⊢

theorem poseOf_inj {a b : Nat} {r : Req} (ha : r.poseOf a = true) (hb : r.poseOf b = true) : a = b := by
  cases r <;> simp [Req.poseOf] at ha hb
  case updatePose ots eid p =>
    cases p <;> simp at ha hb
    omega

theorem posesFor_append (e : Nat) (a b : List Req) : posesFor e (a ++ b) = posesFor e a ++ posesFor e b := by
  simp [posesFor]

/-! #### the pending map -/

def pendFor (l : List (Nat × Req)) (e : Nat) : Option Req := (l.find? (·.1 == e)).map (·.2)

/-- under the invariant, the pending updates of `e` are exactly the entry under key `e` -/
theorem posesFor_pend (e : Nat) : ∀ (l : List (Nat × Req)), (∀ q ∈ l, q.2.poseOf q.1 = true) → (l.map (·.1)).Nodup →
    posesFor e (l.map (·.2)) = (pendFor l e).toList := by
  intro l
  induction l with
  | nil => intro _ _; rfl
  | cons q t ih =>
    intro hk hnd
    have hq := hk q (List.mem_cons_self ..)
    have hk' : ∀ x ∈ t, x.2.poseOf x.1 = true := fun x hx => hk x (List.mem_cons_of_mem _ hx)
    simp only [List.map_cons, List.nodup_cons] at hnd
    have iht := ih hk' hnd.2
    by_cases hqe : q.1 = e
    · -- the entry of e: nothing else in the tail is for e
      have htail : posesFor e (t.map (·.2)) = [] := by
        simp only [posesFor, List.filter_eq_nil_iff, List.mem_map]
        rintro _ ⟨x, hx, rfl⟩ hp
        have : x.1 = e := poseOf_inj (hk' x hx) hp
        exact hnd.1 (List.mem_map.mpr ⟨x, hx, by rw [this, hqe]⟩)
      have hqp : q.2.poseOf e = true := hqe ▸ hq
      simp only [List.map_cons, posesFor, List.filter_cons, hqp, if_true, pendFor, List.find?_cons, hqe, beq_self_eq_true,
        Option.map_some, Option.toList_some]
      simpa [posesFor] using htail
    · have hnp : q.2.poseOf e = false := by
        cases hp : q.2.poseOf e with
        | false => rfl
        | true => exact absurd (poseOf_inj hq hp) hqe
      have hb : (q.1 == e) = false := by simpa using hqe
      simp only [List.map_cons, posesFor, List.filter_cons, hnp, Bool.false_eq_true, if_false, pendFor, List.find?_cons, hb]
      simpa [posesFor, pendFor] using iht

theorem find_replace (k : Nat) (v : Req) (e : Nat) : ∀ (l : List (Nat × Req)),
    ((l.map fun q => if q.1 == k then (k, v) else q).find? (·.1 == e)).map (·.2) =
      if k = e then (if l.any (·.1 == k) then some v else none) else (l.find? (·.1 == e)).map (·.2) := by
  intro l
  induction l with
  | nil => simp
  | cons q t ih =>
    by_cases hqk : q.1 = k
    · by_cases hke : k = e
      · subst hke; simp [hqk]
      · have h1 : (k == e) = false := by simpa using hke
        have h2 : (q.1 == e) = false := by rw [hqk]; exact h1
        simp only [List.map_cons, hqk, beq_self_eq_true, if_true, List.find?_cons, h1, h2, hke, if_false] at ih ⊢
        exact ih
    · have h0 : (q.1 == k) = false := by simpa using hqk
      by_cases hqe : q.1 = e
      · have hke : ¬ k = e := fun h => hqk (hqe.trans h.symm)
        have h3 : (q.1 == e) = true := by simpa using hqe
        simp only [List.map_cons, h0, Bool.false_eq_true, if_false, List.find?_cons, h3, hke, Option.map_some]
      · have h3 : (q.1 == e) = false := by simpa using hqe
        simp only [List.map_cons, h0, Bool.false_eq_true, if_false, List.find?_cons, h3, List.any_cons, Bool.false_or] at ih ⊢
        exact ih

theorem pendFor_insertKV (l : List (Nat × Req)) (k : Nat) (v : Req) (e : Nat) :
    pendFor (insertKV l k v) e = if k = e then some v else pendFor l e := by
  unfold insertKV pendFor
  by_cases hany : l.any (·.1 == k) = true
  · rw [if_pos hany, find_replace, hany]; simp
  · have hany' : l.any (·.1 == k) = false := by
      cases h : l.any (·.1 == k) with
      | false => rfl
      | true => exact absurd h hany
    rw [if_neg hany, List.find?_append]
    by_cases hke : k = e
    · subst hke
      have : l.find? (·.1 == k) = none := by
        rw [List.find?_eq_none]; intro x hx
        have := List.any_eq_false.mp hany' x hx
        simpa using this
      simp [this]
    · have hb : (k == e) = false := by simpa using hke
      simp only [hke, if_false, List.find?_cons, hb, List.find?_nil, Option.or_none]

/-! #### the queue -/

theorem filter_erase_of_not {α : Type} [BEq α] [LawfulBEq α] (f : α → Bool) (a : α) (hf : f a = false) :
    ∀ l : List α, (l.erase a).filter f = l.filter f := by
  intro l
  induction l with
  | nil => rfl
  | cons y ys ih =>
    by_cases hy : y = a
    · subst hy; simp [hf]
    · have : (y == a) = false := by simpa using hy
      simp [List.erase_cons, this, List.filter_cons, ih]

/-- if nothing before the first occurrence of `a` passes the filter and `a` does, erasing `a` removes the head
    of the filtered list -/
theorem filter_erase_first {α : Type} [BEq α] [LawfulBEq α] (f : α → Bool) (a : α) (hf : f a = true) :
    ∀ l : List α, a ∈ l → (∀ y ∈ l.takeWhile (· != a), f y = false) → l.filter f = a :: (l.erase a).filter f := by
  intro l
  induction l with
  | nil => intro h; cases h
  | cons y ys ih =>
    intro hmem hpre
    by_cases hy : y = a
    · subst hy; simp [hf]
    · have hb : (y == a) = false := by simpa using hy
      have hb' : (y != a) = true := by simp [bne, hb]
      have hfy : f y = false := hpre y (by simp [List.takeWhile_cons, hb'])
      have hmem' : a ∈ ys := by
        rcases List.mem_cons.mp hmem with h | h
        · exact absurd h.symm hy
        · exact h
      have hpre' : ∀ z ∈ ys.takeWhile (· != a), f z = false := fun z hz =>
        hpre z (by simp [List.takeWhile_cons, hb', hz])
      simp [List.erase_cons, hb, List.filter_cons, hfy, ih hmem' hpre']

/-- everything before the first occurrence of an element of a `takeWhile` prefix is in that prefix -/
theorem takeWhile_ne_subset {α : Type} [BEq α] [LawfulBEq α] (P : α → Bool) (a : α) :
    ∀ l : List α, a ∈ l.takeWhile P → ∀ y ∈ l.takeWhile (· != a), P y = true := by
  intro l
  induction l with
  | nil => intro h; cases h
  | cons z zs ih =>
    intro ha y hy
    by_cases hPz : P z = true
    · simp only [List.takeWhile_cons, hPz, if_true, List.mem_cons] at ha
      by_cases hz : z = a
      · subst hz; simp [List.takeWhile_cons] at hy
      · have hb' : (z != a) = true := by simpa [bne] using hz
        simp only [List.takeWhile_cons, hb', if_true, List.mem_cons] at hy
        rcases hy with rfl | hy
        · exact hPz
        · rcases ha with rfl | ha
          · exact absurd rfl hz
          · exact ih ha y hy
    · simp [List.takeWhile_cons, hPz] at ha

theorem mem_takeWhile_holds {α : Type} (P : α → Bool) (a : α) : ∀ l : List α, a ∈ l.takeWhile P → P a = true := by
  intro l
  induction l with
  | nil => intro h; cases h
  | cons z zs ih =>
    intro h
    by_cases hPz : P z = true
    · simp only [List.takeWhile_cons, hPz, if_true, List.mem_cons] at h
      rcases h with rfl | h
      · exact hPz
      · exact ih h
    · simp [List.takeWhile_cons, hPz] at h

theorem split_first {α : Type} [BEq α] [LawfulBEq α] (a : α) : ∀ l : List α, a ∈ l →
    ∃ post, l = l.takeWhile (· != a) ++ a :: post := by
  intro l
  induction l with
  | nil => intro h; cases h
  | cons y ys ih =>
    intro h
    by_cases hy : y = a
    · subst hy; exact ⟨ys, by simp [List.takeWhile_cons]⟩
    · have hb' : (y != a) = true := by simpa [bne] using hy
      have hmem : a ∈ ys := by
        rcases List.mem_cons.mp h with h | h
        · exact absurd h.symm hy
        · exact h
      obtain ⟨post, hp⟩ := ih hmem
      exact ⟨post, by simp only [List.takeWhile_cons, hb', if_true, List.cons_append]; rw [← hp]⟩

theorem mem_headGroup {q : List QItem} {it : QItem} (h : it ∈ headGroup q) :
    it ∈ q ∧ ∀ y ∈ q.takeWhile (· != it), y.grp = it.grp := by
  cases q with
  | nil => simp [headGroup] at h
  | cons x xs =>
    by_cases hx : it = x
    · subst hx
      exact ⟨List.mem_cons_self .., by simp [List.takeWhile_cons]⟩
    · have hne : (x != it) = true := by simpa [bne] using (Ne.symm hx)
      simp only [headGroup] at h
      by_cases hg : (x.grp == 0) = true
      · rw [if_pos hg] at h
        exact absurd (List.mem_singleton.mp h) hx
      · rw [if_neg hg] at h
        rcases List.mem_cons.mp h with h | h
        · exact absurd h hx
        · have hit := mem_takeWhile_holds _ _ _ h
          simp only [Bool.and_eq_true, beq_iff_eq] at hit
          refine ⟨List.mem_cons_of_mem _ ((List.takeWhile_sublist _).subset h), ?_⟩
          intro y hy
          simp only [List.takeWhile_cons, hne, if_true, List.mem_cons] at hy
          rcases hy with rfl | hy
          · exact hit.1.symm
          · have := takeWhile_ne_subset _ it xs h y hy
            simp only [Bool.and_eq_true, beq_iff_eq] at this
            rw [this.1, hit.1]

/-- **the main loop takes the oldest queued pose update of an entity**: whichever item of the head group is
    picked, if it is a pose update of `e` it is the first one of `e` in the queue -/
theorem pop_takes_first {k k' : Conn} {t pick e : Nat} {r : Req} (hI : QInv k t) (h : k.pop pick = some (r, k'))
    (hr : r.poseOf e = true) :
    posesFor e (k.queue.map (·.req)) = r :: posesFor e (k'.queue.map (·.req)) ∧ k'.pendPose = k.pendPose := by
  unfold Conn.pop at h
  simp only [] at h
  cases hit : ((headGroup k.queue)[pick]? <|> (headGroup k.queue).head?) with
  | none => simp [hit] at h
  | some it =>
    simp only [hit, Option.some.injEq, Prod.mk.injEq] at h
    obtain ⟨rfl, rfl⟩ := h
    have hmemG : it ∈ headGroup k.queue := by
      cases h1 : (headGroup k.queue)[pick]? with
      | some x => simp [h1] at hit; subst hit; exact List.mem_of_getElem? h1
      | none => simp [h1] at hit; exact List.mem_of_mem_head? hit
    obtain ⟨hmem, hgrp⟩ := mem_headGroup hmemG
    refine ⟨?_, rfl⟩
    -- nothing of e precedes it: it would carry the same tick
    have hpre : ∀ y ∈ k.queue.takeWhile (· != it), (fun i : QItem => i.req.poseOf e) y = false := by
      intro y hy
      cases hp : y.req.poseOf e with
      | false => exact hp
      | true =>
        exfalso
        have hnd := hI.grpDistinct e
        obtain ⟨post, hpost⟩ := split_first it k.queue hmem
        rw [hpost, List.filter_append, List.map_append, List.filter_cons] at hnd
        simp only [hr, if_true, List.map_cons] at hnd
        have hdis := (List.nodup_append.mp hnd).2.2
        have h1 : y.grp ∈ ((k.queue.takeWhile (· != it)).filter fun i => i.req.poseOf e).map (·.grp) :=
          List.mem_map.mpr ⟨y, List.mem_filter.mpr ⟨hy, hp⟩, rfl⟩
        exact hdis _ h1 _ (List.mem_cons_self ..) (hgrp y hy)
    have := filter_erase_first (fun i : QItem => i.req.poseOf e) it hr k.queue hmem hpre
    simp only [posesFor, List.filter_map] at this ⊢
    simpa [Function.comp_def] using congrArg (List.map (·.req)) this

theorem pop_other {k k' : Conn} {pick e : Nat} {r : Req} (h : k.pop pick = some (r, k')) (hr : r.poseOf e = false) :
    posesFor e (k'.queue.map (·.req)) = posesFor e (k.queue.map (·.req)) ∧ k'.pendPose = k.pendPose := by
  unfold Conn.pop at h
  simp only [] at h
  cases hit : ((headGroup k.queue)[pick]? <|> (headGroup k.queue).head?) with
  | none => simp [hit] at h
  | some it =>
    simp only [hit, Option.some.injEq, Prod.mk.injEq] at h
    obtain ⟨rfl, rfl⟩ := h
    refine ⟨?_, rfl⟩
    have := filter_erase_of_not (fun i : QItem => i.req.poseOf e) it hr k.queue
    simp only [posesFor, List.filter_map]
    simpa [Function.comp_def] using congrArg (List.map (·.req)) this

/-! #### the invariant is kept by every operation -/

theorem mem_insertKV {κ : Type} [BEq κ] {l : List (κ × Req)} {k : κ} {v : Req} {q : κ × Req} (h : q ∈ insertKV l k v) :
    q ∈ l ∨ q = (k, v) := by
  unfold insertKV at h
  split at h
  · obtain ⟨x, hx, hq⟩ := List.mem_map.mp h
    split at hq
    · exact Or.inr hq.symm
    · exact Or.inl (hq ▸ hx)
  · rcases List.mem_append.mp h with h | h
    · exact Or.inl h
    · exact Or.inr (List.mem_singleton.mp h)

theorem keys_insertKV (l : List (Nat × Req)) (k : Nat) (v : Req) (h : (l.map (·.1)).Nodup) :
    ((insertKV l k v).map (·.1)).Nodup := by
  unfold insertKV
  by_cases hany : l.any (·.1 == k) = true
  · rw [if_pos hany]
    have : (l.map fun q => if (q.1 == k) = true then (k, v) else q).map (·.1) = l.map (·.1) := by
      rw [List.map_map]; apply List.map_congr_left; intro q _
      by_cases hq : q.1 = k
      · simp [hq]
      · simp [hq]
    rw [this]; exact h
  · rw [if_neg hany, List.map_append, List.nodup_append]
    refine ⟨h, by simp, ?_⟩
    intro a ha b hb hab
    simp at hb; subst hb; subst hab
    apply hany
    obtain ⟨x, hx, hxa⟩ := List.mem_map.mp ha
    exact List.any_eq_true.mpr ⟨x, hx, by simpa using hxa⟩

theorem dispatch_shape (k : Conn) (r : Req) :
    (∃ ots eid p, r = .updatePose ots eid (some p) ∧ (k.dispatch r).1 = { k with pendPose := insertKV k.pendPose eid r }) ∨
    (r.isPose = false ∧ ∃ key, (k.dispatch r).1 = { k with pendComp := insertKV k.pendComp key r }) ∨
    (r.isPose = false ∧ (k.dispatch r).1 = k) ∨
    (r.isPose = false ∧ (k.dispatch r).1 = { k with queue := k.queue ++ [⟨r, 0⟩] }) := by
  cases r
  case updatePose ots eid p =>
    cases p with
    | none => exact Or.inr (Or.inr (Or.inl ⟨rfl, rfl⟩))
    | some v => exact Or.inl ⟨ots, eid, v, rfl, rfl⟩
  case compUpdate ots tid eid d => exact Or.inr (Or.inl ⟨rfl, (tid, eid), rfl⟩)
  case undecodable ty =>
    by_cases h : (ty == 14 || ty == 30) = true
    · exact Or.inr (Or.inr (Or.inl ⟨rfl, by simp only [Conn.dispatch, h, if_true]⟩))
    · exact Or.inr (Or.inr (Or.inr ⟨rfl, by simp [Conn.dispatch, h]⟩))
  all_goals exact Or.inr (Or.inr (Or.inr ⟨rfl, rfl⟩))

theorem QInv_init (c : Nat) : QInv { id := c } 0 := by
  constructor <;> simp

theorem QInv_mono {k : Conn} {t t' : Nat} (hI : QInv k t) (h : t ≤ t') : QInv k t' :=
  { hI with grpPos := fun it hit hp => ⟨(hI.grpPos it hit hp).1, Nat.le_trans (hI.grpPos it hit hp).2 h⟩ }

theorem dispatch_QInv {k : Conn} {t : Nat} (hI : QInv k t) (r : Req) : QInv (k.dispatch r).1 t := by
  rcases dispatch_shape k r with ⟨ots, eid, p, rfl, h⟩ | ⟨hr, key, h⟩ | ⟨_, h⟩ | ⟨hr, h⟩ <;> rw [h]
  · refine { hI with pendKeys := ?_, pendNodup := keys_insertKV _ _ _ hI.pendNodup }
    intro q hq
    rcases mem_insertKV hq with hq | rfl
    · exact hI.pendKeys q hq
    · simp [Req.poseOf]
  · refine { hI with pendComp := ?_ }
    intro q hq
    rcases mem_insertKV hq with hq | rfl
    · exact hI.pendComp q hq
    · exact hr
  · exact hI
  · refine { hI with grpPos := ?_, grpDistinct := ?_ }
    · intro it hit hp
      rcases List.mem_append.mp hit with hit | hit
      · exact hI.grpPos it hit hp
      · simp at hit; subst hit; simp [hr] at hp
    · intro e
      have : (fun it : QItem => it.req.poseOf e) ⟨r, 0⟩ = false := not_poseOf_of_not_isPose hr
      simp only [List.filter_append, List.filter_cons, this, Bool.false_eq_true, if_false, List.filter_nil, List.append_nil]
      exact hI.grpDistinct e

theorem flush_QInv {k : Conn} {t n : Nat} (hI : QInv k t) (h : t < n) : QInv (k.flush n) n := by
  unfold Conn.flush
  refine ⟨by simp, by simp, by simp, ?_, ?_⟩
  · intro it hit hp
    simp only [List.append_assoc, List.mem_append, List.mem_map] at hit
    rcases hit with hit | ⟨q, _, rfl⟩ | ⟨q, _, rfl⟩
    · have := hI.grpPos it hit hp; omega
    · simp; omega
    · simp; omega
  · intro e
    simp only [List.append_assoc, List.filter_append, List.map_append]
    -- the flushed component updates are no pose updates
    have hcomp : (k.pendComp.map fun q => (⟨q.2, n⟩ : QItem)).filter (fun it => it.req.poseOf e) = [] := by
      rw [List.filter_eq_nil_iff]; intro it hit
      obtain ⟨q, hq, rfl⟩ := List.mem_map.mp hit
      simp [not_poseOf_of_not_isPose (hI.pendComp q hq)]
    -- at most one flushed pose update is for e
    have hpose : ((k.pendPose.map fun q => (⟨q.2, n⟩ : QItem)).filter (fun it => it.req.poseOf e)).map (·.grp) =
        (posesFor e (k.pendPose.map (·.2))).map fun _ => n := by
      simp [posesFor, List.filter_map, Function.comp_def]
    rw [hcomp, hpose, posesFor_pend e _ hI.pendKeys hI.pendNodup, List.map_nil, List.append_nil, List.nodup_append]
    refine ⟨hI.grpDistinct e, ?_, ?_⟩
    · cases pendFor k.pendPose e <;> simp
    · intro a ha b hb hab
      obtain ⟨it, hit, rfl⟩ := List.mem_map.mp ha
      have hit' := List.mem_filter.mp hit
      have := hI.grpPos it hit'.1 (poseOf_isPose hit'.2)
      cases hpf : pendFor k.pendPose e with
      | none => simp [hpf] at hb
      | some v => simp [hpf] at hb; omega

theorem pop_QInv {k k' : Conn} {t pick : Nat} {r : Req} (hI : QInv k t) (h : k.pop pick = some (r, k')) : QInv k' t := by
  unfold Conn.pop at h
  simp only [] at h
  cases hit : ((headGroup k.queue)[pick]? <|> (headGroup k.queue).head?) with
  | none => simp [hit] at h
  | some it =>
    simp only [hit, Option.some.injEq, Prod.mk.injEq] at h
    obtain ⟨rfl, rfl⟩ := h
    refine { hI with grpPos := ?_, grpDistinct := ?_ }
    · intro x hx hp; exact hI.grpPos x (List.mem_of_mem_erase hx) hp
    · intro e
      exact (((List.erase_sublist ..).filter _).map _).nodup (hI.grpDistinct e)

/-! #### order -/

def CState.init (c : Nat) : CState := { k := { id := c } }

/-- what the argument maintains: the scheduler invariant, and for every entity the flow of its updates -/
structure CState.Good (st : CState) : Prop where
  inv : QInv st.k st.lastTick
  order : ∀ e, (st.flow e).Sublist (posesFor e st.sent)
  last : ∀ e, (st.flow e).getLast? = (posesFor e st.sent).getLast?

theorem inflight_eq {k : Conn} {t : Nat} (hI : QInv k t) (e : Nat) :
    k.inflight e = posesFor e (k.queue.map (·.req)) ++ (pendFor k.pendPose e).toList := by
  unfold Conn.inflight; rw [posesFor_pend e _ hI.pendKeys hI.pendNodup]

theorem last_append_singleton {α : Type} (l : List α) (a : α) : (l ++ [a]).getLast? = some a := by simp

theorem Good_init (c : Nat) : (CState.init c).Good := by
  refine ⟨QInv_init c, ?_, ?_⟩ <;> intro e <;> simp [CState.init, CState.flow, Conn.inflight, posesFor]

theorem Good_step {st : CState} (hG : st.Good) (op : COp) : (st.step op).Good := by
  cases op with
  | recv r =>
    have hI' : QInv (st.k.dispatch r).1 st.lastTick := dispatch_QInv hG.inv r
    refine ⟨hI', ?_, ?_⟩ <;> intro e <;>
      simp only [CState.step, CState.flow, inflight_eq hI', posesFor_append] <;>
      have ho := hG.order e <;> have hl := hG.last e <;>
      simp only [CState.flow, inflight_eq hG.inv] at ho hl
    all_goals
      rcases dispatch_shape st.k r with ⟨ots, eid, p, rfl, h⟩ | ⟨hr, key, h⟩ | ⟨hr, h⟩ | ⟨hr, h⟩
    -- order, pose update
    · rw [h]; simp only [pendFor_insertKV]
      by_cases he : eid = e
      · subst he
        have hp : posesFor eid [Req.updatePose ots eid p] = [Req.updatePose ots eid p] := by simp [posesFor, Req.poseOf]
        rw [if_pos rfl, hp, Option.toList_some, ← List.append_assoc]
        refine List.Sublist.append ?_ (List.Sublist.refl _)
        exact (List.sublist_append_left _ _).trans (by rw [List.append_assoc]; exact ho)
      · have hp : posesFor e [Req.updatePose ots eid p] = [] := by simp [posesFor, Req.poseOf, he]
        rw [if_neg he, hp, List.append_nil]; exact ho
    · have hp : posesFor e [r] = [] := by simp [posesFor, not_poseOf_of_not_isPose hr]
      rw [h, hp, List.append_nil]; exact ho
    · have hp : posesFor e [r] = [] := by simp [posesFor, not_poseOf_of_not_isPose hr]
      rw [h, hp, List.append_nil]; exact ho
    · have hp : posesFor e [r] = [] := by simp [posesFor, not_poseOf_of_not_isPose hr]
      rw [h, hp, List.append_nil]
      simp only [List.map_append, List.map_cons, List.map_nil, posesFor_append, hp, List.append_nil]; exact ho
    -- last, pose update
    · rw [h]; simp only [pendFor_insertKV]
      by_cases he : eid = e
      · subst he
        have hp : posesFor eid [Req.updatePose ots eid p] = [Req.updatePose ots eid p] := by simp [posesFor, Req.poseOf]
        rw [if_pos rfl, hp, Option.toList_some, ← List.append_assoc, last_append_singleton, last_append_singleton]
      · have hp : posesFor e [Req.updatePose ots eid p] = [] := by simp [posesFor, Req.poseOf, he]
        rw [if_neg he, hp, List.append_nil]; exact hl
    · have hp : posesFor e [r] = [] := by simp [posesFor, not_poseOf_of_not_isPose hr]
      rw [h, hp, List.append_nil]; exact hl
    · have hp : posesFor e [r] = [] := by simp [posesFor, not_poseOf_of_not_isPose hr]
      rw [h, hp, List.append_nil]; exact hl
    · have hp : posesFor e [r] = [] := by simp [posesFor, not_poseOf_of_not_isPose hr]
      rw [h, hp, List.append_nil]
      simp only [List.map_append, List.map_cons, List.map_nil, posesFor_append, hp, List.append_nil]; exact hl
  | tick n =>
    simp only [CState.step]
    split
    · rename_i hlt
      have hI' := flush_QInv hG.inv hlt
      have hflow : ∀ e, ({ st with k := st.k.flush n, lastTick := n } : CState).flow e = st.flow e := by
        intro e
        simp only [CState.flow, inflight_eq hI', inflight_eq hG.inv]
        simp only [Conn.flush, List.map_append, List.map_map, posesFor_append, pendFor, List.find?_nil, Option.map_none,
          Option.toList_none, List.append_nil]
        have h1 : posesFor e (List.map ((fun x : QItem => x.req) ∘ fun q : Nat × Req => (⟨q.2, n⟩ : QItem)) st.k.pendPose) =
            (pendFor st.k.pendPose e).toList := by
          rw [← posesFor_pend e _ hG.inv.pendKeys hG.inv.pendNodup]; rfl
        have h2 : posesFor e (List.map ((fun x : QItem => x.req) ∘ fun q : (Nat × Nat) × Req => (⟨q.2, n⟩ : QItem)) st.k.pendComp) = [] := by
          simp only [posesFor, List.filter_eq_nil_iff, List.mem_map]
          rintro _ ⟨q, hq, rfl⟩
          simp [not_poseOf_of_not_isPose (hG.inv.pendComp q hq)]
        rw [h1, h2, List.append_nil, pendFor]
      exact ⟨hI', fun e => by rw [hflow e]; exact hG.order e, fun e => by rw [hflow e]; exact hG.last e⟩
    · exact hG
  | handle pick =>
    simp only [CState.step]
    cases hp : st.k.pop pick with
    | none => exact hG
    | some rk =>
      obtain ⟨r, k'⟩ := rk
      have hI' := pop_QInv hG.inv hp
      have hflow : ∀ e, ({ st with k := k', handled := st.handled ++ [r] } : CState).flow e = st.flow e := by
        intro e
        simp only [CState.flow, inflight_eq hI', inflight_eq hG.inv, posesFor_append]
        cases hr : r.poseOf e with
        | true =>
          obtain ⟨h1, h2⟩ := pop_takes_first hG.inv hp hr
          have : posesFor e [r] = [r] := by simp [posesFor, hr]
          rw [this, h1, h2]; simp
        | false =>
          obtain ⟨h1, h2⟩ := pop_other hp hr
          have : posesFor e [r] = [] := by simp [posesFor, hr]
          rw [this, h1, h2]; simp
      exact ⟨hI', fun e => by rw [hflow e]; exact hG.order e, fun e => by rw [hflow e]; exact hG.last e⟩

theorem Good_run : ∀ (ops : List COp) (st : CState), st.Good → (st.run ops).Good := by
  intro ops
  induction ops with
  | nil => intro st h; exact h
  | cons op ops ih => intro st h; exact ih _ (Good_step h op)

/-- **C11, order.** For every interleaving of receives, frame ticks and consumptions on a connection (whatever
    is received, whichever item of a flushed group the main loop takes): the pose updates of an entity consumed
    so far, followed by those queued and the one pending, form a subsequence of the updates received, in the
    order received - none reordered, none repeated - whose last element is the most recent update received. -/
theorem C11_order (c : Nat) (ops : List COp) (e : Nat) :
    let st := (CState.init c).run ops
    (posesFor e st.handled ++ st.k.inflight e).Sublist (posesFor e st.sent) ∧
    (posesFor e st.handled ++ st.k.inflight e).getLast? = (posesFor e st.sent).getLast? :=
  let hG := Good_run ops _ (Good_init c)
  ⟨hG.order e, hG.last e⟩

/-- **C11, the latest one arrives.** Once nothing for the entity is queued or pending, the last update consumed
    is the last one received (and what was consumed is a subsequence of what was received). -/
theorem C11_latest_arrives (c : Nat) (ops : List COp) (e : Nat)
    (hdone : ((CState.init c).run ops).k.inflight e = []) :
    let st := (CState.init c).run ops
    (posesFor e st.handled).Sublist (posesFor e st.sent) ∧
    (posesFor e st.handled).getLast? = (posesFor e st.sent).getLast? := by
  have := C11_order c ops e
  simp only [hdone, List.append_nil] at this
  exact this

/-- a pending update is flushed by the next tick and then consumed after at most `queue length` consumptions:
    a tick empties the pending map -/
theorem C11_tick_flushes (k : Conn) (n e : Nat) : pendFor (k.flush n).pendPose e = none := by
  simp [Conn.flush, pendFor]

/-! ### the server runs exactly this scheduler -/

theorem leave_conns (cfg : Cfg) (srv : Server) (s : Session) (p : Part) :
    (srv.leave cfg s p).1.conns = srv.conns ∧ (srv.leave cfg s p).1.ticks = srv.ticks := by
  unfold Server.leave
  simp only []
  split <;> simp [Server.setSession]

theorem joinFresh_conns (cfg : Cfg) (srv : Server) (c rid ots : Nat) (t : JoinTarget) (hint : Nat) :
    (srv.joinFresh cfg c rid ots t hint).1.conns = srv.conns ∧ (srv.joinFresh cfg c rid ots t hint).1.ticks = srv.ticks := by
  unfold Server.joinFresh
  cases t with
  | bogus => simp
  | id n => simp only []; split <;> simp [Server.setSession]
  | new => simp

theorem handleReq_conns (cfg : Cfg) (srv : Server) (c : Nat) (r : Req) (hint : Nat) :
    (srv.handleReq cfg c r hint).1.conns = srv.conns ∧ (srv.handleReq cfg c r hint).1.ticks = srv.ticks := by
  have hjoin : ∀ rid ots t, (srv.join cfg c rid ots t hint).1.conns = srv.conns ∧ (srv.join cfg c rid ots t hint).1.ticks = srv.ticks := by
    intro rid ots t
    unfold Server.join
    split
    · rename_i s p _
      split
      · simp
      · split
        · simp
        · simp only []
          have h1 := leave_conns cfg srv s p
          have h2 := joinFresh_conns cfg (srv.leave cfg s p).1 c rid ots t hint
          exact ⟨h2.1.trans h1.1, h2.2.trans h1.2⟩
    · exact joinFresh_conns cfg srv c rid ots t hint
  have hrc : ∀ rid a b d, (srv.handleReceipt cfg c rid a b d).1.conns = srv.conns ∧ (srv.handleReceipt cfg c rid a b d).1.ticks = srv.ticks := by
    intro rid a b d; unfold Server.handleReceipt; split
    · simp
    · split <;> simp
  cases r <;> simp only [Server.handleReq]
  case join rid ots t => exact hjoin rid ots t
  case receipt rid a b d => exact hrc rid a b d
  case ping => simp
  all_goals (split <;> simp [Server.setSession])

theorem disconnect_conns (cfg : Cfg) (srv : Server) (c : Nat) :
    (srv.disconnect cfg c).1.conns = srv.conns.filter (·.id != c) ∧ (srv.disconnect cfg c).1.ticks = srv.ticks := by
  unfold Server.disconnect
  simp only []
  split
  · rename_i s p _
    have := leave_conns cfg srv s p
    simp [this.1, this.2]
  · simp

/-- every connection of the server keeps the scheduler invariant through every event -/
theorem step_sched (cfg : Cfg) (srv : Server) (ev : Event) (h : ∀ k ∈ srv.conns, QInv k srv.ticks) :
    ∀ k ∈ (step cfg srv ev).1.conns, QInv k (step cfg srv ev).1.ticks := by
  have hset : ∀ (k' : Conn), QInv k' srv.ticks → ∀ k ∈ (srv.setConn k').conns, QInv k srv.ticks := by
    intro k' hk' k hk
    simp only [Server.setConn, List.mem_map] at hk
    obtain ⟨x, hx, rfl⟩ := hk
    split
    · exact hk'
    · exact h x hx
  cases ev with
  | connect c =>
    simp only [step]
    split
    · exact h
    · intro k hk
      simp only [List.mem_append, List.mem_singleton] at hk
      rcases hk with hk | rfl
      · exact h k hk
      · exact QInv_mono (QInv_init c) (Nat.zero_le _)
  | recv c r =>
    simp only [step]
    cases hf : srv.findConn c with
    | none => exact h
    | some k0 =>
      have hk0 : QInv k0 srv.ticks := h k0 (List.mem_of_find?_eq_some hf)
      simp only []
      -- the join request's flush is a tick of this connection alone
      have hb : QInv (srv.beforeDispatch k0 r).2 (srv.beforeDispatch k0 r).1.ticks ∧
          (∀ k ∈ srv.conns, QInv k (srv.beforeDispatch k0 r).1.ticks) := by
        unfold Server.beforeDispatch
        split
        · exact ⟨flush_QInv hk0 (Nat.lt_succ_self _), fun k hk => QInv_mono (h k hk) (Nat.le_succ _)⟩
        · exact ⟨hk0, h⟩
      have hconns : (srv.beforeDispatch k0 r).1.conns = srv.conns := by simp
      generalize (srv.beforeDispatch k0 r).1 = s1 at hb hconns ⊢
      generalize (srv.beforeDispatch k0 r).2 = k1 at hb ⊢
      cases hd : k1.dispatch r with
      | mk k' o =>
        have hk' : QInv k' s1.ticks := by have := dispatch_QInv hb.1 r; rw [hd] at this; exact this
        cases o with
        | ok =>
          simp only []
          intro k hk
          simp only [Server.setConn, List.mem_map] at hk
          obtain ⟨x, hx, rfl⟩ := hk
          split
          · exact hk'
          · exact hb.2 x (hconns ▸ hx)
        | connError =>
          simp only []
          have := disconnect_conns cfg s1 c
          rw [this.1, this.2]
          intro k hk; exact hb.2 k (hconns ▸ (List.mem_filter.mp hk).1)
        | panic site =>
          simp only []
          have := disconnect_conns cfg s1 c
          rw [this.1, this.2]
          intro k hk; exact hb.2 k (hconns ▸ (List.mem_filter.mp hk).1)
  | handle c pick hint =>
    simp only [step]
    cases hf : srv.findConn c with
    | none => exact h
    | some k0 =>
      have hk0 : QInv k0 srv.ticks := h k0 (List.mem_of_find?_eq_some hf)
      simp only []
      cases hp : k0.pop pick with
      | none => exact h
      | some rk =>
        obtain ⟨r, k'⟩ := rk
        have hk' : QInv k' srv.ticks := pop_QInv hk0 hp
        simp only []
        have hc := handleReq_conns cfg (srv.setConn k') c r hint
        rcases hh : (srv.setConn k').handleReq cfg c r hint with ⟨srv', ds, o⟩
        rw [hh] at hc
        simp only [] at hc ⊢
        have hbase : ∀ k ∈ srv'.conns, QInv k srv'.ticks := by
          rw [hc.1, hc.2]; exact hset k' hk'
        cases o with
        | ok => exact hbase
        | connError =>
          simp only []
          have := disconnect_conns cfg srv' c
          rw [this.1, this.2]
          intro k hk; exact hbase k (List.mem_filter.mp hk).1
        | panic site =>
          simp only []
          intro k hk; exact hbase k (List.mem_filter.mp hk).1
  | tick sid =>
    simp only [step]
    split
    · exact h
    · simp only []
      intro k hk
      obtain ⟨x, hx, rfl⟩ := List.mem_map.mp hk
      split
      · exact flush_QInv (h x hx) (Nat.lt_succ_self _)
      · exact QInv_mono (h x hx) (Nat.le_succ _)
  | disconnect c =>
    simp only [step]
    have := disconnect_conns cfg srv c
    rw [this.1, this.2]
    intro k hk; exact h k (List.mem_filter.mp hk).1
  | drain => simp only [step]; exact h

/-- **C11, the server's schedulers.** In every state the server can reach, every connection's scheduler
    satisfies the invariant of `C11_order`; so whatever the main loop takes next, if it is a pose update of an
    entity it is the oldest one queued for that entity (`pop_takes_first`), a received update replaces only the
    pending one of its own entity (`pendFor_insertKV`) and a tick moves the pending updates behind everything
    queued (`Conn.flush`). -/
theorem C11_sched_invariant (cfg : Cfg) : ∀ (es : List Event) (srv : Server), (∀ k ∈ srv.conns, QInv k srv.ticks) →
    ∀ k ∈ (run cfg srv es).1.conns, QInv k (run cfg srv es).1.ticks := by
  intro es
  induction es with
  | nil => intro srv h; exact h
  | cons e es ih =>
    intro srv h
    simp only [run]
    rcases hs : step cfg srv e with ⟨srv', ds, o⟩
    have h' := step_sched cfg srv e h
    rw [hs] at h'
    have := ih srv' h'
    rcases hr : run cfg srv' es with ⟨srv'', ds'⟩
    rw [hr] at this
    exact this

theorem C11_reachable_sched (cfg : Cfg) (es : List Event) :
    ∀ k ∈ (run cfg {} es).1.conns, QInv k (run cfg {} es).1.ticks :=
  C11_sched_invariant cfg es {} (by intro k hk; simp at hk)

/-- the consumption step of the server on a reachable state takes the oldest queued update of the entity -/
theorem C11_handle_takes_oldest (cfg : Cfg) (es : List Event) (c pick e : Nat) (k k' : Conn) (r : Req)
    (hk : (run cfg {} es).1.findConn c = some k) (hp : k.pop pick = some (r, k')) (hr : r.poseOf e = true) :
    posesFor e (k.queue.map (·.req)) = r :: posesFor e (k'.queue.map (·.req)) :=
  (pop_takes_first (C11_reachable_sched cfg es k (List.mem_of_find?_eq_some hk)) hp hr).1

/-! ### what the handler does with a consumed update -/

/-- owner, entity present, pose present: the pose is stored, and it is the stored pose that is relayed -/
theorem C11_applied (cfg : Cfg) (s : Session) (p : Part) (ots eid v : Nat) (e : Entity)
    (he : s.findEnt eid = some e) (ho : e.owner = p.pid) :
    let r := s.updatePose cfg p ots eid (some v)
    r.1.ents = s.ents.map (fun x => if x.id == eid then { x with pose := v } else x) ∧
    r.2.1 = gate cfg fPose (s.bcast p.pid (.poseBcast ots eid v)) := by
  have hid : e.id = eid := (findEnt_some_mem he).2
  simp only [Session.updatePose, he, ho, bne_self_eq_false, Bool.false_eq_true, if_false, hid]
  exact ⟨trivial, congrArg _ (Session.bcast_congr (s := s) rfl _ _)⟩

/-- unknown or foreign entity, or no pose: nothing changes, nothing is sent -/
theorem C11_dropped (cfg : Cfg) (s : Session) (p : Part) (ots eid : Nat) (pose : Option Nat)
    (h : s.findEnt eid = none ∨ (∃ e, s.findEnt eid = some e ∧ e.owner ≠ p.pid) ∨ pose = none) :
    s.updatePose cfg p ots eid pose = (s, [], .ok) :=
  Props.C02.C02_updatePose_dropped cfg s p ots eid pose h

/-- **No pose after deletion.** An entity id that has been issued and is gone (deleted, or removed with its
    owner) stays gone through every later request: ids are never reissued, so a pose update that was still in
    flight when the entity was deleted, or that arrives later, is dropped by `C11_dropped`. -/
theorem C11_gone_stays_gone (cfg : Cfg) (s : Session) (p : Part) (r : Req) (hint eid : Nat)
    (hle : eid ≤ s.eidCur) (hgone : s.findEnt eid = none) :
    (s.handle cfg p r hint).1.findEnt eid = none ∧ eid ≤ (s.handle cfg p r hint).1.eidCur := by
  have hev := Props.C05.C05_owner_immutable cfg s p r hint
  have hgr := Props.C10.C10_counters_monotone cfg s p r hint
  refine ⟨?_, Nat.le_trans hle hgr.2.1⟩
  cases hf : (s.handle cfg p r hint).1.findEnt eid with
  | none => rfl
  | some e =>
    exfalso
    obtain ⟨hmem, hid⟩ := findEnt_some_mem hf
    rcases hev e hmem with ⟨e0, h0, hid0, _⟩ | ⟨hnew, _, _⟩
    · have : (s.findEnt eid).isSome = true := (findEnt_isSome_iff s eid).mpr ⟨e0, h0, hid0.trans hid⟩
      rw [hgone] at this; cases this
    · omega

end Hagall
