/-
  C12 under concurrency, the clause "the components of an entity go with it": for every interleaving of an entity's
  removal (its deletion, or its owner's departure) with any number of participants adding components to it
  (`Model/Attach.lean` with `refuseDup = true`, one transition per critical section), once everybody is between requests
  the store holds no component of an entity that is gone - so the component map never has a key whose entity does not
  exist, and no newcomer is handed one.  `C12_old_order_keeps_a_stale_component` is the kernel-checked interleaving of
  the code before the repair F24.
-/
import Hagall.Props.C01Conc
namespace Hagall.Props.C12Conc
open Hagall.Attach

/-- **No component outlives its entity.**  Whatever the interleaving of `RemoveEntity` / `DeleteByEntityID` on the
    owner's side with `EntityByID` / `Add` / `EntityByID` (/ `Delete`) of any number of component adds by any number of
    participants: when the owner's handler is done and no adder is inside a request, an entity that is gone has no
    component in the store. -/
theorem C12_conc_component_never_outlives_entity (ms : List Move)
    (hown : (run false true {} ms).owner = 2) (hq : ∀ c, (run false true {} ms).setter c = .idle)
    (hgone : (run false true {} ms).there = false) : (run false true {} ms).action = false :=
  Hagall.Props.C01Conc.nothing_outlives_entity true ms hown hq hgone

/-- **An add that is answered with success was made on an entity that was still there when it looked again** - the
    adder that finds the entity gone takes its component back: after its last step the store is empty or somebody else
    is still about to look. -/
theorem C12_conc_adder_takes_back (s : St) (c : Nat) (hs : s.setter c = .stored) (hgone : s.there = false) :
    (step false true s (.setter c)).action = false ∧ (step false true s (.setter c)).setter c = .idle := by
  simp [step, hs, hgone, St.set]

/-- the premises are satisfiable: the entity is deleted while two component adds are in flight; one is refused as a
    duplicate, the other takes its component back -/
example : let s := run false true {} [.setter 5, .setter 6, .setter 5, .setter 6, .owner, .owner, .setter 5]
    s.owner = 2 ∧ s.setter 5 = .idle ∧ s.setter 6 = .idle ∧ s.there = false ∧ s.action = false := by decide

/-- **Before the repair (F24).**  The entity's components are dropped, a participant that found the entity stores a
    component, the entity is removed: the component stays although everybody is done. -/
theorem C12_old_order_keeps_a_stale_component :
    let s := run true true {} [.setter 5, .owner, .setter 5, .owner]
    s.owner = 2 ∧ s.setter 5 = .idle ∧ s.there = false ∧ s.action = true := by decide

/-- reordering alone does not repair it: with the entity removed first but no second look by the adder, the component
    is stored after the clean-up -/
theorem C12_reorder_alone_is_not_enough :
    ∃ ms : List Move,
      let step' := fun (s : St) (m : Move) => match m with
        | .owner => step false true s .owner
        | .setter c => match s.setter c with
          | .checked => ({ s with action := true } : St).set c .idle   -- store, do not look again
          | _ => step false true s (.setter c)
      let s := ms.foldl step' {}
      s.owner = 2 ∧ s.setter 5 = .idle ∧ s.there = false ∧ s.action = true :=
  ⟨[.setter 5, .owner, .owner, .setter 5], by decide⟩

end Hagall.Props.C12Conc
