/-
  C19 - a receipt is forwarded to the credit service iff well-formed, once and unchanged (queue part).
  The bounded queue between the connections and the forwarder is modelled (`Server.receipts`, capacity
  `cfg.rcap`); Keccak-256 / signature recovery and the HTTP forwarding are outside the model and are
  exercised on the real `receipt.ReceiptHandler` by the receipts harness (go/cmd/receipts).
-/
import Hagall.Proofs.Invariant
namespace Hagall.Props.C19
open Hagall

variable (cfg : Cfg) (srv : Server) (c rid : Nat) (receipt hash sig : Bytes)

/-- The submitter always gets exactly one answer, the step is total (never blocks) and never ends the connection - a
    refusal that did would be closed over before it is written (finding F29):
    BAD_REQUEST iff a field is empty, otherwise TOO_BUSY iff the queue is full, otherwise accepted. -/
theorem C19_answer :
    (receipt.length = 0 ∨ hash.length = 0 ∨ sig.length = 0 →
        srv.handleReceipt cfg c rid receipt hash sig = (srv, [(c, .error rid ecBadRequest)], .ok)) ∧
    (¬(receipt.length = 0 ∨ hash.length = 0 ∨ sig.length = 0) → srv.receipts.length ≥ cfg.rcap →
        srv.handleReceipt cfg c rid receipt hash sig = (srv, [(c, .error rid ecTooBusy)], .ok)) ∧
    (¬(receipt.length = 0 ∨ hash.length = 0 ∨ sig.length = 0) → srv.receipts.length < cfg.rcap →
        srv.handleReceipt cfg c rid receipt hash sig =
          ({ srv with receipts := srv.receipts ++ [⟨receipt, hash, sig⟩] }, [(c, .receiptResp rid)], .ok)) := by
  refine ⟨?_, ?_, ?_⟩
  · intro h
    have : (receipt.length == 0 || hash.length == 0 || sig.length == 0) = true := by
      rcases h with h | h | h <;> simp [h]
    simp [Server.handleReceipt, this]
  · intro h hfull
    have h1 : (receipt.length == 0 || hash.length == 0 || sig.length == 0) = false := by
      simp only [not_or] at h; simp [h.1, h.2.1, h.2.2]
    have h2 : ¬ srv.receipts.length < cfg.rcap := by omega
    simp [Server.handleReceipt, h1, h2]
  · intro h hroom
    have h1 : (receipt.length == 0 || hash.length == 0 || sig.length == 0) = false := by
      simp only [not_or] at h; simp [h.1, h.2.1, h.2.2]
    simp [Server.handleReceipt, h1, hroom]

/-- The queue never holds more than its capacity (so a submission never has to wait for room). -/
theorem C19_bounded (h : srv.receipts.length ≤ cfg.rcap) :
    (srv.handleReceipt cfg c rid receipt hash sig).1.receipts.length ≤ cfg.rcap := by
  unfold Server.handleReceipt
  split
  · exact h
  · split
    · simp only [List.length_append, List.length_cons, List.length_nil]; omega
    · exact h

/-- what the forwarder has taken plus what is still queued -/
def pipeline (s : Server) : List Receipt := s.forwarded ++ s.receipts

def isReceipt : Req → Bool
  | .receipt .. => true
  | _ => false

/-- requests other than a receipt submission do not touch the queue or what was forwarded -/
theorem handleReq_pipeline (r : Req) (hint : Nat) (hnr : isReceipt r = false) :
    pipeline (srv.handleReq cfg c r hint).1 = pipeline srv := by
  have hset : ∀ (s0 : Server) (x : Session), pipeline (s0.setSession x) = pipeline s0 := fun _ _ => rfl
  have hleave : ∀ (s0 : Server) (x : Session) (p : Part), pipeline (s0.leave cfg x p).1 = pipeline s0 := by
    intro s0 x p
    unfold Server.leave
    rcases x.leave cfg p.pid with ⟨a, b⟩
    simp only []
    split <;> rfl
  have hjf : ∀ (s0 : Server) (rid ots : Nat) (t : JoinTarget), pipeline (s0.joinFresh cfg c rid ots t hint).1 = pipeline s0 := by
    intro s0 rid ots t
    unfold Server.joinFresh
    cases t with
    | bogus => rfl
    | id n => simp only []; cases s0.findSession n <;> rfl
    | new => rfl
  unfold Server.handleReq
  cases r <;> simp only [isReceipt] at hnr ⊢ <;> (try (cases hnr)) <;> (try rfl)
  case join rid' ots t =>
    unfold Server.join
    cases srv.locate c with
    | none => exact hjf srv rid' ots t
    | some sp =>
      obtain ⟨s, p⟩ := sp
      simp only []
      split
      · rfl
      · split
        · rfl
        · have := hleave srv s p
          rcases hl : srv.leave cfg s p with ⟨s1, ds⟩
          rw [hl] at this
          have h2 := hjf s1 rid' ots t
          rcases hj : s1.joinFresh cfg c rid' ots t hint with ⟨s2, ds2, o⟩
          rw [hj] at h2
          simp only [] at this h2 ⊢
          rw [h2, this]
  all_goals (
    cases srv.locate c with
    | none => rfl
    | some sp =>
      obtain ⟨s, p⟩ := sp
      simp only []
      rcases s.handle cfg p _ hint with ⟨a, b, o⟩
      rfl)

/-- **Conservation.** Over any single event, the receipts forwarded-or-queued are exactly those of before
    plus - when the event is an accepted submission - that submission, unchanged and once: nothing is ever
    dropped, duplicated, reordered or altered on its way from a connection to the forwarder. -/
theorem C19_conservation (e : Event) :
    pipeline (step cfg srv e).1 = pipeline srv ∨
    ∃ rc h sg, pipeline (step cfg srv e).1 = pipeline srv ++ [⟨rc, h, sg⟩] ∧
      ∃ cc rr, (cc, Out.receiptResp rr) ∈ (step cfg srv e).2.1 := by
  have hdis : ∀ (s0 : Server) (k : Nat), pipeline (s0.disconnect cfg k).1 = pipeline s0 := by
    intro s0 k
    unfold Server.disconnect
    cases s0.locate k with
    | none => rfl
    | some sp =>
      obtain ⟨s, p⟩ := sp
      simp only []
      unfold Server.leave
      rcases s.leave cfg p.pid with ⟨a, b⟩
      simp only []
      split <;> rfl
  unfold step
  cases e with
  | connect k => left; simp only []; split <;> rfl
  | recv k r =>
    left; simp only []
    split
    · rfl
    · rename_i kk _
      split
      · simp [pipeline, Server.setConn]
      · have := hdis (srv.beforeDispatch kk r).1 k
        simp only [] at this ⊢
        rw [this]; simp [pipeline]
  | tick sid => left; simp only []; split <;> rfl
  | disconnect k => left; exact hdis srv k
  | drain => left; simp [pipeline]
  | handle k pick hint =>
    simp only []
    split
    · left; rfl
    · split
      · left; rfl
      · rename_i kk _ r k' _
        cases hrc : isReceipt r
        case true =>
          cases r <;> simp only [isReceipt] at hrc <;> try (cases hrc)
          case receipt rid' rc h sg _ =>
            have hreq : (srv.setConn k').handleReq cfg k (.receipt rid' rc h sg) hint = (srv.setConn k').handleReceipt cfg k rid' rc h sg := rfl
            rw [hreq]
            by_cases hempty : (rc.length == 0 || h.length == 0 || sg.length == 0) = true
            · left
              simp only [Server.handleReceipt, hempty, if_true]
              simp [pipeline, Server.setConn]
            · by_cases hroom : (srv.setConn k').receipts.length < cfg.rcap
              · right
                simp only [Server.handleReceipt, hempty, hroom, if_true, if_false, Bool.false_eq_true]
                exact ⟨rc, h, sg, by simp [pipeline, Server.setConn], k, rid', by simp⟩
              · left
                simp only [Server.handleReceipt, hempty, hroom, if_false, Bool.false_eq_true]
                simp [pipeline, Server.setConn]
        case false =>
          have h0 := handleReq_pipeline cfg (srv.setConn k') k r hint hrc
          rcases hh : (srv.setConn k').handleReq cfg k r hint with ⟨s1, ds, o⟩
          rw [hh] at h0
          left
          cases o with
          | ok => exact h0
          | connError => simp only []; rw [hdis]; exact h0
          | panic site => exact h0

/-- The forwarder takes the queued receipts in order and unchanged, and each at most once: after a
    drain they are forwarded and no longer queued. -/
theorem C19_drain :
    (step cfg srv .drain).1.forwarded = srv.forwarded ++ srv.receipts ∧ (step cfg srv .drain).1.receipts = [] := by
  simp [step]

end Hagall.Props.C19
