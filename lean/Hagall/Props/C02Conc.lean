/-
  C02 under concurrency, the clause "members that stay get exactly one copy while others leave": on the relay model
  (`Model/Relay.lean`, a relay is one critical section under the participants lock), a participant that does not leave
  is sent every relay of the session exactly once, whatever the interleaving with the departures of the others.
-/
import Hagall.Model.Relay
namespace Hagall.Props.C02Conc
open Hagall.Relay

def relays (ms : List Move) : Nat := (ms.filter fun m => m == .relay).length

theorem step_stayer (s : St) (c : Nat) (m : Move) (hm : m.current = true) (hne : m ≠ .remove c) (hmem : c ∈ s.members)
    (h0 : s.stage c = 0) :
    c ∈ (step s m).members ∧ (step s m).stage c = 0 ∧
    (step s m).inbox c = s.inbox c ++ (if m == .relay then [Item.relayed] else []) := by
  cases m with
  | lookup => cases hm
  | handOver => cases hm
  | relay =>
    simp only [step, serve]
    refine ⟨hmem, h0, ?_⟩
    simp [hmem]
  | remove d =>
    have hdc : d ≠ c := fun e => hne (by rw [e])
    simp only [step]
    split
    · refine ⟨List.mem_filter.mpr ⟨hmem, by simpa using fun e => hdc e.symm⟩, ?_, by simp⟩
      have hcd : ¬ c = d := fun e => hdc e.symm
      simp [hcd, h0]
    · exact ⟨hmem, h0, by simp⟩
  | answer d =>
    simp only [step]
    split
    · next h1 =>
      have hdc : c ≠ d := fun e => by rw [e] at h0; rw [h0] at h1; cases h1
      exact ⟨hmem, by simp [hdc, h0], by simp [hdc]⟩
    · exact ⟨hmem, h0, by simp⟩

/-- **A member that stays gets every relay exactly once.** -/
theorem C02_conc_stayer_gets_each_relay_once (members : List Nat) (ms : List Move) (hms : ∀ m ∈ ms, m.current = true)
    (c : Nat) (hc : c ∈ members) (hstay : ∀ m ∈ ms, m ≠ .remove c) :
    (run { members } ms).inbox c = List.replicate (relays ms) .relayed := by
  have key : ∀ (ms : List Move) (s : St), (∀ m ∈ ms, m.current = true) → (∀ m ∈ ms, m ≠ .remove c) → c ∈ s.members → s.stage c = 0 →
      (run s ms).inbox c = s.inbox c ++ List.replicate (relays ms) .relayed := by
    intro ms
    induction ms with
    | nil => intro s _ _ _ _; simp [run, relays]
    | cons m ms ih =>
      intro s h1 h2 hm h0
      have st := step_stayer s c m (h1 m (List.mem_cons_self ..)) (h2 m (List.mem_cons_self ..)) hm h0
      have := ih (step s m) (fun x hx => h1 x (List.mem_cons_of_mem _ hx)) (fun x hx => h2 x (List.mem_cons_of_mem _ hx)) st.1 st.2.1
      simp only [run, List.foldl_cons] at this ⊢
      rw [this, st.2.2]
      by_cases hr : (m == Move.relay) = true
      · simp [relays, List.filter_cons, hr, List.replicate_succ]
      · simp [relays, List.filter_cons, hr]
  have := key ms { members } hms hstay hc rfl
  simpa using this

example : let s := run { members := [1, 2, 3] } [.relay, .remove 2, .relay, .answer 2, .relay]
    s.inbox 1 = [.relayed, .relayed, .relayed] ∧ s.inbox 3 = [.relayed, .relayed, .relayed] ∧ s.inbox 2 = [.relayed, .movedOn] := by decide

end Hagall.Props.C02Conc
