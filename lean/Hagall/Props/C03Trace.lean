/-
  C03, the trace form (noninterference) at the level of handled requests: what the members of a session are sent is the
  same whether or not the other connections' requests happen.

  A history here is a list of requests as the handlers consume them (`Server.handleReq`, followed by the departure
  when the request ends the connection).  `proj` keeps the requests that concern session `xid`: those of its current
  members and the requests to join it by id.  `obs` is what the members of `xid` (after each step) are sent.  The
  theorem: `obs` of the whole history from `s1` equals `obs` of the projected history from any `s2` that agrees with
  `s1` on the session - in particular from `s1` itself.

  Hypotheses (`Admissible`): no receipts (the receipt queue is the one resource all connections share by design, C19);
  a member of the session does not ask to join ANOTHER session by id (whether that session exists is, legitimately,
  visible to the members it would leave); one member, the anchor, only listens (so the session does not end; what
  happens around the end of a session and the reuse of its id is C07 / C10).  The scheduler in front of the handler
  (per-connection queues, frames) is state of the connection itself and is not part of this statement.
-/
import Hagall.Props.C03
import Hagall.Props.C07
namespace Hagall.Props.C03Trace
open Hagall

structure RE where
  c : Nat
  r : Req
  hint : Nat
deriving Repr, Inhabited

/-- the handler of connection `e.c` handles request `e.r`; a request that ends the connection is followed by its departure -/
def stepReq (cfg : Cfg) (srv : Server) (e : RE) : Server × List Delivery :=
  match (srv.handleReq cfg e.c e.r e.hint).2.2 with
  | .connError =>
    (((srv.handleReq cfg e.c e.r e.hint).1.disconnect cfg e.c).1,
     (srv.handleReq cfg e.c e.r e.hint).2.1 ++ ((srv.handleReq cfg e.c e.r e.hint).1.disconnect cfg e.c).2)
  | _ => ((srv.handleReq cfg e.c e.r e.hint).1, (srv.handleReq cfg e.c e.r e.hint).2.1)

def members (srv : Server) (xid : Nat) : List Nat :=
  match srv.findSession xid with
  | some x => x.parts.map (·.conn)
  | none => []

/-- what the members of session `xid` (as it is after the step) are sent -/
def seen (srv' : Server) (xid : Nat) (ds : List Delivery) : List Delivery :=
  ds.filter fun d => (members srv' xid).contains d.1

def isJoinTo (xid : Nat) : Req → Bool
  | .join _ _ (.id n) => n == xid
  | _ => false

/-- does the request concern session `xid`: sent by a member, or asking to join it -/
def insider (srv : Server) (xid : Nat) (e : RE) : Bool :=
  (members srv xid).contains e.c || isJoinTo xid e.r

def obs (cfg : Cfg) (xid : Nat) : Server → List RE → List Delivery
  | _, [] => []
  | srv, e :: es => seen (stepReq cfg srv e).1 xid (stepReq cfg srv e).2 ++ obs cfg xid (stepReq cfg srv e).1 es

def proj (cfg : Cfg) (xid : Nat) : Server → List RE → List RE
  | _, [] => []
  | srv, e :: es =>
    if insider srv xid e then e :: proj cfg xid (stepReq cfg srv e).1 es else proj cfg xid (stepReq cfg srv e).1 es

def isReceipt : Req → Bool
  | .receipt .. => true
  | _ => false

def joinsOther (xid : Nat) : Req → Bool
  | .join _ _ (.id n) => n != xid
  | _ => false

/-- the histories the theorem speaks about (relative to the run from `srv`) -/
def Admissible (cfg : Cfg) (xid a : Nat) : Server → List RE → Prop
  | _, [] => True
  | srv, e :: es =>
    isReceipt e.r = false ∧ e.c ≠ a ∧
    ((members srv xid).contains e.c = true → joinsOther xid e.r = false) ∧
    Admissible cfg xid a (stepReq cfg srv e).1 es

/-- the two servers are well formed and hold the same session `xid`, in which the anchor `a` sits -/
structure Agree (xid a : Nat) (s1 s2 : Server) : Prop where
  wf1 : s1.WF
  wf2 : s2.WF
  same : ∃ x, x ∈ s1.sessions ∧ x ∈ s2.sessions ∧ x.id = xid ∧ a ∈ x.parts.map (·.conn)

theorem members_of_mem {srv : Server} (h : srv.WF) {x : Session} (hx : x ∈ srv.sessions) :
    members srv x.id = x.parts.map (·.conn) := by
  unfold members
  rw [Props.C07.findSession_of_mem h.ids_nodup hx]

theorem stepReq_WF (cfg : Cfg) {srv : Server} (h : srv.WF) (e : RE) : (stepReq cfg srv e).1.WF := by
  unfold stepReq
  split
  · exact Server.disconnect_WF cfg (Server.handleReq_WF cfg h e.c e.r e.hint) e.c
  · exact Server.handleReq_WF cfg h e.c e.r e.hint

/-- a request that does not concern the session leaves it as it is and sends its members nothing -/
theorem outsider_step (cfg : Cfg) {srv : Server} (h : srv.WF) {x : Session} (hx : x ∈ srv.sessions) (e : RE)
    (hin : insider srv x.id e = false) :
    x ∈ (stepReq cfg srv e).1.sessions ∧ seen (stepReq cfg srv e).1 x.id (stepReq cfg srv e).2 = [] := by
  have hmem : e.c ∉ x.parts.map (·.conn) := by
    intro hc
    have : (members srv x.id).contains e.c = true := by rw [members_of_mem h hx]; simpa using hc
    unfold insider at hin
    rw [this] at hin
    simp at hin
  have hj : ∀ rid ots, e.r ≠ .join rid ots (.id x.id) := by
    intro rid ots he
    unfold insider at hin
    rw [he] at hin
    simp [isJoinTo] at hin
  have h1 := C03_request_frame cfg h e.c e.r e.hint hx (not_concerns_of_outsider h hx hmem hj)
  have hw1 := Server.handleReq_WF cfg h e.c e.r e.hint
  have key : ∀ (srv' : Server) (ds : List Delivery), srv'.WF → Untouched x srv' ds → x ∈ srv'.sessions ∧ seen srv' x.id ds = [] := by
    intro srv' ds hw hu
    refine ⟨hu.1, ?_⟩
    unfold seen
    rw [members_of_mem hw hu.1]
    apply List.filter_eq_nil_iff.mpr
    intro d hd
    have := hu.2 d hd
    simpa using this
  unfold stepReq
  split
  · have h2 := disconnect_frame cfg hw1 e.c h1.1 hmem
    apply key _ _ (Server.disconnect_WF cfg hw1 e.c)
    refine ⟨h2.1, ?_⟩
    intro d hd
    rcases List.mem_append.mp hd with hd | hd
    · exact h1.2 d hd
    · exact h2.2 d hd
  · exact key _ _ hw1 h1


theorem inj_of_nodup_map {α β : Type} (f : α → β) {l : List α} (hn : (l.map f).Nodup) {a b : α} (ha : a ∈ l) (hb : b ∈ l)
    (h : f a = f b) : a = b := by
  induction l with
  | nil => cases ha
  | cons x xs ih =>
    simp only [List.map_cons, List.nodup_cons, List.mem_map, not_exists, not_and] at hn
    rcases List.mem_cons.mp ha with rfl | ha' <;> rcases List.mem_cons.mp hb with rfl | hb'
    · rfl
    · exact absurd h.symm (hn.1 b hb')
    · exact absurd h (hn.1 a ha')
    · exact ih hn.2 ha' hb'

/-- a participant's connection is located in its session, as that participant -/
theorem locate_member {srv : Server} (h : srv.WF) {x : Session} (hx : x ∈ srv.sessions) {p : Part} (hp : p ∈ x.parts) :
    srv.locate p.conn = some (x, p) := by
  cases hl : srv.locate p.conn with
  | none => exact absurd rfl (Server.locate_none hl x hx p hp)
  | some sp =>
    obtain ⟨s', p'⟩ := sp
    obtain ⟨hs', hp', hc'⟩ := Server.locate_some hl
    have hid : s'.id = x.id := h.conn_unique s' hs' x hx p' hp' p hp hc'
    have : s' = x := id_inj h.ids_nodup hs' hx hid
    subst this
    have : p' = p := inj_of_nodup_map (·.conn) (h.members s' hx).conns_nodup hp' hp hc'
    subst this
    rfl

theorem mem_setSession_self {srv : Server} {x x' : Session} (hx : x ∈ srv.sessions) (hid : x'.id = x.id) :
    x' ∈ (srv.setSession x').sessions := by
  simp only [Server.setSession, List.mem_map]
  exact ⟨x, hx, by simp [hid]⟩


/-- what a member's request (not a join, a receipt or a ping) does to its session and whom it reaches: a function of the
    session record, the participant and the request alone -/
def memberResult (cfg : Cfg) (x : Session) (p : Part) (r : Req) (hint : Nat) : Session × List Delivery :=
  match (x.handle cfg p r hint).2.2 with
  | .connError =>
    (((x.handle cfg p r hint).1.leave cfg p.pid).1, (x.handle cfg p r hint).2.1 ++ ((x.handle cfg p r hint).1.leave cfg p.pid).2)
  | _ => ((x.handle cfg p r hint).1, (x.handle cfg p r hint).2.1)

/-- the anchor's part survives the departure of somebody else -/
theorem anchor_stays {x : Session} (hm : x.MembersOK) {p : Part} (hp : p ∈ x.parts) {a : Nat}
    (ha : a ∈ x.parts.map (·.conn)) (hne : a ≠ p.conn) (cfg : Cfg) :
    a ∈ (x.leave cfg p.pid).1.parts.map (·.conn) ∧ (x.leave cfg p.pid).1.parts ≠ [] := by
  obtain ⟨q, hq, hqa⟩ := List.mem_map.mp ha
  have hqp : q.pid ≠ p.pid := by
    intro e
    have : q = p := inj_of_nodup_map (·.pid) hm.pids_nodup hq hp e
    subst this
    exact hne hqa.symm
  have hmem : q ∈ (x.leave cfg p.pid).1.parts := by
    rw [(Session.leave_frame cfg x p.pid).2.2.2]
    exact List.mem_filter.mpr ⟨hq, by simpa using hqp⟩
  exact ⟨List.mem_map.mpr ⟨q, hmem, hqa⟩, List.ne_nil_of_mem hmem⟩

theorem member_request (cfg : Cfg) {srv : Server} (h : srv.WF) {x : Session} (hx : x ∈ srv.sessions) {p : Part}
    (hp : p ∈ x.parts) {a : Nat} (ha : a ∈ x.parts.map (·.conn)) (hne : a ≠ p.conn) (r : Req) (hint : Nat)
    (hr : ∀ rid ots t, r ≠ .join rid ots t) (hrc : ∀ rid a b d, r ≠ .receipt rid a b d) (hpg : ∀ rid, r ≠ .ping rid) :
    (memberResult cfg x p r hint).1 ∈ (stepReq cfg srv ⟨p.conn, r, hint⟩).1.sessions ∧
    (stepReq cfg srv ⟨p.conn, r, hint⟩).2 = (memberResult cfg x p r hint).2 ∧
    (memberResult cfg x p r hint).1.id = x.id ∧ a ∈ (memberResult cfg x p r hint).1.parts.map (·.conn) := by
  have hl := locate_member h hx hp
  obtain ⟨_, h2, h3, _⟩ := C03_local cfg srv srv p.conn x p r hint hl hl hr hrc hpg
  have hsm := Session.handle_sameMembers cfg x p r hint
  have hw' := Server.handleReq_WF cfg h p.conn r hint
  have hx' : (x.handle cfg p r hint).1 ∈ (srv.handleReq cfg p.conn r hint).1.sessions := by
    rw [h3]; exact mem_setSession_self hx hsm.1
  have hp' : p ∈ (x.handle cfg p r hint).1.parts := by rw [hsm.2.2.2]; exact hp
  have ha' : a ∈ (x.handle cfg p r hint).1.parts.map (·.conn) := by rw [hsm.2.2.2]; exact ha
  have ho : (srv.handleReq cfg p.conn r hint).2.2 = (x.handle cfg p r hint).2.2 := by rw [h2]
  have hd : (srv.handleReq cfg p.conn r hint).2.1 = (x.handle cfg p r hint).2.1 := by rw [h2]
  unfold stepReq memberResult
  simp only [ho, hd]
  cases hout : (x.handle cfg p r hint).2.2 with
  | connError =>
    simp only
    have hl' := locate_member hw' hx' hp'
    have hst := anchor_stays (hw'.members _ hx') hp' ha' hne cfg
    have hleave : (srv.handleReq cfg p.conn r hint).1.leave cfg (x.handle cfg p r hint).1 p =
        ((srv.handleReq cfg p.conn r hint).1.setSession ((x.handle cfg p r hint).1.leave cfg p.pid).1,
         ((x.handle cfg p r hint).1.leave cfg p.pid).2) := by
      unfold Server.leave
      have : (((x.handle cfg p r hint).1.leave cfg p.pid).1.parts.isEmpty) = false := by
        simpa using hst.2
      simp [this]
    refine ⟨?_, ?_, ?_, hst.1⟩
    · unfold Server.disconnect
      rw [hl']
      simp only [hleave]
      exact mem_setSession_self hx' (Session.leave_frame cfg _ p.pid).1
    · unfold Server.disconnect
      rw [hl']
      simp only [hleave]
    · rw [(Session.leave_frame cfg _ p.pid).1]; exact hsm.1
  | ok => exact ⟨hx', rfl, hsm.1, ha'⟩
  | panic site => exact ⟨hx', rfl, hsm.1, ha'⟩

end Hagall.Props.C03Trace
